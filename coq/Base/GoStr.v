(** Go string primitives over byte strings, [str := list ascii].

    Each function mirrors the Go standard-library function of the same name
    for BYTE strings. [to_upper]/[to_lower]/[trim_space]/[fields] are the
    ASCII restrictions of the Unicode-aware Go functions (exact for inputs in
    which every byte is < 0x80; see DESIGN.md, "Domain note").

    Slicing returns [option]: [None] is exactly where Go panics. *)
From Coq Require Import String Ascii List Bool Arith NArith ZArith Lia.
Import ListNotations.

Definition str := list ascii.

Definition S_ (s : string) : str := list_ascii_of_string s.
Definition bs (l : list nat) : str := map ascii_of_nat l.

Definition byte_of (c : ascii) : N := N_of_ascii c.

Fixpoint str_eqb (a b : str) : bool :=
  match a, b with
  | [], [] => true
  | x :: a', y :: b' => Ascii.eqb x y && str_eqb a' b'
  | _, _ => false
  end.

Lemma str_eqb_spec a b : reflect (a = b) (str_eqb a b).
Proof.
  revert b; induction a as [|x a IH]; intros [|y b]; simpl; try (constructor; congruence).
  destruct (Ascii.eqb_spec x y) as [->|N]; simpl.
  - destruct (IH b) as [->|N]; constructor; congruence.
  - constructor; congruence.
Qed.

Lemma str_eqb_refl a : str_eqb a a = true.
Proof. destruct (str_eqb_spec a a); congruence. Qed.

Lemma str_eqb_eq a b : str_eqb a b = true <-> a = b.
Proof. destruct (str_eqb_spec a b); split; congruence. Qed.

(** strings.HasPrefix *)
Fixpoint has_prefix (s p : str) {struct p} : bool :=
  match p, s with
  | [], _ => true
  | c :: p', d :: s' => Ascii.eqb c d && has_prefix s' p'
  | _ :: _, [] => false
  end.

(** strings.TrimPrefix *)
Definition trim_prefix (s p : str) : str :=
  if has_prefix s p then skipn (length p) s else s.

Definition has_suffix (s p : str) : bool := has_prefix (rev s) (rev p).
Definition trim_suffix (s p : str) : str :=
  if has_suffix s p then firstn (length s - length p) s else s.

(** strings.Index: byte offset of the first occurrence, [None] for -1 *)
Fixpoint index (s sub : str) : option nat :=
  if has_prefix s sub then Some 0
  else match s with
       | [] => None
       | _ :: s' => option_map S (index s' sub)
       end.

Definition contains (s sub : str) : bool :=
  match index s sub with Some _ => true | None => false end.

Fixpoint index_byte (s : str) (c : ascii) : option nat :=
  match s with
  | [] => None
  | d :: s' => if Ascii.eqb d c then Some 0 else option_map S (index_byte s' c)
  end.

Definition contains_byte (s : str) (c : ascii) : bool :=
  existsb (Ascii.eqb c) s.

(** s[i:j] with Go's bounds check *)
Definition slice (s : str) (i j : Z) : option str :=
  if ((0 <=? i) && (i <=? j) && (j <=? Z.of_nat (length s)))%Z
  then Some (firstn (Z.to_nat (j - i)) (skipn (Z.to_nat i) s))
  else None.

Definition slice_from (s : str) (i : Z) : option str := slice s i (Z.of_nat (length s)).
Definition slice_to (s : str) (j : Z) : option str := slice s 0 j.

(** ASCII case mapping (strings.ToUpper / ToLower on ASCII input) *)
Definition is_lower (c : ascii) : bool := ((97 <=? byte_of c) && (byte_of c <=? 122))%N.
Definition is_upper (c : ascii) : bool := ((65 <=? byte_of c) && (byte_of c <=? 90))%N.
Definition upper_c (c : ascii) : ascii := if is_lower c then ascii_of_N (byte_of c - 32) else c.
Definition lower_c (c : ascii) : ascii := if is_upper c then ascii_of_N (byte_of c + 32) else c.
Definition to_upper (s : str) : str := map upper_c s.
Definition to_lower (s : str) : str := map lower_c s.
Definition equal_fold (a b : str) : bool := str_eqb (to_upper a) (to_upper b).

Definition all_ascii (s : str) : bool := forallb (fun c => (byte_of c <? 128)%N) s.

(** white space of strings.TrimSpace / strings.Fields restricted to ASCII:
    '\t' '\n' '\v' '\f' '\r' ' ' *)
Definition is_space (c : ascii) : bool :=
  let n := byte_of c in (((9 <=? n) && (n <=? 13)) || (n =? 32))%N.

Fixpoint drop_while (f : ascii -> bool) (s : str) : str :=
  match s with
  | [] => []
  | c :: s' => if f c then drop_while f s' else s
  end.

Definition trim_left_f (f : ascii -> bool) (s : str) : str := drop_while f s.
Definition trim_right_f (f : ascii -> bool) (s : str) : str := rev (drop_while f (rev s)).
Definition trim_f (f : ascii -> bool) (s : str) : str := trim_right_f f (trim_left_f f s).

Definition trim_space (s : str) : str := trim_f is_space s.
(** strings.Trim(s, cutset), TrimRight, TrimLeft *)
Definition in_set (cut : str) (c : ascii) : bool := existsb (Ascii.eqb c) cut.
Definition trim (s cut : str) : str := trim_f (in_set cut) s.
Definition trim_right (s cut : str) : str := trim_right_f (in_set cut) s.
Definition trim_left (s cut : str) : str := trim_left_f (in_set cut) s.

(** strings.Fields (ASCII white space) *)
Fixpoint fields_aux (s : str) (cur : str) : list str :=
  match s with
  | [] => match cur with [] => [] | _ => [rev cur] end
  | c :: s' =>
      if is_space c
      then match cur with [] => fields_aux s' [] | _ => rev cur :: fields_aux s' [] end
      else fields_aux s' (c :: cur)
  end.
Definition fields (s : str) : list str := fields_aux s [].

(** strings.Split(s, sep) for a ONE-BYTE separator *)
Fixpoint split_byte_aux (s : str) (sep : ascii) (cur : str) : list str :=
  match s with
  | [] => [rev cur]
  | c :: s' => if Ascii.eqb c sep then rev cur :: split_byte_aux s' sep []
               else split_byte_aux s' sep (c :: cur)
  end.
Definition split_byte (s : str) (sep : ascii) : list str := split_byte_aux s sep [].

(** strings.Split(s, sep) for a non-empty separator (fuel = length s + 1) *)
Fixpoint split_aux (fuel : nat) (s sep cur : str) : list str :=
  match fuel with
  | O => [rev cur ++ s]
  | S fuel' =>
      match s with
      | [] => [rev cur]
      | c :: s' =>
          if has_prefix s sep
          then rev cur :: split_aux fuel' (skipn (length sep) s) sep []
          else split_aux fuel' s' sep (c :: cur)
      end
  end.
Definition split (s sep : str) : list str := split_aux (S (length s)) s sep [].

(** strings.Join *)
Fixpoint join (l : list str) (sep : str) : str :=
  match l with
  | [] => []
  | [x] => x
  | x :: l' => x ++ sep ++ join l' sep
  end.

(** strings.ReplaceAll for a one-byte pattern *)
Definition replace_byte (s : str) (c : ascii) (by_ : str) : str :=
  flat_map (fun d => if Ascii.eqb d c then by_ else [d]) s.

(** decimal digits *)
Definition is_digit (c : ascii) : bool := ((48 <=? byte_of c) && (byte_of c <=? 57))%N.
Definition digit_val (c : ascii) : Z := Z.of_N (byte_of c - 48).

Fixpoint digits_val (s : str) (acc : Z) : Z :=
  match s with
  | [] => acc
  | c :: s' => digits_val s' (acc * 10 + digit_val c)%Z
  end.

Definition max_int64 : Z := 9223372036854775807%Z.

(** strconv.Atoi: optional sign, at least one digit, nothing else; a value
    outside int64 is an error (as on a 64-bit platform). [None] = error. *)
Definition atoi (s : str) : option Z :=
  let '(neg, d) :=
    match s with
    | c :: s' => if Ascii.eqb c "-"%char then (true, s')
                 else if Ascii.eqb c "+"%char then (false, s') else (false, s)
    | [] => (false, [])
    end in
  match d with
  | [] => None
  | _ => if forallb is_digit d
         then let v := digits_val d 0 in
              if neg then (if (v <=? max_int64 + 1)%Z then Some (- v)%Z else None)
              else (if (v <=? max_int64)%Z then Some v else None)
         else None
  end.

(** strconv.Itoa / fmt %d for non-negative and negative integers *)
Fixpoint pos_digits (fuel : nat) (n : Z) (acc : str) : str :=
  match fuel with
  | O => acc
  | S f =>
      let d := ascii_of_N (48 + Z.to_N (n mod 10)) in
      if (n <? 10)%Z then d :: acc else pos_digits f (n / 10)%Z (d :: acc)
  end.
Definition itoa (n : Z) : str :=
  if (n <? 0)%Z then "-"%char :: pos_digits 70 (- n) [] else pos_digits 70 n [].

(** strings.Count of a byte *)
Definition count_byte (s : str) (c : ascii) : nat :=
  length (filter (Ascii.eqb c) s).

Definition CR : ascii := ascii_of_nat 13.
Definition LF : ascii := ascii_of_nat 10.
Definition crlf : str := [CR; LF].
