(** Enumeration helpers used by the in-Coq evaluation of correspondence cases. *)
From Coq Require Import String Ascii List Bool Arith NArith.
From Raven Require Import Base.GoStr.
Import ListNotations.

Fixpoint strings_of_len (alpha : list ascii) (k : nat) : list str :=
  match k with
  | O => [[]]
  | S k' => flat_map (fun c => map (cons c) (strings_of_len alpha k')) alpha
  end.

(** all (p, n) with |p| + |n| <= L, in the order: |p| ascending, |n| ascending,
    p then n in first-position-major order *)
Definition pairs_upto (alpha : list ascii) (L : nat) : list (str * str) :=
  flat_map (fun lp =>
    flat_map (fun ln =>
      flat_map (fun p => map (fun n => (p, n)) (strings_of_len alpha ln))
               (strings_of_len alpha lp))
      (seq 0 (S (L - lp))))
    (seq 0 (S L)).

(** pack booleans into words of [w] bits, first boolean = least significant bit *)
Fixpoint pack_word (w : nat) (l : list bool) (pos : N) (acc : N) : N * list bool :=
  match w with
  | O => (acc, l)
  | S w' => match l with
            | [] => (acc, [])
            | b :: l' => pack_word w' l' (N.succ pos) (if b then N.lor acc (N.shiftl 1 pos) else acc)
            end
  end.

Fixpoint pack_aux (fuel : nat) (w : nat) (l : list bool) : list N :=
  match fuel with
  | O => []
  | S f => match l with
           | [] => []
           | _ => let '(x, rest) := pack_word w l 0%N 0%N in x :: pack_aux f w rest
           end
  end.
Definition pack (w : nat) (l : list bool) : list N := pack_aux (S (length l)) w l.

(** positions where two lists differ *)
Fixpoint diff_positions {A} (eqb : A -> A -> bool) (i : nat) (a b : list A) : list nat :=
  match a, b with
  | x :: a', y :: b' => if eqb x y then diff_positions eqb (S i) a' b' else i :: diff_positions eqb (S i) a' b'
  | [], [] => []
  | _, _ => [i]
  end.
