(** Integer helpers shared by the C09 model and spec: Go counting loops as
    lists of Z, and strconv.Atoi with the error ignored. *)
From Coq Require Import String Ascii List Bool ZArith.
From Raven Require Import Base.GoStr.
Import ListNotations.
Local Open Scope Z_scope.

(** lo, lo+1, ... (cnt numbers) *)
Fixpoint zseq (lo : Z) (cnt : nat) : list Z :=
  match cnt with O => [] | S c => lo :: zseq (lo + 1) c end.

(** for i := lo; i <= hi; i++  (empty when hi < lo) *)
Definition zrange (lo hi : Z) : list Z := zseq lo (Z.to_nat (hi - lo + 1)).

(** [v, _ = strconv.Atoi(s)]: the value returned together with an ignored
    error.  strconv.ParseUint scans left to right and returns at the FIRST
    problem: a non-digit gives (0, syntax error); an overflow of uint64 met
    before any non-digit gives the range error, which ParseInt/Atoi turn into
    the clipped int64 limit. *)
Definition max_uint64 : Z := 18446744073709551615%Z.
Definition cutoff64 : Z := 1844674407370955162%Z.      (* maxUint64/10 + 1 *)

(** [None] = syntax error, [Some None] = range error, [Some (Some v)] = value *)
Fixpoint scan_uint (s : str) (n : Z) : option (option Z) :=
  match s with
  | [] => Some (Some n)
  | c :: s' =>
    if is_digit c then
      if n >=? cutoff64 then Some None
      else let n1 := n * 10 + digit_val c in
           if n1 >? max_uint64 then Some None else scan_uint s' n1
    else None
  end.

Definition atoi_lossy (s : str) : Z :=
  match atoi s with
  | Some v => v
  | None =>
    let '(neg, d) :=
      match s with
      | c :: s' => if Ascii.eqb c "-"%char then (true, s')
                   else if Ascii.eqb c "+"%char then (false, s') else (false, s)
      | [] => (false, [])
      end in
    match d with
    | [] => 0
    | _ =>
      match scan_uint d 0 with
      | None => 0
      | Some None => if neg then - (max_int64 + 1) else max_int64
      | Some (Some un) =>
        if neg then (if un >? max_int64 + 1 then - (max_int64 + 1) else - un)
        else (if un >=? max_int64 + 1 then max_int64 else un)
      end
    end
  end.

(** int64 wrap-around of Go's [int] arithmetic *)
Definition wrap64 (z : Z) : Z := ((z + 9223372036854775808) mod 18446744073709551616 - 9223372036854775808)%Z.
