(** Integer helpers shared by the C09 model and spec: Go counting loops as
    lists of Z, and strconv.Atoi with the error ignored. *)
From Coq Require Import String Ascii List Bool ZArith.
From Raven Require Import Base.GoStr.
Import ListNotations.
Local Open Scope Z_scope.

(** lo, lo+1, ... (cnt numbers) *)
Fixpoint zseq (lo : Z) (cnt : nat) : list Z :=
  match cnt with O => [] | S c => lo :: zseq (lo + 1) c end.

(** for i := lo; i <= hi; i++  (empty when hi < lo) *)
Definition zrange (lo hi : Z) : list Z := zseq lo (Z.to_nat (hi - lo + 1)).

(** [v, _ = strconv.Atoi(s)]: the value returned together with an ignored
    error: 0 on a syntax error, the clipped int64 limit on a range error. *)
Definition atoi_lossy (s : str) : Z :=
  match atoi s with
  | Some v => v
  | None =>
    let '(neg, d) :=
      match s with
      | c :: s' => if Ascii.eqb c "-"%char then (true, s')
                   else if Ascii.eqb c "+"%char then (false, s') else (false, s)
      | [] => (false, [])
      end in
    match d with
    | [] => 0
    | _ => if forallb is_digit d then (if neg then - (max_int64 + 1) else max_int64) else 0
    end
  end.
