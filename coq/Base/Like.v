(** SQLite's LIKE operator as raven uses it (go-sqlite3, default build):
    [name LIKE pattern] with no ESCAPE clause, [%] = any sequence (also the
    empty one), [_] = exactly one character, every other pattern byte matches
    itself up to ASCII case (sqlite3 func.c patternCompare with likeInfoNorm:
    matchAll '%', matchOne '_', noCase).  Byte model: exact for strings whose
    bytes are all < 0x80 and contain no NUL (SQLite reads UTF-8 characters;
    for non-ASCII input [_] consumes a whole multi-byte character).

    This is the declarative reading of the operator; patternCompare is a
    backtracking implementation of it (its SQLITE_NOWILDCARDMATCH shortcut
    only prunes).  Tied to the real library on every run by the [like]
    suite of checks/c11.py (exhaustive over a small alphabet). *)
From Coq Require Import String Ascii List Bool.
From Raven Require Import Base.GoStr.
Import ListNotations.
Local Open Scope char_scope.

Definition like_pct : ascii := "%".
Definition like_us : ascii := "_".

(** sqlite3Tolower(c)==sqlite3Tolower(c2): only A-Z/a-z are folded *)
Definition like_ceq (c d : ascii) : bool := Ascii.eqb (upper_c c) (upper_c d).

Fixpoint like_any_suffix (f : str -> bool) (t : str) : bool :=
  f t || match t with [] => false | _ :: t' => like_any_suffix f t' end.

(** [like p t]  <->  t LIKE p *)
Fixpoint like (p : str) : str -> bool :=
  match p with
  | [] => fun t => match t with [] => true | _ => false end
  | c :: p' =>
      if Ascii.eqb c like_pct then fun t => like_any_suffix (like p') t
      else if Ascii.eqb c like_us then
        fun t => match t with [] => false | _ :: t' => like p' t' end
      else fun t => match t with [] => false | d :: t' => like_ceq c d && like p' t' end
  end.

Definition has_like_wildcard (s : str) : bool :=
  existsb (fun c => Ascii.eqb c like_pct || Ascii.eqb c like_us) s.
