(** Bytewise (memcmp) order on byte strings: Go's string comparison and
    SQLite's default BINARY collation on TEXT values. *)
From Coq Require Import String Ascii List Bool NArith.
From Raven Require Import Base.GoStr.
Import ListNotations.

Fixpoint str_cmp (a b : str) : comparison :=
  match a, b with
  | [], [] => Eq
  | [], _ :: _ => Lt
  | _ :: _, [] => Gt
  | x :: a', y :: b' =>
      match N.compare (byte_of x) (byte_of y) with
      | Eq => str_cmp a' b'
      | c => c
      end
  end.

Definition str_leb (a b : str) : bool := match str_cmp a b with Gt => false | _ => true end.   (* a <= b *)
Definition str_ltb (a b : str) : bool := match str_cmp a b with Lt => true | _ => false end.   (* a <  b *)
