(** Characterising lemmas for Base/GoStr.v (proofs kept out of the models). *)
From Coq Require Import String Ascii List Bool Arith ZArith Lia.
From Raven Require Import Base.GoStr.
Import ListNotations.

(** A boolean property of bytes checked on all 256 values holds for every byte. *)
Lemma ascii_forall (P : ascii -> bool) :
  forallb (fun n => P (ascii_of_nat n)) (seq 0 256) = true -> forall c, P c = true.
Proof.
  intros H c. rewrite forallb_forall in H.
  rewrite <- (ascii_nat_embedding c). apply H. apply in_seq.
  pose proof (nat_ascii_bounded c). lia.
Qed.

(** usage: [revert c; ascii_sweep (fun c => <boolean property of c>)] *)
Ltac ascii_sweep P := apply (ascii_forall P); vm_compute; reflexivity.

Lemma upper_c_idem c : upper_c (upper_c c) = upper_c c.
Proof.
  apply Ascii.eqb_eq. revert c.
  ascii_sweep (fun c => Ascii.eqb (upper_c (upper_c c)) (upper_c c)).
Qed.

Lemma to_upper_idem s : to_upper (to_upper s) = to_upper s.
Proof. unfold to_upper. rewrite map_map. apply map_ext, upper_c_idem. Qed.

Lemma to_upper_length s : length (to_upper s) = length s.
Proof. apply map_length. Qed.

Lemma to_upper_app a b : to_upper (a ++ b) = to_upper a ++ to_upper b.
Proof. apply map_app. Qed.

(** upper-casing never creates or destroys a given non-letter byte *)
Lemma upper_c_fix_inv (x : ascii) :
  is_lower x = false -> is_upper x = false -> forall c, upper_c c = x -> c = x.
Proof.
  intros Hl Hu c.
  assert (K : is_upper (upper_c c) || Ascii.eqb (upper_c c) c = true).
  { revert c. ascii_sweep (fun c => is_upper (upper_c c) || Ascii.eqb (upper_c c) c). }
  intros E. rewrite E in K. rewrite Hu in K. simpl in K.
  apply Ascii.eqb_eq in K. congruence.
Qed.

Lemma upper_c_fix (x : ascii) : is_lower x = false -> upper_c x = x.
Proof. intros H. unfold upper_c. now rewrite H. Qed.

Lemma has_prefix_app s p : has_prefix (p ++ s) p = true.
Proof. induction p as [|c p IH]; simpl; [reflexivity|]. now rewrite Ascii.eqb_refl. Qed.

Lemma has_prefix_spec s p : has_prefix s p = true <-> exists r, s = p ++ r.
Proof.
  revert s; induction p as [|c p IH]; intros s; simpl.
  - split; [intros _; now exists s | reflexivity].
  - destruct s as [|d s]; [split; [discriminate | intros [r E]; discriminate]|].
    rewrite andb_true_iff, IH. split.
    + intros [E [r ->]]. apply Ascii.eqb_eq in E. subst. now exists r.
    + intros [r E]. injection E as -> ->. split; [apply Ascii.eqb_refl | now exists r].
Qed.
