(** encoding/base64: [b64_decode] mirrors base64.StdEncoding.DecodeString
    (padded, NON-strict: CR and LF are skipped wherever they occur, the unused
    low bits of the last quantum are not checked, anything after the padding
    is an error, a missing padding is an error).  [None] = the call returns an
    error.  [b64_encode] is RFC 4648 section 4 (what a client sends). *)
From Coq Require Import String Ascii List Bool Arith NArith.
From Raven Require Import Base.GoStr.
Import ListNotations.
Local Open Scope char_scope.

Definition b64_alphabet : str :=
  S_ "ABCDEFGHIJKLMNOPQRSTUVWXYZabcdefghijklmnopqrstuvwxyz0123456789+/".
Definition PAD : ascii := "=".

(** decodeMap: value of an alphabet octet *)
Definition b64_val (c : ascii) : option N :=
  match index_byte b64_alphabet c with Some i => Some (N.of_nat i) | None => None end.

Definition b64_chr (n : N) : ascii := nth (N.to_nat n) b64_alphabet "A".

Definition is_crlf (c : ascii) : bool := Ascii.eqb c CR || Ascii.eqb c LF.

Definition quantum (v0 v1 v2 v3 : N) : N := (v0 * 262144 + v1 * 4096 + v2 * 64 + v3)%N.
Definition q_b0 (v : N) : ascii := ascii_of_N ((v / 65536) mod 256).
Definition q_b1 (v : N) : ascii := ascii_of_N ((v / 256) mod 256).
Definition q_b2 (v : N) : ascii := ascii_of_N (v mod 256).

Definition is_nil_str (s : str) : bool := match s with [] => true | _ => false end.

(** quanta of the input with CR/LF already removed *)
Fixpoint b64_quanta (s : str) : option str :=
  match s with
  | [] => Some []
  | c0 :: c1 :: c2 :: c3 :: rest =>
      match b64_val c0, b64_val c1 with
      | Some v0, Some v1 =>
          match b64_val c2, b64_val c3 with
          | Some v2, Some v3 =>
              let v := quantum v0 v1 v2 v3 in
              match b64_quanta rest with
              | Some out => Some (q_b0 v :: q_b1 v :: q_b2 v :: out)
              | None => None
              end
          | Some v2, None =>
              if Ascii.eqb c3 PAD && is_nil_str rest
              then let v := quantum v0 v1 v2 0 in Some [q_b0 v; q_b1 v] else None
          | None, _ =>
              if Ascii.eqb c2 PAD && Ascii.eqb c3 PAD && is_nil_str rest
              then let v := quantum v0 v1 0 0 in Some [q_b0 v] else None
          end
      | _, _ => None
      end
  | _ => None
  end.

Definition b64_decode (s : str) : option str :=
  b64_quanta (filter (fun c => negb (is_crlf c)) s).

Fixpoint b64_encode (s : str) : str :=
  match s with
  | [] => []
  | [a] =>
      let x := byte_of a in
      [b64_chr (x / 4); b64_chr ((x mod 4) * 16); PAD; PAD]
  | [a; b] =>
      let x := byte_of a in let y := byte_of b in
      [b64_chr (x / 4); b64_chr ((x mod 4) * 16 + y / 16); b64_chr ((y mod 16) * 4); PAD]
  | a :: b :: c :: rest =>
      let x := byte_of a in let y := byte_of b in let z := byte_of c in
      b64_chr (x / 4) :: b64_chr ((x mod 4) * 16 + y / 16)
        :: b64_chr ((y mod 16) * 4 + z / 64) :: b64_chr (z mod 64) :: b64_encode rest
  end.
