(** Byte-string literals for generated case files: [bsn] over binary numerals
    (the [nat] numerals of [GoStr.bs] are unary and slow to parse). *)
From Coq Require Import String Ascii List NArith.
From Raven Require Import Base.GoStr.
Import ListNotations.

Definition bsn (l : list N) : str := map ascii_of_N l.
