(** encoding/json string encoding: [json_escape] mirrors appendString(dst, s,
    escapeHTML = true) without the surrounding quotes, as used by
    json.Marshal: quote and backslash get a backslash; \b \f \n \r \t the
    short forms; other octets < 0x20 and < > & become \u00XX (lower-case hex);
    a byte sequence that utf8.DecodeRuneInString rejects is replaced, one
    byte at a time, by the six characters \ufffd; U+2028 / U+2029 become
    \u2028 / \u2029; everything else is copied. *)
From Coq Require Import String Ascii List Bool Arith NArith.
From Raven Require Import Base.GoStr.
Import ListNotations.
Local Open Scope char_scope.
Local Open Scope N_scope.

Definition hex_digit (n : N) : ascii := nth (N.to_nat n) (S_ "0123456789abcdef") "0".

Definition esc_u00 (b : N) : str := ["\"; "u"; "0"; "0"; hex_digit (b / 16); hex_digit (b mod 16)].

Definition json_esc_ascii (c : ascii) : str :=
  let b := byte_of c in
  if (b =? 34) || (b =? 92) then ["\"; c]
  else if b =? 8 then ["\"; "b"]
  else if b =? 12 then ["\"; "f"]
  else if b =? 10 then ["\"; "n"]
  else if b =? 13 then ["\"; "r"]
  else if b =? 9 then ["\"; "t"]
  else if (b <? 32) || (b =? 60) || (b =? 62) || (b =? 38) then esc_u00 b
  else [c].

Definition in_range (lo hi : N) (c : ascii) : bool := (lo <=? byte_of c) && (byte_of c <=? hi).
Definition cont_b (c : ascii) : bool := in_range 128 191 c.

(** utf8.DecodeRuneInString on a string starting with a byte >= 0x80:
    [Some w] = a well-formed rune of [w] bytes, [None] = (RuneError, 1) *)
Definition rune_width (s : str) : option nat :=
  match s with
  | b0 :: b1 :: rest =>
      if in_range 194 223 b0 then (if cont_b b1 then Some 2%nat else None)
      else
        let second_ok :=
          if in_range 224 224 b0 then in_range 160 191 b1
          else if in_range 237 237 b0 then in_range 128 159 b1
          else if in_range 225 239 b0 then cont_b b1
          else if in_range 240 240 b0 then in_range 144 191 b1
          else if in_range 244 244 b0 then in_range 128 143 b1
          else if in_range 241 243 b0 then cont_b b1
          else false in
        if negb second_ok then None
        else match rest with
             | b2 :: rest' =>
                 if negb (cont_b b2) then None
                 else if in_range 224 239 b0 then Some 3%nat
                 else match rest' with
                      | b3 :: _ => if cont_b b3 then Some 4%nat else None
                      | [] => None
                      end
             | [] => None
             end
  | _ => None
  end.

(** U+2028 = E2 80 A8, U+2029 = E2 80 A9 *)
Definition line_sep (s : str) : option ascii :=
  match s with
  | b0 :: b1 :: b2 :: _ =>
      if (byte_of b0 =? 226) && (byte_of b1 =? 128) then
        if byte_of b2 =? 168 then Some "8"%char else if byte_of b2 =? 169 then Some "9"%char else None
      else None
  | _ => None
  end.

Fixpoint json_esc (fuel : nat) (s : str) : str :=
  match fuel with
  | O => []
  | S f =>
    match s with
    | [] => []
    | c :: s' =>
        if byte_of c <? 128 then json_esc_ascii c ++ json_esc f s'
        else match rune_width s with
             | Some w =>
                 (match line_sep s with
                  | Some d => ["\"; "u"; "2"; "0"; "2"; d]
                  | None => firstn w s
                  end) ++ json_esc f (skipn w s)
             | None => ["\"; "u"; "f"; "f"; "f"; "d"] ++ json_esc f s'
             end
    end
  end.

Definition json_escape (s : str) : str := json_esc (length s) s.

(** the string is valid UTF-8 in Go's sense: the encoder never substitutes *)
Fixpoint utf8_ok (fuel : nat) (s : str) : bool :=
  match fuel with
  | O => match s with [] => true | _ => false end
  | S f =>
    match s with
    | [] => true
    | c :: s' =>
        if byte_of c <? 128 then utf8_ok f s'
        else match rune_width s with
             | Some w => utf8_ok f (skipn w s)
             | None => false
             end
    end
  end.

Definition utf8_valid (s : str) : bool := utf8_ok (length s) s.
