(** Byte-string primitives used by the C02 model (MIME store / rebuild):
    Go's [base64.StdEncoding.DecodeString], [mime/quotedprintable.Reader],
    [strings.Split(s, "\r\n")], 76-column re-wrapping.  [None] = the Go
    function returns an error. *)
From Coq Require Import String Ascii List Bool Arith NArith ZArith Lia.
From Raven Require Import Base.GoStr.
Import ListNotations.

Definition is_crlf_c (c : ascii) : bool := Ascii.eqb c CR || Ascii.eqb c LF.

(** strings.ReplaceAll(strings.ReplaceAll(s, "\r", ""), "\n", "") *)
Definition strip_crlf (s : str) : str := filter (fun c => negb (is_crlf_c c)) s.

(** ---- base64 (encoding/base64, StdEncoding, non-strict): CR and LF are
    skipped anywhere; quanta of four; padding only in the last quantum;
    nothing may follow the padding. *)
Definition b64_val (c : ascii) : option N :=
  let n := byte_of c in
  if ((65 <=? n) && (n <=? 90))%N then Some (n - 65)%N
  else if ((97 <=? n) && (n <=? 122))%N then Some (n - 71)%N
  else if ((48 <=? n) && (n <=? 57))%N then Some (n + 4)%N
  else if (n =? 43)%N then Some 62%N
  else if (n =? 47)%N then Some 63%N
  else None.

Definition byte_n (n : N) : ascii := ascii_of_N (n mod 256).
Definition eq_c : ascii := "="%char.

Fixpoint b64_quanta (s : str) : option str :=
  match s with
  | [] => Some []
  | a :: b :: c :: d :: rest =>
      match b64_val a, b64_val b with
      | Some x, Some y =>
          let b1 := byte_n (x * 4 + y / 16) in
          if Ascii.eqb c eq_c then
            (if Ascii.eqb d eq_c then match rest with [] => Some [b1] | _ => None end else None)
          else
            match b64_val c with
            | Some z =>
                let b2 := byte_n ((y mod 16) * 16 + z / 4) in
                if Ascii.eqb d eq_c then match rest with [] => Some [b1; b2] | _ => None end
                else match b64_val d with
                     | Some w =>
                         let b3 := byte_n ((z mod 4) * 64 + w) in
                         match b64_quanta rest with
                         | Some r => Some (b1 :: b2 :: b3 :: r)
                         | None => None
                         end
                     | None => None
                     end
            | None => None
            end
      | _, _ => None
      end
  | _ => None
  end.

Definition b64_decode (s : str) : option str := b64_quanta (strip_crlf s).

(** ---- quoted-printable (mime/quotedprintable.Reader.Read + io.ReadAll) *)
Definition hex_val (c : ascii) : option N :=
  let n := byte_of c in
  if ((48 <=? n) && (n <=? 57))%N then Some (n - 48)%N
  else if ((65 <=? n) && (n <=? 70))%N then Some (n - 55)%N
  else if ((97 <=? n) && (n <=? 102))%N then Some (n - 87)%N
  else None.

(** bytes of one (right-trimmed) line *)
Fixpoint qp_bytes (l : str) : option str :=
  match l with
  | [] => Some []
  | c :: r =>
      if Ascii.eqb c eq_c then
        match r with
        | h1 :: r1 =>
            let literal := if is_crlf_c h1 then None
                           else match qp_bytes r with Some x => Some (eq_c :: x) | None => None end in
            match r1 with
            | h2 :: r2 =>
                match hex_val h1, hex_val h2 with
                | Some a, Some b =>
                    match qp_bytes r2 with Some x => Some (byte_n (a * 16 + b) :: x) | None => None end
                | _, _ => literal
                end
            | [] => literal
            end
        | [] => None
        end
      else
        let n := byte_of c in
        if ((n =? 9) || (n =? 13) || (n =? 10) || (128 <=? n) || ((32 <=? n) && (n <=? 126)))%N
        then match qp_bytes r with Some x => Some (c :: x) | None => None end
        else None
  end.

(** bufio.Reader.ReadSlice('\n') repeatedly: lines keep their terminator *)
Fixpoint lines_keep_aux (s : str) (cur : str) : list str :=
  match s with
  | [] => match cur with [] => [] | _ => [rev cur] end
  | c :: s' => if Ascii.eqb c LF then rev (c :: cur) :: lines_keep_aux s' []
               else lines_keep_aux s' (c :: cur)
  end.
Definition lines_keep (s : str) : list str := lines_keep_aux s [].

Definition is_qp_ws (c : ascii) : bool :=
  let n := byte_of c in ((n =? 32) || (n =? 9) || (n =? 13) || (n =? 10))%N.

(** one physical line -> decoded bytes; [last] = the underlying reader hit EOF
    on this line *)
Definition qp_line (whole : str) (last : bool) : option str :=
  let has_lf := has_suffix whole [LF] in
  let has_cr := has_suffix whole crlf in
  let line := trim_right_f is_qp_ws whole in
  let stripped := skipn (length line) whole in
  if has_suffix line [eq_c] then
    let line' := firstn (length line - 1) line in
    if has_prefix stripped [LF] || has_prefix stripped crlf
       || (match stripped with [] => true | _ => false end
           && match line' with [] => false | _ => true end && last && negb has_lf)
    then qp_bytes line'
    else None
  else
    qp_bytes (line ++ (if has_lf then (if has_cr then crlf else [LF]) else [])).

Fixpoint qp_lines (ls : list str) : option str :=
  match ls with
  | [] => Some []
  | l :: rest =>
      match qp_line l (match rest with [] => true | _ => false end) with
      | Some x => match qp_lines rest with Some y => Some (x ++ y) | None => None end
      | None => None
      end
  end.

Definition qp_decode (s : str) : option str := qp_lines (lines_keep s).

(** ---- 76-column wrapping of writePartContentWithS3: every chunk is followed by CRLF *)
Fixpoint wrap76_aux (fuel : nat) (s : str) : str :=
  match fuel with
  | O => []
  | S f => match s with
           | [] => []
           | _ => firstn 76 s ++ crlf ++ wrap76_aux f (skipn 76 s)
           end
  end.
Definition wrap76 (s : str) : str := wrap76_aux (S (length s)) s.

(** one trailing CRLF removed (what a MIME parser does with the line break
    that belongs to the following delimiter line) *)
Definition drop_final_crlf (s : str) : str :=
  if has_suffix s crlf then firstn (length s - 2) s else s.

Definition is_blank (s : str) : bool := match trim_space s with [] => true | _ => false end.
