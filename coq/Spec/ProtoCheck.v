(** Executable oracle for C05/C06 on OBSERVED sessions of the implementation.

    The harness turns each command line it sent into a [line_obs] (what it
    saw: tagged completions, whether mailbox data came back, which stores'
    dumps changed, which stores' marker strings were revealed, how many
    requests reached the recording auth backend). [replay] reconstructs the
    abstract connection state (tls, auth, sel, user, origin) of
    Model/Protocol.v from the observed outcomes and evaluates, per line, the
    boolean forms of [ev_ok] (Proof/Protocol.v) and [allowed]/[ev5_ok]
    (Proof/Isolation.v). A non-empty result is a property violation observed
    on the implementation. *)
From Coq Require Import String List Bool Arith.
From Raven Require Import Model.ProtoFacts Model.Protocol.
Import ListNotations.
Local Open Scope string_scope.
Local Open Scope list_scope.

Record line_obs := mk_lo {
  lo_word : string;            (* upper-cased command word; "UID X" for UID sub-commands *)
  lo_ok : bool;                (* the own-tag completion is OK *)
  lo_bad : bool;               (* the own-tag completion is BAD: the line was not a well-formed command *)
  lo_own : nat;                (* number of tagged completions carrying the line's tag *)
  lo_foreign : nat;            (* number of tagged completions carrying another tag *)
  lo_data : bool;              (* untagged mailbox data in the response *)
  lo_changed : list store;     (* stores whose dump changed *)
  lo_revealed : list store;    (* stores whose marker strings appear in the response *)
  lo_backend : nat;            (* requests the auth backend received *)
  lo_user : nat;               (* for a successful login: id of the bound user *)
  lo_target : store;           (* for SELECT/EXAMINE: the store the name denotes *)
  lo_roles : list nat }.       (* roles the user is assigned to at this moment *)

Record rstate := mk_r { r_tls : bool; r_auth : bool; r_sel : bool; r_user : nat; r_origin : store; r_login_roles : list nat }.

Definition in_words (w : string) (l : list string) : bool := existsb (String.eqb w) l.

Definition login_words := ["LOGIN"; "AUTHENTICATE"].
(** commands that need a selected mailbox *)
Definition sel_words := ["FETCH"; "STORE"; "COPY"; "SEARCH"; "EXPUNGE"; "CLOSE"; "CHECK"; "IDLE"; "UNSELECT";
                         "UID"; "UID FETCH"; "UID STORE"; "UID COPY"; "UID SEARCH"; "UID EXPUNGE"].
(** commands that may be used in any state without revealing mailbox data *)
Definition store_mem (s : store) (l : list store) : bool := existsb (store_eqb s) l.

Inductive verdict :=
| VUnauthTouch      (* C06 a: data or change before authentication *)
| VNoSelection      (* C06 b: selected-state command served while nothing is selected *)
| VPlainCredentials (* C06 c: backend contacted / login accepted on a non-TLS connection *)
| VTagged           (* C06 e: not exactly one tagged completion with the line's tag *)
| VStaleSelect      (* C06 f: is reported at the line that succeeds after a failed SELECT, as VNoSelection *)
| VForeignStore     (* C05: a store outside the allowed set was changed or revealed *)
| VWrongMailboxStore. (* C05: a selected-state command changed/revealed a store other than the selected one *)

Definition touched (o : line_obs) : bool :=
  lo_data o || negb (Nat.eqb (length (lo_changed o)) 0) || negb (Nat.eqb (length (lo_revealed o)) 0).

Definition allowed_b (st : rstate) (o : line_obs) (s : store) : bool :=
  match s with
  | SharedStore => true
  | Personal u => Nat.eqb u (r_user st) || (in_words (lo_word o) login_words && lo_ok o && Nat.eqb u (lo_user o))
  | RoleStore r => (r_sel st && store_eqb (r_origin st) (RoleStore r))
                   || existsb (Nat.eqb r) (lo_roles o) || existsb (Nat.eqb r) (r_login_roles st)
  end.

Definition check_line (st : rstate) (o : line_obs) : list verdict :=
  let w := lo_word o in
  (if touched o && negb (r_auth st) && negb (r_tls st && in_words w login_words && lo_ok o) then [VUnauthTouch] else [])
  ++ (if in_words w sel_words && negb (r_sel st) && (lo_ok o || touched o) then [VNoSelection] else [])
  ++ (if (negb (Nat.eqb (lo_backend o) 0) || (in_words w login_words && lo_ok o)) && negb (r_tls st) then [VPlainCredentials] else [])
  ++ (if negb (Nat.eqb (lo_backend o) 0) && negb (in_words w login_words) then [VPlainCredentials] else [])
  ++ (if Nat.eqb (lo_own o) 1 && Nat.eqb (lo_foreign o) 0 then [] else [VTagged])
  ++ (if forallb (allowed_b st o) (lo_changed o ++ lo_revealed o) then [] else [VForeignStore])
  ++ (if is_select w && lo_ok o then
        match lo_target o with
        | RoleStore r => if existsb (Nat.eqb r) (lo_roles o) then [] else [VForeignStore]  (* selected a role mailbox without being assigned *)
        | Personal u => if Nat.eqb u (r_user st) then [] else [VForeignStore]
        | SharedStore => [VForeignStore]
        end
      else [])
  ++ (if in_words w sel_words && r_sel st &&
         negb (forallb (fun s => store_eqb s SharedStore || store_eqb s (r_origin st)) (lo_changed o ++ lo_revealed o))
      then [VWrongMailboxStore] else []).

Definition next_state (st : rstate) (o : line_obs) (handshake : bool) : rstate :=
  let w := lo_word o in
  if in_words w login_words && lo_ok o then mk_r (r_tls st) true (r_sel st) (lo_user o) (r_origin st) (lo_roles o)
  else if is_select w then
    if negb (r_auth st) then st
    else if lo_ok o then mk_r (r_tls st) (r_auth st) true (r_user st) (lo_target o) (r_login_roles st)
    else if lo_bad o then st      (* "SELECT" without a mailbox name is a syntax error, not a failed selection *)
    else mk_r (r_tls st) (r_auth st) false (r_user st) (r_origin st) (r_login_roles st)
  else if is_unselect w && lo_ok o then mk_r (r_tls st) (r_auth st) false (r_user st) (r_origin st) (r_login_roles st)
  else if String.eqb w "STARTTLS" && lo_ok o && handshake then mk_r true false false 0 SharedStore []
  else st.

Fixpoint replay (st : rstate) (n : nat) (obs : list line_obs) : list (nat * list verdict) :=
  match obs with
  | [] => []
  | o :: rest =>
      let v := check_line st o in
      let tail := replay (next_state st o true) (S n) rest in
      match v with [] => tail | _ => (n, v) :: tail end
  end.

Definition replay_conn (tls : bool) (obs : list line_obs) : list (nat * list verdict) :=
  replay (mk_r tls false false 0 SharedStore []) 0 obs.
