(** C11 -- abstract reading of the property: a user's mailboxes are a set of
    exact, case-sensitive byte strings (INBOX alone folds case) under the '/'
    hierarchy; every command acts on the names the client WROTE
    ([decode_astring]: atom, or quoted string with the backslash escapes of dquote and backslash).

    The state type is the model's [store]; the spec treats what hangs on a
    name (links and uid_next, the "cargo") opaquely: it only moves it with the
    name (RENAME), drops it (DELETE), creates it empty (CREATE) and hands it to
    the model's [add_link] (APPEND; uid allocation is property C03's subject).
    All functions are executable: the check evaluates [spec_step] and
    [classify] inside Coq on the implementation's observed traces. *)
From Coq Require Import String Ascii List Bool Arith ZArith.
From Raven Require Import Base.GoStr Model.Pattern Model.Names.
From Raven Require Model.CmdTokenizer.
Import ListNotations.

(** ---- what the client wrote ---- *)
Definition bsl : ascii := CmdTokenizer.BSLASH.

Fixpoint unescape_strict (s : str) : option str :=
  match s with
  | [] => Some []
  | c :: s' =>
      if Ascii.eqb c bsl then
        match s' with
        | d :: s'' => if Ascii.eqb d dq || Ascii.eqb d bsl
                      then option_map (cons d) (unescape_strict s'') else None
        | [] => None
        end
      else if Ascii.eqb c dq then None
      else option_map (cons c) (unescape_strict s')
  end.

(** ATOM-CHAR / "]" of RFC 3501 *)
Definition astring_char (c : ascii) : bool :=
  let n := byte_of c in
  (32 <? n)%N && (n <? 127)%N &&
  negb (existsb (Ascii.eqb c) (S_ "(){%*""\")).

Definition decode_astring (raw : str) : option str :=
  match raw with
  | [] => None
  | c :: r =>
      if Ascii.eqb c dq then
        match rev r with
        | e :: mid => if Ascii.eqb e dq then unescape_strict (rev mid) else None
        | [] => None
        end
      else if forallb astring_char raw then Some raw else None
  end.

(** ---- names ---- *)
Definition canon (n : str) : str := normalize_name n.

(** every proper prefix of [n] that ends just before a '/' ([pre] = reversed prefix read so far) *)
Fixpoint prefixes_at_delim (pre s : str) : list str :=
  match s with
  | [] => []
  | c :: s' => (if Ascii.eqb c delim then [rev pre] else []) ++ prefixes_at_delim (c :: pre) s'
  end.
(** the names above [n] that may have to be created: the empty prefix of "/x" is no name, and a
    case variant of INBOX is INBOX, which always exists *)
Definition parent_name (p : str) : bool := negb (is_nil p) && negb (equal_fold p INBOX).
Definition parents (n : str) : list str := filter parent_name (prefixes_at_delim [] n).

(** "Roles" and the names below it are reserved for role mailboxes (LIST shows them, SELECT
    resolves them): no personal mailbox may be created there *)
Definition reserved (n : str) : bool := is_role_namespace n.

Fixpoint nodupb (l : list str) : bool :=
  match l with [] => true | x :: l' => negb (mem_str x l') && nodupb l' end.

Definition is_child (parent n : str) : bool := has_prefix n (parent ++ [delim]).

Definition add_missing (ps : list str) (bs : list mbox) : list mbox :=
  fold_left (fun bs p => if exists_box bs p then bs else bs ++ [new_box p]) ps bs.

(** RENAME old new on one row *)
Definition ren (old new : str) (b : mbox) : mbox :=
  if str_eqb (mb_name b) old then set_box_name b new
  else if is_child old (mb_name b) then set_box_name b (new ++ skipn (length old) (mb_name b))
  else b.

Definition with_boxes (st : store) (bs : list mbox) : store := MkStore bs (subs st) (next_msg st).
Definition with_subs (st : store) (l : list str) : store := MkStore (boxes st) l (next_msg st).

(** RFC 3501 6.3.3: a trailing hierarchy separator only declares the intent to create inferior
    names; the name created is the one without it.  The separator is removed FIRST: the empty-name,
    INBOX, Roles-namespace and already-exists tests all see the name that would be created
    (CREATE inbox/ is CREATE inbox: refused) *)
Definition spec_create (st : store) (n0 : str) : store * res :=
  let n := trim_suffix n0 [delim] in
  if is_nil n then (st, RNo)
  else if str_eqb (canon n) INBOX then (st, RNo)                 (* INBOX always exists *)
  else if reserved n then (st, RNo)
  else if exists_box (boxes st) n then (st, RNo)
  else (with_boxes st (add_missing (parents n) (boxes st) ++ [new_box n]), ROk).

Definition spec_delete (st : store) (n : str) : store * res :=
  if is_nil n then (st, RBad)
  else if str_eqb (canon n) INBOX then (st, RNo)
  else if negb (exists_box (boxes st) n) then (st, RNo)
  else if existsb (fun b => is_child n (mb_name b)) (boxes st) then (st, RNo)
  else if mem_str n protected_names then (st, RNo)
  else (with_boxes st (filter (fun b => negb (str_eqb (mb_name b) n)) (boxes st)), ROk).

(** RENAME INBOX x: INBOX stays (empty), x is created with INBOX's cargo *)
Definition spec_rename_inbox (st : store) (new : str) : store * res :=
  if exists_box (boxes st) new then (st, RNo)
  else match find (fun b => str_eqb (mb_name b) INBOX) (boxes st) with
       | None => (st, RNo)
       | Some ib =>
           let bs1 := add_missing (parents new) (boxes st) in
           (with_boxes st (map (fun b => if str_eqb (mb_name b) INBOX then MkBox INBOX [] (mb_next b) else b) bs1
                           ++ [MkBox new (mb_msgs ib) (mb_next ib)]), ROk)
       end.

Definition spec_rename (st : store) (old new : str) : store * res :=
  if is_nil old || is_nil new then (st, RBad)
  else if reserved new then (st, RNo)
  else if str_eqb (canon new) INBOX then (st, RNo)
  else if str_eqb (canon old) INBOX then spec_rename_inbox st new
  else if negb (exists_box (boxes st) old) then (st, RNo)
  else if exists_box (boxes st) new then (st, RNo)
  else let bs' := map (ren old new) (add_missing (parents new) (boxes st)) in
       (* a renaming that would give two mailboxes the same name is refused *)
       if nodupb (names bs') then (with_boxes st bs', ROk) else (st, RNo).

Definition spec_subscribe (st : store) (n : str) : store * res :=
  if is_nil n then (st, RBad) else (with_subs st (sub_insert (subs st) (canon n)), ROk).

Definition spec_unsubscribe (st : store) (n : str) : store * res :=
  if is_nil n then (st, RBad)
  else if mem_str (canon n) (subs st)
       then (with_subs st (filter (fun s => negb (str_eqb s (canon n))) (subs st)), ROk)
       else (st, RNo).

Definition spec_status (st : store) (n : str) : store * res * list str :=
  if is_nil n then (st, RBad, [])
  else match find (fun b => str_eqb (mb_name b) (canon n)) (boxes st) with
       | None => (st, RNo, [])
       | Some b => (st, ROk, [itoa (Z.of_nat (length (mb_msgs b)))])
       end.

Definition spec_select (st : store) (n : str) : store * res :=
  if exists_box (boxes st) (canon n) then (st, ROk) else (st, RNo).

Definition spec_append (st : store) (n : str) : store * res :=
  match find (fun b => str_eqb (mb_name b) (canon n)) (boxes st) with
  | None => (st, RNo)
  | Some b =>
      let tok := next_msg st in
      let '(b', ok) := add_link b tok in
      (MkStore (map (fun x => if str_eqb (mb_name x) (canon n) then b' else x) (boxes st)) (subs st) (tok + 1),
       if ok then ROk else RNo)
  end.

(** arguments that are not astrings: the command is refused, nothing changes *)
Definition bad (st : store) : store * res * list str := (st, RBad, []).

Definition spec_step (st : store) (c : cmd) : store * res * list str :=
  match c with
  | CCreate a => match decode_astring a with Some n => plain (spec_create st n) | None => bad st end
  | CDelete a => match decode_astring a with Some n => plain (spec_delete st n) | None => bad st end
  | CRename a b => match decode_astring a, decode_astring b with
                   | Some o, Some n => plain (spec_rename st o n) | _, _ => bad st end
  | CSubscribe a => match decode_astring a with Some n => plain (spec_subscribe st n) | None => bad st end
  | CUnsubscribe a => match decode_astring a with Some n => plain (spec_unsubscribe st n) | None => bad st end
  | CList => (st, ROk, names (boxes st))                                   (* LIST "" "*" = the current set *)
  | CLsub => (st, ROk, if is_nil (subs st) then default_subs else subs st)
  | CStatus a => match decode_astring a with Some n => spec_status st n | None => bad st end
  | CSelect a => match decode_astring a with Some n => plain (spec_select st n) | None => bad st end
  | CAppend a => match decode_astring a with Some n => plain (spec_append st n) | None => bad st end
  end.

(** the environment steps are no naming commands: a restart (and the login after it) changes
    nothing; a delivery adds its message to its target folder, creating that one name if it is
    missing (raven's documented get-or-create), and touches nothing else *)
Definition spec_deliver (st : store) (spam : bool) : store * res :=
  let target := if spam then S_ "Spam" else INBOX in
  let bs := if exists_box (boxes st) target then boxes st else boxes st ++ [new_box target] in
  match find (fun b => str_eqb (mb_name b) target) bs with
  | None => (st, RNo)
  | Some b =>
      let '(b', ok) := add_link b (next_msg st) in
      (MkStore (map (fun x => if str_eqb (mb_name x) target then b' else x) bs) (subs st) (next_msg st + 1),
       if ok then ROk else RNo)
  end.

Definition spec_estep (st : store) (e : estep) : store * res * list str :=
  match e with
  | ECmd c => spec_step st c
  | ERestart => (st, ROk, [])
  | EDeliver spam => plain (spec_deliver st spam)
  end.

Fixpoint spec_trace (st : store) (h : list cmd) : list (store * res * list str) :=
  match h with
  | [] => []
  | c :: h' => let r := spec_step st c in r :: spec_trace (fst (fst r)) h'
  end.

(** ---- where raven leaves the property: finding classes ---- *)
(** every finding class of C11 has been repaired in /repo; the type is kept (with one
    uninhabited-in-practice constructor) so that the check's protocol stays the same *)
Inductive cls := K_none_left.

Definition arg_class (raw : str) : option cls := None.

Definition raw_parents (n : str) : list str := prefixes_at_delim [] n.

(** after fix wave 3 no class is left that depends on the store *)
Definition classify_db (st : store) (c : cmd) : option cls := None.

Definition cmd_args (c : cmd) : list str :=
  match c with
  | CCreate a | CDelete a | CSubscribe a | CUnsubscribe a | CStatus a | CSelect a | CAppend a => [a]
  | CRename a b => [a; b]
  | CList | CLsub => []
  end.

Fixpoint first_some {A} (l : list (option A)) : option A :=
  match l with [] => None | Some x :: _ => Some x | None :: l' => first_some l' end.

Definition classify (st : store) (c : cmd) : option cls :=
  match first_some (map arg_class (cmd_args c)) with
  | Some k => Some k
  | None => classify_db st c
  end.

(** the domain of the property: every argument is an astring of ASCII bytes
    (APPEND additionally: the name has none of ( ) { }, which
    HandleAppendWithReader searches for in the whole line) *)
Definition valid_arg (raw : str) : bool :=
  match decode_astring raw with Some n => all_ascii n | None => false end.
Definition valid_cmd (c : cmd) : bool :=
  forallb valid_arg (cmd_args c) &&
  match c with
  | CAppend a => negb (existsb (fun ch => existsb (Ascii.eqb ch) (S_ "(){}")) a)
  | _ => true
  end.

(** executable verdict used by the check: does an observed step agree with the spec? *)
Definition res_eqb (a b : res) : bool :=
  match a, b with ROk, ROk | RNo, RNo | RBad, RBad | RPanic, RPanic => true | _, _ => false end.
