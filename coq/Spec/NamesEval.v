(** Executable verdicts used by checks/c11.py: one observed step of the
    implementation (state before, command, state after, tagged result, shown
    names) is compared with the model (exactly: rows in rowid order) and judged
    by the spec (as sets). *)
From Coq Require Import String Ascii List Bool Arith ZArith.
From Raven Require Import Base.GoStr Model.Pattern Model.Names Spec.Names.
Import ListNotations.

Definition obox := (str * list (Z * Z) * Z)%type.
(** boxes (rowid order), subscriptions, rows of [messages], tagged result, name tokens shown (raw, as on the wire) / STATUS count *)
Definition ostep := (list obox * list str * Z * res * list str)%type.

Definition box_of (o : obox) : mbox := let '(n, m, x) := o in MkBox n m x.
Definition store_of (bs : list obox) (sb : list str) (nm : Z) : store := MkStore (map box_of bs) sb nm.

Definition link_eqb (a b : Z * Z) : bool := Z.eqb (fst a) (fst b) && Z.eqb (snd a) (snd b).
Fixpoint list_eqb {A} (e : A -> A -> bool) (a b : list A) : bool :=
  match a, b with
  | [], [] => true
  | x :: a', y :: b' => e x y && list_eqb e a' b'
  | _, _ => false
  end.
Definition box_eqb (a b : mbox) : bool :=
  str_eqb (mb_name a) (mb_name b) && list_eqb link_eqb (mb_msgs a) (mb_msgs b) && Z.eqb (mb_next a) (mb_next b).
Definition set_eqb {A} (e : A -> A -> bool) (a b : list A) : bool :=
  Nat.eqb (length a) (length b) && forallb (fun x => existsb (e x) b) a && forallb (fun y => existsb (e y) a) b.

Definition cls_code (k : option cls) : nat :=
  match k with
  | None => 0
  | Some K_none_left => 1
  end.

Definition agrees (exact : bool) (r : store * res * list str) (cur : store) (ro : res) (view : list str) : bool :=
  let '(st', r', v') := r in
  (if exact then list_eqb box_eqb (boxes st') (boxes cur) else set_eqb box_eqb (boxes st') (boxes cur))
  && set_eqb str_eqb (subs st') (subs cur)
  && Z.eqb (next_msg st') (next_msg cur)
  && res_eqb r' ro
  && set_eqb str_eqb v' view.

(** the tokens shown by LIST/LSUB (and the STATUS count) as the client reads them *)
Fixpoint decode_view (v : list str) : option (list str) :=
  match v with
  | [] => Some []
  | t :: v' => match decode_astring t, decode_view v' with
               | Some n, Some l => Some (n :: l)
               | _, _ => None
               end
  end.
Definition spec_agrees (r : store * res * list str) (cur : store) (ro : res) (view : list str) : bool :=
  match decode_view view with Some dv => agrees false r cur ro dv | None => false end.

(** 1: model agrees   2: spec agrees   4*class   64: command in the property's domain *)
Definition judge (prev : store) (e : estep) (o : ostep) : nat * store :=
  let '(bs, sb, nm, ro, view) := o in
  let cur := store_of bs sb nm in
  ((if agrees true (run_step prev e) cur ro view then 1 else 0)
   + (if spec_agrees (spec_estep prev e) cur ro view then 2 else 0)
   + 4 * cls_code (match e with ECmd c => classify prev c | _ => None end)
   + (if match e with ECmd c => valid_cmd c | _ => true end then 64 else 0), cur).

Fixpoint judge_trace (prev : store) (h : list estep) (os : list ostep) : list nat :=
  match h, os with
  | e :: h', o :: os' => let '(code, cur) := judge prev e o in code :: judge_trace cur h' os'
  | _, _ => []
  end.

(** does the model's step agree with the spec's step (as sets)? *)
Definition refines_at (st : store) (c : cmd) : bool :=
  let '(m, rm, vm) := run_cmd st c in spec_agrees (spec_step st c) m rm vm.
Definition state_after (h : list cmd) : store :=
  fold_left (fun st c => fst (fst (run_cmd st c))) h init_store.

Definition refines_at_step (st : store) (e : estep) : bool :=
  let '(m, rm, vm) := run_step st e in spec_agrees (spec_estep st e) m rm vm.
