(** C13 — executable recogniser for the subset of the RFC 3501 response
    grammar that raven emits.

    [step] is a byte-at-a-time automaton over (mode, parenthesis depth):
      - quoted strings: only a double quote or a backslash may follow a
        backslash, no bare double quote / CR / LF inside;
      - literals: [{n}CRLF] followed by exactly n octets (any octets);
      - parentheses balance outside strings and literals, and a response
        line (CRLF outside strings/literals) may only end at depth 0;
      - a bare LF, or a CR not followed by LF, is an error.
    [wf_stream s] holds iff the whole byte stream is a sequence of complete
    response lines of that shape.

    On top of it [take]/[tokens] split the inside of a parenthesised list
    into its top-level tokens (atoms with [..] sections, quoted strings,
    literals, nested lists) and [fetch_pairs] reads an untagged FETCH
    response as the list of (data item name, value) pairs — the strict
    client of the property.  No proofs in this file. *)
From Coq Require Import String Ascii List Bool Arith NArith.
From Raven Require Import Base.GoStr.
Import ListNotations.
Local Open Scope char_scope.

Inductive mode :=
| Start                       (* at the beginning of a response line *)
| Norm                        (* inside a line, outside strings/literals *)
| Quo | QuoEsc                (* inside a quoted string / after its backslash *)
| LitNum (started : bool) (n : N)   (* after '{' *)
| LitCR (n : N) | LitLF (n : N)     (* after '}' : CR, LF must follow *)
| LitData (n : N)             (* n > 0 octets of literal data still to come *)
| SawCR                       (* CR outside strings: LF must follow *)
| Bad.

Definition st := (mode * nat)%type.

Definition SP : ascii := " ".
Definition DQ : ascii := """".
Definition BSL : ascii := "\".
Definition LP : ascii := "(".
Definition RP : ascii := ")".
Definition LB : ascii := "{".
Definition RB : ascii := "}".

Definition step_norm (d : nat) (c : ascii) : st :=
  if Ascii.eqb c DQ then (Quo, d)
  else if Ascii.eqb c LP then (Norm, S d)
  else if Ascii.eqb c RP then match d with O => (Bad, 0) | S d' => (Norm, d') end
  else if Ascii.eqb c LB then (LitNum false 0, d)
  else if Ascii.eqb c CR then match d with O => (SawCR, 0) | S _ => (Bad, 0) end
  else if Ascii.eqb c LF then (Bad, 0)
  else (Norm, d).

Definition step (s : st) (c : ascii) : st :=
  let '(m, d) := s in
  match m with
  | Start => if Ascii.eqb c CR then (Bad, 0) else step_norm d c
  | Norm => step_norm d c
  | Quo => if Ascii.eqb c DQ then (Norm, d)
           else if Ascii.eqb c BSL then (QuoEsc, d)
           else if Ascii.eqb c CR || Ascii.eqb c LF then (Bad, 0)
           else (Quo, d)
  | QuoEsc => if Ascii.eqb c DQ || Ascii.eqb c BSL then (Quo, d) else (Bad, 0)
  | LitNum b n => if is_digit c then (LitNum true (10 * n + (byte_of c - 48)), d)
                  else if Ascii.eqb c RB && b then (LitCR n, d) else (Bad, 0)
  | LitCR n => if Ascii.eqb c CR then (LitLF n, d) else (Bad, 0)
  | LitLF n => if Ascii.eqb c LF then (if (n =? 0)%N then (Norm, d) else (LitData n, d)) else (Bad, 0)
  | LitData n => if (n <=? 1)%N then (Norm, d) else (LitData (n - 1), d)
  | SawCR => if Ascii.eqb c LF then (Start, 0) else (Bad, 0)
  | Bad => (Bad, 0)
  end.

Definition run (s : st) (x : str) : st := fold_left step x s.

Definition is_start (s : st) : bool :=
  match s with (Start, O) => true | _ => false end.

(** the whole stream is a sequence of complete, well-formed response lines *)
Definition wf_stream (x : str) : bool := is_start (run (Start, 0) x).

(** ---- tokens of a parenthesised list ---- *)

Definition neutral (s : st) : bool :=
  match s with (Norm, O) => true | _ => false end.

Definition is_sep (c : ascii) : bool := Ascii.eqb c SP || Ascii.eqb c RP.

Definition LSB : ascii := "[".
Definition RSB : ascii := "]".

(** square brackets met at the top level (outside strings, literals and
    parentheses) open / close a section specification such as
    BODY[HEADER.FIELDS (DATE FROM)]: no token boundary inside *)
Definition br_step (s : st) (br : nat) (c : ascii) : nat :=
  if neutral s then (if Ascii.eqb c LSB then S br else if Ascii.eqb c RSB then pred br else br) else br.

Definition boundary (s : st) (br : nat) : bool := neutral s && Nat.eqb br 0.

(** the longest prefix that is one complete token: stops in front of the
    first SP or ')' met outside strings/literals/nested lists/sections *)
Fixpoint take (s : st) (br : nat) (started : bool) (acc : str) (x : str) : option (str * str) :=
  match x with
  | [] => if boundary s br && started then Some (rev acc, []) else None
  | c :: x' => if boundary s br && started && is_sep c then Some (rev acc, x)
               else take (step s c) (br_step s br c) true (c :: acc) x'
  end.

(** states a run INSIDE a response line never visits *)
Definition badish (s : st) : bool :=
  match fst s with Bad | SawCR | Start => true | _ => false end.

(** run inside the line that [take] does not cut *)
Fixpoint nosplit (s : st) (br : nat) (b : bool) (p : str) : option (st * nat) :=
  match p with
  | [] => Some (s, br)
  | c :: p' => if boundary s br && b && is_sep c then None
               else let s' := step s c in
                    if badish s' then None else nosplit s' (br_step s br c) true p'
  end.

(** [t] is exactly one token: non-empty, lexically complete, and [take] finds
    no boundary inside it *)
Definition tokb (t : str) : bool :=
  match t with
  | [] => false
  | _ => match nosplit (Norm, 0) 0 false t with Some ((Norm, O), O) => true | _ => false end
  end.

(** tok (SP tok)* ; returns the tokens and what follows them (a closing parenthesis, or nothing) *)
Fixpoint tokens (fuel : nat) (x : str) : option (list str * str) :=
  match fuel with
  | O => None
  | S f =>
      match take (Norm, 0) 0 false [] x with
      | None => None
      | Some (t, []) => Some ([t], [])
      | Some (t, c :: r) =>
          if Ascii.eqb c SP
          then match tokens f r with
               | Some (ts, rest) => Some (t :: ts, rest)
               | None => None
               end
          else Some ([t], c :: r)
      end
  end.

Fixpoint pair_up (l : list str) : option (list (str * str)) :=
  match l with
  | [] => Some []
  | n :: v :: r => option_map (cons (n, v)) (pair_up r)
  | [_] => None
  end.

Fixpoint span_digits (x : str) (acc : str) : str * str :=
  match x with
  | c :: x' => if is_digit c then span_digits x' (c :: acc) else (rev acc, x)
  | [] => (rev acc, [])
  end.

Definition is_alpha (c : ascii) : bool := is_upper c || is_lower c.

(** a data item name: starts with a letter, continues with atom bytes and
    [..] sections (checked lexically by [take]); never a literal, a quoted
    string or a list *)
Definition item_name_ok (n : str) : bool :=
  match n with c :: _ => is_alpha c | [] => false end.

(** star SP number SP FETCH SP LP name SP value (SP name SP value)* RP CRLF *)
Definition fetch_pairs (resp : str) : option (str * list (str * str)) :=
  if has_prefix resp (S_ "* ") then
    let '(num, r) := span_digits (skipn 2 resp) [] in
    match num with
    | [] => None
    | _ =>
      if has_prefix r (S_ " FETCH (") then
        let body := skipn 8 r in
        match tokens (S (length body)) body with
        | Some (ts, rest) =>
            if str_eqb rest (RP :: crlf) then
              match pair_up ts with
              | Some ps => if forallb (fun p => item_name_ok (fst p)) ps then Some (num, ps) else None
              | None => None
              end
            else None
        | None => None
        end
      else None
    end
  else None.

(** the value of a literal token: the octets after the {n}CRLF announcement *)
Fixpoint after_crlf (x : str) : str :=
  match x with
  | c :: ((d :: r) as x') => if Ascii.eqb c CR && Ascii.eqb d LF then r else after_crlf x'
  | _ => []
  end.

(** decoding of a well-formed quoted string (inverse of the escaping) *)
Fixpoint unescape (x : str) : str :=
  match x with
  | c :: ((d :: r) as x') => if Ascii.eqb c BSL then d :: unescape r else c :: unescape x'
  | _ => x
  end.
Definition unquote (q : str) : option str :=
  match q with
  | c :: r => if Ascii.eqb c DQ then
                match rev r with
                | e :: m => if Ascii.eqb e DQ then Some (unescape (rev m)) else None
                | [] => None
                end
              else None
  | [] => None
  end.

(** [t] is exactly ONE quoted string (RFC 3501 string in its quoted form): the
    closing quote is the last octet; what an nstring field of ENVELOPE /
    BODYSTRUCTURE must be when it is not NIL *)
Fixpoint qs_body (x : str) : bool :=
  match x with
  | [] => false
  | c :: r =>
      if Ascii.eqb c DQ then match r with [] => true | _ => false end
      else if Ascii.eqb c BSL then
        match r with
        | d :: r' => (Ascii.eqb d DQ || Ascii.eqb d BSL) && qs_body r'
        | [] => false
        end
      else if Ascii.eqb c CR || Ascii.eqb c LF then false
      else qs_body r
  end.

Definition quoted_strict (t : str) : bool :=
  match t with c :: r => Ascii.eqb c DQ && qs_body r | [] => false end.

(** [t] is exactly ONE literal: {n}CRLF followed by exactly n octets *)
Definition literal_strict (t : str) : bool :=
  match t with
  | c :: r =>
      Ascii.eqb c LB &&
      (let '(ds, r') := span_digits r [] in
       match ds with
       | [] => false
       | _ => has_prefix r' (RB :: crlf)
              && N.eqb (N.of_nat (length (skipn 3 r')))
                       (fold_left (fun a d => (10 * a + (byte_of d - 48))%N) ds 0%N)
       end)
  | [] => false
  end.

(** a string: one quoted string or one literal *)
Definition string_ok (t : str) : bool := quoted_strict t || literal_strict t.

(** NIL or a string *)
Definition nstring_ok (t : str) : bool := str_eqb t (S_ "NIL") || string_ok t.
