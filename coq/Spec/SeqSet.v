(** C09 — RFC 3501 sequence sets / UID sets as an AST with a denotation, and
    the client-side replay of untagged EXPUNGE responses.

    [denote s top i]: does the set [s] contain the number [i], when "*"
    stands for [top] (the number of messages for message sequence sets, the
    highest UID for UID sets).  Ranges are order-independent (RFC 3501
    section 9, seq-range), so [n:*] contains [top] even when [n > top]. *)
From Coq Require Import String Ascii List Bool ZArith.
From Raven Require Import Base.GoStr Base.GoStrZ.
Import ListNotations.
Local Open Scope Z_scope.

Inductive snum := Num (n : Z) | Star.
Inductive item := One (a : snum) | Range (a b : snum).
Definition seqset := list item.

(** nz-number: 1 <= n < 2^32 *)
Definition wf_num (a : snum) : bool :=
  match a with Num n => (1 <=? n) && (n <? 4294967296) | Star => true end.
Definition wf_item (it : item) : bool :=
  match it with One a => wf_num a | Range a b => wf_num a && wf_num b end.
Definition wf (s : seqset) : bool :=
  match s with [] => false | _ => forallb wf_item s end.

Definition val (top : Z) (a : snum) : Z := match a with Num n => n | Star => top end.

Definition denote_item (top : Z) (it : item) (i : Z) : bool :=
  match it with
  | One a => i =? val top a
  | Range a b => (Z.min (val top a) (val top b) <=? i) && (i <=? Z.max (val top a) (val top b))
  end.

Definition denote (s : seqset) (top : Z) (i : Z) : bool :=
  existsb (fun it => denote_item top it i) s.

(** message sequence numbers addressed in a mailbox of [n] messages *)
Definition addressed (s : seqset) (n : Z) : list Z := filter (denote s n) (zrange 1 n).

(** UIDs addressed among the mailbox's UIDs *)
Definition max_uid (uids : list Z) : Z := fold_right Z.max 0 uids.
Definition addressed_uids (s : seqset) (uids : list Z) : list Z :=
  filter (denote s (max_uid uids)) uids.

(** concrete syntax *)
Definition print_num (a : snum) : str :=
  match a with Num n => itoa n | Star => ["*"%char] end.
Definition print_item (it : item) : str :=
  match it with
  | One a => print_num a
  | Range a b => print_num a ++ [":"%char] ++ print_num b
  end.
Definition print (s : seqset) : str := join (map print_item s) [","%char].

(** strictly ascending (ORDER BY uid over UNIQUE(mailbox_id, uid)) *)
Fixpoint ascending (l : list Z) : Prop :=
  match l with
  | [] => True
  | x :: l' => match l' with [] => True | y :: _ => x < y end /\ ascending l'
  end.

Fixpoint ascendingb (l : list Z) : bool :=
  match l with
  | [] => true
  | x :: l' => match l' with [] => true | y :: _ => x <? y end && ascendingb l'
  end.

(** ---- client-side replay of "* n EXPUNGE" ---- *)
Fixpoint remove_nth {A} (n : nat) (l : list A) : list A :=
  match l, n with
  | [], _ => []
  | _ :: l', O => l'
  | x :: l', S n' => x :: remove_nth n' l'
  end.

Definition apply_expunge {A} (view : list A) (n : Z) : list A :=
  if n <? 1 then view else remove_nth (Z.to_nat (n - 1)) view.

Definition replay {A} (notices : list Z) (view : list A) : list A :=
  fold_left apply_expunge notices view.

(** the n-th message (1-based); [d] when out of range *)
Definition nth1 {A} (l : list A) (i : Z) (d : A) : A := nth (Z.to_nat (i - 1)) l d.

(** what a FETCH / UID FETCH over the set must report: (sequence number, uid)
    of every addressed message, in ascending order *)
Definition expected_fetch (s : seqset) (uids : list Z) : list (Z * Z) :=
  map (fun i => (i, nth1 uids i 0)) (addressed s (Z.of_nat (length uids))).

(** \Deleted as a flag ATOM of the stored flag string (flags are
    case-insensitive, RFC 3501 section 2.3.2) *)
Definition deleted_flag : str := S_ "\Deleted".
Definition has_deleted (flags : str) : bool :=
  existsb (fun f => equal_fold f deleted_flag) (fields flags).

(** the only white space of a stored flag string is the single blank (APPEND,
    STORE and COPY write strings.Join(strings.Fields(..), " ")) *)
Definition blank_ws (s : str) : bool :=
  forallb (fun c => negb (is_space c) || Ascii.eqb c " "%char) s.
