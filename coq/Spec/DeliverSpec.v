(** C01 — "an LMTP acceptance is a durable, per-recipient promise" as a
    statement about [Model.Deliver.lmtp_data], and the classifier of the
    finding classes.

    Reading.  For a world [w] (reached by any history), configuration folder
    [folder], accepted recipient list [rs] (duplicates allowed), submitted
    message [p], clock [clk]:  let (w', replies, atts) = lmtp_data w folder rs p clk.
    - there is exactly one reply per position of [rs];
    - the attempts [atts] are the per-position steps from [w] to [w'];
    - a position answered 2xx: in the store of its recipient exactly one link was
      added by that position's step, it lies in the mailbox named
      [target_folder folder p], the message it points to can be reconstructed
      (FETCH BODY[] is served) and carries the submitted header and part rows;
      no other store changed;
    - a position answered 4xx/5xx: that position's step added or removed no
      link in any store.
    Byte-level equality of the fetched text with the submitted text is C02's
    statement; here "the submitted content" is the stored row structure. *)
From Coq Require Import String Ascii List Bool ZArith.
From Raven Require Import Base.GoStr Model.Store Model.Ops Model.Deliver.
Import ListNotations.
Local Open Scope Z_scope.

Definition links_of (w : world) (k : key) : list link :=
  match get w k with Some u => links (us u) | None => [] end.

(** the stored message is what was submitted *)
Definition holds_submission (u : ustore) (id : Z) (p : parsed) : Prop :=
  exists r, msg_of u id = Some r /\ m_hdrs r = p_hdrs p /\ parts_of (p_shape p) = Some (m_parts r) /\
            m_lost r = 0%nat.        (* every part's octets are inline or in its blob *)

Definition accepted_ok (a : attempt) (folder : str) (p : parsed) : Prop :=
  exists k u' m l,
    key_of (a_before a) (a_rcpt a) = Some k /\
    get (a_after a) k = Some u' /\
    links (us u') = links_of (a_before a) k ++ [l] /\
    find_name (us u') (target_folder folder p) = Some m /\ lk_mbox l = mb_id m /\
    reconstructs u' (lk_msg l) = true /\
    holds_submission u' (lk_msg l) p /\
    (forall k', k' <> k -> get (a_after a) k' = get (a_before a) k').

Definition rejected_ok (a : attempt) : Prop :=
  forall k, links_of (a_after a) k = links_of (a_before a) k.

(** the attempts lead from [w] to [w'] one after the other *)
Fixpoint chain (w : world) (atts : list attempt) (w' : world) : Prop :=
  match atts with
  | [] => w = w'
  | a :: r => a_before a = w /\ chain (a_after a) r w'
  end.

Definition position_ok (folder : str) (p : parsed) (c : reply) (a : attempt) : Prop :=
  if is_2xx c then accepted_ok a folder p else rejected_ok a.

Definition spec_result (w : world) (folder : str) (rs : list str) (p : parsed)
           (res : world * list reply * list attempt) : Prop :=
  let '(w', replies, atts) := res in
  length replies = length rs /\
  map a_rcpt atts = rs /\
  chain w atts w' /\
  Forall2 (position_ok folder p) replies atts.

Definition spec_C01 (w : world) (folder : str) (rs : list str) (p : parsed) (clk : nat -> Z) : Prop :=
  spec_result w folder rs p (lmtp_data w folder rs p clk).

(** the same reading for handleDATA under a configuration and a quota verdict
    (a 552 is a refusal like any other 4xx/5xx: nothing may be filed for it) *)
Definition spec_C01_cfg (c : cfg) (over_quota : str -> bool) (w : world) (rs : list str)
           (p : parsed) (size : Z) (clk : nat -> Z) : Prop :=
  spec_result w (c_folder c) rs p (handle_data c over_quota w rs p size clk).

(** ---- world invariant ------------------------------------------------------------- *)

(** rows of [messages] are never deleted and ids come from a counter *)
Definition msgs_below (u : ustore) : Prop :=
  forall r, In r (umsgs u) -> m_id r < next_msg (us u).

Definition WInv (w : world) : Prop := forall k u, get w k = Some u -> msgs_below u.

(** ---- finding classes ---------------------------------------------------------------- *)

Inductive c01class :=
| CDupLastResult.   (* a position is answered from the result of a LATER attempt for the
                       same recipient string (map keyed by recipient) and the two differ *)
(* retired: CSingle554 (raven aeac4b2), CNoBoundary (raven f7e0490) *)

Definition is_noboundary (sh : shape) : bool :=
  match sh with MultiNoBoundary => true | _ => false end.

Definition mismatch (m : rmap) (a : attempt) : bool :=
  negb (Bool.eqb (a_ok a) (is_2xx (reply_for m (a_rcpt a)))).

Definition classify (w : world) (folder : str) (rs : list str) (p : parsed) (clk : nat -> Z)
  : option c01class :=
  if negb (p_ok p) then None          (* one 554 per recipient since raven aeac4b2 *)
  else
    let '(_, atts) := deliver_all w folder rs p clk 0 in
    if existsb (mismatch (results_of atts)) atts then Some CDupLastResult
    else None.

(** the class under a configuration: a DELIVERED position answered from another
    attempt's result *)
Definition classify_cfg (c : cfg) (over_quota : str -> bool) (w : world) (rs : list str) (p : parsed)
           (size : Z) (clk : nat -> Z) : option c01class :=
  if (c_max_size c <? size) || negb (p_ok p) then None
  else
    let skip := skipped c over_quota in
    let '(_, atts) := deliver_all_q skip w (c_folder c) rs p clk 0 in
    if existsb (fun a => negb (skip (a_rcpt a)) && mismatch (results_q skip atts) a) atts
    then Some CDupLastResult else None.

(** ---- "an acceptable recipient is not refused" ------------------------------------- *)

(** a recipient DeliverMessage has no reason to refuse *)
Definition deliverable (w : world) (folder : str) (r : str) (p : parsed) : bool :=
  match key_of w r with Some _ => true | None => false end
  && match target_folder folder p with [] => false | _ => true end
  && match p_shape p with MultiBroken => false | _ => true end.

(** UIDNEXT of every mailbox of every store is above the UIDs it holds, and
    mailbox row ids are unique, every link lies in an existing mailbox (C03's
    invariant [Inv] gives all three) *)
Definition fresh_store (s : store) : Prop :=
  NoDup (map mb_id (mboxes s)) /\
  (forall l, In l (links s) -> exists m, In m (mboxes s) /\ mb_id m = lk_mbox l) /\
  (forall m l, In m (mboxes s) -> In l (links s) -> lk_mbox l = mb_id m -> lk_uid l < mb_next m).

Definition WFresh (w : world) : Prop := forall k u, get w k = Some u -> fresh_store (us u).
