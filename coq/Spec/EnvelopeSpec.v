(** C14 (d) — what an ENVELOPE address list must be for a header field that
    holds one mailbox  DQUOTE display-name DQUOTE <local@domain>  (RFC 5322 quoted-string
    display name; RFC 3501 address structure). *)
From Coq Require Import String Ascii List Bool Arith.
From Raven Require Import Base.GoStr Model.Envelope.
Import ListNotations.

(** RFC 5322 quoted-string content: backslash before DQUOTE and backslash *)
Definition qs_escape (s : str) : str :=
  flat_map (fun c => if Ascii.eqb c DQ || Ascii.eqb c BSL then [BSL; c] else [c]) s.

Definition render_addr (name local dom : str) : str :=
  [DQ] ++ qs_escape name ++ [DQ; SP; LT_] ++ local ++ [AT_] ++ dom ++ [GT_].

(** IMAP quoted string (same escaping) *)
Definition imap_q (s : str) : str :=
  match s with [] => NIL | _ => [DQ] ++ qs_escape s ++ [DQ] end.

Definition expected_addr_list (name local dom : str) : str :=
  S_ "((" ++ imap_q name ++ S_ " NIL " ++ imap_q local ++ [SP] ++ imap_q dom ++ S_ "))".

(** one address as RFC 3501 wants it: (name NIL local dom) *)
Definition expected_struct (a : str * str * str) : str :=
  let '(name, local, dom) := a in
  S_ "(" ++ imap_q name ++ S_ " NIL " ++ imap_q local ++ [SP] ++ imap_q dom ++ S_ ")".

Definition expected_list (l : list (str * str * str)) : str :=
  S_ "(" ++ join (map expected_struct l) [SP] ++ S_ ")".

(** the *mail.Address the library returns for (name, local, dom) *)
Definition mail_addr (a : str * str * str) : str * str :=
  let '(name, local, dom) := a in (name, local ++ [AT_] ++ dom).

Definition dom_ok (a : str * str * str) : bool :=
  let '(_, _, dom) := a in negb (contains_byte dom AT_).

(** the splitting that was used for every header before the repair (still the
    fallback): what it does to a quoted display name *)
Definition fallback_ok (name local dom : str) : bool :=
  match parse_fallback (render_addr name local dom) with
  | Some s => str_eqb s (expected_addr_list name local dom)
  | None => false
  end.

(** decoding of an IMAP quoted string / NIL, for the round trip of QuoteOrNIL *)
Fixpoint unq_body (s : str) : option str :=
  match s with
  | [] => None                                   (* no closing quote *)
  | c :: s' =>
      if Ascii.eqb c DQ then (match s' with [] => Some [] | _ => None end)
      else if Ascii.eqb c BSL then
        match s' with
        | d :: s'' => option_map (cons d) (unq_body s'')
        | [] => None
        end
      else option_map (cons c) (unq_body s')
  end.

Definition imap_unquote (s : str) : option str :=
  if str_eqb s NIL then Some []
  else match s with
       | c :: s' => if Ascii.eqb c DQ then unq_body s' else None
       | [] => None
       end.
