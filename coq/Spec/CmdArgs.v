(** How a client writes the arguments of a command (RFC 3501 astring without
    literals): an atom, or a quoted string made with QuoteString's rule. *)
From Coq Require Import String Ascii List Bool Arith NArith.
From Raven Require Import Base.GoStr Model.CmdTokenizer.
Import ListNotations.
Local Open Scope char_scope.

(** how a client writes an argument *)
Inductive arg_form := AtomForm | QuotedForm.
Definition render_arg (f : arg_form) (s : str) : str :=
  match f with AtomForm => s | QuotedForm => quote_string s end.

(** an atom: non-empty, no white space, no double quote, no backslash *)
Definition atom_c (c : ascii) : bool :=
  negb (is_space c) && negb (Ascii.eqb c DQUOTE) && negb (Ascii.eqb c BSLASH).
Definition atom_ok (s : str) : bool := forallb atom_c s && negb (match s with [] => true | _ => false end).
(** a quoted string may carry ANY octets *)
Definition arg_ok (a : arg_form * str) : bool :=
  match fst a with AtomForm => atom_ok (snd a) | QuotedForm => true end.


(** arguments separated by single blanks *)
Fixpoint render_line (args : list (arg_form * str)) : str :=
  match args with
  | [] => []
  | [a] => render_arg (fst a) (snd a)
  | a :: l => render_arg (fst a) (snd a) ++ " " :: render_line l
  end.


(** octets that cannot be inside one command line (or are forbidden in quoted
    strings by RFC 3501): CR, LF, NUL *)
Definition line_safe (s : str) : bool :=
  negb (contains_byte s CR) && negb (contains_byte s LF) && negb (contains_byte s (ascii_of_nat 0)).
