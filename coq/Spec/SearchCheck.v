(** C19 — helpers for the in-Coq evaluation of correspondence cases
    (checks/c19.py): one number per case, 0 = implementation, model and
    specification agree. *)
From Coq Require Import String Ascii List Bool Arith NArith ZArith.
From Raven Require Import Base.GoStr Model.Search Model.SearchText Spec.Search Model.SearchClass.
From Raven Require Model.CmdTokenizer.
Import ListNotations.
Local Open Scope N_scope.

Definition cls_code (c : option cls) : N :=
  match c with
  | None => 0 | Some CUnknownKey => 6 | Some CNoOther => 15
  end.

Definition ob_eqb (a b : option bool) : bool :=
  match a, b with
  | Some x, Some y => Bool.eqb x y
  | None, None => true
  | _, _ => false
  end.

Definition reply_eqb (a b : reply) : bool :=
  match a, b with
  | ROk l, ROk l' => list_z_eqb l l'
  | RNo, RNo | RBad, RBad | RPanic, RPanic => true
  | _, _ => false
  end.

(** code = [model <> impl] + 2 [spec <> impl] + 4 class + 64 [print_prog ks <> text sent] *)
Definition mk_code (model_diff spec_diff : bool) (c : option cls) (print_diff : bool) : N :=
  (if model_diff then 1 else 0) + (if spec_diff then 2 else 0) + 4 * cls_code c + (if print_diff then 64 else 0).

(** direct call of evaluateTokens on one message *)
Definition ecase := (list key * str * Z * Z * Z * smsg * option bool)%type.
Definition eval_case_code (c : ecase) : N :=
  let '(ks, text, nseq, maxuid, i, m, impl) := c in
  let model := eval_tokens go_text (to_msg_in nseq maxuid (i, m)) (parse_search_tokens text) in
  let spec_diff := wf_prog ks && forallb supported ks && negb (ob_eqb impl (Some (spec_all nseq maxuid ks i m))) in
  mk_code (negb (ob_eqb model impl)) spec_diff (classify ks [m]) (negb (str_eqb (print_prog ks) text)).

(** raw criteria (no AST): model against implementation only *)
Definition rcase := (str * Z * smsg * option bool)%type.
Definition raw_case_code (c : rcase) : N :=
  let '(text, i, m, impl) := c in
  if ob_eqb (eval_tokens go_text (to_msg_in 9 19 (i, m)) (parse_search_tokens text)) impl then 0 else 1.

(** session: SEARCH / UID SEARCH command against a mailbox *)
Definition scase := (list key * str * bool * reply)%type.
Definition tag_ : str := S_ "t".
Definition session_case_code (mb : list smsg) (c : scase) : N :=
  let '(ks, text, uid_mode, impl) := c in
  let parts := if uid_mode then tag_ :: S_ "UID" :: S_ "SEARCH" :: Model.CmdTokenizer.split_command_line text
               else tag_ :: S_ "SEARCH" :: Model.CmdTokenizer.split_command_line text in
  let model := if uid_mode then uid_search_cmd parts (to_msgs mb) else search_cmd parts (to_msgs mb) in
  let spec := if uid_mode then spec_uid_search ks mb else spec_search ks mb in
  let c := classify_line ks mb in
  mk_code (negb (reply_eqb model impl)) (wf_prog ks && mb_ok mb && negb (reply_ok impl spec)) c (negb (str_eqb (print_prog ks) text)).

(** raw command arguments (CHARSET forms, soups): model against implementation *)
Definition rscase := (str * bool * reply)%type.
Definition raw_session_case_code (mb : list smsg) (c : rscase) : N :=
  let '(text, uid_mode, impl) := c in
  let parts := if uid_mode then tag_ :: S_ "UID" :: S_ "SEARCH" :: Model.CmdTokenizer.split_command_line text
               else tag_ :: S_ "SEARCH" :: Model.CmdTokenizer.split_command_line text in
  let model := if uid_mode then uid_search_cmd parts (to_msgs mb) else search_cmd parts (to_msgs mb) in
  if reply_eqb model impl then 0 else 1.

Fixpoint nonzero_from (i : N) (l : list N) : list N :=
  match l with
  | [] => []
  | c :: l' => if c =? 0 then nonzero_from (i + 1) l' else (i * 256 + c) :: nonzero_from (i + 1) l'
  end.
Definition report (l : list N) : list N := nonzero_from 0 l.

Definition lstr_eqb (a b : list str) : bool :=
  (length a =? length b)%nat && forallb (fun '(x, y) => str_eqb x y) (combine a b).
