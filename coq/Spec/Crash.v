(** C07 — what "usable after a crash" means for one per-user store.

    [crash_at d h k] (Model/Micro.v) is the durable state when the process dies
    after the first [k] atomic micro-steps of workload [h].  Recovery is the
    next GetUserDB ([COpen], at the head of every session and of the first
    delivery to the user in the restarted process).

    There is no finding class left: the two classes of the first round
    (store creation torn between its schema statements / before INSERT INBOX,
    DESIGN F19) are repaired by fixes/store-init-idempotent.patch. *)
From Coq Require Import String Ascii List Bool ZArith Arith.
From Raven Require Import Base.GoStr Model.Store Model.Ops Model.Micro.
Import ListNotations.
Local Open Scope Z_scope.

Definition has_inbox (d : dstore) : bool := is_some (find_name (d_st d) INBOX).

(** the store can be used as it is: the tables every path needs exist and
    there is an INBOX *)
Definition usable (d : dstore) : bool := d_file d && ready d && has_inbox d.

Definition res_ok (r : result) : bool := match r with ROk => true | _ => false end.

(** the next GetUserDB succeeds and leaves a usable store *)
Definition reopen_ok_b (c : dstore) (t : Z) : bool :=
  let '(d1, r1) := big c (COpen t t t t t) in res_ok r1 && usable d1.

(** every message listed in a mailbox is complete *)
Definition links_complete_b (d : dstore) : bool :=
  forallb (fun l => existsb (fun m => (m_id m =? lk_msg l) && complete m) (d_msgs d)) (links (d_st d)).

(** a new login (GetUserDB) and a new delivery into INBOX succeed, and the
    delivered message is listed and complete *)
Definition recovers_b (c : dstore) (t : Z) (sh : shape) : bool :=
  let '(d1, r1) := big c (COpen t t t t t) in
  let '(d2, r2) := big d1 (CDeliver INBOX t sh) in
  match r1, r2 with
  | ROk, ROk => usable d1 && links_complete_b d2
                && Nat.eqb (length (links (d_st d2))) (S (length (links (d_st d1))))
  | _, _ => false
  end.
