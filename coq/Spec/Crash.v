(** C07 — what "usable after a crash" means for one per-user store, and the
    classes of crash states in which raven's current code violates it.

    [crash_at d h k] (Model/Micro.v) is the durable state when the process dies
    after the first [k] atomic micro-steps of workload [h].  Recovery is the
    next GetUserDB ([COpen], implied by every login and delivery). *)
From Coq Require Import String Ascii List Bool ZArith Arith.
From Raven Require Import Base.GoStr Model.Store Model.Ops Model.Micro.
Import ListNotations.
Local Open Scope Z_scope.

Definition has_inbox (d : dstore) : bool := is_some (find_name (d_st d) INBOX).

(** the store can be used: either the file does not exist (the next first
    contact creates it completely) or the tables every path needs exist and
    there is an INBOX *)
Definition usable (d : dstore) : bool := negb (d_file d) || (ready d && has_inbox d).

Inductive cclass :=
| CTornSchema   (* the file exists, essential tables are missing: initUserDB is never run again *)
| CNoInbox.     (* tables exist, the default-mailbox INSERTs did not get as far as INBOX *)

Definition classify_state (c : dstore) : option cclass :=
  if negb (d_file c) then None
  else if negb (ready c) then Some CTornSchema
  else if negb (has_inbox c) then Some CNoInbox
  else None.

(** the class of crash point [k] of workload [h] run on a new data directory *)
Definition classify (h : list cop) (k : nat) : option cclass := classify_state (crash_at absent h k).

Definition class_code (c : option cclass) : Z :=
  match c with None => 0 | Some CTornSchema => 1 | Some CNoInbox => 2 end.

(** every message listed in a mailbox is complete *)
Definition links_complete_b (d : dstore) : bool :=
  forallb (fun l => existsb (fun m => (m_id m =? lk_msg l) && complete m) (d_msgs d)) (links (d_st d)).

(** a new login (GetUserDB) and a new delivery into INBOX succeed, and the
    delivered message is listed and complete *)
Definition recovers_b (c : dstore) (t : Z) (sh : shape) : bool :=
  let '(d1, r1) := big c (COpen t t t t t) in
  let '(d2, r2) := big d1 (CDeliver INBOX t sh t t t t t) in
  match r1, r2 with
  | ROk, ROk => has_inbox d1 && links_complete_b d2
                && Nat.eqb (length (links (d_st d2))) (S (length (links (d_st d1))))
  | _, _ => false
  end.
