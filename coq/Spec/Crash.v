(** C07 — what "usable after a crash" means for one per-user store.

    [crash_at d h k] (Model/Micro.v) is the durable state when the process dies
    after the first [k] atomic micro-steps of workload [h].  Recovery is the
    next GetUserDB ([COpen], at the head of every session and of the first
    delivery to the user in the restarted process).

    There is no finding class left: the two classes of the first round
    (store creation torn between its schema statements / before INSERT INBOX,
    DESIGN F19) are repaired by fixes/store-init-idempotent.patch. *)
From Coq Require Import String Ascii List Bool ZArith Arith.
From Raven Require Import Base.GoStr Model.Store Model.Ops Model.Micro.
Import ListNotations.
Local Open Scope Z_scope.

Definition has_inbox (d : dstore) : bool := is_some (find_name (d_st d) INBOX).

(** the store can be used as it is: the tables every path needs exist and
    there is an INBOX *)
Definition usable (d : dstore) : bool := d_file d && ready d && has_inbox d.

Definition res_ok (r : result) : bool := match r with ROk => true | _ => false end.

(** the next GetUserDB succeeds and leaves a usable store *)
Definition reopen_ok_b (c : dstore) (t : Z) : bool :=
  let '(d1, r1) := big c (COpen t t t t t) in res_ok r1 && usable d1.

(** every message listed in a mailbox is complete *)
Definition links_complete_b (d : dstore) : bool :=
  forallb (fun l => existsb (fun m => (m_id m =? lk_msg l) && complete m) (d_msgs d)) (links (d_st d)).

(** a new login (GetUserDB) and a new delivery into INBOX succeed, and the
    delivered message is listed and complete *)
Definition recovers_b (c : dstore) (t : Z) (sh : shape) : bool :=
  let '(d1, r1) := big c (COpen t t t t t) in
  let '(d2, r2) := big d1 (CDeliver INBOX t sh) in
  match r1, r2 with
  | ROk, ROk => usable d1 && links_complete_b d2
                && Nat.eqb (length (links (d_st d2))) (S (length (links (d_st d1))))
  | _, _ => false
  end.

(** ---- the property evaluated on an OBSERVED store ------------------------------------

    Used by the crash replay when a recovered store is judged directly (not via
    the model's crash states).  [dA] is the state after every ACKNOWLEDGED
    operation of the workload (all of them are complete: a client sends the
    next command only after the reply); the operations of the one client
    command in flight may be wholly applied, partly applied or absent;
    [cands] = the states after 0, 1, ... of them wholly applied, [dL] = the last.

    (c) acknowledged work is in effect:
      - a mailbox the recovered store lists holds every link it held in [dA],
        except links the command in flight removes from that same mailbox
        (EXPUNGE, a move) — if the command in flight removes or renames the
        mailbox itself ([dL] does not have the name) and the mailbox is still
        listed, the command has not been applied to it and ALL its links must
        be there ([lost_links]);
      - a message linked in [dA] and still linked after the command in flight
        is linked somewhere in the recovered store ([lost_msgs]);
      - a mailbox of [dA] that the command in flight keeps is listed ([lost_mailboxes]).
    (b) every listed message is complete: same number of header / part rows
        as the writer intended ([incomplete]).
    nothing invented: every recovered link is a link of one of [cands] ([phantom]). *)

Definition okey := (Z * Z * Z)%type.           (* mailbox row id, uid, message id *)
Record obs := mkObs { o_names : list (Z * str); o_links : list okey; o_msgs : list (Z * Z * Z) }.

Definition links_named (s : store) (n : str) : list link :=
  filter (fun l => match find_id s (lk_mbox l) with
                   | Some m => str_eqb (mb_name m) n
                   | None => false
                   end) (links s).

Definition obs_has (o : obs) (n : str) (uid msg : Z) : bool :=
  existsb (fun k => let '(mb, u, m) := k in
                    (u =? uid) && (m =? msg)
                    && existsb (fun im => (fst im =? mb) && str_eqb (snd im) n) (o_names o)) (o_links o).

Definition same_um (l l' : link) : bool := (lk_uid l' =? lk_uid l) && (lk_msg l' =? lk_msg l).

Definition lost_links (dA dL : dstore) (o : obs) : list okey :=
  flat_map (fun im =>
     let n := snd im in
     let must := if is_some (find_name (d_st dL) n)
                 then filter (fun l => existsb (same_um l) (links_named (d_st dL) n)) (links_named (d_st dA) n)
                 else links_named (d_st dA) n in
     map (fun l => (lk_mbox l, lk_uid l, lk_msg l))
         (filter (fun l => negb (obs_has o n (lk_uid l) (lk_msg l))) must))
   (o_names o).

Definition lost_msgs (dA dL : dstore) (o : obs) : list Z :=
  filter (fun m => existsb (fun l => lk_msg l =? m) (links (d_st dL))
                   && negb (existsb (fun k => snd k =? m) (o_links o)))
         (map lk_msg (links (d_st dA))).

Definition lost_mailboxes (dA dL : dstore) (o : obs) : list Z :=
  map mb_id (filter (fun m => is_some (find_name (d_st dL) (mb_name m))
                              && negb (existsb (fun im => str_eqb (snd im) (mb_name m)) (o_names o)))
                    (mboxes (d_st dA))).

Definition model_has (d : dstore) (n : str) (uid msg : Z) : bool :=
  existsb (fun l => (lk_uid l =? uid) && (lk_msg l =? msg)) (links_named (d_st d) n).

Definition phantom (cands : list dstore) (o : obs) : list okey :=
  filter (fun k => let '(mb, u, m) := k in
                   negb (existsb (fun im => (fst im =? mb)
                                            && existsb (fun d => model_has d (snd im) u m) cands) (o_names o)))
         (o_links o).

Definition incomplete (dL : dstore) (o : obs) : list Z :=
  filter (fun m => match find (fun r => m_id r =? m) (d_msgs dL) with
                   | None => false
                   | Some r => negb (existsb (fun t => let '(i, h, p) := t in
                                       (i =? m) && (h =? Z.of_nat (sh_hdr (m_want r)))
                                       && (p =? Z.of_nat (length (sh_parts (m_want r))))) (o_msgs o))
                   end)
         (map (fun k => snd k) (o_links o)).

Definition crash_spec_b (dA dL : dstore) (cands : list dstore) (o : obs) : bool :=
  match lost_links dA dL o, lost_msgs dA dL o, lost_mailboxes dA dL o, phantom cands o, incomplete dL o with
  | [], [], [], [], [] => true
  | _, _, _, _, _ => false
  end.

(** the observation a model state would give *)
Definition obs_of (d : dstore) : obs :=
  mkObs (map (fun m => (mb_id m, mb_name m)) (mboxes (d_st d)))
        (map (fun l => (lk_mbox l, lk_uid l, lk_msg l)) (links (d_st d)))
        (map (fun r => (m_id r, Z.of_nat (m_hdr r), Z.of_nat (m_parts r))) (d_msgs d)).
