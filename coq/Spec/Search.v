(** C19 — abstract reading of RFC 3501 SEARCH (section 6.4.4).

    [key] is the AST of search keys, [key_tokens]/[print_prog] their concrete
    syntax, [spec_eval] the set semantics over the CLIENT's view of the
    mailbox ([smsg]: uid, flag SET, message text as BODY[] serves it, internal
    date).  A program that contains a key the server does not support
    ([KUnknown]) must be answered with an error. *)
From Coq Require Import String Ascii List Bool Arith NArith ZArith.
From Raven Require Import Base.GoStr Model.Search.
From Raven Require Spec.SeqSet.
Import ListNotations.
Local Open Scope Z_scope.

(** sequence sets and UID sets: the AST, concrete syntax and denotation of
    Spec/SeqSet.v (shared with C09): [Spec.SeqSet.seqset], [print], [denote s top i] *)
Notation seqset := Spec.SeqSet.seqset.
Inductive flagkey := FAnswered | FDeleted | FDraft | FFlagged | FSeen | FRecent.
Inductive hdrkey := HBcc | HCc | HFrom | HSubject | HTo.
(** day digits, month 1..12, year digits *)
Definition sdate := (str * Z * str)%type.

Inductive key :=
| KAll
| KHas (f : flagkey)            (* ANSWERED DELETED DRAFT FLAGGED SEEN RECENT *)
| KUn (f : flagkey)             (* UNANSWERED ... UNSEEN, OLD *)
| KNew
| KKeyword (w : str) | KUnkeyword (w : str)
| KSeq (s : seqset) | KUid (s : seqset)
| KHdr (h : hdrkey) (v : str) | KHeader (f v : str) | KBody (v : str) | KText (v : str)
| KLarger (n : str) | KSmaller (n : str)
| KDate (sent : bool) (c : dcmp) (d : sdate)
| KNot (k : key) | KOr (a b : key) | KGroup (l : list key)
| KUnknown (name : str).

(** ** the client's view of a message *)
Record smsg := mk_smsg { s_uid : Z; s_flags : list str; s_text : str; s_idate : date }.

(** ** concrete syntax *)
Definition flag_name (f : flagkey) : str :=
  match f with
  | FAnswered => flag_answered | FDeleted => flag_deleted | FDraft => flag_draft
  | FFlagged => flag_flagged | FSeen => flag_seen | FRecent => flag_recent
  end.
Definition has_token (f : flagkey) : str :=
  match f with
  | FAnswered => S_ "ANSWERED" | FDeleted => S_ "DELETED" | FDraft => S_ "DRAFT"
  | FFlagged => S_ "FLAGGED" | FSeen => S_ "SEEN" | FRecent => S_ "RECENT"
  end.
Definition un_token (f : flagkey) : str :=
  match f with
  | FAnswered => S_ "UNANSWERED" | FDeleted => S_ "UNDELETED" | FDraft => S_ "UNDRAFT"
  | FFlagged => S_ "UNFLAGGED" | FSeen => S_ "UNSEEN" | FRecent => S_ "OLD"
  end.
Definition hdr_token (h : hdrkey) : str :=
  match h with HBcc => S_ "BCC" | HCc => S_ "CC" | HFrom => S_ "FROM" | HSubject => S_ "SUBJECT" | HTo => S_ "TO" end.
Definition hdr_field (h : hdrkey) : str :=
  match h with HBcc => S_ "Bcc" | HCc => S_ "Cc" | HFrom => S_ "From" | HSubject => S_ "Subject" | HTo => S_ "To" end.
Definition hdr_kw (h : hdrkey) : kw :=
  match h with HBcc => KwBCC | HCc => KwCC | HFrom => KwFROM | HSubject => KwSUBJECT | HTo => KwTO end.

Definition quote (v : str) : str := dq :: v ++ [dq].

Definition month_print : list str :=
  [S_ "Jan"; S_ "Feb"; S_ "Mar"; S_ "Apr"; S_ "May"; S_ "Jun"; S_ "Jul"; S_ "Aug"; S_ "Sep"; S_ "Oct"; S_ "Nov"; S_ "Dec"].
Definition print_date (d : sdate) : str :=
  let '(dd, mon, yyyy) := d in
  dd ++ minus :: nth (Z.to_nat (mon - 1)) month_print (S_ "???") ++ minus :: yyyy.
Definition date_token (sent : bool) (c : dcmp) : str :=
  (if sent then S_ "SENT" else []) ++
  match c with CBefore => S_ "BEFORE" | COn => S_ "ON" | CSince => S_ "SINCE" end.

Fixpoint key_tokens (k : key) : list str :=
  match k with
  | KAll => [S_ "ALL"]
  | KHas f => [has_token f]
  | KUn f => [un_token f]
  | KNew => [S_ "NEW"]
  | KKeyword w => [S_ "KEYWORD"; w]
  | KUnkeyword w => [S_ "UNKEYWORD"; w]
  | KSeq s => [Spec.SeqSet.print s]
  | KUid s => [S_ "UID"; Spec.SeqSet.print s]
  | KHdr h v => [hdr_token h; quote v]
  | KHeader f v => [S_ "HEADER"; quote f; quote v]
  | KBody v => [S_ "BODY"; quote v]
  | KText v => [S_ "TEXT"; quote v]
  | KLarger n => [S_ "LARGER"; n]
  | KSmaller n => [S_ "SMALLER"; n]
  | KDate sent c d => [date_token sent c; print_date d]
  | KNot k' => S_ "NOT" :: key_tokens k'
  | KOr a b => S_ "OR" :: key_tokens a ++ key_tokens b
  | KGroup l => [lpar :: join (flat_map key_tokens l) [sp] ++ [rpar]]
  | KUnknown name => [name]
  end.

Definition prog_tokens (ks : list key) : list str := flat_map key_tokens ks.
Definition print_prog (ks : list key) : str := join (prog_tokens ks) [sp].

(** ** semantics *)
(** when two flag names denote the same flag — ONE definition: RFC 3501 section 9,
    flag names are case-insensitive (ASCII).  Tied to Model.Search.flag_eqb by
    Proof/SearchAtoms.flag_cmp_agree. *)
Definition flag_same (f flag : str) : bool := equal_fold f flag.
Definition has_flag (m : smsg) (f : str) : bool := existsb (fun g => flag_same g f) (s_flags m).

(** header fields of the text: the header lines (up to the first empty one)
    are grouped into fields, a line starting with SP / HTAB continues the
    previous field (RFC 5322 unfolding: the line break is removed, nothing
    else).  A field is kept as (first line, text of its continuation lines). *)
Definition is_wsp_line (line : str) : bool :=
  match line with c :: _ => Ascii.eqb c sp || Ascii.eqb c tab | [] => false end.
Fixpoint unfold_fields (lines : list str) (cur : option (str * str)) : list (str * str) :=
  match lines with
  | [] => match cur with Some f => [f] | None => [] end
  | line :: ls =>
      if is_wsp_line line
      then unfold_fields ls (match cur with Some (a, c) => Some (a, c ++ line) | None => None end)
      else (match cur with Some f => [f] | None => [] end) ++ unfold_fields ls (Some (line, []))
  end.
Definition fields_of (text : str) : list (str * str) := unfold_fields (header_lines (split_byte text LF)) None.

(** the field's name is [name] (case-insensitively): the line starts with name ":" *)
Definition is_field (name : str) (first_line : str) : bool := has_prefix (to_upper first_line) (to_upper name ++ [colon]).
(** what comes after the colon, unfolded *)
Definition field_value (f : str * str) : str := value_after_colon (fst f) ++ snd f.
(** the values of all occurrences of the field, in order *)
Definition field_values (text name : str) : list str :=
  map field_value (filter (fun f => is_field name (fst f)) (fields_of text)).

(** HEADER / FROM / ...: some occurrence of the field contains the string *)
Definition field_matches (text name v : str) : bool :=
  existsb (fun value => contains (to_upper value) (to_upper v)) (field_values text name).

(** the body: what follows the first empty line *)
Definition body_of (text : str) : option str :=
  match index text [CR; LF; CR; LF] with
  | Some i => Some (skipn (i + 4) text)
  | None => match index text [LF; LF] with
            | Some i => Some (skipn (i + 2) text)
            | None => None
            end
  end.

(** the date of the message's first Date: field, as written (RFC 3501:
    "disregarding time and timezone"), when its value is an RFC 5322 date-time *)
(** RFC 5322 date-time: the parts are separated by folding white space, SP or
    HTAB alike ([wsp_to_sp]) *)
Definition rfc5322_date (v : str) : option date := mail_date (trim_space (wsp_to_sp v)).
Definition sent_date (text : str) : option date :=
  match field_values text (S_ "Date") with
  | v :: _ => rfc5322_date v
  | [] => None
  end.

Definition sdate_val (d : sdate) : option date :=
  let '(dd, mon, yyyy) := d in
  if (1 <=? mon) && (mon <=? 12) then mk_date dd (nth (Z.to_nat (mon - 1)) month_print []) yyyy else None.

Definition date_rel (c : dcmp) (a b : date) : bool :=
  match c, date_cmp a b with
  | CBefore, Lt => true
  | COn, Eq => true
  | CSince, (Eq | Gt) => true
  | _, _ => false
  end.

(** the keys that read the text, on the client's view *)
Definition spec_text_key (k : key) (m : smsg) : bool :=
  match k with
  | KHdr h v => field_matches (s_text m) (hdr_field h) v
  | KHeader f v => field_matches (s_text m) f v
  | KBody v => match body_of (s_text m) with Some b => contains (to_upper b) (to_upper v) | None => false end
  | KText v => contains (to_upper (s_text m)) (to_upper v)
  | KLarger n => digits_val n 0 <? Z.of_nat (length (s_text m))
  | KSmaller n => Z.of_nat (length (s_text m)) <? digits_val n 0
  | KDate true c d =>
      match sent_date (s_text m), sdate_val d with
      | Some a, Some b => date_rel c a b
      | _, _ => false
      end
  | _ => false
  end.

Section Eval.
(** [nseq]: number of messages ( = the value of "*" in a sequence set);
    [maxuid]: the largest UID ("*" in a UID set) *)
Variables (nseq maxuid : Z).

Fixpoint spec_eval (k : key) (i : Z) (m : smsg) {struct k} : bool :=
  match k with
  | KAll => true
  | KHas f => has_flag m (flag_name f)
  | KUn f => negb (has_flag m (flag_name f))
  | KNew => has_flag m flag_recent && negb (has_flag m flag_seen)
  | KKeyword w => has_flag m w
  | KUnkeyword w => negb (has_flag m w)
  | KSeq s => Spec.SeqSet.denote s nseq i
  | KUid s => Spec.SeqSet.denote s maxuid (s_uid m)
  | KDate false c d => match sdate_val d with Some b => date_rel c (s_idate m) b | None => false end
  | KHdr _ _ | KHeader _ _ | KBody _ | KText _ | KLarger _ | KSmaller _ | KDate true _ _ => spec_text_key k m
  | KNot k' => negb (spec_eval k' i m)
  | KOr a b => spec_eval a i m || spec_eval b i m
  | KGroup l => forallb (fun k' => spec_eval k' i m) l
  | KUnknown _ => false
  end.

Definition spec_all (ks : list key) (i : Z) (m : smsg) : bool := forallb (fun k => spec_eval k i m) ks.
End Eval.

Fixpoint supported (k : key) : bool :=
  match k with
  | KUnknown _ => false
  | KNot k' => supported k'
  | KOr a b => supported a && supported b
  | KGroup l => forallb supported l
  | _ => true
  end.

(** messages numbered from [i] *)
Fixpoint number_from {A} (i : Z) (l : list A) : list (Z * A) :=
  match l with [] => [] | x :: l' => (i, x) :: number_from (i + 1) l' end.
Definition numbered {A} (l : list A) : list (Z * A) := number_from 1 l.

Definition max_uid (mb : list smsg) : Z := Spec.SeqSet.max_uid (map s_uid mb).

Inductive sresult := SErr | SOk (l : list Z).

(** SEARCH: ascending sequence numbers of the messages that satisfy every key *)
Definition spec_search_list (ks : list key) (mb : list smsg) : list Z :=
  map fst (filter (fun '(i, m) => spec_all (Z.of_nat (length mb)) (max_uid mb) ks i m) (numbered mb)).
(** UID SEARCH: their UIDs *)
Definition spec_uid_search_list (ks : list key) (mb : list smsg) : list Z :=
  map (fun '(i, m) => s_uid m) (filter (fun '(i, m) => spec_all (Z.of_nat (length mb)) (max_uid mb) ks i m) (numbered mb)).

Definition spec_search (ks : list key) (mb : list smsg) : sresult :=
  if forallb supported ks then SOk (spec_search_list ks mb) else SErr.
Definition spec_uid_search (ks : list key) (mb : list smsg) : sresult :=
  if forallb supported ks then SOk (spec_uid_search_list ks mb) else SErr.

(** what the server sees of the client's view: flags joined by one space *)
(** [n]: number of messages, [mu]: UID of the last one (what HandleSearch stores in every entry) *)
Definition to_msg_in (n mu : Z) (im : Z * smsg) : msg :=
  let '(i, m) := im in mk_msg i (s_uid m) (join (s_flags m) [sp]) (s_text m) (s_idate m) n mu.
Definition last_uid (mb : list smsg) : Z := s_uid (last mb (mk_smsg 0 [] [] (0, 0, 0))).
Definition to_msg (mb : list smsg) : Z * smsg -> msg := to_msg_in (Z.of_nat (length mb)) (last_uid mb).
Definition to_msgs (mb : list smsg) : list msg := map (to_msg mb) (numbered mb).

(** executable comparison of a reply with the specification *)
Definition list_z_eqb (a b : list Z) : bool :=
  (length a =? length b)%nat && forallb (fun '(x, y) => x =? y) (combine a b).
Definition reply_ok (r : reply) (s : sresult) : bool :=
  match r, s with
  | ROk l, SOk l' => list_z_eqb l l'
  | (RNo | RBad), SErr => true
  | _, _ => false
  end.
