(** C03 — what "UIDs are unique, ascending, never reused; UIDNEXT tells the
    truth; UIDVALIDITY is fresh" means on a store with its ghost log, the
    executable form of it ([spec_b]), the scope predicate and the classifier of
    the known finding classes. *)
From Coq Require Import String Ascii List Bool ZArith.
From Raven Require Import Base.GoStr Model.Store Model.Ops.
Import ListNotations.
Local Open Scope Z_scope.

(** What a client can see: under mailbox name [n] with UIDVALIDITY [v], UID [u]
    denotes message instance [g]. *)
Definition visible (s : store) (n : str) (v u g : Z) : Prop :=
  exists m l, In m (mboxes s) /\ In l (links s) /\ mb_name m = n /\ mb_validity m = v /\
              lk_mbox l = mb_id m /\ lk_uid l = u /\ lk_gid l = g.

(** the (name, UIDVALIDITY) pairs that exist in a state, with their UIDNEXT *)
Definition advertises (s : store) (n : str) (v nx : Z) : Prop :=
  exists m, In m (mboxes s) /\ mb_name m = n /\ mb_validity m = v /\ mb_next m = nx.

(** "no UID is ever given to a second message": in the log of everything that
    was ever visible, (name, validity, uid) determines the instance *)
Definition uid_functional (s : store) : Prop :=
  forall e1 e2, In e1 (glog s) -> In e2 (glog s) ->
    ge_name e1 = ge_name e2 -> ge_validity e1 = ge_validity e2 -> ge_uid e1 = ge_uid e2 ->
    ge_gid e1 = ge_gid e2.

(** "UIDNEXT is greater than every UID" that was ever visible under the
    mailbox's current (name, validity) — existing or expunged *)
Definition uidnext_truthful (s : store) : Prop :=
  forall m e, In m (mboxes s) -> In e (glog s) ->
    ge_name e = mb_name m -> ge_validity e = mb_validity m -> ge_uid e < mb_next m.

(** the ghost log is complete: every visible message is in it *)
Definition visible_logged (s : store) : Prop :=
  forall m l, In m (mboxes s) -> In l (links s) -> lk_mbox l = mb_id m ->
    In (mkGe (mb_name m) (mb_validity m) (lk_uid l) (lk_gid l)) (glog s).

Definition store_unique (s : store) : Prop :=
  NoDup (map (fun l => (lk_mbox l, lk_uid l)) (links s)) /\ NoDup (map mb_name (mboxes s)).

(** ---- executable form -------------------------------------------------------- *)

Definition key_eqb (e : gentry) (m : mbox) : bool :=
  str_eqb (ge_name e) (mb_name m) && (ge_validity e =? mb_validity m).

Definition truthful_b (s : store) : bool :=
  forallb (fun m => forallb (fun e => implb (key_eqb e m) (ge_uid e <? mb_next m)) (glog s)) (mboxes s).

Definition functional_b (s : store) : bool :=
  forallb (fun e1 => forallb (fun e2 =>
    implb (str_eqb (ge_name e1) (ge_name e2) && (ge_validity e1 =? ge_validity e2) && (ge_uid e1 =? ge_uid e2))
          (ge_gid e1 =? ge_gid e2)) (glog s)) (glog s).

Definition spec_b (s : store) : bool := truthful_b s && functional_b s.

(** ---- scope and finding classes ------------------------------------------------ *)

(** Retired: no operation is classified any more ([step_class] is constantly
    [None]).  CSameSecond was the class "UIDVALIDITY = wall-clock second"; the
    classes CCopyStale, CCopyReuse, CMoveMaxUid, CRenameInbox went in fix wave 1. *)
Inductive fclass :=
| CSameSecond.    (* a (name, UIDVALIDITY) pair used before is given out again *)

Definition used_b (s : store) (n : str) (v : Z) : bool :=
  existsb (fun '(n', v') => str_eqb n n' && (v =? v')) (gused s).

Definition is_inbox (n : str) : bool := str_eqb (to_upper n) INBOX.

(** scope of the positive theorems: hierarchy-free operations (mailbox
    hierarchies — implied parents, renamed children — belong to C11), and a plain
    RENAME a b only onto a name that this mailbox row did not carry before
    (RENAME keeps the row's UIDVALIDITY; "a -> b -> a" brings back a (name,
    UIDVALIDITY) pair with the same, continued UIDs — harmless for clients, but
    outside the literal "never used with that name before", and not proved) *)
Definition flat_step (s : store) (o : op) : bool :=
  match o with
  | OCreate n _ => negb (contains_byte (trim_suffix n [SLASH]) SLASH)
  | ORename a b _ => negb (contains_byte b SLASH) && negb (has_prefix b (a ++ [SLASH]))
                     && match children s a with [] => true | _ => false end
                     && (is_inbox a || match find_name s a with
                                       | Some m => negb (used_b s b (mb_validity m))
                                       | None => true
                                       end)
  | _ => true
  end.

Definition is_ok (r : result) : bool := match r with ROk => true | _ => false end.

(** No finding class is left: every defect that had one is repaired
    (fixes/c03-*.patch).  The type and the function are kept for the callers. *)
Definition step_class (s : store) (o : op) : option fclass := None.

(** first step of a history that falls into a class: (index, class) *)
Fixpoint classify_from (i : nat) (s : store) (h : list op) : option (nat * fclass) :=
  match h with
  | [] => None
  | o :: r =>
    match step_class s o with
    | Some c => Some (i, c)
    | None => classify_from (S i) (fst (step s o)) r
    end
  end.

Fixpoint flat_from (s : store) (h : list op) : bool :=
  match h with
  | [] => true
  | o :: r => flat_step s o && flat_from (fst (step s o)) r
  end.

Definition classify (s : store) (h : list op) : option fclass :=
  option_map snd (classify_from 0 s h).

(** a history in scope and outside every finding class *)
Definition clean (s : store) (h : list op) : bool :=
  flat_from s h && match classify_from 0 s h with None => true | Some _ => false end.

(** states after every prefix (for per-step comparison with the implementation) *)
Fixpoint trace (s : store) (h : list op) : list (store * result) :=
  match h with
  | [] => []
  | o :: r => let sr := step s o in sr :: trace (fst sr) r
  end.
