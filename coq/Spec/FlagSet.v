(** C10 — abstract reading of STORE's data items: flags of a message are a
    finite SET of atoms; [\Recent] cannot be named by a client (RFC 3501 2.3.2:
    "This flag can not be altered by the client").

    (sets of flag KEYS, see [fkey])
      FLAGS  new  =>  new \ {\Recent}
      +FLAGS new  =>  cur ∪ (new \ {\Recent})
      -FLAGS new  =>  cur \ (new \ {\Recent})                                  *)
From Coq Require Import String Ascii List Bool.
From Raven Require Import Base.GoStr Model.Flags.
Import ListNotations.

Inductive item := Replace | Add | Remove.

Definition item_of (s : str) : option item :=
  if str_eqb s IT_FLAGS then Some Replace
  else if str_eqb s IT_ADD then Some Add
  else if str_eqb s IT_DEL then Some Remove
  else None.

(** Flag names are case-insensitive (RFC 3501 section 9): a flag is identified
    by its KEY, the ASCII upper-casing of its spelling; a flag list denotes the
    set of the keys of its atoms. *)
Definition fkey (f : str) : str := to_upper f.
Definition keys (l : list str) : list str := map fkey l.
Arguments fkey : simpl never.

(** key [k] is named by the client *)
Definition named (new : list str) (k : str) : Prop := In k (keys new) /\ k <> fkey RECENT.

(** membership of key [k] in the flag set after the update *)
Definition apply_rel (it : item) (cur new : list str) (k : str) : Prop :=
  match it with
  | Replace => named new k
  | Add => In k (keys cur) \/ named new k
  | Remove => In k (keys cur) /\ ~ named new k
  end.

(** the same, decidable (used as the executable oracle) *)
Definition named_b (new : list str) (k : str) : bool := mem k (keys new) && negb (str_eqb k (fkey RECENT)).
Definition apply_b (it : item) (cur new : list str) (k : str) : bool :=
  match it with
  | Replace => named_b new k
  | Add => mem k (keys cur) || named_b new k
  | Remove => mem k (keys cur) && negb (named_b new k)
  end.

Fixpoint nodup_b (l : list str) : bool :=
  match l with [] => true | x :: l' => negb (mem x l') && nodup_b l' end.

(** [out] is a correct result: for every key of the finite universe
    cur ∪ new ∪ out, membership of the key in [out] is [apply_b]; no flag twice
    (in any spelling); every atom of [out] is a spelling the client or the
    store supplied *)
Definition apply_ok (it : item) (cur new out : list str) : bool :=
  forallb (fun k => Bool.eqb (mem k (keys out)) (apply_b it cur new k)) (keys (cur ++ new ++ out))
  && nodup_b (keys out) && incl_b out (cur ++ new).
