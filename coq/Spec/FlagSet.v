(** C10 — abstract reading of STORE's data items: flags of a message are a
    finite SET of atoms; [\Recent] cannot be named by a client (RFC 3501 2.3.2:
    "This flag can not be altered by the client").

      FLAGS  new  =>  new \ {\Recent}
      +FLAGS new  =>  cur ∪ (new \ {\Recent})
      -FLAGS new  =>  cur \ (new \ {\Recent})                                  *)
From Coq Require Import String Ascii List Bool.
From Raven Require Import Base.GoStr Model.Flags.
Import ListNotations.

Inductive item := Replace | Add | Remove.

Definition item_of (s : str) : option item :=
  if str_eqb s IT_FLAGS then Some Replace
  else if str_eqb s IT_ADD then Some Add
  else if str_eqb s IT_DEL then Some Remove
  else None.

(** [f] is named by the client *)
Definition named (new : list str) (f : str) : Prop := In f new /\ f <> RECENT.

(** membership of atom [f] in the flag set after the update *)
Definition apply_rel (it : item) (cur new : list str) (f : str) : Prop :=
  match it with
  | Replace => named new f
  | Add => In f cur \/ named new f
  | Remove => In f cur /\ ~ named new f
  end.

(** the same, decidable (used as the executable oracle) *)
Definition named_b (new : list str) (f : str) : bool := mem f new && negb (str_eqb f RECENT).
Definition apply_b (it : item) (cur new : list str) (f : str) : bool :=
  match it with
  | Replace => named_b new f
  | Add => mem f cur || named_b new f
  | Remove => mem f cur && negb (named_b new f)
  end.

(** [out] is a correct result: for every atom of the finite universe
    cur ∪ new ∪ out, membership in [out] is [apply_b]; and no duplicates *)
Fixpoint nodup_b (l : list str) : bool :=
  match l with [] => true | x :: l' => negb (mem x l') && nodup_b l' end.

Definition apply_ok (it : item) (cur new out : list str) : bool :=
  forallb (fun f => Bool.eqb (mem f out) (apply_b it cur new f)) (cur ++ new ++ out) && nodup_b out.
