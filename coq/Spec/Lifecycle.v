(** C20 — what "the session ends when its client is gone or silent" means for
    a handler given as a transition system over read outcomes. *)
From Coq Require Import List Bool NArith Arith.
From Raven Require Import Base.GoStr Model.Lifecycle Model.LifecycleSrv.
Import ListNotations.

(** the client is gone: every further read fails with EOF or another error;
    the client is silent: every further read runs into its deadline;
    [no_data]: any mixture of the three (nothing is ever received again) *)
Definition is_gone (e : event) : bool := match e with Eof | ReadErr => true | _ => false end.
Definition is_silent (e : event) : bool := match e with Timeout => true | _ => false end.
Definition is_nodata (e : event) : bool := match e with Data _ _ => false | _ => true end.

Definition all_gone (es : list event) := forallb is_gone es.
Definition all_silent (es : list event) := forallb is_silent es.
Definition no_data (es : list event) := forallb is_nodata es.

(** bound on the number of further read calls before the handler has returned *)
Definition imap_steps_bound := 2.
Definition lmtp_steps_bound := 2.
Definition sasl_steps_bound := 1.

Definition i_done (s : istate) : bool := imode_eqb (i_mode s) IDone.
Definition l_done (s : lstate) : bool := match l_mode s with LDone => true | _ => false end.
Definition s_done (m : smode) : bool := match m with SDone => true | _ => false end.

(** executable spec used by the correspondence check: given the state the
    model is in when the client goes away, must the handler have returned? *)
Inductive finding := IdleIgnoresReadErrors | IdleNoDeadline.

(** the states in which raven violates the property *)
Definition i_classify (s : istate) (gone : bool) : option finding :=
  match i_mode s with
  | IIdle => Some (if gone then IdleIgnoresReadErrors else IdleNoDeadline)
  | _ => None
  end.

(** time (ms) until the handler has returned when the client stays silent:
    the sum of the deadlines of the read sites passed; [None] = never within
    the fuel *)
Fixpoint i_silence_ms (fuel : nat) (s : istate) : option N :=
  match ideadline (i_mode s) with
  | None => Some 0%N
  | Some d =>
      match fuel with
      | O => None
      | S f => match i_silence_ms f (fst (istep s Timeout)) with
               | Some t => Some (d + t)%N
               | None => None
               end
      end
  end.

Fixpoint l_silence_ms (cf : lconf) (fuel : nat) (s : lstate) : option N :=
  match ldeadline cf (l_mode s) with
  | None => Some 0%N
  | Some d =>
      match fuel with
      | O => None
      | S f => match l_silence_ms cf f (fst (lstep cf s Timeout)) with
               | Some t => Some (d + t)%N
               | None => None
               end
      end
  end.

(** 5 min (literal) + 30 min (command loop) *)
Definition imap_silence_bound : N := 2100000%N.

(** reachability by a command prefix *)
Definition i_reachable (s : istate) : Prop :=
  exists tls prefix, fst (irun (i_init tls) prefix) = s.
Definition l_reachable (cf : lconf) (s : lstate) : Prop :=
  exists prefix, fst (lrun cf l_init prefix) = s.

(** service side: all outputs to Connect events of a history *)
Fixpoint connect_outs (k : svc) (s : srv) (h : list sev) : list sout :=
  match h with
  | [] => []
  | e :: h' =>
      let '(s1, o) := sstep_srv k s e in
      match e with Connect => o ++ connect_outs k s1 h' | _ => connect_outs k s1 h' end
  end.
