(** C20 — what "the session ends when its client is gone or silent" means for
    a handler given as a transition system over read outcomes. *)
From Coq Require Import List Bool NArith Arith.
From Raven Require Import Base.GoStr Model.Lifecycle Model.LifecycleSrv Model.LifecycleWrite Model.LifecycleSaslLoop.
Import ListNotations.

(** the client is gone: every further read fails with EOF or another error;
    the client is silent: every further read runs into its deadline;
    [no_data]: any mixture of the three (nothing is ever received again) *)
Definition is_gone (e : event) : bool := match e with Eof | ReadErr => true | _ => false end.
Definition is_silent (e : event) : bool := match e with Timeout => true | _ => false end.
Definition is_nodata (e : event) : bool := match e with Data _ _ => false | _ => true end.

Definition all_gone (es : list event) := forallb is_gone es.
Definition all_silent (es : list event) := forallb is_silent es.
Definition no_data (es : list event) := forallb is_nodata es.

(** bound on the number of further read calls before the handler has returned *)
Definition imap_steps_bound := 2.
Definition lmtp_steps_bound := 2.
Definition sasl_steps_bound := 1.

Definition i_done (s : istate) : bool := imode_eqb (i_mode s) IDone.
Definition l_done (s : lstate) : bool := match l_mode s with LDone => true | _ => false end.
Definition s_done (m : smode) : bool := match m with SDone => true | _ => false end.

(** time (ms) until the handler has returned when the client stays silent:
    the sum of the deadlines of the read sites passed; [None] = never within
    the fuel *)
Fixpoint i_silence_ms (fuel : nat) (s : istate) : option N :=
  match ideadline (i_mode s) with
  | None => Some 0%N
  | Some d =>
      match fuel with
      | O => None
      | S f =>
          let '(s1, r) := istep s Timeout in
          if existsb is_close r then Some d        (* the server closed the connection: the next read fails at once *)
          else match i_silence_ms f s1 with
               | Some t => Some (d + t)%N
               | None => None
               end
      end
  end.

Fixpoint l_silence_ms (cf : lconf) (fuel : nat) (s : lstate) : option N :=
  match ldeadline cf (l_mode s) with
  | None => Some 0%N
  | Some d =>
      match fuel with
      | O => None
      | S f => match l_silence_ms cf f (fst (lstep cf s Timeout)) with
               | Some t => Some (d + t)%N
               | None => None
               end
      end
  end.

(** 5 min (literal) + 30 min (command loop) *)
Definition imap_silence_bound : N := 2100000%N.

(** reachability by a command prefix *)
Definition i_reachable (s : istate) : Prop :=
  exists tls prefix, fst (irun (i_init tls) prefix) = s.
Definition l_reachable (cf : lconf) (s : lstate) : Prop :=
  exists prefix, fst (lrun cf l_init prefix) = s.

(** service side: all outputs to Connect events of a history *)
Fixpoint connect_outs (k : svc) (s : srv) (h : list sev) : list sout :=
  match h with
  | [] => []
  | e :: h' =>
      let '(s1, o) := sstep_srv k s e in
      match e with Connect => o ++ connect_outs k s1 h' | _ => connect_outs k s1 h' end
  end.

(** ** what the correspondence check observes, computed from the model *)

(** deadline requested at the read site of a mode (IDLE: the 50 ms poll read) *)
Definition i_arm (m : imode) : option N :=
  match m with
  | IIdle => Some 50%N
  | IHandshake => None            (* no SetReadDeadline before Handshake: the loop's deadline stays *)
  | m => ideadline m
  end.

(** per consumed event: the deadline armed before it and the replies to it;
    nothing is consumed once the handler has returned *)
Fixpoint i_observe (s : istate) (es : list event) : list (option N * list reply) :=
  match es with
  | [] => []
  | e :: es' =>
      if i_done s then [] else
      let '(s1, r) := istep s e in (i_arm (i_mode s), r) :: i_observe s1 es'
  end.

Fixpoint l_observe (cf : lconf) (s : lstate) (es : list event) : list (list lreply) :=
  match es with
  | [] => []
  | e :: es' => if l_done s then [] else let '(s1, r) := lstep cf s e in r :: l_observe cf s1 es'
  end.

Fixpoint s_observe (shut : bool) (m : smode) (es : list event) : list nat :=
  match es with
  | [] => []
  | e :: es' => if s_done m then [] else let '(m1, r) := sstep shut m e in r :: s_observe shut m1 es'
  end.

(** collapse runs of equal consecutive IDLE poll deadlines *)
Fixpoint collapse50 (l : list N) : list N :=
  match l with
  | a :: ((b :: _) as t) => if (N.eqb a 50 && N.eqb b 50)%bool then collapse50 t else a :: collapse50 t
  | l => l
  end.

Fixpoint group {A} (sizes : list nat) (l : list (list A)) : list (list A) :=
  match sizes with
  | [] => []
  | n :: sizes' => concat (firstn n l) :: group sizes' (skipn n l)
  end.

Definition reply_eqb (a b : reply) : bool :=
  match a, b with RCont, RCont | RTag, RTag | RBye, RBye | RStarBad, RStarBad | RClose, RClose => true | _, _ => false end.

Definition lreply_matches (m : lreply) (digit : N) : bool :=
  match m with
  | L2 => N.eqb digit 2 | L3 => N.eqb digit 3 | L4 => N.eqb digit 4 | L5 => N.eqb digit 5
  | LDeliv => (N.eqb digit 2 || N.eqb digit 5)%bool
  end.

Fixpoint list_eqb {A B} (f : A -> B -> bool) (a : list A) (b : list B) : bool :=
  match a, b with
  | [], [] => true
  | x :: a', y :: b' => (f x y && list_eqb f a' b')%bool
  | _, _ => false
  end.

Definition opt_list {A} (l : list (option A)) : list A :=
  flat_map (fun o => match o with Some x => [x] | None => [] end) l.

(** verdict word for one IMAP scenario: bit0 replies agree, bit1 deadline log
    agrees, bit2 the model says the handler has returned *)
Definition i_verdict (tls : bool) (es : list event) (sizes : list nat)
           (impl_replies : list (list reply)) (impl_log : list N) : N :=
  let obs := i_observe (i_init tls) es in
  let r_ok := list_eqb (list_eqb reply_eqb) (group sizes (map (fun x => real_replies (snd x)) obs)) impl_replies in
  let l_ok := list_eqb N.eqb (collapse50 (opt_list (map fst obs))) (collapse50 impl_log) in
  let done := i_done (fst (irun (i_init tls) es)) in
  ((if r_ok then 1 else 0) + (if l_ok then 2 else 0) + (if done then 4 else 0))%N.

Definition l_verdict (cf : lconf) (es : list event) (sizes : list nat)
           (impl_replies : list (list N)) (impl_log : list N) : N :=
  let obs := l_observe cf l_init es in
  let r_ok := list_eqb (list_eqb lreply_matches) (group sizes obs) impl_replies in
  let l_ok := (forallb (N.eqb (lc_timeout_ms cf)) impl_log && negb (Nat.eqb (length impl_log) 0))%bool in
  let done := l_done (fst (lrun cf l_init es)) in
  ((if r_ok then 1 else 0) + (if l_ok then 2 else 0) + (if done then 4 else 0))%N.

Definition s_verdict (es : list event) (sizes : list nat) (impl_counts : list nat) (impl_log : list N) : N :=
  let obs := s_observe false SCmd es in
  let r_ok := list_eqb Nat.eqb (map (fun l => fold_right plus 0 l) (group sizes (map (fun n => [n]) obs))) impl_counts in
  (* every armed deadline is 30 s, and there are exactly as many as the loop model arms:
     the initial one and one per line of two or more fields (NOT for the `continue` path) *)
  let lines := flat_map (fun e => match e with Data l _ => [l] | _ => [] end) es in
  let l_ok := list_eqb N.eqb impl_log (repeat read_timeout (arms_of tree_loop lines)) in
  let done := s_done (fst (srun false SCmd es)) in
  ((if r_ok then 1 else 0) + (if l_ok then 2 else 0) + (if done then 4 else 0))%N.

(** service histories: 0 accepted, 1 refused, 2 ended, 3 shutdown returned,
    4 shutdown blocked, 5 shutdown panicked, 6 nothing *)
Definition sout_code (o : sout) : N :=
  match o with OAccepted => 0 | ORefused => 1 | OEnded => 2 | OShutReturned => 3
             | OShutBlocked => 4 | OShutPanic => 5 | ONone => 6 end%N.
Definition srv_codes (k : svc) (h : list sev) : list N := map sout_code (snd (srv_run k srv_init h)).

(** ** the client stops reading: [prefix] is run with every write taken, then
    [stall] with every write blocked. Verdict: bit0 the model says the handler
    has returned, bit1 every write deadline the handler asked for is the one
    of the table (and at least one was asked for). *)
Definition with_w (w : wout) (es : list event) : list (event * wout) := map (fun e => (e, w)) es.

Definition wlog_ok (k : service) (cf : lconf) (wlog : list N) : bool :=
  match write_deadline k cf with
  | Some d => (forallb (N.eqb d) wlog && negb (Nat.eqb (length wlog) 0))%bool
  | None => false
  end.

Definition no_conf : lconf := mk_lc Z0 O N0.

Definition i_stall_verdict (tls : bool) (prefix stall : list event) (wlog : list N) : N :=
  let s := fst (irun (i_init tls) prefix) in
  let done := i_done (fst (irun_w false s (with_w WBlocked stall))) in
  ((if done then 1 else 0) + (if wlog_ok SImap no_conf wlog then 2 else 0))%N.

Definition l_stall_verdict (cf : lconf) (prefix stall : list event) (wlog : list N) : N :=
  let s := fst (lrun cf l_init prefix) in
  let done := l_done (fst (lrun_w cf false s (with_w WBlocked stall))) in
  ((if done then 1 else 0) + (if wlog_ok SLmtp cf wlog then 2 else 0))%N.

Definition s_stall_verdict (prefix stall : list event) (wlog : list N) : N :=
  let m := fst (srun false SCmd prefix) in
  let done := s_done (fst (srun_w false false m (with_w WBlocked stall))) in
  ((if done then 1 else 0) + (if wlog_ok SSasl no_conf wlog then 2 else 0))%N.
