(** The authentication backend's view of a request body: a strict JSON
    lexer/parser for an OBJECT WHOSE VALUES ARE STRINGS (RFC 8259 grammar:
    white space between tokens, the two-character escapes, \uXXXX, no raw
    control octets inside strings, nothing after the closing brace).

    [json_fields body] is the list of (key, value) pairs in source order,
    duplicate keys kept (so that both a first-key-wins and a last-key-wins
    backend can be read off it); [None] = not such an object (a strict backend
    answers 4xx).  Octets >= 0x80 are passed through unchanged (the lexer is
    byte transparent; a backend that validates UTF-8 refuses more, never
    less).  \uXXXX is decoded to the UTF-8 encoding of the code unit.

    This file is specification: it does not model any code of raven. *)
From Coq Require Import String Ascii List Bool Arith NArith.
From Raven Require Import Base.GoStr.
Import ListNotations.
Local Open Scope char_scope.

Definition QUOTE : ascii := """".
Definition BSL : ascii := "\".

Definition is_ctl (c : ascii) : bool := (byte_of c <? 32)%N.
Definition json_ws (c : ascii) : bool :=
  let n := byte_of c in ((n =? 32) || (n =? 9) || (n =? 10) || (n =? 13))%N.

(** octets that may appear unescaped inside a JSON string *)
Definition json_plain (c : ascii) : bool :=
  negb (Ascii.eqb c QUOTE) && negb (Ascii.eqb c BSL) && negb (is_ctl c).
Definition json_clean (s : str) : bool := forallb json_plain s.

Definition hex_val (c : ascii) : option N :=
  let n := byte_of c in
  if ((48 <=? n) && (n <=? 57))%N then Some (n - 48)%N
  else if ((97 <=? n) && (n <=? 102))%N then Some (n - 87)%N
  else if ((65 <=? n) && (n <=? 70))%N then Some (n - 55)%N
  else None.

Definition hex4 (a b c d : ascii) : option N :=
  match hex_val a, hex_val b, hex_val c, hex_val d with
  | Some w, Some x, Some y, Some z => Some (w * 4096 + x * 256 + y * 16 + z)%N
  | _, _, _, _ => None
  end.

Definition utf8 (n : N) : str :=
  if (n <? 128)%N then [ascii_of_N n]
  else if (n <? 2048)%N then [ascii_of_N (192 + n / 64); ascii_of_N (128 + n mod 64)]
  else [ascii_of_N (224 + n / 4096); ascii_of_N (128 + (n / 64) mod 64); ascii_of_N (128 + n mod 64)].

Definition simple_escape (e : ascii) : option ascii :=
  if Ascii.eqb e QUOTE then Some QUOTE
  else if Ascii.eqb e BSL then Some BSL
  else if Ascii.eqb e "/" then Some "/"
  else if Ascii.eqb e "b" then Some (ascii_of_nat 8)
  else if Ascii.eqb e "f" then Some (ascii_of_nat 12)
  else if Ascii.eqb e "n" then Some (ascii_of_nat 10)
  else if Ascii.eqb e "r" then Some (ascii_of_nat 13)
  else if Ascii.eqb e "t" then Some (ascii_of_nat 9)
  else None.

Definition prepend (p : str) (r : option (str * str)) : option (str * str) :=
  match r with Some (v, rest) => Some (p ++ v, rest) | None => None end.

(** the inside of a string, after the opening quote: (decoded value, what
    follows the closing quote) *)
Fixpoint lex_str (s : str) : option (str * str) :=
  match s with
  | [] => None
  | c :: s1 =>
      if Ascii.eqb c QUOTE then Some ([], s1)
      else if Ascii.eqb c BSL then
        match s1 with
        | [] => None
        | e :: s2 =>
            if Ascii.eqb e "u" then
              match s2 with
              | h1 :: h2 :: h3 :: h4 :: s3 =>
                  match hex4 h1 h2 h3 h4 with
                  | Some n => prepend (utf8 n) (lex_str s3)
                  | None => None
                  end
              | _ => None
              end
            else match simple_escape e with
                 | Some x => prepend [x] (lex_str s2)
                 | None => None
                 end
        end
      else if is_ctl c then None
      else prepend [c] (lex_str s1)
  end.

Definition skip_ws (s : str) : str := drop_while json_ws s.

Definition is_nil {A} (l : list A) : bool := match l with [] => true | _ => false end.

(** members of a non-empty object; [s] starts at the opening quote of a key *)
Fixpoint members (fuel : nat) (s : str) : option (list (str * str)) :=
  match fuel with
  | O => None
  | S f =>
    match s with
    | c :: r =>
      if Ascii.eqb c QUOTE then
        match lex_str r with
        | Some (k, r1) =>
          match skip_ws r1 with
          | c2 :: r2 =>
            if Ascii.eqb c2 ":" then
              match skip_ws r2 with
              | c3 :: r3 =>
                if Ascii.eqb c3 QUOTE then
                  match lex_str r3 with
                  | Some (v, r4) =>
                    match skip_ws r4 with
                    | c5 :: r5 =>
                      if Ascii.eqb c5 "," then
                        match members f (skip_ws r5) with
                        | Some l => Some ((k, v) :: l)
                        | None => None
                        end
                      else if Ascii.eqb c5 "}" then
                        (if is_nil (skip_ws r5) then Some [(k, v)] else None)
                      else None
                    | [] => None
                    end
                  | None => None
                  end
                else None
              | [] => None
              end
            else None
          | [] => None
          end
        | None => None
        end
      else None
    | [] => None
    end
  end.

Definition json_fields (s : str) : option (list (str * str)) :=
  match skip_ws s with
  | c :: r =>
      if Ascii.eqb c "{" then
        match skip_ws r with
        | c' :: r' =>
            if Ascii.eqb c' "}" then (if is_nil (skip_ws r') then Some [] else None)
            else members (length s) (c' :: r')
        | [] => None
        end
      else None
  | [] => None
  end.

(** the value a backend would use for [key] *)
Fixpoint first_of (key : str) (l : list (str * str)) : option str :=
  match l with
  | [] => None
  | (k, v) :: l' => if str_eqb k key then Some v else first_of key l'
  end.
Definition last_of (key : str) (l : list (str * str)) : option str := first_of key (rev l).
