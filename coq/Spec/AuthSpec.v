(** C04 — what "only the identity the backend verified is authenticated" means,
    as executable predicates over OBSERVABLE things (request bodies received
    by the backend, class of the reply, user row the session is bound to,
    bytes written by the SASL service), plus the decidable finding classes. *)
From Coq Require Import String Ascii List Bool Arith NArith ZArith.
From Raven Require Import Base.GoStr Base.GoStrB64 Base.GoStrJson Spec.Json Model.CmdTokenizer Model.Auth Spec.CmdArgs.
Import ListNotations.
Local Open Scope char_scope.

Definition K_EMAIL : str := S_ "email".
Definition K_PASSWORD : str := S_ "password".

(** the address a client means by user name [u] under default domain [d] *)
Definition address_of (d u : str) : str :=
  if contains_byte u AT then u else u ++ AT :: d.

(** the backend, reading the body as JSON, sees exactly this pair *)
Definition body_exact (body email p : str) : Prop :=
  json_fields body = Some [(K_EMAIL, email); (K_PASSWORD, p)].

Definition pair_eqb (a b : str * str) : bool := str_eqb (fst a) (fst b) && str_eqb (snd a) (snd b).
Fixpoint pairs_eqb (a b : list (str * str)) : bool :=
  match a, b with
  | [], [] => true
  | x :: a', y :: b' => pair_eqb x y && pairs_eqb a' b'
  | _, _ => false
  end.
Definition body_exact_b (body email p : str) : bool :=
  match json_fields body with
  | Some l => pairs_eqb l [(K_EMAIL, email); (K_PASSWORD, p)]
  | None => false
  end.

(** the store of address [e] is the user row (local, domain) with local@domain = e *)
Definition store_of (e : str) (row : str * str) : Prop := fst row ++ AT :: snd row = e.
Definition store_of_b (e : str) (row : str * str) : bool := str_eqb (fst row ++ AT :: snd row) e.

(** IMAP: the observation of one attempt with supplied (u, p) satisfies the
    property.  [acc]: the backend answered 200 to the request it received. *)
Definition imap_spec (d u p : str) (acc : bool) (r : auth_out) : Prop :=
  match answer r with
  | R_OK => acc = true
            /\ (exists body, sent r = [body] /\ body_exact body (address_of d u) p)
            /\ (exists row, bound r = Some row /\ store_of (address_of d u) row)
  | _ => bound r = None
  end.

Definition imap_spec_b (d u p : str) (acc : bool) (r : auth_out) : bool :=
  match answer r with
  | R_OK => acc
            && match sent r with [body] => body_exact_b body (address_of d u) p | _ => false end
            && match bound r with Some row => store_of_b (address_of d u) row | None => false end
  | _ => match bound r with None => true | Some _ => false end
  end.

(** premise on the database layer: EnsureUserAndMailboxes(local, domain)
    returns the id of the row whose (username, domain) is exactly that pair,
    or fails.  (GetOrCreateUserInitialized: SELECT, else INSERT, else on a
    UNIQUE conflict SELECT again; never an id taken from anywhere else.)
    Checked against the implementation on every run: the users row of
    state.UserID is compared with the verified address in worlds with
    enabled, disabled, provisioned, delivery-created and concurrently created
    accounts. *)
Definition ensure_sound (ens : ensure_fn) : Prop :=
  forall l dm row, ens l dm = Some row -> row = (l, dm).

(** the two behaviours of a sound EnsureUserAndMailboxes used in examples *)
Definition ensure_ok : ensure_fn := fun l dm => Some (l, dm).
Definition ensure_fails : ensure_fn := fun _ _ => None.

(** no finding class is left for C04 (json_meta, multi_at, sasl_reply_injection,
    login_tokens were repaired in raven) *)

(** stated domain limit: JSON carries Unicode text; encoding/json replaces
    octets that are not valid UTF-8 by U+FFFD, so exactness of the request
    body is claimed for valid UTF-8 (all of ASCII included) *)
Definition in_domain (d u p : str) : bool := utf8_valid (address_of d u) && utf8_valid p.

(** ---- IMAP LOGIN: what the client supplied ---- *)
(** tag LOGIN userid password CRLF, each argument written as an atom or as a
    quoted string (Spec/CmdArgs.v) *)
Definition login_line (tag : str) (fu fp : arg_form) (u p : str) : str :=
  render_line [(AtomForm, tag); (AtomForm, S_ "LOGIN"); (fu, u); (fp, p)] ++ crlf.

(** ---- SASL ---- *)
Definition S_AUTH : str := S_ "AUTH".

Definition request_id (raw : str) : option str :=
  match split_byte (drop_cr raw) TAB with
  | cmd :: id :: _ :: _ => if str_eqb cmd S_AUTH then Some id else None
  | _ => None
  end.

(** the credentials the service extracts from a request line (model view) *)
Definition sasl_decoded (raw : str) : option (str * str * str) :=
  match split_byte (drop_cr raw) TAB with
  | cmd :: id :: mech :: ps =>
      if str_eqb cmd S_AUTH && str_eqb (to_upper mech) (S_ "PLAIN") then
        let '(resp, given) := sasl_params ps [] false in
        match sasl_plain_creds id resp given with
        | inr (u, p) => Some (id, u, p)
        | inl _ => None
        end
      else None
  | _ => None
  end.

Definition single_line (w : str) : bool :=
  match rev w with
  | c :: r => Ascii.eqb c LF && negb (contains_byte r LF)
  | [] => false
  end.

Definition carries_id (id w : str) : bool :=
  has_prefix w (S_ "OK" ++ TAB :: id ++ [TAB])
  || has_prefix w (S_ "FAIL" ++ TAB :: id ++ [TAB])
  || has_prefix w (S_ "CONT" ++ TAB :: id ++ [TAB]).

(** some line of the answer is an OK *)
Definition has_ok_line (w : str) : bool :=
  existsb (fun l => has_prefix l (S_ "OK" ++ [TAB])) (split_byte w LF).

(** executable spec on an observed answer to one AUTH request *)
Definition sasl_spec_b (domain raw : str) (acc : bool) (bodies : list str) (w : str) : bool :=
  match request_id raw with
  | Some id => single_line w && carries_id id w
  | None => negb (has_ok_line w)
  end
  && (if has_ok_line w then
        acc && match sasl_decoded raw with
               | Some (id, u, p) =>
                   match bodies with
                   | [body] => body_exact_b body (address_of domain u) p
                   | _ => false
                   end
                   && str_eqb w (S_ "OK" ++ TAB :: id ++ TAB :: S_ "user=" ++ u ++ [LF])
               | None => false
               end
      else true).
