(** C16 — executable specification of a whole session, evaluated on what the
    IMPLEMENTATION wrote: [stream_ok c lines replies].

    The client's lines are framed the way RFC 2033 / RFC 5321 frame them, not
    the way the server happened to: a line is a command until a DATA command
    is answered 354; from there every line is message data up to the first
    terminator line, whatever its size or content; the terminator is answered
    by one final reply per accepted recipient.  Every command line is answered
    by exactly one reply, nothing else is written.  The replies, tagged by
    this framing, must pass the dialogue checker of Spec/LmtpDialog.v. *)
From Coq Require Import String Ascii List Bool ZArith NArith.
From Raven Require Import Base.GoStr Model.Lmtp Spec.LmtpDialog.
Import ListNotations.

Definition reply := (N * str)%type.   (* code, text of the (last) reply line *)

Definition tag_of (cmd : str) : tag :=
  if cmd_is cmd "LHLO" then TLhlo else if cmd_is cmd "MAIL" then TMail
  else if cmd_is cmd "RCPT" then TRcpt else if cmd_is cmd "DATA" then TData
  else if cmd_is cmd "RSET" then TRset else if cmd_is cmd "NOOP" then TNoop
  else if cmd_is cmd "QUIT" then TQuit else if cmd_is cmd "VRFY" then TVrfy
  else if cmd_is cmd "HELP" then THelp else TUnknown.

(** the recipient a RCPT command names *)
Definition rcpt_named (args : str) : str :=
  match parse_rcpt_to args with Some r => r | None => args end.

(** a final reply for recipient [r]: 250 naming r, or a 4xx/5xx refusal that,
    if it names a mailbox at all ("<...>"), names r: the k-th reply is about
    the k-th accepted recipient *)
Definition final_reply (r : str) (rp : reply) : bool :=
  let '(code, text) := rp in
  let names_r := contains text (S_ "<" ++ r ++ S_ ">") in
  if N.eqb code 250 then names_r
  else (N.leb 400 code && N.ltb code 600) && (names_r || negb (contains_byte text "<"%char)).

Fixpoint take_finals (rs : list str) (reps : list reply) : option (list ev * list reply) :=
  match rs with
  | [] => Some ([], reps)
  | r :: rs' =>
      match reps with
      | rp :: reps' =>
          if final_reply r rp
          then match take_finals rs' reps' with
               | Some (e, rest) => Some ((if N.eqb (fst rp) 250 then Deliver r [] true else Refuse r (fst rp)) :: e, rest)
               | None => None
               end
          else None
      | [] => None
      end
  end.

(** [body = None]: command framing; [Some rs]: inside a message body whose
    terminator will be answered for the recipients [rs].
    Result: the tagged trace, or [None] when the replies do not line up with
    the framing (a reply missing, a reply too many, a non-final reply where a
    final one is due). *)
Fixpoint frame (acc : list str) (body : option (list str)) (ls : list str) (reps : list reply)
  : option (list ev) :=
  match ls with
  | [] => match reps, body with
          | [], _ => Some []
          | [(code, _)], Some _ =>
              (* the stream ended inside a message: one refusal may be written *)
              if N.leb 400 code && N.ltb code 600 then Some [] else None
          | _, _ => None
          end
  | l :: ls' =>
      match body with
      | Some rs =>
          if is_term l
          then match take_finals rs reps with
               | Some (e, reps') =>
                   match frame [] None ls' reps' with Some t => Some (e ++ t) | None => None end
               | None => None
               end
          else frame acc body ls' reps
      | None =>
          match parse_cmd l with
          | None => frame acc None ls' reps
          | Some (cmd, args) =>
              match reps with
              | [] => None
              | (code, text) :: reps' =>
                  let t := tag_of cmd in
                  let arg := match t with TRcpt => rcpt_named args | _ => [] end in
                  let e := Reply t code arg in
                  match t with
                  | TQuit => if N.eqb code 221
                             then (match reps' with [] => Some [e] | _ => None end)
                             else option_map (cons e) (frame acc None ls' reps')
                  | TData => if N.eqb code 354
                             then option_map (cons e) (frame acc (Some acc) ls' reps')
                             else option_map (cons e) (frame acc None ls' reps')
                  | TRcpt => option_map (cons e)
                               (frame (if N.eqb code 250 then acc ++ [arg] else acc) None ls' reps')
                  | TRset => option_map (cons e)
                               (frame (if N.eqb code 250 then [] else acc) None ls' reps')
                  | _ => option_map (cons e) (frame acc None ls' reps')
                  end
              end
          end
      end
  end.

Definition stream_ok (maxr : Z) (ls : list str) (reps : list reply) : bool :=
  match frame [] None ls reps with
  | Some evs => dialog_ok maxr evs
  | None => false
  end.

(** ---- comparison of the implementation's replies with the model's trace ---- *)
Definition ev_matches (e : ev) (rp : reply) : bool :=
  let '(code, text) := rp in
  match e with
  | Reply _ c _ => N.eqb c code
  | Deliver r _ _ => (N.eqb code 250 || N.eqb code 550) && contains text (S_ "<" ++ r ++ S_ ">")
  | Refuse r c => N.eqb c code && contains text (S_ "<" ++ r ++ S_ ">")
  end.
Fixpoint evs_match (evs : list ev) (reps : list reply) : bool :=
  match evs, reps with
  | [], [] => true
  | e :: evs', rp :: reps' => ev_matches e rp && evs_match evs' reps'
  | _, _ => false
  end.

(** ---- delivered octets ----
    What the store of one recipient holds against what was submitted to that
    recipient: one stored message per submitted body, in order; the stored
    size is the size of the whole body [b] (the message as submitted, before
    dot-stuffing) and the stored text of a single-part message is exactly the
    octets after the header (after the first empty line). *)
Definition is_empty_line (l : str) : bool := str_eqb l crlf || str_eqb l [LF].
Fixpoint after_header (b : list str) : list str :=
  match b with
  | [] => []
  | l :: b' => if is_empty_line l then b' else after_header b'
  end.
Fixpoint delivered_ok (expected : list (list str)) (observed : list (Z * str)) : bool :=
  match expected, observed with
  | [], [] => true
  | b :: e', (size, text) :: o' =>
      Z.eqb size (len (concat b)) && str_eqb text (concat (after_header b)) && delivered_ok e' o'
  | _, _ => false
  end.
