(** C04 — evaluation of correspondence cases inside Coq: for every case the
    implementation's observation is compared with the model ([m_ok]), checked
    against the executable spec ([s_ok]) and classified ([cls]). *)
From Coq Require Import String Ascii List Bool Arith NArith ZArith.
From Raven Require Import Base.GoStr Base.GoStrB64 Base.GoStrJson Spec.Json Model.CmdTokenizer Model.Auth Spec.CmdArgs Spec.AuthSpec.
Import ListNotations.

Definition reply_eqb (a b : reply) : bool :=
  match a, b with
  | R_OK, R_OK | R_NO, R_NO | R_BAD, R_BAD | R_NONE, R_NONE => true
  | _, _ => false
  end.

Fixpoint lstr_eqb (a b : list str) : bool :=
  match a, b with
  | [], [] => true
  | x :: a', y :: b' => str_eqb x y && lstr_eqb a' b'
  | _, _ => false
  end.

Definition orow_eqb (a b : option (str * str)) : bool :=
  match a, b with
  | None, None => true
  | Some x, Some y => pair_eqb x y
  | _, _ => false
  end.

Definition is_refused (b : outcome) : bool := match b with Refused => true | _ => false end.

(** a refused connection carries no body to the backend: bodies not compared *)
Definition out_eqb (b : outcome) (m obs : auth_out) : bool :=
  reply_eqb (answer m) (answer obs)
  && (is_refused b || lstr_eqb (sent m) (sent obs))
  && orow_eqb (bound m) (bound obs).

(** 0 = no class (C04 has no finding class left); 9 = outside the stated
    domain (address or password not valid UTF-8: encoding/json substitutes U+FFFD) *)
Definition domain_code (d u p : str) : nat := if in_domain d u p then 0 else 9.

Definition res := (bool * bool * nat)%type.

Fixpoint bad_rows_aux {A} (f : A -> res) (i : nat) (l : list A) : list (nat * res) :=
  match l with
  | [] => []
  | x :: l' =>
      let '(m, s, c) := f x in
      if m && s then bad_rows_aux f (S i) l' else (i, (m, s, c)) :: bad_rows_aux f (S i) l'
  end.
Definition bad_rows {A} (f : A -> res) (l : list A) : list (nat * res) := bad_rows_aux f 0 l.

(** direct call of authenticateUser *)
(** [ens_of ok]: EnsureUserAndMailboxes in the scripted world: the row of the pair it
    is called with, or an error (disabled account) *)
Definition ens_of (ok : bool) : ensure_fn := if ok then ensure_ok else ensure_fails.

Record dcase := mk_dcase { dc_d : str; dc_u : str; dc_p : str; dc_b : outcome; dc_ens : bool; dc_init : bool; dc_obs : auth_out }.
Definition dcase_eval (c : dcase) : res :=
  let m := authenticate_user (dc_d c) (dc_u c) (dc_p c) (dc_b c) (ens_of (dc_ens c)) (dc_init c) in
  (out_eqb (dc_b c) m (dc_obs c),
   imap_spec_b (dc_d c) (dc_u c) (dc_p c) (accepted (dc_b c)) (dc_obs c),
   domain_code (dc_d c) (dc_u c) (dc_p c)).

(** ExtractUsername / GetUserDomain *)
Record icase := mk_icase { ic_d : str; ic_u : str; ic_row : str * str }.
Definition icase_eval (c : icase) : res :=
  (pair_eqb (extract_username (ic_u c), get_user_domain (ic_d c) (ic_u c)) (ic_row c),
   (* user names with more than one '@' never reach these functions: refused before *)
   is_nil (ic_d c) || multi_at (ic_u c) || store_of_b (address_of (ic_d c) (ic_u c)) (ic_row c),
   0).

(** safety part of the spec when the generator does not know intended
    credentials (malformed stream): access only after a 200 *)
Definition safety_b (acc : bool) (obs : auth_out) : bool :=
  match answer obs with
  | R_OK => acc && match bound obs with Some _ => true | None => false end
  | _ => match bound obs with None => true | Some _ => false end
  end.

(** (e): without TLS no request reaches the backend and nothing is granted *)
Definition no_tls_b (tls : bool) (obs : auth_out) : bool :=
  tls || (is_nil (sent obs) && negb (reply_eqb (answer obs) R_OK)).

(** LOGIN over a connection *)
Record wcase := mk_wcase { wc_tls : bool; wc_d : str; wc_tag : str; wc_line : str; wc_b : outcome;
  wc_intended : option (arg_form * arg_form * str * str); wc_obs : auth_out }.

(** the intended credentials count only when they can be written that way: an
    atom has no blank, quote or backslash and is not empty *)
Definition intended_wf (i : arg_form * arg_form * str * str) : bool :=
  let '(fu, fp, u, p) := i in arg_ok (fu, u) && arg_ok (fp, p).
Definition wcase_eval (c : wcase) : res :=
  let m := run_creds (wc_d c) (login_creds false (wc_tls c) (wc_line c)) (wc_b c) ensure_ok true in
  (out_eqb (wc_b c) m (wc_obs c)
   && match wc_intended c with
      | Some (fu, fp, u, p) => str_eqb (login_line (wc_tag c) fu fp u p) (wc_line c)
      | None => true
      end,
   match wc_intended c with
   | Some (fu, fp, u, p) =>
       if intended_wf (fu, fp, u, p) then imap_spec_b (wc_d c) u p (accepted (wc_b c)) (wc_obs c)
       else safety_b (accepted (wc_b c)) (wc_obs c)
   | None => safety_b (accepted (wc_b c)) (wc_obs c)
   end && no_tls_b (wc_tls c) (wc_obs c),
   match wc_intended c with
   | Some (fu, fp, u, p) => if intended_wf (fu, fp, u, p) then domain_code (wc_d c) u p else 0
   | None => 0
   end).

(** AUTHENTICATE PLAIN over a connection; intended = (authzid, u, p) sent as
    base64 of authzid NUL u NUL p *)
Record pcase := mk_pcase { pc_tls : bool; pc_d : str; pc_authzid : str; pc_data : str; pc_b : outcome;
  pc_intended : option (str * str); pc_obs : auth_out }.
Definition pcase_eval (c : pcase) : res :=
  let m := run_creds (pc_d c) (authplain_creds false (pc_tls c) (pc_data c)) (pc_b c) ensure_ok true in
  (out_eqb (pc_b c) m (pc_obs c)
   && match pc_intended c with
      | Some (u, p) => str_eqb (b64_encode (pc_authzid c ++ NUL :: u ++ NUL :: p) ++ crlf) (pc_data c)
      | None => true
      end,
   match pc_intended c with
   | Some (u, p) => imap_spec_b (pc_d c) u p (accepted (pc_b c)) (pc_obs c)
   | None => safety_b (accepted (pc_b c)) (pc_obs c)
   end && no_tls_b (pc_tls c) (pc_obs c),
   match pc_intended c with
   | Some (u, p) => domain_code (pc_d c) u p
   | None => 0
   end).

(** one line to the SASL service *)
Record scase := mk_scase { sc_domain : str; sc_raw : str; sc_b : outcome;
  sc_intended : option (str * str * str); sc_bodies : list str; sc_wrote : str }.
Definition otriple_eqb (a b : option (str * str * str)) : bool :=
  match a, b with
  | Some (x1, x2, x3), Some (y1, y2, y3) => str_eqb x1 y1 && str_eqb x2 y2 && str_eqb x3 y3
  | None, None => true
  | _, _ => false
  end.
Definition scase_eval (c : scase) : res :=
  let m := sasl_line (sc_domain c) (sc_raw c) (sc_b c) in
  (str_eqb (s_wrote m) (sc_wrote c)
   && (is_refused (sc_b c) || lstr_eqb (s_sent m) (sc_bodies c))
   && match sc_intended c with Some t => otriple_eqb (sasl_decoded (sc_raw c)) (Some t) | None => true end,
   sasl_spec_b (sc_domain c) (sc_raw c) (accepted (sc_b c)) (sc_bodies c) (sc_wrote c),
   match sasl_decoded (sc_raw c) with
   | Some (_, u, p) => domain_code (sc_domain c) u p
   | None => 0
   end).

(** concurrent first logins of one new account (and a first login racing a first
    delivery): the interleaving is not modelled; every session is judged by the
    spec alone -- an OK session is bound to the users row of exactly its
    verified address, anything else binds nothing *)
Record rcase := mk_rcase { rc_d : str; rc_u : str; rc_reply : reply; rc_bound : option (str * str) }.
Definition rcase_eval (c : rcase) : res :=
  (true,
   match rc_reply c with
   | R_OK => match rc_bound c with Some row => store_of_b (address_of (rc_d c) (rc_u c)) row | None => false end
   | _ => match rc_bound c with None => true | Some _ => false end
   end,
   0).

(** concurrent logins against a backend that is a function of the body: one
    round = the sessions (credentials, observed reply and bound row) and the
    bodies the backend received with its decision for each.  Judged:
    (a) the bodies received are, as a multiset, the model's encodings of the
        sessions' own credentials -- each session's exactly once;
    (b) session i answered OK  <->  the backend accepted the encoding of ITS
        credentials;
    (c) an OK IMAP session is bound to the users row of ITS address. *)
Fixpoint remove_first (x : str) (l : list str) : option (list str) :=
  match l with
  | [] => None
  | y :: l' => if str_eqb x y then Some l'
               else match remove_first x l' with Some r => Some (y :: r) | None => None end
  end.
Fixpoint perm_eqb (a b : list str) : bool :=
  match a with
  | [] => is_nil b
  | x :: a' => match remove_first x b with Some b' => perm_eqb a' b' | None => false end
  end.
Fixpoint accepted_of (body : str) (l : list (str * bool)) : bool :=
  match l with
  | [] => false
  | (b, acc) :: l' => if str_eqb b body then acc else accepted_of body l'
  end.

(** [cx_req]: the session is one that asks the backend (all but the SASL LOGIN
    mechanism, which raven answers without a verification and never with OK) *)
Record csess := mk_csess { cx_imap : bool; cx_req : bool; cx_d : str; cx_u : str; cx_p : str; cx_reply : reply; cx_bound : option (str * str) }.
Record ccase := mk_ccase { cc_sessions : list csess; cc_bodies : list (str * bool) }.

Definition cx_body (x : csess) : str := build_body (address_of (cx_d x) (cx_u x)) (cx_p x).
Definition csess_ok (bodies : list (str * bool)) (x : csess) : bool :=
  let acc := cx_req x && accepted_of (cx_body x) bodies in
  Bool.eqb (reply_eqb (cx_reply x) R_OK) acc
  && (if cx_imap x then
        match cx_reply x, cx_bound x with
        | R_OK, Some row => store_of_b (address_of (cx_d x) (cx_u x)) row
        | R_OK, None => false
        | _, None => true
        | _, Some _ => false
        end
      else true).
Definition ccase_eval (c : ccase) : res :=
  (true,
   perm_eqb (map fst (cc_bodies c)) (map cx_body (filter cx_req (cc_sessions c)))
   && forallb (csess_ok (cc_bodies c)) (cc_sessions c),
   0).
