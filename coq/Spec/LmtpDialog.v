(** C16 — what "the LMTP dialogue stays in step with the client and is
    transparent to data" means, independently of raven's code.

    - [stuff]: what an SMTP/LMTP client does to a message body before sending
      it (RFC 5321 4.5.2): a line that starts with a dot gets one more dot.
    - [dialog_ok]: a checker over the server's reply trace, driven by an
      abstract transaction phase that follows RFC 2033 / RFC 5321 and NOT the
      server's own state: MAIL is accepted only after LHLO and outside a
      transaction, RCPT only inside a transaction and below the recipient
      limit, DATA only with at least one accepted recipient; a refusal for
      being out of order (503) / over the limit (452) is given only when that
      is the case; after 354 the next replies are exactly one final reply per
      accepted recipient, in RCPT order, and then the transaction is over.
    - [tx_ok]: one complete DATA phase seen from the stream: 354, then
      one final reply per recipient in order, then exactly the replies a
      session in the reset state gives to the rest of the stream (so nothing
      of the body was executed and the session is ready for the next
      transaction). *)
From Coq Require Import String Ascii List Bool ZArith NArith.
From Raven Require Import Base.GoStr Model.Lmtp.
Import ListNotations.
Local Open Scope Z_scope.

(** ---- the client's side of transparency ---- *)
Definition stuff_line (l : str) : str :=
  if has_prefix l (S_ ".") then "."%char :: l else l.
Definition stuff (b : list str) : list str := map stuff_line b.

(** a line as ReadString delivers it: no LF except the last byte *)
Definition is_line (l : str) : Prop := exists p, l = p ++ [LF] /\ ~ In LF p.
Fixpoint is_line_b (l : str) : bool :=
  match l with
  | [] => false
  | [c] => Ascii.eqb c LF
  | c :: l' => negb (Ascii.eqb c LF) && is_line_b l'
  end.

Definition is_term (l : str) : bool := str_eqb l dot_crlf || str_eqb l dot_lf.

(** ---- the dialogue checker ---- *)
Record phase := { greeted : bool; in_tx : bool; accepted : list str;
                  awaiting : option (list str) }.
Definition phase0 : phase := {| greeted := false; in_tx := false; accepted := []; awaiting := None |}.

Definition set_greeted (p : phase) : phase :=
  {| greeted := true; in_tx := in_tx p; accepted := accepted p; awaiting := None |}.
Definition set_tx (p : phase) : phase :=
  {| greeted := greeted p; in_tx := true; accepted := accepted p; awaiting := None |}.
Definition add_rcpt (p : phase) (r : str) : phase :=
  {| greeted := greeted p; in_tx := in_tx p; accepted := accepted p ++ [r]; awaiting := None |}.
Definition end_tx (p : phase) : phase :=
  {| greeted := greeted p; in_tx := false; accepted := []; awaiting := None |}.
Definition await (p : phase) (rs : list str) : phase :=
  {| greeted := greeted p; in_tx := in_tx p; accepted := accepted p; awaiting := Some rs |}.

Definition nonempty (l : list str) : bool := match l with [] => false | _ => true end.
Definition below_limit (maxr : Z) (p : phase) : bool := Z.of_nat (length (accepted p)) <? maxr.

Definition dialog_step (maxr : Z) (p : phase) (e : ev) : option phase :=
  match awaiting p with
  | Some [] => None
  | Some (r :: rs) =>
      (* after 354: only the final reply for the next recipient may follow *)
      match e with
      | Deliver r' _ _ | Refuse r' _ =>
          if str_eqb r r' then Some (match rs with [] => end_tx p | _ => await p rs end) else None
      | Reply TDataErrEof _ _ => Some p   (* the stream ended inside the message: nothing is owed *)
      | _ => None
      end
  | None =>
      match e with
      | Deliver _ _ _ | Refuse _ _ => None
      | Reply TLhlo code _ => if N.eqb code 250 then Some (set_greeted p) else Some p
      | Reply TMail code _ =>
          if N.eqb code 250 then (if greeted p && negb (in_tx p) then Some (set_tx p) else None)
          else if N.eqb code 503 then (if greeted p && negb (in_tx p) then None else Some p)
          else Some p
      | Reply TRcpt code r =>
          if N.eqb code 250 then (if in_tx p && below_limit maxr p then Some (add_rcpt p r) else None)
          else if N.eqb code 503 then (if in_tx p then None else Some p)
          else if N.eqb code 452 then (if in_tx p && negb (below_limit maxr p) then Some p else None)
          else Some p
      | Reply TData code _ =>
          if N.eqb code 354 then (if in_tx p && nonempty (accepted p) then Some (await p (accepted p)) else None)
          else if N.eqb code 503 then (if in_tx p && nonempty (accepted p) then None else Some p)
          else Some p
      | Reply TRset code _ => if N.eqb code 250 then Some (end_tx p) else Some p
      | Reply _ _ _ => Some p
      end
  end.

Fixpoint dialog_run (maxr : Z) (p : phase) (evs : list ev) : option phase :=
  match evs with
  | [] => Some p
  | e :: t => match dialog_step maxr p e with Some p' => dialog_run maxr p' t | None => None end
  end.

Definition dialog_ok (maxr : Z) (evs : list ev) : bool :=
  match dialog_run maxr phase0 evs with Some _ => true | None => false end.

(** ---- one DATA phase seen from the stream ---- *)
Definition tag_eqb (a b : tag) : bool :=
  match a, b with
  | TLhlo, TLhlo | TMail, TMail | TRcpt, TRcpt | TData, TData
  | TDataErrEof, TDataErrEof | TRset, TRset
  | TNoop, TNoop | TQuit, TQuit | TVrfy, TVrfy | THelp, THelp | TUnknown, TUnknown => true
  | _, _ => false
  end.
Definition ev_eqb (a b : ev) : bool :=
  match a, b with
  | Reply t c x, Reply t' c' x' => tag_eqb t t' && N.eqb c c' && str_eqb x x'
  | Deliver r d o, Deliver r' d' o' => str_eqb r r' && str_eqb d d' && Bool.eqb o o'
  | Refuse r c, Refuse r' c' => str_eqb r r' && N.eqb c c'
  | _, _ => false
  end.
Fixpoint evs_eqb (a b : list ev) : bool :=
  match a, b with
  | [], [] => true
  | x :: a', y :: b' => ev_eqb x y && evs_eqb a' b'
  | _, _ => false
  end.

(** [e] is a final reply for recipient [r] about the octets [d]: a delivery
    reply naming r for exactly d, or a refusal of the message for r *)
Definition final_for (d : str) (r : str) (e : ev) : bool :=
  match e with
  | Deliver r' d' _ => str_eqb r r' && str_eqb d d'
  | Refuse r' _ => str_eqb r r'
  | _ => false
  end.
Fixpoint finals (d : str) (rs : list str) (evs : list ev) : option (list ev) :=
  match rs with
  | [] => Some evs
  | r :: rs' => match evs with
                | e :: t => if final_for d r e then finals d rs' t else None
                | [] => None
                end
  end.

(** [out] = 354, one final reply per recipient of [rs] in order about the
    octets [d], then exactly [cont] *)
Definition tx_ok (d : str) (rs : list str) (cont out : list ev) : bool :=
  match out with
  | Reply TData code _ :: t =>
      N.eqb code 354 && match finals d rs t with Some t' => evs_eqb t' cont | None => false end
  | _ => false
  end.

(** ---- domain of the model ----
    strings.TrimSpace / ToUpper / Fields are modelled for ASCII only: the
    theorems about command handling are stated for streams in which every
    line that the server reads as a COMMAND is ASCII (data lines are arbitrary
    octets). *)
Section Domain.
  Variable accepts : str -> bool.
  Variable delivers : str -> str -> bool.
  Variable over : str -> str -> bool.
  Fixpoint cmd_lines_ascii (c : cfg) (s : st) (m : mode) (ls : list str) : bool :=
    match ls with
    | [] => true
    | l :: ls' =>
        (match m with MCmd => all_ascii l | MData _ => true end) &&
        (let '(s', m', _, q) := step accepts delivers over c s m l in
         if q then true else cmd_lines_ascii c s' m' ls')
    end.
End Domain.
