(** C15 — abstract specification: what a reader must get, whatever backend
    holds the octets.

    A read of a stored part either yields octets or reports an error.  The
    property: the octets are the part's OWN octets; an error may be reported
    only when a backend failed.  (Before the repair "blob-read-errors" raven's
    read sites had no error channel: failures ended in the empty string and
    the command answered OK.) *)
From Coq Require Import String Ascii List Bool.
From Raven Require Import Base.GoStr.
Import ListNotations.

(** [res = None]: the read was reported as failed *)
Definition spec_read (own : str) (backend_failed : bool) (res : option str) : Prop :=
  match res with
  | Some s => s = own
  | None => backend_failed = true
  end.

Definition spec_read_ok (own : str) (backend_failed : bool) (res : option str) : bool :=
  match res with
  | Some s => str_eqb s own
  | None => backend_failed
  end.

Lemma spec_read_ok_iff own f res : spec_read_ok own f res = true <-> spec_read own f res.
Proof.
  destruct res as [s|]; simpl; [apply str_eqb_eq|tauto].
Qed.

