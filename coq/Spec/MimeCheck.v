(** Executable helpers used by the C02 correspondence check (evaluated with
    vm_compute on the cases the harness observed): structural equality of
    messages, replay of a submission history through the model, the oracle. *)
From Coq Require Import String Ascii List Bool Arith NArith ZArith.
From Raven Require Import Base.GoStr Base.GoStrMime Spec.Mime Model.MimeHeaders Model.MimeStore.
Import ListNotations.

Definition leaf_eqb (a b : leaf) : bool :=
  str_eqb (l_type a) (l_type b) && str_eqb (l_charset a) (l_charset b)
  && str_eqb (l_ctname a) (l_ctname b) && str_eqb (l_cte a) (l_cte b)
  && str_eqb (l_disp a) (l_disp b) && str_eqb (l_filename a) (l_filename b)
  && str_eqb (l_cid a) (l_cid b) && str_eqb (l_body a) (l_body b).

Fixpoint mime_eqb (a b : mime) {struct a} : bool :=
  match a, b with
  | Leaf x, Leaf y => leaf_eqb x y
  | Multi s ks, Multi s' ks' =>
      str_eqb s s' &&
      (fix go (l l' : list mime) {struct l} : bool :=
         match l, l' with
         | [], [] => true
         | x :: r, y :: r' => mime_eqb x y && go r r'
         | _, _ => false
         end) ks ks'
  | _, _ => false
  end.

Fixpoint list_eqb {A} (e : A -> A -> bool) (l l' : list A) : bool :=
  match l, l' with
  | [], [] => true
  | x :: r, y :: r' => e x y && list_eqb e r r'
  | _, _ => false
  end.

Definition hdr_eqb (h h' : header) : bool := str_eqb (fst h) (fst h') && str_eqb (snd h) (snd h').

Definition msg_eqb (m m' : msg) : bool :=
  list_eqb hdr_eqb (m_hdrs m) (m_hdrs m') &&
  match m_body m, m_body m' with
  | Single b, Single b' => str_eqb b b'
  | Multipart s ks, Multipart s' ks' => mime_eqb (Multi s ks) (Multi s' ks')
  | _, _ => false
  end.

Definition omsg_eqb (a b : option msg) : bool :=
  match a, b with
  | Some x, Some y => msg_eqb x y
  | None, None => true
  | _, _ => false
  end.

(** the correspondence check instantiates sha256 with the identity (equal
    hashes iff equal decoded octets) *)
Definition hid (s : str) : str := s.

(** store the messages one after the other; remember the blob table each one met *)
Fixpoint stores (faults : list bool) (bs : blobs) (ms : list msg) : blobs * list (blobs * stored) :=
  match ms with
  | [] => (bs, [])
  | m :: r =>
      let '(bs', st) := store hid faults bs m in     (* the same schedule for every message *)
      let '(bsf, sts) := stores faults bs' r in
      (bsf, (bs, st) :: sts)
  end.

(** what FETCH returns for each message after all of them were stored *)
Definition results (ms : list msg) : list (option msg) :=
  let '(bsf, sts) := stores [] [] ms in map (fun x => fetch bsf (snd x)) sts.

(** every write to the blobs table fails while the messages are stored *)
Definition results_faulty (ms : list msg) : list (option msg) :=
  let '(bsf, sts) := stores (repeat true 64) [] ms in map (fun x => fetch bsf (snd x)) sts.

Definition spec_ok (m : msg) (o : option msg) : bool :=
  match o with Some m' => msg_equiv m m' | None => false end.

Fixpoint zip_with {A B C} (f : A -> B -> C) (l : list A) (l' : list B) : list C :=
  match l, l' with
  | x :: r, y :: r' => f x y :: zip_with f r r'
  | _, _ => []
  end.

(** positions where [f] is false *)
Fixpoint false_positions (i : nat) (l : list bool) : list nat :=
  match l with
  | [] => []
  | b :: r => if b then false_positions (S i) r else i :: false_positions (S i) r
  end.

(** decoded content of every leaf, pre-order (cross-check of [decode] against
    the generator's independent encoders) *)
Fixpoint leaf_decodes (t : mime) {struct t} : list str :=
  match t with
  | Leaf l => [decode (l_cte l) (l_body l)]
  | Multi _ ks => (fix go (l : list mime) : list str := match l with [] => [] | k :: r => leaf_decodes k ++ go r end) ks
  end.
Definition msg_decodes (m : msg) : list str :=
  match m_body m with
  | Single b => [decode (header_get (m_hdrs m) s_cte_name) b]
  | Multipart s ks => leaf_decodes (Multi s ks)
  end.
