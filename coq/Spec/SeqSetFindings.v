(** C09: executable spec checkers per command and the decidable
    classification of the inputs on which raven (as modelled) violates them.
    Every class is identified by command + shape of the set. *)
From Coq Require Import String Ascii List Bool ZArith.
From Raven Require Import Base.GoStr Base.GoStrZ Model.SeqSet Model.Expunge Spec.SeqSet.
Import ListNotations.
Local Open Scope Z_scope.

Inductive finding :=
| F_noop_notices.       (* NOOP/IDLE derive their notices from the count difference only *)

Definition zlist_eqb (a b : list Z) : bool :=
  Nat.eqb (length a) (length b) && forallb (fun '(x, y) => x =? y) (combine a b).
Definition zpairs_eqb (a b : list (Z * Z)) : bool :=
  zlist_eqb (map fst a) (map fst b) && zlist_eqb (map snd a) (map snd b).

(** set equality of number lists (STORE/COPY results may repeat a number) *)
Definition zset_eqb (a b : list Z) : bool :=
  forallb (fun x => existsb (Z.eqb x) b) a && forallb (fun x => existsb (Z.eqb x) a) b.

(** ---- spec checkers: observed result vs. denotation ---- *)
Definition store_ok (s : seqset) (n : Z) (got : list Z) : bool := zset_eqb got (addressed s n).
Definition uidset_ok (s : seqset) (uids got : list Z) : bool := zset_eqb got (addressed_uids s uids).
Definition fetch_ok (s : seqset) (uids : list Z) (got : option (list (Z * Z))) : bool :=
  match got with None => false | Some l => zpairs_eqb l (expected_fetch s uids) end.
Definition search_ok (s : seqset) (n : Z) (got : list Z) : bool := zlist_eqb got (addressed s n).
Definition uidsearch_ok (s : seqset) (uids got : list Z) : bool := zlist_eqb got (addressed_uids s uids).
Definition copy_ok (s : seqset) (n : Z) (got : option (list Z)) : bool :=
  match got with
  | None => match addressed s n with [] => true | _ => false end
  | Some l => zset_eqb l (addressed s n)
  end.

(** ---- classification ---- *)
(** COPY may repeat a message when items of the set overlap (the parser
    returns a list): the number of copies lies between the size of the
    denoted set and the sum of the sizes of its items *)
Definition copy_count_ok (s : seqset) (n c : Z) : bool :=
  (Z.of_nat (length (addressed s n)) <=? c)
  && (c <=? fold_right Z.add 0 (map (fun it => Z.of_nat (length (addressed [it] n))) s)).

(** EXPUNGE family: premise of the exactness theorem (no finding class: the
    SQL whole-word test is the flag-atom test on such strings, Proof/DeletedWord.v) *)
Definition flags_blank_ws (mbox : list msg) : bool := forallb (fun m => blank_ws (m_flags m)) mbox.

(** STORE +FLAGS (Junk): the rows moved away must be the rows denoted *)
Definition junk_store_ok (s : seqset) (mbox : list msg) (moved_ids : list Z) : bool :=
  zset_eqb moved_ids
    (map (fun i => m_id (nth1 mbox i {| m_id := 0; m_uid := 0; m_flags := [] |}))
         (addressed s (Z.of_nat (length mbox)))).

(** NOOP after another session changed the mailbox from [old] to [new] *)
Fixpoint is_prefix (a b : list Z) : bool :=
  match a, b with
  | [], _ => true
  | x :: a', y :: b' => (x =? y) && is_prefix a' b'
  | _ :: _, [] => false
  end.
Definition classify_noop (old new : list Z) : option finding :=
  if is_prefix new old then None else Some F_noop_notices.
Definition noop_ok (old new : list Z) : bool :=
  zlist_eqb (replay (noop_notices (Z.of_nat (length old)) (Z.of_nat (length new))) old) new.
