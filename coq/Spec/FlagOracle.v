(** C10 — executable comparison of one observed scenario (what the
    implementation answered) with the model's run and with the reference
    semantics of Spec/FlagHistory.v.  Used by checks/c10.py inside Coq
    (vm_compute); nothing here is part of a theorem statement. *)
From Coq Require Import String Ascii List Bool Arith ZArith.
From Raven Require Import Base.GoStr Model.Flags Model.FlagStore Spec.FlagHistory.
Import ListNotations.
Local Open Scope Z_scope.

Definition vw := list (Z * list str).

Fixpoint view_eqb (a b : vw) : bool :=
  match a, b with
  | [], [] => true
  | (u, f) :: a', (u', f') :: b' => (u =? u') && set_eqb f f' && view_eqb a' b'
  | _, _ => false
  end.

Fixpoint zlist_eqb (a b : list Z) : bool :=
  match a, b with
  | [], [] => true
  | x :: a', y :: b' => (x =? y) && zlist_eqb a' b'
  | _, _ => false
  end.

Definition optz_eqb (a b : option Z) : bool :=
  match a, b with Some x, Some y => x =? y | None, None => true | _, _ => false end.

(** what a session was asked after a step and what it answered.  [PView] and
    [PSearch] are asked by a session that has [mb] selected; [PUnseen] /
    [PCount] are STATUS answers of a session whose selection is [sel] ([0] =
    none; [sel = mb] is the "STATUS on the selected mailbox" case) *)
Inductive probe :=
| PView (mb : Z) (v : vw)
| PSearch (mb : Z) (ro : bool) (k : skey) (r : list Z)
| PUnseen (sel : Z) (ro : bool) (mb : Z) (n : Z)
| PCount (sel : Z) (ro : bool) (mb : Z) (n : Z).

Definition is_view (p : probe) : bool := match p with PView _ _ => true | _ => false end.

(** the session's cached counters are unknown to the observer; the model does
    not read them, any value will do *)
Definition probe_ok (spec : bool) (s : st) (p : probe) : bool :=
  match p with
  | PView mb v => view_eqb v (sess_fetch (mkSess mb false 0 0) s)
  | PSearch mb ro k r =>
      zlist_eqb r (if spec then spec_search (links s) mb k else sess_search (mkSess mb ro 0 0) s k)
  | PUnseen sel ro mb n =>
      n =? (if spec then spec_unseen_count (links s) mb else status_unseen (mkSess sel ro 0 0) s mb)
  | PCount sel ro mb n => n =? status_messages (mkSess sel ro 0 0) s mb
  end.

(** one step: the operation and the probes taken after it (by the acting
    session, by a second session that keeps INBOX selected, by a third one
    without selection) *)
Definition sstep := (op * list probe)%type.

(** -> (views ok, queries ok, final state) *)
Fixpoint steps_ok (spec : bool) (stepf : env -> st -> op -> st) (e : env) (s : st) (l : list sstep) : bool * bool * st :=
  match l with
  | [] => (true, true, s)
  | (o, ps) :: l' =>
      let s' := stepf e s o in
      let okv := forallb (probe_ok spec s') (filter is_view ps) in
      let okq := forallb (probe_ok spec s') (filter (fun p => negb (is_view p)) ps) in
      let '(bv, bq, sf) := steps_ok spec stepf e s' l' in (okv && bv, okq && bq, sf)
  end.

(** read-back of one mailbox by session B *)
Record fobs := mkFobs { fo_mb : Z; fo_view : vw; fo_unseen : Z; fo_first : option Z;
                        fo_search : list (skey * list Z) }.

Definition fviews_ok (s : st) (f : list fobs) : bool :=
  forallb (fun o => view_eqb (fo_view o) (view (links s) (fo_mb o))) f.

Definition fqueries_model_ok (s : st) (f : list fobs) : bool :=
  forallb (fun o =>
    (fo_unseen o =? unseen_count (links s) (fo_mb o))
    && optz_eqb (fo_first o) (first_unseen (links s) (fo_mb o))
    && forallb (fun kr => zlist_eqb (snd kr) (search (links s) (fo_mb o) (fst kr))) (fo_search o)) f.

Definition fqueries_spec_ok (s : st) (f : list fobs) : bool :=
  forallb (fun o =>
    (fo_unseen o =? spec_unseen_count (links s) (fo_mb o))
    && optz_eqb (fo_first o) (spec_first_unseen (links s) (fo_mb o))
    && forallb (fun kr => zlist_eqb (snd kr) (spec_search (links s) (fo_mb o) (fst kr))) (fo_search o)) f.

Definition b2n (b : bool) : nat := if b then 1%nat else 0%nat.

(** result code:  1 views = model, 2 views = spec, 4 queries = model,
    8 queries = spec, 32*class *)
Definition judge (e : env) (s0 : st) (steps : list sstep) (f : list fobs) : nat :=
  let '(vm, qm, sm) := steps_ok false step e s0 steps in
  let '(vs, qs, ss) := steps_ok true spec_step e s0 steps in
  let vm := vm && fviews_ok sm f in
  let vs := vs && fviews_ok ss f in
  (b2n vm + 2 * b2n vs + 4 * b2n (qm && fqueries_model_ok sm f) + 8 * b2n (qs && fqueries_spec_ok ss f)
   + 32 * cls_code (hist_class e s0 (map fst steps)))%nat.
