(** C10 — executable comparison of one observed scenario (what the
    implementation answered) with the model's run and with the reference
    semantics of Spec/FlagHistory.v.  Used by checks/c10.py inside Coq
    (vm_compute); nothing here is part of a theorem statement. *)
From Coq Require Import String Ascii List Bool Arith ZArith.
From Raven Require Import Base.GoStr Model.Flags Model.FlagStore Spec.FlagHistory.
Import ListNotations.
Local Open Scope Z_scope.

Definition vw := list (Z * list str).

Fixpoint view_eqb (a b : vw) : bool :=
  match a, b with
  | [], [] => true
  | (u, f) :: a', (u', f') :: b' => (u =? u') && set_eqb f f' && view_eqb a' b'
  | _, _ => false
  end.

Fixpoint zlist_eqb (a b : list Z) : bool :=
  match a, b with
  | [], [] => true
  | x :: a', y :: b' => (x =? y) && zlist_eqb a' b'
  | _, _ => false
  end.

Definition optz_eqb (a b : option Z) : bool :=
  match a, b with Some x, Some y => x =? y | None, None => true | _, _ => false end.

(** one step of session A: the operation, the mailbox selected afterwards and
    the answer to FETCH 1:* (UID FLAGS) there, if it was asked *)
Definition sstep := (op * Z * option vw)%type.

Fixpoint steps_ok (stepf : env -> st -> op -> st) (e : env) (s : st) (l : list sstep) : bool * st :=
  match l with
  | [] => (true, s)
  | (o, mb, v) :: l' =>
      let s' := stepf e s o in
      let ok := match v with None => true | Some v => view_eqb v (view (links s') mb) end in
      let '(b, sf) := steps_ok stepf e s' l' in (ok && b, sf)
  end.

(** read-back of one mailbox by session B *)
Record fobs := mkFobs { fo_mb : Z; fo_view : vw; fo_unseen : Z; fo_first : option Z;
                        fo_search : list (skey * list Z) }.

Definition fviews_ok (s : st) (f : list fobs) : bool :=
  forallb (fun o => view_eqb (fo_view o) (view (links s) (fo_mb o))) f.

Definition fqueries_model_ok (s : st) (f : list fobs) : bool :=
  forallb (fun o =>
    (fo_unseen o =? unseen_count (links s) (fo_mb o))
    && optz_eqb (fo_first o) (first_unseen (links s) (fo_mb o))
    && forallb (fun kr => zlist_eqb (snd kr) (search (links s) (fo_mb o) (fst kr))) (fo_search o)) f.

Definition fqueries_spec_ok (s : st) (f : list fobs) : bool :=
  forallb (fun o =>
    (fo_unseen o =? spec_unseen_count (links s) (fo_mb o))
    && optz_eqb (fo_first o) (spec_first_unseen (links s) (fo_mb o))
    && forallb (fun kr => zlist_eqb (snd kr) (spec_search (links s) (fo_mb o) (fst kr))) (fo_search o)) f.

Definition b2n (b : bool) : nat := if b then 1%nat else 0%nat.

(** result code:  1 views = model, 2 views = spec, 4 queries = model,
    8 queries = spec, 32*class *)
Definition judge (e : env) (s0 : st) (steps : list sstep) (f : list fobs) : nat :=
  let '(vm, sm) := steps_ok step e s0 steps in
  let '(vs, ss) := steps_ok spec_step e s0 steps in
  let vm := vm && fviews_ok sm f in
  let vs := vs && fviews_ok ss f in
  (b2n vm + 2 * b2n vs + 4 * b2n (fqueries_model_ok sm f) + 8 * b2n (fqueries_spec_ok ss f)
   + 32 * cls_code (hist_class e s0 (map (fun x => fst (fst x)) steps)))%nat.
