(** C12 — the property, abstractly.

    Function layer: a computation in the option monad (None = Go panic)
    never panics.  Service layer: whatever the connections send, the process
    stays alive and every connection observes exactly what it would observe
    if it were the only one ([Model.Service.alone]): commands before an
    offending one are answered, the offending command costs at most its own
    connection. *)
From Coq Require Import List Bool.
From Raven Require Import Base.GoStr Model.Service.
Import ListNotations.

Definition no_panic {A} (o : option A) : Prop := o <> None.
Definition no_panic_b {A} (o : option A) : bool := match o with Some _ => true | None => false end.

(** events admissible for a table: connection goroutines started by one of its go statements *)
Definition from_table (t : list entry) (evs : list conn_event) : Prop :=
  forall ev, In ev evs -> In (ev_entry ev) t /\ e_conn (ev_entry ev) = true.

Definition isolated (t : list entry) : Prop :=
  forall evs, from_table t evs -> run true evs = (true, map alone evs).

(** executable form used by the correspondence check on one observed scenario *)
Definition spec_ok_b (process_alive : bool) : bool := process_alive.
