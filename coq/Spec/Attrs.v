(** C14 — abstract reading of "the attributes of a message agree".

    (a) size = |BODY[]|; (b) HEADER ++ TEXT = BODY[]; (c) the node the
    BODYSTRUCTURE numbering calls [p] (tree level: [tree_at]) is what BODY[p]
    returns, a path outside the tree yields nothing, and the announced size
    of a leaf is the length of what BODY[p] returns; (e) <o.n> is
    [firstn n (skipn o x)].  *)
From Coq Require Import String Ascii List Bool Arith Lia.
From Raven Require Import Base.GoStr Model.Sections.
Import ListNotations.

(** (e) the slice a partial fetch must return *)
Definition slice_spec (x : str) (o n : nat) : str := firstn n (skipn o x).

(** (b) *)
Definition header_text_ok (raw : str) : bool := str_eqb (header_of raw ++ text_of raw) raw.

(** ---- (c) IMAP part numbering on the tree (RFC 3501 6.4.5): the children of
    a multipart are numbered from 1; the root multipart itself has no number;
    a message that is not multipart has the single part 1. *)
Fixpoint nth_kid (f : forest) (i : nat) : option tree :=
  match f with
  | FNil => None
  | FCons t f' =>
      match i with
      | O => None
      | S O => Some t
      | S j => nth_kid f' j
      end
  end.

Fixpoint descend (t : tree) (p : list nat) : option tree :=
  match p with
  | [] => Some t
  | i :: p' =>
      match t with
      | Leaf _ _ _ => None
      | Multi _ ks =>
          match nth_kid ks i with
          | None => None
          | Some k => descend k p'
          end
      end
  end.

Definition tree_at (t : tree) (p : list nat) : option tree :=
  match p with
  | [] => None
  | i :: p' =>
      match t with
      | Multi _ _ => descend t p
      | Leaf _ _ _ => if Nat.eqb i 1 then descend t p' else None
      end
  end.

(** what is compared: media type, encoding, content ("" for a container) *)
Definition view_t (t : tree) : str * str * str :=
  match t with
  | Leaf ct enc c => (ct, enc, c)
  | Multi ct _ => (ct, [], [])
  end.
Definition view_r (r : row) : str * str * str := (rct r, renc r, rcontent r).

(** trees the delivery side produces: container types are lower-cased
    "multipart/..." (mime.ParseMediaType), leaf types are not multipart *)
Fixpoint wf (t : tree) : bool :=
  match t with
  | Leaf ct _ _ => negb (has_prefix (to_lower ct) multipart_pfx)
  | Multi ct ks => has_prefix ct multipart_pfx && wf_f ks
  end
with wf_f (f : forest) : bool :=
  match f with
  | FNil => true
  | FCons t f' => wf t && wf_f f'
  end.

(** ---- (c) announced size of a leaf.  BODYSTRUCTURE is computed by Go's
    multipart.Reader over the re-serialised message; [reader_part w] stands
    for the content the reader returns for a part whose body was written as
    [w] immediately before the next delimiter line. *)
Definition strip2 (w : str) : str := firstn (length w - 2) w.
