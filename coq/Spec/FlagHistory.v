(** C10 — what the statement demands of a history, as an executable reference
    semantics on the same state space as the model.

    (a) STORE / UID STORE (any of FLAGS, +FLAGS, -FLAGS, with or without
        .SILENT) replace the flag set of exactly the addressed rows of the
        selected mailbox by the set algebra of Spec/FlagSet.v (computed here with
        [calculate_new_flags], which c10_apply_exact proves to be that algebra),
        in place; no row is created, removed or re-numbered, no other row changes.
        "Addressed" = the rows the sequence / UID set denotes when the command
        starts.
    (b) the read commands report SET membership of the queried flag.
    (c) is a consequence of (a): a row created by COPY is a row of its own.
    (d) an operation issued in a session that opened the mailbox with EXAMINE
        ([ro = true]) changes nothing.
    (e) flags are RFC 3501 flags ([valid_flag]): a STORE / APPEND that names
        anything else is refused and changes nothing.
    COPY, APPEND and EXPUNGE of a read-write session are taken as the model
    has them (their own properties are C03/C09).  This file does not depend on
    how the model tests flags: the queries below are stated on their own. *)
From Coq Require Import String Ascii List Bool Arith ZArith.
From Raven Require Import Base.GoStr Model.Flags Spec.FlagSet Model.FlagStore.
Import ListNotations.
Local Open Scope Z_scope.

Definition memZ (x : Z) (l : list Z) : bool := existsb (Z.eqb x) l.

Definition spec_update (ls : list link) (mb : Z) (targets : list Z) (item : str) (new : list str) : list link :=
  map (fun l => if in_mbox mb l && memZ (lk_uid l) targets
                then set_flags l (calculate_new_flags (lk_flags l) new item) else l) ls.

Definition spec_step (e : env) (s : st) (o : op) : st :=
  match o with
  | OStore ro _ mb q item new =>
      if ro || negb (flags_valid new) then s
      else with_links s (spec_update (links s) mb (seq_targets (links s) mb q) item new)
  | OUidStore ro _ mb q item new =>
      if ro || negb (flags_valid new) then s
      else with_links s (spec_update (links s) mb (expand_uid (links s) mb q) item new)
  | OExpunge ro mb => if ro then s else step e s o
  | _ => step e s o
  end.

Fixpoint spec_run (e : env) (s : st) (h : list op) : st :=
  match h with [] => s | o :: h' => spec_run e (spec_step e s o) h' end.

(** ---- finding classes ----
    Left after the fix wave: the Junk/NonJunk auto-move (a deliberate feature
    of raven that the statement, read strictly, does not allow). *)
Inductive cls := JunkMove.

Definition cls_code (c : option cls) : nat :=
  match c with None => 0 | Some JunkMove => 3 end%nat.

(** does STORE re-file the row (Junk newly added outside Spam, or else NonJunk
    newly added outside INBOX)? *)
Definition will_move (e : env) (sp : option Z) (mb : Z) (item : str) (new : list str) (l : link) : bool :=
  let upd := calculate_new_flags (lk_flags l) new item in
  if junk_added (lk_flags l) upd
  then match sp with Some d => negb (mb =? d) | None => false end   (* no mailbox named Spam: the move fails, the flags are stored in place *)
  else if nonjunk_added (lk_flags l) upd then negb (mb =? inbox_id e)
  else false.

Definition rows_of_uids (ls : list link) (mb : Z) (uids : list Z) : list link :=
  flat_map (fun u => match find_key ls mb u with Some l => [l] | None => [] end) uids.

Definition junk_class (e : env) (sp : option Z) (mb : Z) (item : str) (new : list str) (rows : list link) : option cls :=
  if existsb (will_move e sp mb item new) rows then Some JunkMove else None.

Definition classify (e : env) (s : st) (o : op) : option cls :=
  match o with
  | OStore ro _ mb q item new =>
      if ro || negb (flags_valid new) then None
      else junk_class e (spam s) mb item new (rows_of_uids (links s) mb (seq_targets (links s) mb q))
  | OUidStore ro _ mb q item new =>
      if ro || negb (flags_valid new) then None
      else junk_class e (spam s) mb item new (rows_of_uids (links s) mb (expand_uid (links s) mb q))
  | _ => None
  end.

(** class of the first classified step along the model's run *)
Fixpoint hist_class (e : env) (s : st) (h : list op) : option cls :=
  match h with
  | [] => None
  | o :: h' => match classify e s o with Some c => Some c | None => hist_class e (step e s o) h' end
  end.

(** UNIQUE(mailbox_id, uid) *)
Fixpoint uniq_keys_b (ls : list link) : bool :=
  match ls with
  | [] => true
  | l :: ls' => negb (existsb (has_key (lk_mbox l) (lk_uid l)) ls') && uniq_keys_b ls'
  end.

(** ---- (b): queries as membership of the flag's key in the set of keys ---- *)
Definition has_key_of (q : str) (fl : list str) : bool := mem (fkey q) (keys fl).
Definition spec_key_holds (k : skey) (fl : list str) : bool :=
  match k with
  | KHas q => has_key_of q fl
  | KNot q => negb (has_key_of q fl)
  | KNew => has_key_of RECENT fl && negb (has_key_of SEEN fl)
  end.
Definition spec_search (ls : list link) (mb : Z) (k : skey) : list Z :=
  positions (fun l => spec_key_holds k (lk_flags l)) 1 (mbox_links ls mb).
Definition spec_unseen_count (ls : list link) (mb : Z) : Z :=
  Z.of_nat (length (filter (fun l => negb (has_key_of SEEN (lk_flags l))) (filter (in_mbox mb) ls))).
Definition spec_first_unseen (ls : list link) (mb : Z) : option Z :=
  hd_error (positions (fun l => negb (has_key_of SEEN (lk_flags l))) 1 (mbox_links ls mb)).
