(** C10 — what the statement demands of a history, as an executable reference
    semantics on the same state space as the model.

    (a) STORE / UID STORE (any of FLAGS, +FLAGS, -FLAGS, with or without
        .SILENT) replace the flag set of exactly the addressed rows of the
        selected mailbox by the set algebra of Spec/FlagSet.v (computed here with
        [calculate_new_flags], which c10_apply_exact proves to be that algebra),
        in place; no row is created, removed or re-numbered, no other row changes.
        "Addressed" = the rows the sequence / UID set denotes when the command
        starts.
    (b) the read commands report SET membership of the queried flag.
    (c) is a consequence of (a): a row created by COPY is a row of its own.
    (d) an operation issued in a session that opened the mailbox with EXAMINE
        ([ro = true]) changes nothing.
    COPY, APPEND and EXPUNGE of a read-write session are taken as the model
    has them (their own properties are C03/C09). *)
From Coq Require Import String Ascii List Bool Arith ZArith.
From Raven Require Import Base.GoStr Model.Flags Model.FlagStore.
Import ListNotations.
Local Open Scope Z_scope.

Definition memZ (x : Z) (l : list Z) : bool := existsb (Z.eqb x) l.

(** uids of the rows a message sequence set denotes *)
Definition seq_targets (ls : list link) (mb : Z) (s : seqset) : list Z :=
  flat_map (fun n => match nth_link ls mb n with Some l => [lk_uid l] | None => [] end) (expand_seq ls mb s).

Definition spec_update (ls : list link) (mb : Z) (targets : list Z) (item : str) (new : list str) : list link :=
  map (fun l => if in_mbox mb l && memZ (lk_uid l) targets
                then set_flags l (calculate_new_flags (lk_flags l) new item) else l) ls.

Definition spec_step (e : env) (s : st) (o : op) : st :=
  match o with
  | OStore ro _ mb q item new =>
      if ro then s else with_links s (spec_update (links s) mb (seq_targets (links s) mb q) item new)
  | OUidStore ro _ mb q item new =>
      if ro then s else with_links s (spec_update (links s) mb (expand_uid (links s) mb q) item new)
  | OExpunge ro mb => if ro then s else step e s o
  | _ => step e s o
  end.

Fixpoint spec_run (e : env) (s : st) (h : list op) : st :=
  match h with [] => s | o :: h' => spec_run e (spec_step e s o) h' end.

(** ---- finding classes (DESIGN.md section 4: K-examine, K-junk, K-samecopy, K-flagsub) ---- *)
Inductive cls := ExamineWrites | JunkShift | JunkMove | JunkNoop | SameMailboxCopy.

Definition cls_code (c : option cls) : nat :=
  match c with
  | None => 0 | Some ExamineWrites => 1 | Some JunkShift => 2 | Some JunkMove => 3
  | Some JunkNoop => 4 | Some SameMailboxCopy => 5
  end%nat.

(** would the row trigger the auto-move, and is it already in the destination? *)
Definition junk_trigger (e : env) (mb : Z) (item : str) (new : list str) (l : link) : option bool :=
  let upd := calculate_new_flags (lk_flags l) new item in
  if junk_added (lk_flags l) upd then Some (mb =? spam_id e)
  else if nonjunk_added (lk_flags l) upd then Some (mb =? inbox_id e)
  else None.

Definition rows_of_uids (ls : list link) (mb : Z) (uids : list Z) : list link :=
  flat_map (fun u => match find_key ls mb u with Some l => [l] | None => [] end) uids.

Definition junk_class (e : env) (mb : Z) (item : str) (new : list str) (rows : list link) (plain : bool) : option cls :=
  let tr := map (junk_trigger e mb item new) rows in
  if existsb (fun t => match t with Some false => true | _ => false end) tr
  then Some (if plain && (1 <? Z.of_nat (length rows)) then JunkShift else JunkMove)
  else if existsb (fun t => match t with Some true => true | _ => false end) tr then Some JunkNoop
  else None.

(** another row of the same mailbox carries the same message_id *)
Definition has_twin (ls : list link) (mb : Z) (l : link) : bool :=
  existsb (fun l' => (lk_msg l' =? lk_msg l) && in_mbox mb l' && negb (lk_uid l' =? lk_uid l)) ls.

Definition classify (e : env) (s : st) (o : op) : option cls :=
  match o with
  | OStore ro _ mb q item new =>
      if ro then Some ExamineWrites else
      let rows := rows_of_uids (links s) mb (seq_targets (links s) mb q) in
      match junk_class e mb item new rows true with
      | Some c => Some c
      | None => if existsb (has_twin (links s) mb) rows then Some SameMailboxCopy else None
      end
  | OUidStore ro _ mb q item new =>
      if ro then Some ExamineWrites else
      junk_class e mb item new (rows_of_uids (links s) mb (expand_uid (links s) mb q)) false
  | OExpunge ro _ => if ro then Some ExamineWrites else None
  | _ => None
  end.

(** class of the first classified step along the model's run *)
Fixpoint hist_class (e : env) (s : st) (h : list op) : option cls :=
  match h with
  | [] => None
  | o :: h' => match classify e s o with Some c => Some c | None => hist_class e (step e s o) h' end
  end.

(** UNIQUE(mailbox_id, uid) *)
Fixpoint uniq_keys_b (ls : list link) : bool :=
  match ls with
  | [] => true
  | l :: ls' => negb (existsb (has_key (lk_mbox l) (lk_uid l)) ls') && uniq_keys_b ls'
  end.

(** ---- (b): queries as set membership ---- *)
Definition spec_key_holds (k : skey) (fl : list str) : bool :=
  match k with
  | KHas q => mem q fl
  | KNot q => negb (mem q fl)
  | KNew => mem RECENT fl && negb (mem SEEN fl)
  end.
Definition spec_search (ls : list link) (mb : Z) (k : skey) : list Z :=
  positions (fun l => spec_key_holds k (lk_flags l)) 1 (mbox_links ls mb).
Definition spec_unseen_count (ls : list link) (mb : Z) : Z :=
  Z.of_nat (length (filter (fun l => negb (mem SEEN (lk_flags l))) (filter (in_mbox mb) ls))).
Definition spec_first_unseen (ls : list link) (mb : Z) : option Z :=
  hd_error (positions (fun l => negb (mem SEEN (lk_flags l))) 1 (mbox_links ls mb)).

(** the guard of (b): no stored atom other than [q] itself contains [q]
    (for the LIKE tests: up to ASCII case) *)
Definition no_proper_super (fl : list str) (q : str) : bool :=
  forallb (fun f => negb (contains f q) || str_eqb f q) fl.
Definition no_proper_super_ci (fl : list str) (q : str) : bool :=
  forallb (fun f => negb (contains (to_lower f) (to_lower q)) || str_eqb f q) fl.
Definition key_atoms (k : skey) : list str :=
  match k with KHas q => [q] | KNot q => [q] | KNew => [RECENT; SEEN] end.
