(** C09: evaluation of correspondence cases inside Coq.  Every [case_*]
    takes the input and the IMPLEMENTATION's observed output and returns a
    code:  bit0 = model agrees with the implementation, bit1 = the
    executable spec accepts the implementation's output, bit2 = the Python
    printer of the AST agrees with [print], bits 3.. = finding class of the
    input (0 = none). *)
From Coq Require Import String Ascii List Bool ZArith.
From Raven Require Import Base.GoStr Base.GoStrZ Model.SeqSet Model.Expunge Spec.SeqSet Spec.SeqSetFindings.
Import ListNotations.
Local Open Scope Z_scope.

Definition fcode (f : option finding) : Z :=
  match f with
  | None => 0
  | Some F_noop_notices => 17
  end.

Definition b2z (b : bool) : Z := if b then 1 else 0.
Definition pack (model_ok spec_ok print_ok : bool) (f : option finding) : Z :=
  b2z model_ok + 2 * b2z spec_ok + 4 * b2z print_ok + 8 * fcode f.

Definition ast_print_ok (ast : option seqset) (s : str) : bool :=
  match ast with None => true | Some a => str_eqb (print a) s && wf a end.
Definition with_ast {A} (ast : option seqset) (d : A) (f : seqset -> A) : A :=
  match ast with None => d | Some a => f a end.

Definition opt_eqb {A} (e : A -> A -> bool) (a b : option A) : bool :=
  match a, b with None, None => true | Some x, Some y => e x y | _, _ => false end.
Definition pair_in (p : Z * Z) (l : list (Z * Z)) : bool :=
  existsb (fun q => (fst p =? fst q) && (snd p =? snd q)) l.
Definition pairs_set_eqb (a b : list (Z * Z)) : bool :=
  forallb (fun p => pair_in p b) a && forallb (fun p => pair_in p a) b.

(** direct calls *)
Definition case_seq (s : str) (n : Z) (got : list Z) (ast : option seqset) : Z :=
  pack (zlist_eqb (parse_seqset_db s n) got) (with_ast ast true (fun a => store_ok a n got))
       (ast_print_ok ast s) None.
Definition case_uid (s : str) (uids got : list Z) (ast : option seqset) : Z :=
  pack (zlist_eqb (parse_uidset_db s uids) got) (with_ast ast true (fun a => uidset_ok a uids got))
       (ast_print_ok ast s) None.
Definition case_match (tok : str) (i largest : Z) (got_is got_match : bool) : Z :=
  pack (Bool.eqb (is_sequence_set tok) got_is && Bool.eqb (matches_sequence_set i tok largest) got_match) true true None.

(** sessions *)
Definition case_fetch (s : str) (uids : list Z) (got : option (list (Z * Z))) (ast : option seqset) : Z :=
  pack (opt_eqb zpairs_eqb (fetch_inline s uids) got) (with_ast ast true (fun a => fetch_ok a uids got))
       (ast_print_ok ast s) None.
Definition case_search (s : str) (n : Z) (got : list Z) (ast : option seqset) : Z :=
  pack (zlist_eqb (search_set s n) got) (with_ast ast true (fun a => search_ok a n got))
       (ast_print_ok ast s) None.
Definition case_uidsearch (s : str) (uids got : list Z) (ast : option seqset) : Z :=
  pack (zlist_eqb (uidsearch_set s uids) got) (with_ast ast true (fun a => uidsearch_ok a uids got))
       (ast_print_ok ast s) None.
Definition case_uidfetch (s : str) (uids : list Z) (got : list (Z * Z)) (ast : option seqset) : Z :=
  pack (zpairs_eqb (uid_fetch_rows s uids) got)
       (with_ast ast true (fun a => pairs_set_eqb got (map (fun u => (rank_of uids u, u)) (addressed_uids a uids))))
       (ast_print_ok ast s) None.
(** STORE: [None] = BAD, [Some l] = sequence numbers of the untagged FETCH responses *)
Definition case_store (s : str) (n : Z) (got : option (list Z)) (ast : option seqset) : Z :=
  pack (opt_eqb zlist_eqb (match parse_seqset_db s n with [] => None | l => Some l end) got)
       (with_ast ast true (fun a => copy_ok a n got)) (ast_print_ok ast s) None.
Definition case_uidstore (s : str) (uids got : list Z) (ast : option seqset) : Z :=
  pack (zlist_eqb (parse_uidset_db s uids) got) (with_ast ast true (fun a => uidset_ok a uids got))
       (ast_print_ok ast s) None.
(** plain COPY as dispatched: [None] = BAD/NO, [Some c] = OK and c new messages in the destination *)
Definition case_copy (parts : list str) (n : Z) (got : option Z) (ast : option seqset) : Z :=
  pack (opt_eqb Z.eqb (option_map (fun l => Z.of_nat (length l)) (plain_copy parts n)) got)
       (with_ast ast true (fun a => match got with
                                     | None => match addressed a n with [] => true | _ => false end
                                     | Some c => copy_count_ok a n c
                                     end))
       true None.
Definition case_uidcopy (s : str) (uids : list Z) (got : Z) (ast : option seqset) : Z :=
  pack (Z.of_nat (length (parse_uidset_db s uids)) =? got) true (ast_print_ok ast s) None.

Definition mk_mbox (pre : list (Z * str)) : list msg :=
  map (fun p => {| m_id := fst p; m_uid := fst p; m_flags := snd p |}) pre.

Definition case_expunge (pre : list (Z * str)) (notices post : list Z) : Z :=
  let mb := mk_mbox pre in
  let '(ns, mb') := handle_expunge mb in
  pack (zlist_eqb ns notices && zlist_eqb (map m_uid mb') post)
       (zlist_eqb (replay notices (map m_uid mb)) post
        && zlist_eqb post (map m_uid (filter (fun m => negb (has_deleted (m_flags m))) mb)))
       true None.
Definition case_uidexpunge (s : str) (pre : list (Z * str)) (notices post : list Z) (ast : option seqset) : Z :=
  let mb := mk_mbox pre in
  let '(ns, mb') := handle_uid_expunge s mb in
  pack (zlist_eqb ns notices && zlist_eqb (map m_uid mb') post)
       (zlist_eqb (replay notices (map m_uid mb)) post
        && with_ast ast true (fun a =>
             let sel := addressed_uids a (map m_uid mb) in
             zlist_eqb post (map m_uid (filter (fun m => negb (existsb (Z.eqb (m_uid m)) sel && has_deleted (m_flags m))) mb))))
       (ast_print_ok ast s) None.
Definition case_close (pre : list (Z * str)) (post : list Z) : Z :=
  let mb := mk_mbox pre in
  pack (zlist_eqb (map m_uid (handle_close mb)) post)
       (zlist_eqb post (map m_uid (filter (fun m => negb (has_deleted (m_flags m))) mb)))
       true None.
Definition case_noop (old new notices : list Z) : Z :=
  pack (zlist_eqb (noop_notices (Z.of_nat (length old)) (Z.of_nat (length new))) notices)
       (zlist_eqb (replay notices old) new) true (classify_noop old new).
Definition case_junk (s : str) (pre : list (Z * str)) (notices post : list Z) (ast : option seqset) : Z :=
  let mb := mk_mbox pre in
  let '(ns, ids, mb') := handle_store_junk s mb in
  pack (zlist_eqb ns notices && zlist_eqb (map m_uid mb') post)
       (zlist_eqb (replay notices (map m_uid mb)) post
        && with_ast ast true (fun a =>
             zset_eqb (filter (fun u => negb (existsb (Z.eqb u) post)) (map m_uid mb))
                      (map (fun i => nth1 (map m_uid mb) i 0) (addressed a (Z.of_nat (length mb))))))
       (ast_print_ok ast s) None.
(** listings: labels of UID FETCH 1:*, EXISTS, STATUS MESSAGES, SEARCH ALL, FETCH 1:* (label,uid) *)
Definition case_views (uidfetch : list (Z * Z)) (exists_ status : Z) (searchall : list Z) (fetchall : list (Z * Z)) : Z :=
  let uids := map snd uidfetch in
  let n := Z.of_nat (length uids) in
  pack (opt_eqb zpairs_eqb (fetch_inline (S_ "1:*") uids) (Some fetchall)
        && zpairs_eqb (uid_fetch_rows (S_ "1:*") uids) uidfetch)
       (ascendingb uids && zlist_eqb (map fst uidfetch) (zrange 1 n) && (exists_ =? n) && (status =? n)
        && zlist_eqb searchall (zrange 1 n) && zpairs_eqb fetchall uidfetch)
       true None.

(** ---- observing-session traces (bookkeeping of EXISTS / EXPUNGE) ---- *)
From Raven Require Import Model.Session Spec.SessionView.

Record ostep := { o_cmd : scmd; o_pre : list (Z * str); o_notes : list note; o_post : list Z }.

Definition note_eqb (a b : note) : bool :=
  match a, b with
  | NExists x, NExists y => x =? y
  | NExpunge x, NExpunge y => x =? y
  | _, _ => false
  end.
Fixpoint notes_eqb (a b : list note) : bool :=
  match a, b with
  | [], [] => true
  | x :: a', y :: b' => note_eqb x y && notes_eqb a' b'
  | _, _ => false
  end.

Definition sfcode (f : option sfinding) : Z :=
  match f with None => 0 | Some SF_expunge_unannounced => 3 end.

Record sacc := { a_last : Z; a_cnt : option Z; a_view : list Z; a_model : bool; a_count : bool; a_list : bool;
                 a_cls : option sfinding; a_noop : bool }.

Definition is_boundary (c : scmd) : bool := match c with CSelect | CNoop => true | _ => false end.

Definition sess_obs_step (a : sacc) (o : ostep) : sacc :=
  let rows := mk_mbox (o_pre o) in
  let '(notes_m, rows_m, last') := sess_step (o_cmd o) rows (a_last a) in
  let cnt' := match o_cmd o with CSelect => Some (Z.of_nat (length (o_post o))) | _ => cnt_replay (o_notes o) (a_cnt a) end in
  let view' := match o_cmd o with CSelect => o_post o | _ => view_replay (o_post o) (o_notes o) (a_view a) end in
  let b := is_boundary (o_cmd o) in
  {| a_last := last'; a_cnt := cnt'; a_view := view';
     a_model := a_model a && notes_eqb notes_m (o_notes o) && zlist_eqb (map m_uid rows_m) (o_post o);
     a_count := a_count a && (negb b || opt_eqb Z.eqb cnt' (Some (Z.of_nat (length (o_post o)))));
     a_list := a_list a && (negb b || zlist_eqb view' (o_post o));
     a_cls := match a_cls a with Some f => Some f | None => classify_step (o_cmd o) rows (a_last a) end;
     a_noop := a_noop a
               || match o_cmd o with
                  | CNoop => negb (zlist_eqb (view_replay (o_post o) notes_m (a_view a)) (o_post o))
                  | _ => false
                  end |}.

(** code: bit0 model agrees, bit1 count level holds at every boundary, bit2 list
    level holds at every boundary, bits 3-4 bookkeeping class of the trace,
    bit5 the notices the MODEL predicts for some NOOP of the trace (derived from the
    count difference only) do not turn the client's list into the server's: class noop_notices *)
Definition case_session (steps : list ostep) : Z :=
  let a := fold_left sess_obs_step steps
             {| a_last := 0; a_cnt := None; a_view := []; a_model := true; a_count := true; a_list := true;
                a_cls := None; a_noop := false |} in
  b2z (a_model a) + 2 * b2z (a_count a) + 4 * b2z (a_list a) + 8 * sfcode (a_cls a) + 32 * b2z (a_noop a).

(** SEARCH UID <set> (evaluateTokens, case "UID": matchesUIDSet with msg.maxUID):
    sequence numbers of the messages whose UID is in the set *)
Definition case_searchuid (s : str) (uids got : list Z) (ast : option seqset) : Z :=
  let rows := label_from 1 uids in
  pack (zlist_eqb (map fst (filter (fun p => matches_sequence_set (snd p) s (max_uid_of uids)) rows)) got)
       (with_ast ast true (fun a => zlist_eqb got (map fst (filter (fun p => denote a (max_uid uids) (snd p)) rows))))
       (ast_print_ok ast s) None.

(** UID STORE <set> +FLAGS (Junk | NonJunk) with the auto-move *)
Definition case_uidjunk (s : str) (pre : list (Z * str)) (notices post : list Z) (ast : option seqset) : Z :=
  let mb := mk_mbox pre in
  let '(ns, ids, mb') := handle_uidstore_junk s mb in
  pack (zlist_eqb ns notices && zlist_eqb (map m_uid mb') post)
       (zlist_eqb (replay notices (map m_uid mb)) post
        && with_ast ast true (fun a =>
             zset_eqb (filter (fun u => negb (existsb (Z.eqb u) post)) (map m_uid mb))
                      (addressed_uids a (map m_uid mb))))
       (ast_print_ok ast s) None.
