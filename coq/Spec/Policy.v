(** C17 — the documented delivery policy, as total functions.

    Transcribed from /repo/config/delivery.yaml (comments) and
    /repo/docs/DELIVERY_SERVICE.md (quoted in NOTES/C17.md):

      "Maximum message size in bytes"                      max_size
      "Maximum recipients per transaction"                 max_recipients
      "Default folder for delivered messages"              default_folder
      "Enable quota checking" / "Quota limit in bytes"     quota_enabled, quota_limit
      "Allowed recipient domains (empty = accept all)"     allowed_domains
      "Reject messages for unknown users /
       Set to true to validate recipients against database" reject_unknown_user

    and from the property text: the message of each accepted recipient is
    filed in the store of exactly that address (the role mailbox's if the
    address is an enabled role address, else the user's local@domain), in the
    default folder, or in Spam when the spam-filter headers mark it
    (X-Rspamd-Action in {reject, rewrite subject, add header}, or
    X-Spam-Status starting with "yes"; names and values case-insensitive,
    values trimmed; storage.go's comments).

    The spec shares with the model only the database view, the address
    splitting at "@" and the data types. *)
From Coq Require Import String Ascii List Bool Arith ZArith.
From Raven Require Import Base.GoStr Model.Policy.
Import ListNotations.
Local Open Scope Z_scope.

(* ------------------------------------------------------------------ *)
(** * RCPT TO:<path> [SP parameters]   (RFC 5321 4.1.1.3, RFC 2033) *)

(** [rcpt_shape args addr]: the argument of RCPT is TO: (any case), optional
    blanks, the path in angle brackets, optionally followed by ESMTP
    parameters; [addr] is the text between the brackets. *)
Inductive rcpt_shape : str -> str -> Prop :=
| RS (pre sp addr params : str) :
    equal_fold pre (S_ "TO:") = true ->
    forallb is_space sp = true ->
    contains_byte addr ">"%char = false ->
    (params = [] \/ exists p, params = " "%char :: p) ->
    rcpt_shape (pre ++ sp ++ "<"%char :: addr ++ ">"%char :: params) addr.

(* ------------------------------------------------------------------ *)
(** * spam-filter headers *)

Definition first_header (hs : list (str * str)) (name : str) : option str :=
  option_map snd (find (fun kv => equal_fold (fst kv) name) hs).

Definition spam_actions : list str := [S_ "reject"; S_ "rewrite subject"; S_ "add header"].

Definition spec_spam (hs : list (str * str)) : bool :=
  match first_header hs K_action with
  | Some v => existsb (str_eqb (to_lower (trim_space v))) spam_actions
  | None => false
  end
  || match first_header hs K_status with
     | Some v => has_prefix (to_lower (trim_space v)) (S_ "yes")
     | None => false
     end.

Definition spec_folder (cfg : config) (m : message) : str :=
  if spec_spam (m_headers m) then Spam else default_folder cfg.

(* ------------------------------------------------------------------ *)
(** * who is known, where mail goes *)

Definition is_role (d : db) (addr : str) : bool :=
  existsb (fun r => str_eqb (r_email r) addr && r_enabled r) (roles d).
Definition user_exists (d : db) (n dom : str) : bool := existsb (user_is n dom) (users d).
Definition user_enabled (d : db) (n dom : str) : bool :=
  existsb (fun u => user_is n dom u && u_enabled u) (users d).
Definition user_disabled (d : db) (n dom : str) : bool :=
  existsb (fun u => user_is n dom u && negb (u_enabled u)) (users d).

(** "validate recipients against database": an enabled role address or an
    enabled user local@domain (exact match of every byte) *)
Definition known (d : db) (addr : str) : bool :=
  match extract_parts addr with
  | None => false
  | Some (n, dom) => is_role d addr || user_enabled d n dom
  end.

Definition domain_listed (cfg : config) (addr : str) : bool :=
  match extract_parts addr with
  | None => false
  | Some (_, dom) => existsb (str_eqb dom) (allowed_domains cfg)
  end.

Definition spec_target (d : db) (addr : str) : option store :=
  match extract_parts addr with
  | None => None
  | Some (n, dom) => Some (if is_role d addr then RoleStore addr else UserStore n dom)
  end.

(* ------------------------------------------------------------------ *)
(** * outcomes *)

Inductive reason := WhyLimit | WhySyntax | WhyDomain | WhyUnknown | WhyDisabled | WhySize | WhyMalformed | WhyQuota.
Inductive outcome := Refused (w : reason) | FiledIn (st : store) (folder : str).

Definition erase (o : outcome) : moutcome :=
  match o with Refused _ => MRefused | FiledIn st f => MFiled st f end.

(** RCPT-time policies, in the order of the configuration file *)
Definition spec_rcpt (cfg : config) (d : db) (n_accepted : Z) (addr : str) : option reason :=
  if (max_recipients cfg <=? n_accepted) then Some WhyLimit
  else if (match allowed_domains cfg with [] => false | _ => negb (domain_listed cfg addr) end) then Some WhyDomain
  else if (reject_unknown_user cfg && negb (known d addr)) then Some WhyUnknown
  else None.

(** bytes held by the mailbox mail for [addr] goes to: the role mailbox, or the
    mailbox of the enabled user local@domain; a mailbox that does not exist
    (yet) holds nothing *)
Definition mailbox_usage (d : db) (addr : str) : Z :=
  if is_role d addr then usage_of d (RoleStore addr)
  else match extract_parts addr with
       | Some (n, dom) => if user_enabled d n dom then usage_of d (UserStore n dom) else 0
       | None => 0
       end.

(** "Enable quota checking" / "Quota limit in bytes": the message does not fit.
    Decided for every recipient on the mailboxes as they are when the message
    arrives (before any delivery of this transaction). *)
Definition spec_over_quota (cfg : config) (d : db) (m : message) (addr : str) : bool :=
  quota_enabled cfg && (quota_limit cfg <? mailbox_usage d addr + m_size m).

(** delivery of one accepted recipient (size and well-formedness already
    checked); [over] = this recipient's quota verdict *)
Definition spec_deliver (cfg : config) (over : bool) (d : db) (addr : str) (m : message) : outcome * db :=
  match extract_parts addr with
  | None => (Refused WhySyntax, d)
  | Some (n, dom) =>
      let role := is_role d addr in
      let st := if role then RoleStore addr else UserStore n dom in
      if negb role && user_disabled d n dom then (Refused WhyDisabled, d)
      else if over then (Refused WhyQuota, d)
      else
        let d1 := if role || user_exists d n dom then d else add_user d n dom in
        (FiledIn st (spec_folder cfg m), add_msg d1 (mkFiled st (spec_folder cfg m) (m_size m)))
  end.

Fixpoint spec_deliver_all (cfg : config) (over : str -> bool) (d : db) (addrs : list str) (m : message)
  : list outcome * db :=
  match addrs with
  | [] => ([], d)
  | a :: rest =>
      let '(o, d1) := spec_deliver cfg (over a) d a m in
      let '(os, d2) := spec_deliver_all cfg over d1 rest m in
      (o :: os, d2)
  end.

(** RCPT phase: for every address either the reason of refusal or acceptance *)
Fixpoint spec_rcpts (cfg : config) (d : db) (n_accepted : Z) (addrs : list str) : list (option reason) :=
  match addrs with
  | [] => []
  | a :: rest =>
      match spec_rcpt cfg d n_accepted a with
      | Some w => Some w :: spec_rcpts cfg d n_accepted rest
      | None => None :: spec_rcpts cfg d (n_accepted + 1) rest
      end
  end.

Fixpoint accepted_of (addrs : list str) (vs : list (option reason)) : list str :=
  match addrs, vs with
  | a :: addrs', None :: vs' => a :: accepted_of addrs' vs'
  | _ :: addrs', Some _ :: vs' => accepted_of addrs' vs'
  | _, _ => []
  end.

Fixpoint merge_spec (vs : list (option reason)) (dos : list outcome) : list outcome :=
  match vs with
  | [] => []
  | Some w :: vs' => Refused w :: merge_spec vs' dos
  | None :: vs' =>
      match dos with
      | o :: dos' => o :: merge_spec vs' dos'
      | [] => Refused WhyMalformed :: merge_spec vs' []
      end
  end.

Definition spec_accepted (cfg : config) (d : db) (addrs : list str) : list str :=
  accepted_of addrs (spec_rcpts cfg d 0 addrs).

(** DATA phase for the accepted recipients: size, well-formedness, then per recipient *)
Definition spec_data (cfg : config) (d : db) (acc : list str) (m : message) : list outcome * db :=
  if (max_size cfg <? m_size m) then (map (fun _ => Refused WhySize) acc, d)
  else if negb (m_parse_ok m) then (map (fun _ => Refused WhyMalformed) acc, d)
  else spec_deliver_all cfg (spec_over_quota cfg d m) d acc m.

(** the whole transaction: outcome per RCPT line, database afterwards *)
Definition spec_txn (cfg : config) (d : db) (addrs : list str) (m : message) : list outcome * db :=
  let vs := spec_rcpts cfg d 0 addrs in
  let '(os, d') := spec_data cfg d (spec_accepted cfg d addrs) m in
  (merge_spec vs os, d').

(* ------------------------------------------------------------------ *)
(** * configurations *)

(** what config.go documents as a valid configuration *)
Definition valid_config (c : full_config) : Prop :=
  (fc_unix_socket c <> [] \/ fc_tcp_address c <> []) /\
  max_size (fc c) > 0 /\ fc_timeout c > 0 /\ max_recipients (fc c) > 0 /\
  fc_db_path c <> [] /\ default_folder (fc c) <> [] /\
  (quota_enabled (fc c) = true -> quota_limit (fc c) > 0) /\
  In (fc_log_level c) [S_ "debug"; S_ "info"; S_ "warn"; S_ "error"] /\
  In (fc_log_format c) [S_ "text"; S_ "json"].

(** the part of validity the delivery theorems need *)
Definition cfg_ok (cfg : config) : Prop := default_folder cfg <> [].

(** database well-formedness: UNIQUE(username, domain_id) *)
Fixpoint users_unique (us : list user) : bool :=
  match us with
  | [] => true
  | u :: rest => negb (existsb (user_is (u_name u) (u_domain u)) rest) && users_unique rest
  end.
Definition wf_db (d : db) : Prop := users_unique (users d) = true.
