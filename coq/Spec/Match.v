(** RFC 3501 LIST pattern matching as an inductive relation (delimiter "/"). *)
From Coq Require Import String Ascii List.
From Raven Require Import Base.GoStr Model.Pattern.
Import ListNotations.

Inductive Matches : str -> str -> Prop :=          (* pattern, name *)
| M_nil  : Matches [] []
| M_chr c p t : c <> star -> c <> pct -> Matches p t -> Matches (c :: p) (c :: t)
| M_star p s t : Matches p t -> Matches (star :: p) (s ++ t)
| M_pct  p s t : ~ In delim s -> Matches p t -> Matches (pct :: p) (s ++ t).

(** INBOX is matched case-insensitively: the pattern's literal bytes are
    compared with INBOX after ASCII upper-casing. *)
Definition MatchesI (p n : str) : Prop :=
  Matches p n \/ (n = INBOX /\ Matches (to_upper p) INBOX).
