(** C02 — abstract messages and the property's equivalence.

    A message is its ordered header list plus either a single body or a tree
    of MIME parts.  [serialize] (RFC 5322 / RFC 2046 octets of a message, with
    explicitly given boundaries) fixes what the trees mean as octets; the
    correspondence check submits exactly these octets. *)
From Coq Require Import String Ascii List Bool Arith NArith ZArith Lia.
From Raven Require Import Base.GoStr Base.GoStrMime.
Import ListNotations.

Record leaf := mk_leaf {
  l_type : str;      (* media type, e.g. text/plain *)
  l_charset : str;   (* charset parameter, [] = absent *)
  l_ctname : str;    (* name= parameter of Content-Type, [] = absent *)
  l_cte : str;       (* Content-Transfer-Encoding value, [] = absent *)
  l_disp : str;      (* whole Content-Disposition value, [] = absent *)
  l_filename : str;  (* filename parameter inside l_disp, [] = absent *)
  l_cid : str;       (* Content-ID value, [] = absent *)
  l_body : str       (* encoded body octets *)
}.

Inductive mime :=
| Leaf (l : leaf)
| Multi (subtype : str) (kids : list mime).

Inductive mbody :=
| Single (b : str)
| Multipart (subtype : str) (kids : list mime).

Definition header := (str * str)%type.   (* name, value (folds kept as CRLF WSP) *)

(** [m_hdrs]: every header field in order; for a multipart message WITHOUT the
    root Content-Type field (it carries the boundary, a serialisation detail) *)
Record msg := mk_msg { m_hdrs : list header; m_body : mbody }.

(** ---- decoding of leaf content *)
Definition cte_norm (cte : str) : str := to_lower (trim_space cte).
Definition s_base64 := S_ "base64".
Definition s_qp := S_ "quoted-printable".

(** undecodable content is taken as it is *)
Definition decode (cte body : str) : str :=
  if str_eqb (cte_norm cte) s_base64 then
    match b64_decode body with Some d => d | None => body end
  else if str_eqb (cte_norm cte) s_qp then
    match qp_decode body with Some d => d | None => body end
  else body.

(** equal up to one final line break *)
Definition eq_upto_final_break (a b : str) : bool :=
  str_eqb a b || str_eqb a (b ++ crlf) || str_eqb b (a ++ crlf)
  || str_eqb a (b ++ [LF]) || str_eqb b (a ++ [LF]).

Definition effective_filename (l : leaf) : str :=
  match l_filename l with [] => l_ctname l | f => f end.

(** RFC 2045 5.2: a part without Content-Type is text/plain; charset=us-ascii *)
Definition eff_type (l : leaf) : str := match l_type l with [] => S_ "text/plain" | t => t end.
Definition eff_charset (l : leaf) : str := match l_type l with [] => S_ "us-ascii" | _ => l_charset l end.

Definition leaf_equiv (a b : leaf) : bool :=
  equal_fold (eff_type a) (eff_type b)
  && str_eqb (eff_charset a) (eff_charset b)
  && str_eqb (effective_filename a) (effective_filename b)
  && str_eqb (trim_space (l_cid a)) (trim_space (l_cid b))
  && str_eqb (decode (l_cte a) (l_body a)) (decode (l_cte b) (l_body b)).
  (* tightened after 84a3070 / eb5748f: the decoded content is IDENTICAL; the property only
     asks for equality up to a final line break ([eq_upto_final_break], implied) *)

Fixpoint mime_equiv (a b : mime) {struct a} : bool :=
  match a, b with
  | Leaf x, Leaf y => leaf_equiv x y
  | Multi s ks, Multi s' ks' =>
      equal_fold s s' &&
      (fix go (l : list mime) (l' : list mime) {struct l} : bool :=
         match l, l' with
         | [], [] => true
         | x :: r, y :: r' => mime_equiv x y && go r r'
         | _, _ => false
         end) ks ks'
  | _, _ => false
  end.

Fixpoint kids_equiv (l l' : list mime) : bool :=
  match l, l' with
  | [], [] => true
  | x :: r, y :: r' => mime_equiv x y && kids_equiv r r'
  | _, _ => false
  end.

(** ---- header lists *)
Definition s_content_type := S_ "content-type".
Definition is_ct_name (n : str) : bool := str_eqb (to_lower (trim_space n)) s_content_type.
Definition has_ct (hs : list header) : bool := existsb (fun h => is_ct_name (fst h)) hs.

Definition hdr_eqv (h h' : header) : bool :=
  str_eqb (trim_space (fst h)) (trim_space (fst h')) && str_eqb (trim_space (snd h)) (trim_space (snd h')).

Definition is_default_ct (h : header) : bool :=
  is_ct_name (fst h) && has_prefix (to_lower (trim_space (snd h))) (S_ "text/plain").

(** same fields, same order, names and values up to surrounding white space;
    [allow]: one default Content-Type field may have been added *)
Fixpoint hdrs_equiv_aux (allow : bool) (hs hs' : list header) {struct hs'} : bool :=
  match hs' with
  | [] => match hs with [] => true | _ => false end
  | h' :: t' =>
      match hs with
      | h :: t => if hdr_eqv h h' then hdrs_equiv_aux allow t t'
                  else allow && is_default_ct h' && hdrs_equiv_aux false hs t'
      | [] => allow && is_default_ct h' && hdrs_equiv_aux false [] t'
      end
  end.
Definition hdrs_equiv (hs hs' : list header) : bool := hdrs_equiv_aux (negb (has_ct hs)) hs hs'.

(** THE equivalence of the property (submitted [m], fetched [m']) *)
Definition msg_equiv (m m' : msg) : bool :=
  match m_body m, m_body m' with
  | Single b, Single b' => str_eqb b b' && hdrs_equiv (m_hdrs m) (m_hdrs m')
  | Multipart s ks, Multipart s' ks' => equal_fold s s' && kids_equiv ks ks'
  | _, _ => false
  end.

(** ---- octets of a message.  Boundaries are supplied per container in
    pre-order ([bds]); the generator chooses them so that they do not occur in
    any content (that is a side condition of the GENERATOR, checked by the
    harness parser, not of the theorems). *)
Definition colon_sp : str := S_ ": ".
Definition hdr_line (n v : str) : str := n ++ S_ ":" ++ v ++ crlf.
Definition q (s : str) : str := S_ """" ++ s ++ S_ """".

Definition leaf_headers (l : leaf) : str :=
  (match l_type l with
   | [] => []
   | t => hdr_line (S_ "Content-Type")
            (S_ " " ++ t
             ++ (match l_charset l with [] => [] | c => S_ "; charset=" ++ c end)
             ++ (match l_ctname l with [] => [] | c => S_ "; name=" ++ q c end))
   end)
  ++ (match l_cte l with [] => [] | e => hdr_line (S_ "Content-Transfer-Encoding") (S_ " " ++ e) end)
  ++ (match l_disp l with [] => [] | d => hdr_line (S_ "Content-Disposition") (S_ " " ++ d) end)
  ++ (match l_cid l with [] => [] | c => hdr_line (S_ "Content-ID") (S_ " " ++ c) end).

(** returns (octets, unused boundaries) *)
Fixpoint ser_mime (t : mime) (bds : list str) {struct t} : str * list str :=
  match t with
  | Leaf l => (leaf_headers l ++ crlf ++ l_body l, bds)
  | Multi s ks =>
      match bds with
      | [] => ([], [])
      | b :: bds' =>
          let '(inner, rest) :=
            (fix go (l : list mime) (bds : list str) {struct l} : str * list str :=
               match l with
               | [] => ([], bds)
               | k :: r =>
                   let '(x, bds1) := ser_mime k bds in
                   let '(y, bds2) := go r bds1 in
                   (S_ "--" ++ b ++ crlf ++ x ++ crlf ++ y, bds2)
               end) ks bds' in
          (hdr_line (S_ "Content-Type") (S_ " multipart/" ++ s ++ S_ "; boundary=" ++ q b)
           ++ crlf ++ inner ++ S_ "--" ++ b ++ S_ "--" ++ crlf, rest)
      end
  end.

Definition ser_hdrs (hs : list header) : str := flat_map (fun h => hdr_line (fst h) (snd h)) hs.

Definition serialize (m : msg) (bds : list str) : str :=
  match m_body m with
  | Single b => ser_hdrs (m_hdrs m) ++ crlf ++ b
  | Multipart s ks => ser_hdrs (m_hdrs m) ++ fst (ser_mime (Multi s ks) bds)
  end.
