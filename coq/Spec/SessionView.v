(** C09: what the client of the observing session knows.  It applies every
    untagged EXISTS / EXPUNGE in order.  Count level: [cnt_apply] is STRICT
    (an EXPUNGE must name a message the client has, an EXISTS never shrinks
    the mailbox); the client's count must equal the server's at every NOOP
    boundary.  List level: [view_apply] with the server's list at the time
    of an EXISTS supplying the identities of the new messages. *)
From Coq Require Import String Ascii List Bool ZArith.
From Raven Require Import Base.GoStr Base.GoStrZ Model.SeqSet Model.Expunge Model.Session Spec.SeqSet Spec.SeqSetFindings.
Import ListNotations.
Local Open Scope Z_scope.

Definition cnt_apply (c : option Z) (n : note) : option Z :=
  match c with
  | None => None
  | Some c =>
    match n with
    | NExists k => if c <=? k then Some k else None
    | NExpunge k => if (1 <=? k) && (k <=? c) then Some (c - 1) else None
    end
  end.
Definition cnt_replay (notes : list note) (c : option Z) : option Z := fold_left cnt_apply notes c.

(** list level: [server] is the server's uid list when the notes were sent *)
Definition view_apply (server : list Z) (v : list Z) (n : note) : list Z :=
  match n with
  | NExists k => v ++ skipn (length v) (firstn (Z.to_nat k) server)
  | NExpunge k => apply_expunge v k
  end.
Definition view_replay (server : list Z) (notes : list note) (v : list Z) : list Z :=
  fold_left (view_apply server) notes v.

(** guards = complement of the finding classes of the bookkeeping *)
Fixpoint within (sel : msg -> bool) (l : list msg) (k last : Z) : bool :=
  match l with
  | [] => true
  | m :: l' => (negb (sel m) || (k <=? last)) && within sel l' (k + 1) last
  end.

Fixpoint nodupb (l : list Z) : bool :=
  match l with [] => true | x :: l' => negb (existsb (Z.eqb x) l') && nodupb l' end.

(** the one remaining class: an "* n EXPUNGE" of the session's own EXPUNGE, UID EXPUNGE or
    STORE(Junk) names a message the session was never told about *)
Inductive sfinding := SF_expunge_unannounced.

Definition classify_step (c : scmd) (rows : list msg) (last : Z) : option sfinding :=
  match c with
  | CJunk s =>
    match cnt_replay (map NExpunge (fst (fst (handle_store_junk s rows)))) (Some last) with
    | Some _ => None
    | None => Some SF_expunge_unannounced
    end
  | CExpunge =>
    if within (fun m => sql_deleted (m_flags m)) rows 1 last then None else Some SF_expunge_unannounced
  | CUidExpunge s =>
    match parse_uidset_db s (map m_uid rows) with
    | [] => None
    | uids => if within (uid_expunge_sel uids) rows 1 last then None else Some SF_expunge_unannounced
    end
  | _ => None
  end.

(** run a trace from the state (rows, last, client count); [None] class
    accumulates the first finding met *)
Record tstate := { t_rows : list msg; t_last : Z; t_cnt : option Z; t_cls : option sfinding; t_nodup : bool }.

Definition trace_step (st : tstate) (it : titem) : tstate :=
  match it with
  | Ext rows' => {| t_rows := rows'; t_last := t_last st; t_cnt := t_cnt st; t_cls := t_cls st;
                    t_nodup := t_nodup st && nodupb (map m_id rows') |}
  | Cmd c =>
    let '(notes, rows', last') := sess_step c (t_rows st) (t_last st) in
    {| t_rows := rows'; t_last := last';
       t_cnt := match c with CSelect => Some (count_of (t_rows st)) | _ => cnt_replay notes (t_cnt st) end;
       t_cls := match t_cls st with Some f => Some f | None => classify_step c (t_rows st) (t_last st) end;
       t_nodup := t_nodup st |}
  end.

Definition run_trace (tr : list titem) (rows0 : list msg) : tstate :=
  fold_left trace_step tr
    {| t_rows := rows0; t_last := 0; t_cnt := None; t_cls := None; t_nodup := nodupb (map m_id rows0) |}.
