(** C16 — The LMTP dialogue stays in step with the client and is transparent to data.
    Model: Model/Lmtp.v (lmtp/session.go, parser.ReadDataCommand).
    Spec: Spec/LmtpDialog.v.  Proofs: Proof/LmtpData.v, LmtpDialog.v, LmtpTx.v.

    [accepts] (ParseMessage+ValidateMessage verdict) and [delivers] (storage
    result per recipient) are universally quantified: every theorem holds for
    every behaviour of net/mail and of the stores. *)
From Coq Require Import String Ascii List Bool ZArith NArith.
From Raven Require Import Base.GoStr Model.Lmtp Spec.LmtpDialog Spec.LmtpStream
     Proof.LmtpData Proof.LmtpDialog Proof.LmtpTx.
Import ListNotations.
Local Open Scope Z_scope.

(** (b) transparency of the DATA reader, byte level: for every body [b] (lines
    of arbitrary octets: lines of dots, lines that are LMTP commands, bare-LF
    lines, 8-bit data) within the size limit, either terminator and every
    continuation [rest] of the stream: the stuffed body is returned unstuffed
    and unaltered, and exactly [rest] is left in the reader. *)
Theorem c16_unstuff_stuff : forall max b term rest,
  Forall is_line b -> is_term term = true -> len (concat b) <= max ->
  read_data_cmd (concat (stuff b) ++ term ++ rest) max = (DOk (concat b), rest).
Proof. exact read_data_cmd_stuff. Qed.
Print Assumptions c16_unstuff_stuff.

(** (c) size limit: a body larger than the limit is refused ... *)
Theorem c16_size_limit_refuses : forall max b term rest,
  0 <= max -> len (concat b) > max ->
  fst (read_data_lines max [] 0 (stuff b ++ term :: rest)) = DErrSize.
Proof. intros. apply read_data_oversize; auto. Qed.
Print Assumptions c16_size_limit_refuses.

(** ... and nothing larger than the limit is ever returned, for any stream *)
Theorem c16_size_limit_any_stream : forall max ls d rest,
  0 <= max -> read_data_lines max [] 0 ls = (DOk d, rest) -> len d <= max.
Proof. intros max ls d rest H R. eapply read_data_within; [| |exact R]; auto. Qed.
Print Assumptions c16_size_limit_any_stream.

(** (a)(c)(d)(e) on the reply trace: for EVERY stream of lines (pipelined or
    not, RSET, repeated MAIL, case variants, ESMTP parameters, bodies of any
    content) on which no finding class is hit, the replies pass the dialogue
    checker: MAIL accepted only after LHLO and outside a transaction, RCPT only
    inside one and below the recipient limit, DATA only with a recipient,
    503/452 only when that is the case, and after 354 exactly one final reply
    per accepted recipient in RCPT order, after which the transaction is over. *)
Theorem c16_sequencing : forall accepts delivers c ls,
  cmd_lines_ascii accepts delivers c st0 MCmd ls = true ->
  classify accepts delivers c ls = None ->
  dialog_ok (max_rcpts c) (fst (run accepts delivers c st0 MCmd ls)) = true.
Proof. intros accepts delivers c ls _. apply dialog_ok_run. Qed.
Print Assumptions c16_sequencing.

(** (c) recipient limit: never more than max_recipients recipients are held,
    whatever the stream *)
Theorem c16_rcpt_limit : forall accepts delivers c ls,
  0 <= max_rcpts c ->
  Z.of_nat (length (rcpts (fst (run_state accepts delivers c st0 MCmd ls)))) <= max_rcpts c.
Proof. intros. apply rcpts_bound; auto. Qed.
Print Assumptions c16_rcpt_limit.

(** (b)(d)(e) one DATA phase seen from the stream: in any state with a sender
    and recipients, for every DATA line, every body [b] outside the finding
    classes, either terminator and every continuation [rest]: the server
    answers 354, then one reply per recipient in RCPT order, each about exactly
    the octets of [b] (nothing altered), and then does exactly what a session
    in the reset state does with [rest]: no line of [b] was executed as a
    command and the session is ready for the next transaction. *)
Theorem c16_replies_per_recipient : forall accepts delivers c s dl args b term rest,
  all_ascii dl = true ->
  parse_cmd dl = Some (S_ "DATA", args) ->
  is_nil (mail_from s) = false -> rcpts s <> [] ->
  is_term term = true ->
  classify_tx accepts c b = None ->
  run accepts delivers c s MCmd (dl :: stuff b ++ term :: rest) =
  (let '(e, r) := run accepts delivers c (reset s) MCmd rest in
   (Reply TData 354 [] :: deliveries delivers s (concat b) ++ e, r)).
Proof. intros accepts delivers c s dl args b term rest _. apply transaction. Qed.
Print Assumptions c16_replies_per_recipient.

Theorem c16_transaction_spec : forall accepts delivers c s dl args b term rest,
  all_ascii dl = true ->
  parse_cmd dl = Some (S_ "DATA", args) ->
  is_nil (mail_from s) = false -> rcpts s <> [] ->
  is_term term = true ->
  classify_tx accepts c b = None ->
  tx_ok (concat b) (rcpts s) (fst (run accepts delivers c (reset s) MCmd rest))
        (fst (run accepts delivers c s MCmd (dl :: stuff b ++ term :: rest))) = true.
Proof. intros accepts delivers c s dl args b term rest _. apply transaction_tx_ok. Qed.
Print Assumptions c16_transaction_spec.

(** ---- where raven violates the property: one witness per class ---- *)
Definition yes : str -> bool := fun _ => true.
Definition no : str -> bool := fun _ => false.
Definition dl_ok : str -> str -> bool := fun _ _ => true.
Definition L (s : string) : str := S_ s ++ crlf.
Definition s3 : st := {| helo := S_ "x"; mail_from := S_ "a@example.com";
                         rcpts := [S_ "u1@example.com"; S_ "u2@example.com"; S_ "u3@example.com"] |}.
Definition s1 : st := {| helo := S_ "x"; mail_from := S_ "a@example.com"; rcpts := [S_ "u1@example.com"] |}.
Definition c10 : cfg := {| max_size := 10; max_rcpts := 5 |}.

(** over-size body: reading stops at the line that crosses the limit, one 554
    is sent for three recipients and the rest of the body (RSET, the
    terminator) is executed as commands *)
Theorem c16_refuted_oversize_desync :
  exists b rest,
    classify_tx yes c10 b = Some OversizeDesync /\
    tx_ok (concat b) (rcpts s3) (fst (run yes dl_ok c10 (reset s3) MCmd rest))
          (fst (run yes dl_ok c10 s3 MCmd (L "DATA" :: stuff b ++ dot_crlf :: rest))) = false /\
    fst (run yes dl_ok c10 s3 MCmd (L "DATA" :: stuff b ++ dot_crlf :: rest)) =
      [Reply TData 354 []; Reply TDataErrSize 554 []; Reply TRset 250 []; Reply TUnknown 500 []; Reply TNoop 250 []].
Proof. exists [L "0123456789ab"; L "RSET"], [L "NOOP"]. vm_compute. repeat split; reflexivity. Qed.
Print Assumptions c16_refuted_oversize_desync.

(** message refused by the message checks (e.g. no From header): one 554 for
    three recipients ... *)
Theorem c16_refuted_single_554 :
  exists b rest,
    classify_tx no c10 b = Some Single554 /\
    tx_ok (concat b) (rcpts s3) (fst (run no dl_ok c10 (reset s3) MCmd rest))
          (fst (run no dl_ok c10 s3 MCmd (L "DATA" :: stuff b ++ dot_crlf :: rest))) = false.
Proof. exists [L "hello"], [L "NOOP"]. vm_compute. split; reflexivity. Qed.
Print Assumptions c16_refuted_single_554.

(** ... and even with one recipient the session is not ready for the next
    transaction: sender and recipients are kept, the next MAIL gets 503 *)
Theorem c16_refuted_single_554_not_reset :
  exists b rest,
    classify_tx no c10 b = Some Single554 /\
    tx_ok (concat b) (rcpts s1) (fst (run no dl_ok c10 (reset s1) MCmd rest))
          (fst (run no dl_ok c10 s1 MCmd (L "DATA" :: stuff b ++ dot_crlf :: rest))) = false /\
    fst (run no dl_ok c10 s1 MCmd (L "DATA" :: stuff b ++ dot_crlf :: rest)) =
      [Reply TData 354 []; Reply TDataErrMsg 554 []; Reply TMail 503 []].
Proof. exists [L "hello"], [L "MAIL FROM:<b@example.com>"]. vm_compute. repeat split; reflexivity. Qed.
Print Assumptions c16_refuted_single_554_not_reset.

(** the same two classes seen by the dialogue checker on whole sessions *)
Theorem c16_refuted_oversize_desync_dialog :
  exists ls, classify yes dl_ok c10 ls = Some OversizeDesync /\
             dialog_ok (max_rcpts c10) (fst (run yes dl_ok c10 st0 MCmd ls)) = false.
Proof.
  exists [L "LHLO x"; L "MAIL FROM:<a@example.com>"; L "RCPT TO:<u1@example.com>"; L "DATA";
          L "0123456789ab"; L "RSET"; dot_crlf].
  vm_compute. split; reflexivity.
Qed.
Print Assumptions c16_refuted_oversize_desync_dialog.

Theorem c16_refuted_single_554_dialog :
  exists ls, classify no dl_ok c10 ls = Some Single554 /\
             dialog_ok (max_rcpts c10) (fst (run no dl_ok c10 st0 MCmd ls)) = false.
Proof.
  exists [L "LHLO x"; L "MAIL FROM:<a@example.com>"; L "RCPT TO:<u1@example.com>"; L "DATA";
          L "hello"; dot_crlf].
  vm_compute. split; reflexivity.
Qed.
Print Assumptions c16_refuted_single_554_dialog.

(** null reverse-path: MAIL FROM:<> is answered 250 but leaves the session
    outside a transaction: the following RCPT is refused with 503 *)
Theorem c16_refuted_null_sender :
  exists ls, classify yes dl_ok c10 ls = Some NullSender /\
             dialog_ok (max_rcpts c10) (fst (run yes dl_ok c10 st0 MCmd ls)) = false /\
             fst (run yes dl_ok c10 st0 MCmd ls) =
               [Reply TLhlo 250 (S_ "x"); Reply TMail 250 []; Reply TRcpt 503 []].
Proof.
  exists [L "LHLO x"; L "MAIL FROM:<>"; L "RCPT TO:<u1@example.com>"].
  vm_compute. repeat split; reflexivity.
Qed.
Print Assumptions c16_refuted_null_sender.

(** ---- the hypotheses are satisfiable ---- *)
Example c16_unstuff_example :
  let b := [S_ "." ++ crlf; S_ ".." ++ crlf; S_ "RSET" ++ crlf; S_ "a" ++ [LF]; S_ ".x" ++ crlf] in
  forallb is_line_b b = true /\
  read_data_cmd (concat (stuff b) ++ dot_crlf ++ S_ "NOOP" ++ crlf) 100 = (DOk (concat b), S_ "NOOP" ++ crlf).
Proof. vm_compute. split; reflexivity. Qed.

(** a pipelined session with two transactions, a body that contains commands
    and dots, mixed-case commands: no class, checker satisfied, 2 + 1 deliveries *)
Example c16_session_example :
  let c := {| max_size := 1000; max_rcpts := 2 |} in
  let body := [L "From: a@example.com"; L ""; L "."; L "RSET"; L "..x"] in
  let ls := [L "lhlo x"; L "Mail From:<a@example.com> SIZE=10"; L "rcpt to:<u1@example.com>";
             L "RCPT TO:<u2@example.com>"; L "RCPT TO:<u3@example.com>"; L "DATA"] ++ stuff body ++
            [dot_crlf; L "MAIL FROM:<b@example.com>"; L "RCPT TO:<u1@example.com>"; L "DATA"] ++
            stuff body ++ [dot_lf; L "QUIT"; L "NOOP"] in
  cmd_lines_ascii yes dl_ok c st0 MCmd ls = true /\
  classify yes dl_ok c ls = None /\
  dialog_ok (max_rcpts c) (fst (run yes dl_ok c st0 MCmd ls)) = true /\
  length (filter (fun e => match e with Deliver _ d _ => str_eqb d (concat body) | _ => false end)
                 (fst (run yes dl_ok c st0 MCmd ls))) = 3%nat /\
  snd (run yes dl_ok c st0 MCmd ls) = Some [L "NOOP"].
Proof. vm_compute. repeat split; reflexivity. Qed.

(** the executable whole-session spec [stream_ok] (evaluated on the
    implementation's replies by the correspondence check) accepts the model's
    own replies on that session and rejects them on the three witnesses *)
Definition render (e : ev) : reply :=
  match e with
  | Reply _ code _ => (code, [])
  | Deliver r _ ok => ((if ok then 250 else 550)%N, S_ "to <" ++ r ++ S_ ">")
  end.
Definition model_stream_ok (accepts : str -> bool) (c : cfg) (ls : list str) : bool :=
  stream_ok (max_rcpts c) ls (map render (fst (run accepts dl_ok c st0 MCmd ls))).

Example c16_stream_ok_examples :
  let c := {| max_size := 1000; max_rcpts := 2 |} in
  let body := [L "From: a@example.com"; L ""; L "."; L "RSET"; L "..x"] in
  model_stream_ok yes c ([L "lhlo x"; L "Mail From:<a@example.com> SIZE=10"; L "rcpt to:<u1@example.com>";
                          L "RCPT TO:<u2@example.com>"; L "RCPT TO:<u3@example.com>"; L "DATA"] ++ stuff body ++
                         [dot_crlf; L "MAIL FROM:<b@example.com>"; L "RCPT TO:<u1@example.com>"; L "DATA"] ++
                         stuff body ++ [dot_lf; L "QUIT"; L "NOOP"]) = true /\
  model_stream_ok yes c10 [L "LHLO x"; L "MAIL FROM:<a@example.com>"; L "RCPT TO:<u1@example.com>"; L "DATA";
                           L "0123456789ab"; L "RSET"; dot_crlf] = false /\
  model_stream_ok no c10 [L "LHLO x"; L "MAIL FROM:<a@example.com>"; L "RCPT TO:<u1@example.com>";
                          L "RCPT TO:<u2@example.com>"; L "DATA"; L "hello"; dot_crlf] = false /\
  model_stream_ok yes c10 [L "LHLO x"; L "MAIL FROM:<>"; L "RCPT TO:<u1@example.com>"] = false.
Proof. vm_compute. repeat split; reflexivity. Qed.

(** Observation (not a listed finding, see NOTES/C16.md): [stuff] models a
    client that treats every LF as a line end.  A client that stuffs only
    after CRLF (RFC 5321) sends the body "a<LF>.<CRLF>RSET<CRLF>" unchanged;
    the reader, which also accepts ".<LF>" and splits at bare LF, ends the
    message at the second line and leaves RSET to the command loop. *)
Example c16_bare_lf_observation :
  read_data_cmd (S_ "a" ++ [LF] ++ S_ "." ++ crlf ++ S_ "RSET" ++ crlf ++ dot_crlf) 100
  = (DOk (S_ "a" ++ [LF]), S_ "RSET" ++ crlf ++ dot_crlf).
Proof. vm_compute. reflexivity. Qed.
