(** C16 — The LMTP dialogue stays in step with the client and is transparent to data.
    Model: Model/Lmtp.v (lmtp/session.go, parser.ReadDataCommand).
    Spec: Spec/LmtpDialog.v.  Proofs: Proof/LmtpData.v, LmtpDialog.v, LmtpTx.v.

    [accepts] (ParseMessage+ValidateMessage verdict), [delivers] (storage
    result per recipient) and [over] (the over-quota set of handleDATA) are
    universally quantified: every theorem holds for every behaviour of
    net/mail and of the stores and for EVERY over-quota set. *)
From Coq Require Import String Ascii List Bool ZArith NArith.
From Raven Require Import Base.GoStr Model.Lmtp Spec.LmtpDialog Spec.LmtpStream
     Proof.LmtpData Proof.LmtpDialog Proof.LmtpTx Proof.LmtpWrite.
Import ListNotations.
Local Open Scope Z_scope.

(** (b) transparency of the DATA reader, byte level: for every body [b] (lines
    of arbitrary octets: lines of dots, lines that are LMTP commands, bare-LF
    lines, 8-bit data) within the size limit, either terminator and every
    continuation [rest] of the stream: the stuffed body is returned unstuffed
    and unaltered, and exactly [rest] is left in the reader. *)
Theorem c16_unstuff_stuff : forall max b term rest,
  Forall is_line b -> is_term term = true -> len (concat b) <= max ->
  read_data_cmd (concat (stuff b) ++ term ++ rest) max = (DOk (concat b), rest).
Proof. exact read_data_cmd_stuff. Qed.
Print Assumptions c16_unstuff_stuff.

(** (b)(c) size limit, byte level: a body larger than the limit is refused,
    and it is still read to its end: exactly [rest] is left in the reader, so
    no line of an over-size body can reach the command loop *)
Theorem c16_oversize_refused_and_drained : forall max b term rest,
  Forall is_line b -> is_term term = true -> 0 <= max -> len (concat b) > max ->
  read_data_cmd (concat (stuff b) ++ term ++ rest) max = (DErrSize, rest).
Proof. exact read_data_cmd_oversize. Qed.
Print Assumptions c16_oversize_refused_and_drained.

(** ... and nothing larger than the limit is ever returned, for any stream *)
Theorem c16_size_limit_any_stream : forall max ls d rest,
  0 <= max -> read_data_lines max d0 ls = (DOk d, rest) -> len d <= max.
Proof. intros max ls d rest H R. eapply read_data_within; [|exact R]. intros _. split; [reflexivity|exact H]. Qed.
Print Assumptions c16_size_limit_any_stream.

(** (a)(c)(d)(e) on the reply trace, UNCONDITIONALLY: for EVERY stream of lines
    (pipelined or not, RSET, repeated MAIL, null reverse-path, case variants,
    ESMTP parameters, bodies of any content and size, messages the checks
    refuse) the replies pass the dialogue checker: MAIL accepted only after
    LHLO and outside a transaction, RCPT only inside one and below the
    recipient limit, DATA only with a recipient, 503/452 only when that is the
    case, and after 354 exactly one final reply per accepted recipient in RCPT
    order, after which the transaction is over. *)
Theorem c16_sequencing : forall accepts delivers over c ls,
  cmd_lines_ascii accepts delivers over c st0 MCmd ls = true ->
  dialog_ok (max_rcpts c) (fst (run accepts delivers over c st0 MCmd ls)) = true.
Proof. intros accepts delivers over c ls _. apply dialog_ok_run. Qed.
Print Assumptions c16_sequencing.

(** (c) recipient limit: never more than max_recipients recipients are held,
    whatever the stream *)
Theorem c16_rcpt_limit : forall accepts delivers over c ls,
  0 <= max_rcpts c ->
  Z.of_nat (length (rcpts (fst (run_state accepts delivers over c st0 MCmd ls)))) <= max_rcpts c.
Proof. intros. apply rcpts_bound; auto. Qed.
Print Assumptions c16_rcpt_limit.

(** (b)(d)(e) one DATA phase seen from the stream, UNCONDITIONALLY: in any
    state with an accepted MAIL and recipients, for every DATA line, EVERY
    body [b] (any size, any content, accepted by the message checks or not),
    either terminator and every continuation [rest]: the server answers 354,
    then one reply per recipient in RCPT order - a delivery reply about exactly
    the octets of [b], or a refusal (552 over the size limit, 554 refused by
    the message checks, 552 for exactly the recipients in the over-quota set,
    each in its own RCPT position) for that recipient - and then does exactly what a
    session in the reset state does with [rest]: no line of [b] was executed
    as a command and the session is ready for the next transaction. *)
Theorem c16_replies_per_recipient : forall accepts delivers over c s dl args b term rest,
  all_ascii dl = true ->
  parse_cmd dl = Some (S_ "DATA", args) ->
  mail_seen s = true -> rcpts s <> [] ->
  is_term term = true ->
  0 <= max_size c ->
  run accepts delivers over c s MCmd (dl :: stuff b ++ term :: rest) =
  (let '(e, r) := run accepts delivers over c (reset s) MCmd rest in
   (Reply TData 354 [] :: finals_of accepts delivers over c s b ++ e, r)).
Proof. intros accepts delivers over c s dl args b term rest _. apply transaction. Qed.
Print Assumptions c16_replies_per_recipient.

Theorem c16_transaction_spec : forall accepts delivers over c s dl args b term rest,
  all_ascii dl = true ->
  parse_cmd dl = Some (S_ "DATA", args) ->
  mail_seen s = true -> rcpts s <> [] ->
  is_term term = true ->
  0 <= max_size c ->
  tx_ok (concat b) (rcpts s) (fst (run accepts delivers over c (reset s) MCmd rest))
        (fst (run accepts delivers over c s MCmd (dl :: stuff b ++ term :: rest))) = true.
Proof. intros accepts delivers over c s dl args b term rest _. apply transaction_tx_ok. Qed.
Print Assumptions c16_transaction_spec.

(** liveness of the dialogue ("in step with the client"): after the server has
    processed ANY sequence of complete lines and waits for more input, every
    reply owed for those lines has reached the client - nothing stays in the
    write buffer - whatever the lines are (blank lines after a command or
    after the terminating dot included).  [run_open] is the reply trace of
    c16_sequencing / c16_replies_per_recipient while the connection is open. *)
Theorem c16_no_unsent_replies : forall accepts delivers over c ls,
  w_buf (run_io accepts delivers over always_flush c st0 MCmd wr0 ls) = [] /\
  w_sent (run_io accepts delivers over always_flush c st0 MCmd wr0 ls) =
    run_open accepts delivers over c st0 MCmd ls.
Proof. exact no_unsent_replies. Qed.
Print Assumptions c16_no_unsent_replies.

Theorem c16_open_trace_is_prefix : forall accepts delivers over c ls,
  exists t, fst (run accepts delivers over c st0 MCmd ls) = run_open accepts delivers over c st0 MCmd ls ++ t.
Proof. intros. apply run_open_prefix. Qed.
Print Assumptions c16_open_trace_is_prefix.

Definition yes : str -> bool := fun _ => true.
Definition no : str -> bool := fun _ => false.
Definition dl_ok : str -> str -> bool := fun _ _ => true.
Definition no_over : str -> str -> bool := fun _ _ => false.
Definition L (s : string) : str := S_ s ++ crlf.
Definition c10 : cfg := {| max_size := 10; max_rcpts := 5 |}.

(** ---- regression: what raven did before the three fixes ----
    The replies the unrepaired server was observed to give (reply codes as
    recorded in corpus/C16 in round 1) fail the executable stream spec; they
    are literals, independent of the current model. *)
Definition rp (code : N) : reply := (code, []).
Example c16_old_oversize_desync_rejected :
  stream_ok 5 [L "LHLO x"; L "MAIL FROM:<a@example.com>"; L "RCPT TO:<u1@example.com>"; L "DATA";
               L "0123456789ab"; L "RSET"; dot_crlf; L "QUIT"]
            (map rp [250; 250; 250; 354; 554; 250; 500; 221]%N) = false.
Proof. vm_compute. reflexivity. Qed.
Example c16_old_single_554_rejected :
  stream_ok 5 [L "LHLO x"; L "MAIL FROM:<a@example.com>"; L "RCPT TO:<u1@example.com>";
               L "RCPT TO:<u2@example.com>"; L "RCPT TO:<u3@example.com>"; L "DATA"; L "To: x@example.com";
               L ""; L "body"; dot_crlf; L "MAIL FROM:<q@example.com>"; L "QUIT"]
            (map rp [250; 250; 250; 250; 250; 354; 554; 503; 221]%N) = false.
Proof. vm_compute. reflexivity. Qed.
Example c16_old_null_sender_rejected :
  stream_ok 5 [L "LHLO x"; L "MAIL FROM:<>"; L "RCPT TO:<u1@example.com>"; L "QUIT"]
            (map rp [250; 250; 503; 221]%N) = false.
Proof. vm_compute. reflexivity. Qed.

(** ---- the hypotheses are satisfiable ---- *)
Example c16_unstuff_example :
  let b := [S_ "." ++ crlf; S_ ".." ++ crlf; S_ "RSET" ++ crlf; S_ "a" ++ [LF]; S_ ".x" ++ crlf] in
  forallb is_line_b b = true /\
  read_data_cmd (concat (stuff b) ++ dot_crlf ++ S_ "NOOP" ++ crlf) 100 = (DOk (concat b), S_ "NOOP" ++ crlf).
Proof. vm_compute. split; reflexivity. Qed.

(** a pipelined session with two transactions, a body that contains commands
    and dots, mixed-case commands: no class, checker satisfied, 2 + 1 deliveries *)
Example c16_session_example :
  let c := {| max_size := 1000; max_rcpts := 2 |} in
  let body := [L "From: a@example.com"; L ""; L "."; L "RSET"; L "..x"] in
  let ls := [L "lhlo x"; L "Mail From:<a@example.com> SIZE=10"; L "rcpt to:<u1@example.com>";
             L "RCPT TO:<u2@example.com>"; L "RCPT TO:<u3@example.com>"; L "DATA"] ++ stuff body ++
            [dot_crlf; L "MAIL FROM:<b@example.com>"; L "RCPT TO:<u1@example.com>"; L "DATA"] ++
            stuff body ++ [dot_lf; L "QUIT"; L "NOOP"] in
  cmd_lines_ascii yes dl_ok no_over c st0 MCmd ls = true /\
  dialog_ok (max_rcpts c) (fst (run yes dl_ok no_over c st0 MCmd ls)) = true /\
  length (filter (fun e => match e with Deliver _ d _ => str_eqb d (concat body) | _ => false end)
                 (fst (run yes dl_ok no_over c st0 MCmd ls))) = 3%nat /\
  snd (run yes dl_ok no_over c st0 MCmd ls) = Some [L "NOOP"].
Proof. vm_compute. repeat split; reflexivity. Qed.

(** the executable whole-session spec [stream_ok] (evaluated on the
    implementation's replies by the correspondence check) accepts the model's
    own replies, also on the three round-1 witnesses (over-size body,
    refused message, null reverse-path), now handled in step *)
Definition render (e : ev) : reply :=
  match e with
  | Reply _ code _ => (code, [])
  | Deliver r _ ok => ((if ok then 250 else 550)%N, S_ "to <" ++ r ++ S_ ">")
  | Refuse r code => (code, S_ "for <" ++ r ++ S_ ">")
  end.
Definition model_stream_ok (accepts : str -> bool) (c : cfg) (ls : list str) : bool :=
  stream_ok (max_rcpts c) ls (map render (fst (run accepts dl_ok no_over c st0 MCmd ls))).

Example c16_stream_ok_examples :
  let c := {| max_size := 1000; max_rcpts := 2 |} in
  let body := [L "From: a@example.com"; L ""; L "."; L "RSET"; L "..x"] in
  model_stream_ok yes c ([L "lhlo x"; L "Mail From:<a@example.com> SIZE=10"; L "rcpt to:<u1@example.com>";
                          L "RCPT TO:<u2@example.com>"; L "RCPT TO:<u3@example.com>"; L "DATA"] ++ stuff body ++
                         [dot_crlf; L "MAIL FROM:<b@example.com>"; L "RCPT TO:<u1@example.com>"; L "DATA"] ++
                         stuff body ++ [dot_lf; L "QUIT"; L "NOOP"]) = true /\
  model_stream_ok yes c10 [L "LHLO x"; L "MAIL FROM:<a@example.com>"; L "RCPT TO:<u1@example.com>"; L "DATA";
                           L "0123456789ab"; L "RSET"; dot_crlf; L "MAIL FROM:<b@example.com>"] = true /\
  model_stream_ok no c10 [L "LHLO x"; L "MAIL FROM:<a@example.com>"; L "RCPT TO:<u1@example.com>";
                          L "RCPT TO:<u2@example.com>"; L "DATA"; L "hello"; dot_crlf; L "MAIL FROM:<b@example.com>"] = true /\
  model_stream_ok yes c10 [L "LHLO x"; L "MAIL FROM:<>"; L "RCPT TO:<u1@example.com>"; L "MAIL FROM:<>"] = true /\
  fst (run yes dl_ok no_over c10 st0 MCmd [L "LHLO x"; L "MAIL FROM:<>"; L "RCPT TO:<u1@example.com>"; L "MAIL FROM:<>"])
    = [Reply TLhlo 250 (S_ "x"); Reply TMail 250 []; Reply TRcpt 250 (S_ "u1@example.com"); Reply TMail 503 []].
Proof. vm_compute. repeat split; reflexivity. Qed.

(** Observation (not a listed finding, see NOTES/C16.md): [stuff] models a
    client that treats every LF as a line end.  A client that stuffs only
    after CRLF (RFC 5321) sends the body "a<LF>.<CRLF>RSET<CRLF>" unchanged;
    the reader, which also accepts ".<LF>" and splits at bare LF, ends the
    message at the second line and leaves RSET to the command loop. *)
Example c16_bare_lf_observation :
  read_data_cmd (S_ "a" ++ [LF] ++ S_ "." ++ crlf ++ S_ "RSET" ++ crlf ++ dot_crlf) 100
  = (DOk (S_ "a" ++ [LF]), S_ "RSET" ++ crlf ++ dot_crlf).
Proof. vm_compute. reflexivity. Qed.

(** quota: with the over-quota set {bob} and RCPT alice, bob, carol the replies
    are delivery, 552 for bob, delivery - each in its own RCPT position - and
    the session is ready for the next transaction *)
Example c16_quota_in_rcpt_order :
  let over_bob : str -> str -> bool := fun r _ => str_eqb r (S_ "bob@example.com") in
  let c := {| max_size := 1000; max_rcpts := 5 |} in
  let ls := [L "LHLO x"; L "MAIL FROM:<a@example.com>"; L "RCPT TO:<alice@example.com>";
             L "RCPT TO:<bob@example.com>"; L "RCPT TO:<carol@example.com>"; L "DATA";
             L "From: a@example.com"; L ""; L "hi"; dot_crlf; L "MAIL FROM:<b@example.com>"] in
  skipn 5 (fst (run yes dl_ok over_bob c st0 MCmd ls)) =
    [Reply TData 354 []; Deliver (S_ "alice@example.com") (concat [L "From: a@example.com"; L ""; L "hi"]) true;
     Refuse (S_ "bob@example.com") 552;
     Deliver (S_ "carol@example.com") (concat [L "From: a@example.com"; L ""; L "hi"]) true;
     Reply TMail 250 (S_ "b@example.com")] /\
  stream_ok 5 ls (map render (fst (run yes dl_ok over_bob c st0 MCmd ls))) = true.
Proof. vm_compute. split; reflexivity. Qed.

(** regression (seeded change C16-3): the 552 for the over-quota recipient sent
    first, then the delivery replies: one reply per recipient, but not in RCPT
    order - rejected by the stream spec (literal replies, no model involved) *)
Example c16_quota_replies_out_of_order_rejected :
  stream_ok 5 [L "LHLO x"; L "MAIL FROM:<a@example.com>"; L "RCPT TO:<alice@example.com>";
               L "RCPT TO:<bob@example.com>"; L "RCPT TO:<carol@example.com>"; L "DATA";
               L "From: a@example.com"; L ""; L "hi"; dot_crlf; L "QUIT"]
            [(250, []); (250, []); (250, []); (250, []); (250, []); (354, []);
             (552, S_ "5.2.2 <bob@example.com> mailbox full");
             (250, S_ "2.0.0 Message accepted for delivery to <alice@example.com>");
             (250, S_ "2.0.0 Message accepted for delivery to <carol@example.com>"); (221, [])]%N = false.
Proof. vm_compute. reflexivity. Qed.

(** regression (seeded change C16-4): a flush that is skipped while more input
    of the same client write is still unread leaves owed replies unsent when
    that input is only a blank line: after "<end of data>" + blank line the two
    per-recipient replies sit in the buffer while the server waits for input *)
Example c16_conditional_flush_leaves_replies_unsent :
  let coalesce : list str -> bool := fun rest => match rest with [] => true | _ => false end in
  let c := {| max_size := 1000; max_rcpts := 5 |} in
  let s := {| helo := S_ "x"; mail_from := S_ "a@example.com"; mail_seen := true;
              rcpts := [S_ "u1@example.com"; S_ "u2@example.com"] |} in
  let w := run_io yes dl_ok no_over coalesce c s (MData d0) wr0 [L "hi"; dot_crlf; L ""] in
  length (w_buf w) = 2%nat /\ w_sent w = [] /\
  w_buf (run_io yes dl_ok no_over always_flush c s (MData d0) wr0 [L "hi"; dot_crlf; L ""]) = [].
Proof. vm_compute. repeat split; reflexivity. Qed.
