(** C17 — Mail is filed where its recipient and the policy say.
    Statements only; every proof is [exact <lemma>]. *)
From Coq Require Import String Ascii List Bool Arith ZArith.
From Raven Require Import Base.GoStr Model.Policy Spec.Policy
  Proof.PolicyParse Proof.PolicySpam Proof.PolicyConfig Proof.PolicyRcpt Proof.PolicyData
  Proof.PolicyTxn Proof.PolicyFacts Proof.PolicySession.
Import ListNotations.
Local Open Scope Z_scope.

(** P. The model of handleRCPT/handleDATA/DeliverMessage decides acceptance and
    the filing place exactly as the documented policy does — for every
    configuration (non-empty default folder), every user/role table
    (UNIQUE(username, domain)), every list of recipient addresses (any byte
    strings) and every message. No finding class is left: allowed domains,
    unknown users, recipient limit, size limit and quota all decide as
    documented (quota since the fix C17-4: refused iff usage + size > limit). *)
Theorem c17_policy_exact : forall cfg d addrs m,
  cfg_ok cfg -> wf_db d ->
  txn_outcomes (run_txn_addr cfg d addrs m) = map erase (fst (spec_txn cfg d addrs m)) /\
  do_db (to_data (run_txn_addr cfg d addrs m)) = snd (spec_txn cfg d addrs m).
Proof. exact policy_exact. Qed.
Print Assumptions c17_policy_exact.

(** the same transaction given as RCPT lines "TO:<addr>" (addresses without ">") *)
Theorem c17_lines_are_addresses : forall cfg d addrs m,
  forallb no_gt addrs = true ->
  run_txn cfg d (map rcpt_line addrs) m = run_txn_addr cfg d addrs m.
Proof. exact run_txn_lines. Qed.
Print Assumptions c17_lines_are_addresses.

(** S. Sessions: several transactions on one connection. Each transaction is
    answered and files exactly as the same transaction on a fresh connection
    over the database its predecessors left — so c17_policy_exact,
    c17_filed_where … apply to every transaction of every session: recipients
    of a transaction that was accepted, refused for its size (552), unparsable
    (554), left without accepted recipient or cut by the recipient limit never
    receive a later message and never count against a later limit. MAIL is
    answered 250 unless the previous DATA was refused with 503 before any data
    (no accepted recipient: that transaction is still open). *)
Theorem c17_session_is_transactions : forall cfg bs s d,
  s_rcpts s = [] ->
  fst (run_session cfg (s, d) (flat_map block_cmds bs)) = blocks_replies cfg (mail_seen s) d bs /\
  snd (snd (run_session cfg (s, d) (flat_map block_cmds bs))) = blocks_db cfg d bs /\
  s_rcpts (fst (snd (run_session cfg (s, d) (flat_map block_cmds bs)))) = [].
Proof. exact session_is_transactions. Qed.
Print Assumptions c17_session_is_transactions.

Theorem c17_data_resets : forall cfg d rec m,
  rec <> [] -> fst (snd (step cfg (mkS true rec, d) (C_DATA m))) = s_reset.
Proof. exact data_resets. Qed.
Print Assumptions c17_data_resets.

(** F. Whatever the model files, it files for a recipient that is within quota,
    in the store of exactly the RCPT address (role store iff enabled role
    address, else user local@domain) and in Spam iff the spam headers mark the
    message, else the default folder. *)
Theorem c17_filed_where : forall cfg d acc m r st f,
  In (r, D_ok st f) (do_deliveries (handle_data cfg d acc m)) ->
  In r acc /\ over_quota cfg d m r = false /\ spec_target d r = Some st /\ f = spec_folder cfg m.
Proof. exact filed_where. Qed.
Print Assumptions c17_filed_where.

(** quota in words: a recipient is over quota iff quota is enabled and the bytes
    in the mailbox its mail goes to, plus the message, exceed the limit *)
Theorem c17_over_quota_meaning : forall cfg d m r,
  over_quota cfg d m r = true <-> quota_enabled cfg = true /\ mailbox_usage d r + m_size m > quota_limit cfg.
Proof. exact over_quota_meaning. Qed.
Print Assumptions c17_over_quota_meaning.

(** F. no twins: a message lands in a role store only if the RCPT address is,
    byte for byte, the address of an enabled role mailbox; in a user store only
    if the address splits at its single "@" into exactly that user name and
    domain and is no role address ("_", "%" and letter case are ordinary bytes) *)
Theorem c17_role_store_exact : forall cfg d acc m r e f,
  In (r, D_ok (RoleStore e) f) (do_deliveries (handle_data cfg d acc m)) ->
  e = r /\ In (mkRole r true) (roles d).
Proof. exact role_store_exact. Qed.
Print Assumptions c17_role_store_exact.

Theorem c17_user_store_exact : forall cfg d acc m r n dom f,
  In (r, D_ok (UserStore n dom) f) (do_deliveries (handle_data cfg d acc m)) ->
  extract_parts r = Some (n, dom) /\ is_role d r = false.
Proof. exact user_store_exact. Qed.
Print Assumptions c17_user_store_exact.

Example c17_like_twin_goes_to_its_own_store :
  let d := mkDb [mkUser (S_ "support_team") (S_ "example.com") true] [mkRole (S_ "support-team@example.com") true] [] in
  spec_target d (S_ "support_team@example.com") = Some (UserStore (S_ "support_team") (S_ "example.com")) /\
  spec_target d (S_ "%@example.com") = Some (UserStore (S_ "%") (S_ "example.com")) /\
  spec_target d (S_ "SUPPORT-TEAM@example.com") = Some (UserStore (S_ "SUPPORT-TEAM") (S_ "example.com")) /\
  spec_target d (S_ "support-team@example.com") = Some (RoleStore (S_ "support-team@example.com")).
Proof. vm_compute. auto. Qed.

(** F. the per-recipient replies of DATA tell what happened to each recipient:
    one over quota is refused (552 5.2.2) and has no delivery, the others are
    answered 250 exactly when THEIR delivery filed the message, also when an
    address is given twice (results map keyed by address); one reply per
    accepted recipient *)
Theorem c17_replies_truthful : forall cfg d acc m replies,
  do_reply (handle_data cfg d acc m) = DR_per replies ->
  zip_outcomes (do_over_quota (handle_data cfg d acc m)) replies (do_deliveries (handle_data cfg d acc m))
    = weave (over_quota cfg d m) acc (map (fun kv => to_mo (snd kv)) (do_deliveries (handle_data cfg d acc m))) /\
  map fst (do_deliveries (handle_data cfg d acc m)) = filter (fun r => negb (over_quota cfg d m r)) acc /\
  length replies = length acc.
Proof. exact replies_truthful. Qed.
Print Assumptions c17_replies_truthful.

(** F. every legal RCPT argument  TO:<path>[ SP esmtp-parameters]  — keyword in
    any case, optional blanks, any parameters — yields exactly the path
    (after the fixes C17-1 and C17-2; was refuted before) *)
Theorem c17_rcpt_path : forall args addr, rcpt_shape args addr -> parse_rcpt_to args = Some addr.
Proof. exact parse_rcpt_to_shape. Qed.
Print Assumptions c17_rcpt_path.

(** F. spam routing: header names case-insensitively (through net/textproto's
    canonical keys), first occurrence, value trimmed and lower-cased *)
Theorem c17_spam_routing : forall cfg m,
  determine_target_folder (header_map (m_headers m)) (default_folder cfg) = spec_folder cfg m.
Proof. exact spam_routing. Qed.
Print Assumptions c17_spam_routing.

Theorem c17_spam_meaning : forall hs,
  spec_spam hs = true <->
  (exists v, first_header hs K_action = Some v /\ In (to_lower (trim_space v)) spam_actions) \/
  (exists v r, first_header hs K_status = Some v /\ to_lower (trim_space v) = S_ "yes" ++ r).
Proof. exact spec_spam_meaning. Qed.
Print Assumptions c17_spam_meaning.

(** F. Validate accepts exactly the documented configurations *)
Theorem c17_validate_exact : forall c, validate c = true <-> valid_config c.
Proof. exact validate_exact. Qed.
Print Assumptions c17_validate_exact.

(** F. size: a well-formed message of at most max_size bytes gets per-recipient
    replies; one byte more and nothing is delivered *)
Theorem c17_size_within : forall cfg d acc m,
  acc <> [] -> m_size m <= max_size cfg -> m_parse_ok m = true ->
  exists replies, do_reply (handle_data cfg d acc m) = DR_per replies /\ length replies = length acc.
Proof. exact size_within. Qed.
Print Assumptions c17_size_within.

Theorem c17_size_over : forall cfg d acc m,
  max_size cfg < m_size m ->
  do_db (handle_data cfg d acc m) = d /\ do_deliveries (handle_data cfg d acc m) = [] /\
  (do_reply (handle_data cfg d acc m) = DR_refused 552 (length acc) \/ do_reply (handle_data cfg d acc m) = DR503).
Proof. exact size_over. Qed.
Print Assumptions c17_size_over.

(** F. recipient limit: never more than max_recipients accepted, for every
    sequence of RCPT lines; 452 exactly when the limit is reached *)
Theorem c17_rcpt_limit : forall cfg d lines m,
  Z.of_nat (length (to_accepted (run_txn cfg d lines m))) <= Z.max 0 (max_recipients cfg).
Proof. exact rcpt_limit. Qed.
Print Assumptions c17_rcpt_limit.

Theorem c17_rcpt_452_exact : forall cfg d rec args,
  fst (handle_rcpt cfg d rec args) = RC452 <-> max_recipients cfg <= Z.of_nat (length rec).
Proof. exact rcpt_452_exact. Qed.
Print Assumptions c17_rcpt_452_exact.

(** quota enforced on the witness that used to refute it (class quota_not_enforced, fix C17-4) *)
Example c17_quota_enforced :
  txn_outcomes (run_txn_addr (w_cfg false true 10) w_db [S_ "bob@a.org"; S_ "support@a.org"] w_msg) = [MRefused; MRefused] /\
  txn_outcomes (run_txn_addr (w_cfg false true 100) w_db [S_ "bob@a.org"; S_ "support@a.org"] w_msg)
    = [MFiled (UserStore (S_ "bob") (S_ "a.org")) (S_ "INBOX"); MFiled (RoleStore (S_ "support@a.org")) (S_ "INBOX")] /\
  msgs (do_db (to_data (run_txn_addr (w_cfg false true 10) w_db [S_ "bob@a.org"] w_msg))) = [].
Proof. exact quota_example. Qed.

(** regression examples about the code BEFORE the fixes C17-1/2/3 (old
    definitions, not the current model) *)
Example c17_old_rcpt_params :
  old_parse_rcpt_to (S_ "TO:<a@b.org> NOTIFY=NEVER") = Some (S_ "a@b.org> NOTIFY=NEVER") /\
  parse_rcpt_to (S_ "TO:<a@b.org> NOTIFY=NEVER") = Some (S_ "a@b.org").
Proof. vm_compute. auto. Qed.

Example c17_old_rcpt_prefix_case :
  old_parse_rcpt_to (S_ "To:<bob@a.org>") = Some (S_ "To:<bob@a.org") /\
  parse_rcpt_to (S_ "To:<bob@a.org>") = Some (S_ "bob@a.org").
Proof. vm_compute. auto. Qed.

Example c17_old_recipient_test :
  old_check_recipient_exists w_db (S_ "bob@b.org") = Some true /\
  check_recipient_exists w_db (S_ "bob@b.org") = Some false /\
  old_check_recipient_exists w_db (S_ "support@a.org") = Some false /\
  check_recipient_exists w_db (S_ "support@a.org") = Some true.
Proof. vm_compute. auto. Qed.

(** non-vacuity: the hypotheses of c17_policy_exact are satisfiable on a
    transaction that exercises every RCPT-time policy, a role address, a
    disabled user, an address without "@", a new user and spam routing *)
Example c17_policy_example :
  let cfg := mkConfig (S_ "Archive") true 100000 [S_ "a.org"] false 1000 5 in
  let d := mkDb [mkUser (S_ "bob") (S_ "a.org") true; mkUser (S_ "dis") (S_ "a.org") false]
                [mkRole (S_ "support@a.org") true] [] in
  let m := mkMsg 100 [(S_ "x-spam-status", S_ " YES, score=9")] true in
  let addrs := [S_ "bob@a.org"; S_ "bob@b.org"; S_ "support@a.org"; S_ "dis@a.org"; S_ "new@a.org";
                S_ "postmaster"; S_ "bob@a.org"; S_ "x@a.org"] in
  txn_outcomes (run_txn_addr cfg d addrs m) =
    [MFiled (UserStore (S_ "bob") (S_ "a.org")) Spam; MRefused;
     MFiled (RoleStore (S_ "support@a.org")) Spam; MRefused;
     MFiled (UserStore (S_ "new") (S_ "a.org")) Spam; MRefused;
     MFiled (UserStore (S_ "bob") (S_ "a.org")) Spam; MRefused].
Proof. vm_compute. reflexivity. Qed.
