(** C06 — Protocol state machine and TLS gate hold for every command sequence.
    Statements only; every proof is [exact <lemma>] (or a vm_compute over the
    facts table regenerated from /repo's Go AST on this run). *)
From Coq Require Import String List Bool Arith.
From Raven Require Import Base.GoStr Model.ProtoFacts Model.Protocol Model.ProtoLine Proof.Protocol Proof.ProtocolTrace Gen.Facts.
Import ListNotations.

(** (a)(b)(c) For ANY facts table satisfying [guards_ok], for every connection
    kind, every finite sequence of command words and EVERY oracle (control flow
    of the handler bodies, database and backend answers): in every command,
    relative to the state before its line,
    - a store is touched only if the session is authenticated, or the line is
      a login on a TLS connection whose backend request was answered 200;
    - the selected-mailbox id is used only while authenticated and selected;
    - the backend is contacted, and the session becomes authenticated, only
      on TLS (and only after a 200);
    and invariantly: selected => authenticated => TLS. *)
Theorem c06_gate_of_table : forall t, guards_ok t = true ->
  forall tls cmds stf tr, run t (init_state tls) cmds = Some (stf, tr) ->
  Inv stf /\ Forall obs_ok tr.
Proof. exact gate_of_table. Qed.
Print Assumptions c06_gate_of_table.

(** (d) after a successful STARTTLS handshake the session continues
    unauthenticated, nothing selected, on TLS *)
Theorem c06_starttls_fresh : forall t st e st' evs,
  restart_ok t = true -> c_tls st = false -> e_handshake e = true ->
  step t st "STARTTLS" e = Some (st', evs) -> st' = init_state true /\ evs = [].
Proof. exact starttls_fresh. Qed.
Print Assumptions c06_starttls_fresh.

(** (e) every non-empty line receives exactly one tagged completion (min = max
    = 1 over all paths of the handler it dispatches to; a line with a tag and
    nothing else gets a tagged BAD). The translator leaves TERMINAL paths out of
    the count: paths on which a read on the connection failed (the client is
    gone) or the server itself closes the connection (IDLE autologout with
    "* BYE") — no completion can or need be delivered there. *)
Theorem c06_one_tagged_reply : forall t, replies_ok t = true -> f_short_tagged t = true ->
  forall line, 1 <= length (fields (trim_space line)) -> tagged_for_line t line = (1, 1).
Proof. exact one_tagged_per_line. Qed.
Print Assumptions c06_one_tagged_reply.

(** (f) a failed SELECT/EXAMINE leaves no mailbox selected *)
Theorem c06_failed_select : forall t st w e st' evs,
  f_select_clears t = true -> is_select w = true -> c_auth st = true ->
  select_succeeds st e = false -> step t st w e = Some (st', evs) -> c_sel st' = false.
Proof. exact failed_select_step. Qed.
Print Assumptions c06_failed_select.

(** (a, "successful") a session becomes authenticated only in a LOGIN or
    AUTHENTICATE line whose own tagged completion is OK, on TLS, after the
    backend answered 200 — for any table in which no tagged NO/BAD can follow
    the assignment state.Authenticated := true ([f_auth_final]). *)
Theorem c06_auth_only_by_accepted_login : forall t st w e st' evs,
  guards_ok t = true -> f_auth_final t = true -> Inv st ->
  step t st w e = Some (st', evs) -> c_auth st = false -> c_auth st' = true ->
  is_login w = true /\ e_reply_ok e = true /\ c_tls st = true /\ e_ok200 e = true.
Proof. exact auth_only_by_accepted_login. Qed.
Print Assumptions c06_auth_only_by_accepted_login.

(** (a) over whole command sequences: for every connection kind, every finite
    sequence of command words and every oracle, a session that is authenticated
    (or has a mailbox selected) at the end of the sequence has gone through an
    ACCEPTED login in it — a LOGIN/AUTHENTICATE line on TLS whose backend
    request was answered 200 and whose own tagged completion is OK. *)
Theorem c06_authenticated_run_has_accepted_login : forall t,
  guards_ok t = true -> f_auth_final t = true ->
  forall tls cmds stf tr, run t (init_state tls) cmds = Some (stf, tr) ->
  (c_auth stf = true \/ c_sel stf = true) -> Exists accepted_login tr.
Proof. exact fresh_auth_needs_accepted_login. Qed.
Print Assumptions c06_authenticated_run_has_accepted_login.

(** ... every command of a run in which the session turns authenticated is an
    accepted login (no other command, and no refused login, authenticates) *)
Theorem c06_every_auth_edge_is_accepted_login : forall t,
  guards_ok t = true -> f_auth_final t = true ->
  forall cmds st stf tr, Inv st -> run t st cmds = Some (stf, tr) ->
  Forall (fun o => becomes_auth o -> accepted_login o) tr.
Proof. exact every_auth_edge_is_accepted_login. Qed.
Print Assumptions c06_every_auth_edge_is_accepted_login.

(** ... and a sequence without an accepted login runs every one of its commands
    unauthenticated with nothing selected (with c06_gate_of_table: it touches a
    store only inside a login line answered 200 on TLS) *)
Theorem c06_no_accepted_login_stays_out : forall t,
  guards_ok t = true -> f_auth_final t = true ->
  forall cmds st stf tr, Inv st -> c_auth st = false ->
  run t st cmds = Some (stf, tr) -> Forall (fun o => ~ accepted_login o) tr ->
  c_auth stf = false /\ Forall (fun o => c_auth (o_pre o) = false /\ c_sel (o_pre o) = false) tr.
Proof. exact no_login_stays_out. Qed.
Print Assumptions c06_no_accepted_login_stays_out.

(** The obligations on the CURRENT tree: recomputed from the regenerated table. *)
Theorem c06_facts_now :
  guards_ok Gen.Facts.table && restart_ok Gen.Facts.table && replies_ok Gen.Facts.table
  && f_select_clears Gen.Facts.table && f_auth_final Gen.Facts.table && f_short_tagged Gen.Facts.table = true.
Proof. vm_compute. reflexivity. Qed.
Print Assumptions c06_facts_now.

(** regression witness of the repaired tag_only_line defect: without the
    tagged reply in the short-line branch a tag-only line got no completion *)
Theorem c06_tag_only_line_was_untagged : forall t, f_short_tagged t = false ->
  tagged_for_line t (S_ "a1") = (0, 0) /\ classify_line (S_ "a1") = LShort (S_ "a1").
Proof. exact tag_only_line_was_untagged. Qed.

(** regression witness of the repaired failed-SELECT defect: without the
    clearing the previous selection survives a failed SELECT *)
Theorem c06_unfixed_failed_select_keeps :
  let st := mk_c true true true 1 false 0 (Personal 1) [] in
  let e := mk_env false 0 [] (fun _ _ => false) 0 0 [] (TPersonal false) false false in
  select_succeeds st e = false /\ c_sel (fst (do_select false st e)) = true.
Proof. exact unfixed_failed_select_keeps. Qed.

(** non-vacuity: a concrete run on the current table — plain connection,
    LOGIN is impossible past its TLS guard, STARTTLS upgrades, LOGIN with a 200
    authenticates, SELECT selects, FETCH touches the selected store. *)
Definition pick (w fn : string) (k : site_kind) : list site :=
  filter (fun s => String.eqb (s_cmd s) w && String.eqb (s_fn s) fn && kind_eqb (s_kind s) k) (f_sites Gen.Facts.table).
Definition env0 : env := mk_env false 0 [] (fun _ _ => false) 0 0 [] (TPersonal true) true true.
Definition env_login : env :=
  mk_env true 7 [] (fun _ _ => false) 0 0
    (filter (fun s => String.eqb (s_cmd s) "LOGIN" &&
                      match s_kind s with Backend | AccShared | SetAuth => true | _ => false end)
            (f_sites Gen.Facts.table)) (TPersonal true) true true.
Definition env_fetch : env :=
  mk_env false 0 [] (fun _ _ => false) 0 0 (pick "FETCH" "message.HandleFetch" AccSelected ++ pick "FETCH" "message.HandleFetch" UseSel) (TPersonal true) true true.

Example c06_example_run :
  match run Gen.Facts.table (init_state false)
          [("STARTTLS"%string, env0); ("LOGIN"%string, env_login); ("SELECT"%string, env0); ("FETCH"%string, env_fetch)] with
  | Some (st, tr) => c_auth st && c_sel st && c_tls st && Nat.eqb (c_user st) 7
                     && existsb (fun o => existsb (fun ev => match ev with Touch (Personal 7) => true | _ => false end) (o_events o)) tr
  | None => false
  end = true
  /\ run Gen.Facts.table (init_state false) [("LOGIN"%string, env_login)] = None.
Proof. vm_compute. split; reflexivity. Qed.

(** non-vacuity of the trace theorems: the run above ends authenticated with a
    mailbox selected, and the accepted login the theorem promises is its LOGIN
    line (second observation: on TLS after STARTTLS, backend 200, reply OK) *)
Example c06_example_run_has_accepted_login :
  match run Gen.Facts.table (init_state false)
          [("STARTTLS"%string, env0); ("LOGIN"%string, env_login); ("SELECT"%string, env0); ("FETCH"%string, env_fetch)] with
  | Some (st, tr) =>
      c_auth st && c_sel st &&
      forallb (fun o => Bool.eqb (String.eqb (o_word o) "LOGIN")
                          (is_login (o_word o) && e_reply_ok (o_env o) && c_tls (o_pre o) && e_ok200 (o_env o))) tr
  | None => false
  end = true.
Proof. vm_compute. reflexivity. Qed.
