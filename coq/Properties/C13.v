(** C13 — Every IMAP response is well-formed, whatever the stored data.
    Statements only; every proof is [exact <lemma>].

    [wf_stream] (Spec/Grammar.v) is the strict lexical recogniser: quoted
    strings without bare quote / backslash / CR / LF, literals followed by
    exactly the announced number of octets, balanced parentheses, complete
    CRLF-terminated lines.  [fetch_pairs] is the strict client that reads an
    untagged FETCH response as (item name, value) pairs; [tokb t] says that
    [t] is exactly one token for that client. *)
From Coq Require Import String Ascii List Bool Arith NArith.
From Raven Require Import Base.GoStr Spec.Grammar Model.Respond Model.RespondFetch
     Proof.Grammar Proof.RespondTok Proof.RespondAsm Proof.RespondProps Proof.RespondEnv Proof.RespondItems.
Import ListNotations.

(** QuoteOrNIL (since fix wave 3 a value with CR or LF is sent as a literal):
    for EVERY string the result is one well-formed token — NIL, a quoted
    string that decodes to the string, or the literal of the string. *)
Theorem c13_quote_or_nil_wf : forall s : str,
  tokb (quote_or_nil s) = true
  /\ (s <> [] -> clean s = true -> unquote (quote_or_nil s) = Some s)
  /\ (clean s = false -> quote_or_nil s = lit_text s).
Proof. exact quote_or_nil_wf. Qed.
Print Assumptions c13_quote_or_nil_wf.

(** A literal as raven writes it ("{len}CRLF" + payload) is read by the strict
    client as ONE token consisting of the announcement and exactly the
    payload, for EVERY payload (bodies that look like responses, braces,
    parentheses, CR, LF, 8-bit). *)
Theorem c13_literal_exact : forall (p rest : str) (c : ascii), is_sep c = true ->
  take (Norm, 0) 0 false [] (lit_text p ++ c :: rest) = Some (lit_text p, c :: rest).
Proof. exact literal_exact. Qed.
Print Assumptions c13_literal_exact.

(** The FETCH assembly (since the F14 fix every literal-valued item is one
    response part "name {n}CRLF data"): for EVERY non-empty sequence of
    contributions made of single tokens — any number of literal-valued items
    in any position — the line sent is well-formed and the strict client reads
    back exactly the contributed (item, value) pairs, in order: each item
    together with its own value. *)
Theorem c13_fetch_assembly_ok : forall (seq : nat) (plan : list out),
  plan <> [] -> forallb out_okb plan = true ->
  wf_stream (send (fetch_line seq plan)) = true
  /\ fetch_pairs (send (fetch_line seq plan)) = Some (dec seq, map pair_of plan).
Proof. exact fetch_assembly_ok. Qed.
Print Assumptions c13_fetch_assembly_ok.

(** regression (defect F14, repaired): the lines the old two-accumulator
    assembly produced for two literal-valued items, for HEADER.FIELDS after a
    numbered section (literal overwritten) and for a literal section followed by
    "BODY[2] NIL" cannot be paired; the repaired assembly pairs all three. *)
Example c13_old_assembly_unreadable :
  fetch_pairs (send old_two_literals) = None /\ fetch_pairs (send old_fields_overwrite) = None
  /\ option_map snd (fetch_pairs (send old_literal_then_inline))
     <> Some (map pair_of w_literal_then_inline).
Proof. exact old_assembly_unreadable. Qed.

Example c13_new_assembly_examples :
  fetch_pairs (send (fetch_line 1 w_two_literals)) = Some (dec 1, map pair_of w_two_literals)
  /\ fetch_pairs (send (fetch_line 1 w_fields_after_section)) = Some (dec 1, map pair_of w_fields_after_section)
  /\ fetch_pairs (send (fetch_line 1 w_literal_then_inline)) = Some (dec 1, map pair_of w_literal_then_inline).
Proof. exact new_assembly_examples. Qed.

(** FLAGS value: a stored flag string made of flag bytes and blanks (the only
    strings STORE / APPEND can store since fix e64d29e, message.ValidFlag) gives
    one well-formed token "(flags)". *)
Theorem c13_flags_value_tok : forall flags : str,
  flags_plain flags = true -> tokb (LP :: flags ++ [RP]) = true.
Proof. exact flags_value_tok. Qed.
Print Assumptions c13_flags_value_tok.

(** regression (K-flagatom, repaired by e64d29e): FLAGS (x)y) is unbalanced *)
Example c13_old_flag_atom_malformed :
  wf_stream (send (S_ "* 1 FETCH (FLAGS (x)y))")) = false /\ flags_plain (S_ "x)y") = false.
Proof. exact old_flag_atom_malformed. Qed.

(** LIST / LSUB / STATUS lines (since the F15 fix the name goes through
    utils.QuoteString): for EVERY mailbox name without CR/LF — double quotes,
    backslashes, braces, parentheses, 8-bit included — the line is well-formed,
    the quoted name is one token and decodes to the stored name. (A name with
    CR or LF cannot be created: command lines are split at white space.) *)
Theorem c13_list_line_ok : forall kw attrs name : str,
  forallb plain_byte kw = true -> forallb flag_byte attrs = true -> clean name = true ->
  wf_stream (send (list_line kw attrs name)) = true
  /\ tokb (quote_string name) = true /\ unquote (quote_string name) = Some name.
Proof. exact list_line_ok. Qed.
Print Assumptions c13_list_line_ok.

Theorem c13_status_line_ok : forall (name : str) (items : list (str * nat)),
  clean name = true -> Forall (fun kv => forallb plain_byte (fst kv) = true) items ->
  wf_stream (send (status_line name items)) = true.
Proof. exact status_line_ok. Qed.
Print Assumptions c13_status_line_ok.

(** regression (defect F15, repaired): the unescaped lines are malformed, the
    repaired ones are not *)
Example c13_old_name_lines_malformed :
  wf_stream (send (S_ "* LIST (\Unmarked) ""/"" ""a""b""")) = false
  /\ wf_stream (send (S_ "* LIST (\Unmarked) ""/"" ""c\d""")) = false
  /\ wf_stream (send (S_ "* STATUS ""a""b"" (MESSAGES 0)")) = false.
Proof. exact old_name_lines_malformed. Qed.

Example c13_new_name_lines_examples :
  wf_stream (send (list_line (S_ "LIST") (S_ "\Unmarked") (S_ "a""b"))) = true
  /\ wf_stream (send (list_line (S_ "LIST") (S_ "\Unmarked") (S_ "c\d"))) = true
  /\ wf_stream (send (status_line (S_ "a""b") [(S_ "MESSAGES", 0)])) = true.
Proof. exact new_name_lines_examples. Qed.

(** BuildEnvelope, unconditional since fix wave 3: for EVERY raw message and EVERY
    result Go's net/mail can return for its address headers ([mp], a parameter
    since bd5007f: any strings as display name and address), when the fallback
    parser returns (C12 owns the panic), the ENVELOPE value is one
    well-formed token with exactly ten fields, each of them one token. *)
Theorem c13_envelope_wf : forall (mp : str -> option (list (str * str))) (raw v : str),
  envelope_value mp raw = Some v ->
  tokb v = true /\ exists fs, length fs = 10 /\ Forall (fun t => tokb t = true) fs
                              /\ tokens (S (length v)) (skipn 1 v) = Some (fs, [RP]).
Proof. exact envelope_wf. Qed.
Print Assumptions c13_envelope_wf.

(** parseAddressList alone, for every header value and every net/mail result. *)
Theorem c13_address_list_wf : forall (mp : str -> option (list (str * str))) (a r : str),
  parse_address_list mp a = Some r -> tokp r.
Proof. exact parse_address_list_tok. Qed.
Print Assumptions c13_address_list_wf.

(** regression (fix e2cd37d): a ">" in front of the "<" used to panic; it is now
    taken as an address without display name *)
Example c13_address_stray_gt :
  parse_address_list (fun _ => None) (S_ ">a<") = Some (S_ "((NIL NIL "">a<"" NIL))").
Proof. vm_compute. reflexivity. Qed.

(** BODYSTRUCTURE of a single-part message: the fields printed after the
    parameter list (id, description, encoding, size, lines, extension NILs),
    computed from the raw message as BuildBodyStructure does, are single tokens;
    id / description are NIL or ONE string (quoted, or a literal when the value
    carries CR/LF) and the encoding is one string — for EVERY raw message. *)
Theorem c13_bodystructure_fields_ok : forall (raw : str) (is_text : bool),
  Forall (fun t => tokb t = true) (single_tail raw is_text)
  /\ Forall (fun t => nstring_ok t = true) (firstn 3 (single_tail raw is_text))
  /\ string_ok (nth 2 (single_tail raw is_text) []) = true.
Proof. exact single_tail_ok. Qed.
Print Assumptions c13_bodystructure_fields_ok.

(** every QuoteOrNIL result is NIL or exactly one string, for every input *)
Theorem c13_quote_or_nil_nstring : forall s : str, nstring_ok (quote_or_nil s) = true.
Proof. exact nstring_quote_or_nil. Qed.
Print Assumptions c13_quote_or_nil_nstring.

(** disposition of a part: NIL, or a list ("TYPE" params) that starts with ONE
    string — whether or not Go's mime package could parse the header *)
Theorem c13_disposition_strict : forall disp : option (str * list (str * str)),
  disp_list disp = NIL
  \/ exists t ps rest, disp = Some (t, ps) /\ disp_list disp = LP :: quote_or_nil (to_upper t) ++ rest
                       /\ string_ok (quote_or_nil (to_upper t)) = true.
Proof. exact disp_list_strict. Qed.
Print Assumptions c13_disposition_strict.

Example c13_old_disposition_nil_malformed :
  string_ok (S_ "NIL") = false /\ disp_list (Some ([], [])) = NIL.
Proof. exact old_disposition_nil_malformed. Qed.

(** regression (bare_cr_header, repaired): "Subject: a<CR>b" used to reach the
    ENVELOPE inside a quoted string; it is a literal now and the line is well-formed *)
Example c13_old_bare_cr_malformed :
  wf_stream (send (S_ "* 1 FETCH (ENVELOPE (NIL ""a" ++ [CR] ++ S_ "b"" NIL NIL NIL NIL NIL NIL NIL NIL))")) = false
  /\ match envelope_value (fun _ => None) w_cr_msg with
     | Some v => wf_stream (send (fetch_line 1 [Inline (S_ "ENVELOPE") v])) = true
     | None => False
     end.
Proof. exact old_bare_cr_malformed. Qed.

(** THE ITEM PARSER (fix wave 3). [parse_items] is total: defined by structural
    recursion over the text (every byte string has a list of items, at most
    one per byte; no slice or index can fail). *)
Theorem c13_item_parser_total : forall items : str,
  exists its, parse_items items = its /\ length its <= length items.
Proof. exact item_parser_total. Qed.
Print Assumptions c13_item_parser_total.

(** For every request made of valid, pairwise different RFC 3501 data items —
    the nine plain items, BODY[] / BODY[TEXT] / BODY[HEADER] / BODY[HEADER.FIELDS
    (names)] / numbered sections with or without .MIME, PEEK or not, with or
    without a range <a.b> — and for every message: the response parts carry
    exactly the requested names, each exactly once, in request order, with the
    origin <a> for every partial. (RFC822 is the one exception, see
    [c13_refuted_rfc822_renamed]; [None] = the Go code panics, C12.) *)
Theorem c13_items_answered : forall (req : list fitem) (e : fenv) (plan : list out),
  forallb item_valid req = true -> NoDup (map expected_name req) ->
  fetch_plan (render_req req) e = Some plan ->
  map out_label plan = map expected_name req.
Proof. exact items_answered. Qed.
Print Assumptions c13_items_answered.

(** Both halves together: for such a request, when the contributions are
    single tokens ([out_okb], see [c13_fetch_assembly_ok]), the line sent is
    well-formed and the strict client reads back exactly the requested item
    names, each with one value. *)
Theorem c13_requested_items_in_response : forall (req : list fitem) (e : fenv) (plan : list out) (seq : nat),
  req <> [] -> forallb item_valid req = true -> NoDup (map expected_name req) ->
  fetch_plan (render_req req) e = Some plan -> forallb out_okb plan = true ->
  wf_stream (send (fetch_line seq plan)) = true
  /\ exists ps, fetch_pairs (send (fetch_line seq plan)) = Some (dec seq, ps)
                /\ map fst ps = map expected_name req.
Proof. exact requested_items_in_response. Qed.
Print Assumptions c13_requested_items_in_response.

(** still open: a requested RFC822 is answered under the name BODY[] — raven's
    own test TestFetchCommand_RFC822 asserts that answer *)
Theorem c13_refuted_rfc822_renamed : unanswered [I_Simple (S_ "RFC822")] rfc822_renamed.
Proof. exact refuted_rfc822_renamed. Qed.
Print Assumptions c13_refuted_rfc822_renamed.

(** regression: the request shapes of the retired classes item_suppressed and
    partial_range, answered item by item now; and their old answers *)
Example c13_regression_items_answered :
  answered_now [I_Simple (S_ "BODY"); I_Sec true (S_Part (S_ "1") false) None]
  /\ answered_now [I_Simple (S_ "RFC822.SIZE"); I_Simple (S_ "RFC822.HEADER"); I_Simple (S_ "BODYSTRUCTURE"); I_Simple (S_ "BODY")]
  /\ answered_now [I_Sec false S_Header None; I_Sec false (S_Fields [S_ "TO"]) None; I_Sec true (S_Fields [S_ "SUBJECT"; S_ "X-UID"]) None]
  /\ answered_now [I_Sec true S_Header None; I_Sec true S_Header (Some (3, 5))]
  /\ answered_now [I_Sec false S_Text (Some (0, 5)); I_Sec false (S_Part (S_ "1") false) (Some (3, 4)); I_Sec false S_Text None]
  /\ answered_now [I_Sec false (S_Fields [S_ "SUBJECT"]) (Some (2, 6)); I_Sec false (S_Part (S_ "2") false) (Some (0, 9))].
Proof. exact regression_items_answered. Qed.

Example c13_old_item_answers :
  option_map (fun r => map fst (snd r)) (fetch_pairs (send (S_ "* 1 FETCH (BODY[1] {5}" ++ crlf ++ S_ "hello)")))
    = Some [S_ "BODY[1]"]
  /\ option_map (fun r => map fst (snd r)) (fetch_pairs (send (S_ "* 1 FETCH (BODY[TEXT] {5}" ++ crlf ++ S_ "hello)")))
    = Some [S_ "BODY[TEXT]"].
Proof. exact old_item_answers. Qed.

(** non-vacuity of the hypotheses of [c13_fetch_assembly_ok] *)
Example c13_assembly_example :
  let plan := [Inline (S_ "UID") (dec 7); Inline (S_ "FLAGS") (S_ "(\Seen)");
               Lit (S_ "BODY[HEADER.FIELDS (DATE FROM)]") (S_ "* 1 FETCH (BODY[] {3}")] in
  forallb out_okb plan = true.
Proof. vm_compute. reflexivity. Qed.
