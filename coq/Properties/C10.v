(** C10 — Flag updates are exact, persistent and respect read-only selection.
    Statements only; every proof is [exact <lemma>].

    Model: Model/Flags.v (CalculateNewFlags, both copies), Model/FlagStore.v
    (HandleStore, handleUIDStore, MoveMessageToMailbox, handleUIDCopy, APPEND's
    row, EXPUNGE/CLOSE, the flag queries).  Reference semantics (the statement):
    Spec/FlagSet.v (set algebra) and Spec/FlagHistory.v ([spec_step],
    [classify]).  [silent] and the three data items are universally
    quantified; "UID form" = [OUidStore].  A later session sees the table
    ([links]) and nothing else: every query below is a function of [links]. *)
From Coq Require Import String Ascii List Bool Arith ZArith.
From Raven Require Import Base.GoStr Model.Flags Spec.FlagSet Proof.Flags Model.FlagStore Spec.FlagHistory
     Spec.FlagOracle Proof.FlagStore Proof.FlagStoreSeq Proof.FlagQueries Proof.FlagJoin Proof.FlagRefute.
Import ListNotations.
Local Open Scope Z_scope.

(** (a, algebra) CalculateNewFlags computes exactly the set algebra of the
    three data items, for ALL current flags, ALL named flags (any bytes); the
    result has no duplicates; [\Recent] cannot be named. *)
Theorem c10_apply_exact : forall (cur new : list str) (s : str) (it : item),
  item_of s = Some it ->
  (forall f, In f (calculate_new_flags cur new s) <-> apply_rel it cur new f)
  /\ NoDup (calculate_new_flags cur new s).
Proof. exact calculate_new_flags_exact. Qed.
Print Assumptions c10_apply_exact.

(** (a, addressing) UID STORE / UID STORE .SILENT outside the listed classes:
    every row keeps its place, message, mailbox and uid; the rows of the
    selected mailbox whose uid the set denotes get exactly the set algebra;
    every other row is literally unchanged; nothing else of the store changes. *)
Theorem c10_uid_store_touches_only_addressed :
  forall e s silent mb q item new it,
  uniq_keys (links s) -> item_of item = Some it ->
  classify e s (OUidStore false silent mb q item new) = None ->
  let s' := step e s (OUidStore false silent mb q item new) in
  Forall2 (row_ok mb (expand_uid (links s) mb q) it new) (links s) (links s')
  /\ nexts s' = nexts s /\ next_msg s' = next_msg s.
Proof. exact uid_store_meaning. Qed.
Print Assumptions c10_uid_store_touches_only_addressed.

(** the same for STORE / STORE .SILENT by sequence numbers *)
Theorem c10_store_touches_only_addressed :
  forall e s silent mb q item new it,
  uniq_keys (links s) -> item_of item = Some it ->
  classify e s (OStore false silent mb q item new) = None ->
  let s' := step e s (OStore false silent mb q item new) in
  Forall2 (row_ok mb (seq_targets (links s) mb q) it new) (links s) (links s')
  /\ nexts s' = nexts s /\ next_msg s' = next_msg s.
Proof. exact seq_store_meaning. Qed.
Print Assumptions c10_store_touches_only_addressed.

(** the targets of a sequence set are the uids of the rows at the denoted positions *)
Theorem c10_seq_targets : forall ls mb q u,
  In u (seq_targets ls mb q) <->
  exists n l, In n (expand_seq ls mb q) /\ nth_link ls mb n = Some l /\ lk_uid l = u.
Proof. exact seq_targets_spec. Qed.
Print Assumptions c10_seq_targets.

(** every operation, outside the classes, is the reference operation *)
Theorem c10_step_exact : forall e s o,
  uniq_keys (links s) -> classify e s o = None -> step e s o = spec_step e s o.
Proof. exact step_exact. Qed.
Print Assumptions c10_step_exact.

(** UNIQUE(mailbox_id, uid) is kept by every operation (no side condition) *)
Theorem c10_unique_keys_invariant : forall e s o,
  uniq_keys (links s) -> uniq_keys (links (step e s o)).
Proof. exact uniq_step. Qed.
Print Assumptions c10_unique_keys_invariant.

(** histories: any interleaving of STORE / UID STORE (+-.SILENT) / UID COPY /
    APPEND with flags / EXPUNGE-CLOSE, with or without EXAMINE, in which no step
    falls into a listed class, leaves exactly the table of the reference
    semantics — hence every later FETCH FLAGS / SEARCH / UNSEEN answer. *)
Theorem c10_history_exact : forall e h s,
  uniq_keys (links s) -> hist_class e s h = None -> run e s h = spec_run e s h.
Proof. exact history_exact. Qed.
Print Assumptions c10_history_exact.

(** (c) flags of a copy are independent: a STORE never touches a row outside
    the selected mailbox; a copy starts with the original's flags (+ \Recent) *)
Theorem c10_copy_independent : forall e s o mb,
  uniq_keys (links s) -> classify e s o = None ->
  (exists si q item new, o = OStore false si mb q item new \/ o = OUidStore false si mb q item new) ->
  forall l, In l (links s) -> lk_mbox l <> mb -> In l (links (step e s o)).
Proof. exact store_other_mailbox_untouched. Qed.
Print Assumptions c10_copy_independent.

Theorem c10_copy_flags : forall fl f,
  In f (copy_flags fl) <-> In f fl \/ (f = RECENT /\ flags_contain fl RECENT = false).
Proof. exact copy_flags_spec. Qed.
Print Assumptions c10_copy_flags.

(** (b) FETCH (UID FLAGS) reports the table *)
Theorem c10_fetch_reports_table : forall ls mb u fl,
  In (u, fl) (view ls mb) <-> exists l, In l ls /\ lk_mbox l = mb /\ lk_uid l = u /\ lk_flags l = fl.
Proof. exact view_iff. Qed.
Print Assumptions c10_fetch_reports_table.

(** (b) SEARCH by flag is set membership when no stored atom of the mailbox
    properly contains the queried flag *)
Theorem c10_flag_queries_exact : forall ls mb k,
  (forall l q, In l ls -> lk_mbox l = mb -> In q (key_atoms k) -> no_proper_super (lk_flags l) q = true) ->
  search ls mb k = spec_search ls mb k.
Proof. exact search_exact. Qed.
Print Assumptions c10_flag_queries_exact.

(** (b) STATUS UNSEEN and [UNSEEN n], same guard up to ASCII case (LIKE) *)
Theorem c10_unseen_exact : forall ls mb,
  (forall l, In l ls -> lk_mbox l = mb -> no_proper_super_ci (lk_flags l) SEEN = true) ->
  unseen_count ls mb = spec_unseen_count ls mb /\ first_unseen ls mb = spec_first_unseen ls mb.
Proof. exact unseen_exact. Qed.
Print Assumptions c10_unseen_exact.

(** the substring test on the stored space-joined string is the test on atoms *)
Theorem c10_contains_join : forall fl q, q <> [] -> ~ In SP q ->
  contains (join fl [SP]) q = flags_contain fl q.
Proof. exact contains_join. Qed.
Print Assumptions c10_contains_join.

(** ---- where raven violates the statement: one witness per class ---- *)
Theorem c10_refuted_examine_writes :
  refutes ExamineWrites [OAppend 1 [SEEN]] (OStore true false 1 (one 1) IT_ADD [DELETED]) 1.
Proof. exact refuted_examine_writes. Qed.
Print Assumptions c10_refuted_examine_writes.

Theorem c10_refuted_junk_shift :
  refutes JunkShift [OAppend 1 [S_ "a1"]; OAppend 1 [S_ "a2"]; OAppend 1 [S_ "a3"]]
          (OStore false false 1 [(Some 1, Some 2)] IT_ADD [JUNK]) 1
  /\ view (links (run env0 st0 [OAppend 1 [S_ "a1"]; OAppend 1 [S_ "a2"]; OAppend 1 [S_ "a3"];
                                 OStore false false 1 [(Some 1, Some 2)] IT_ADD [JUNK]])) 1 = [(2, [S_ "a2"])].
Proof. exact refuted_junk_shift. Qed.
Print Assumptions c10_refuted_junk_shift.

Theorem c10_refuted_junk_move :
  refutes JunkMove [OAppend 1 [NONJUNK]] (OUidStore false false 1 (one 1) IT_ADD [JUNK; SEEN]) 1
  /\ view (links (run env0 st0 [OAppend 1 [NONJUNK]; OUidStore false false 1 (one 1) IT_ADD [JUNK; SEEN]])) 5
     = [(1, [JUNK; SEEN])].
Proof. exact refuted_junk_move. Qed.
Print Assumptions c10_refuted_junk_move.

Theorem c10_refuted_junk_noop :
  refutes JunkNoop [OAppend 1 [S_ "kw"]] (OStore false false 1 (one 1) IT_ADD [NONJUNK; SEEN]) 1
  /\ view (links (run env0 st0 [OAppend 1 [S_ "kw"]; OStore false false 1 (one 1) IT_ADD [NONJUNK; SEEN]])) 1
     = [(1, [S_ "kw"])].
Proof. exact refuted_junk_noop. Qed.
Print Assumptions c10_refuted_junk_noop.

Theorem c10_refuted_same_mailbox_copy :
  refutes SameMailboxCopy [OAppend 1 [S_ "kw"]; OUidCopy 1 (one 1) 1]
          (OStore false false 1 (one 1) IT_ADD [S_ "\Flagged"]) 1.
Proof. exact refuted_same_mailbox_copy. Qed.
Print Assumptions c10_refuted_same_mailbox_copy.

Theorem c10_refuted_substring :
  let fl := [NONJUNK; S_ "\Seenish"] in
  no_proper_super fl JUNK = false /\ no_proper_super_ci fl SEEN = false
  /\ key_holds (KHas JUNK) fl = true /\ spec_key_holds (KHas JUNK) fl = false
  /\ key_holds (KHas SEEN) fl = true /\ spec_key_holds (KHas SEEN) fl = false
  /\ unseen_count [mkLink 1 1 1 fl] 1 = 0 /\ spec_unseen_count [mkLink 1 1 1 fl] 1 = 1.
Proof. exact refuted_substring. Qed.
Print Assumptions c10_refuted_substring.

(** ---- non-vacuity: a history with substring twins, \Recent, a copy, EXAMINE
    used for reading only, that meets every hypothesis above and changes flags ---- *)
Example c10_history_example :
  let h := [OAppend 1 [SEEN; S_ "kw"]; OAppend 1 [S_ "\Seenish"; NONJUNK]; OUidCopy 1 [(Some 1, None)] 2;
            OStore false true 1 [(Some 1, Some 2)] IT_ADD [S_ "\Flagged"; RECENT];
            OUidStore false false 2 [(None, None)] IT_DEL [NONJUNK; S_ "Seen"];
            OStore false false 1 (one 2) IT_FLAGS [S_ "kw2"]] in
  uniq_keys_b (links st0) = true /\ hist_class env0 st0 h = None
  /\ view (links (run env0 st0 h)) 1 = [(1, [SEEN; S_ "kw"; S_ "\Flagged"]); (2, [S_ "kw2"])]
  /\ view (links (run env0 st0 h)) 2 = [(1, [SEEN; S_ "kw"; RECENT]); (2, [S_ "\Seenish"; RECENT])].
Proof. vm_compute. repeat split. Qed.

Example c10_examine_close_example :
  view (links (run env0 st0 [OAppend 1 [SEEN]; OStore true false 1 (one 1) IT_ADD [DELETED]; OExpunge true 1])) 1 = []
  /\ view (links (spec_run env0 st0 [OAppend 1 [SEEN]; OStore true false 1 (one 1) IT_ADD [DELETED]; OExpunge true 1])) 1 = [(1, [SEEN])].
Proof. exact refuted_examine_close. Qed.
