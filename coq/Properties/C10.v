(** C10 — Flag updates are exact, persistent and respect read-only selection.
    Statements only; every proof is [exact <lemma>].

    Model: Model/Flags.v (CalculateNewFlags, both copies), Model/FlagStore.v
    (HandleStore, handleUIDStore, MoveMessageToMailbox, handleUIDCopy, APPEND's
    row, EXPUNGE/CLOSE, the flag queries).  Reference semantics (the statement):
    Spec/FlagSet.v (set algebra) and Spec/FlagHistory.v ([spec_step],
    [classify]).  [silent] and the three data items are universally
    quantified; "UID form" = [OUidStore].  A later session sees the table
    ([links]) and nothing else: every query below is a function of [links].

    State of the code: /repo after the fix wave (fixes/01..05).  The classes
    examine_writes, same_mailbox_copy, junk_shift, junk_noop and
    substring_query are repaired: (d) and (b) hold without any side condition,
    (a) and (c) hold outside the one remaining class, the Junk/NonJunk
    auto-move ([junk_class]). *)
From Coq Require Import String Ascii List Bool Arith ZArith.
From Raven Require Import Base.GoStr Model.Flags Spec.FlagSet Proof.Flags Model.FlagStore Spec.FlagHistory
     Spec.FlagOracle Proof.FlagStore Proof.FlagStoreSeq Proof.FlagQueries Proof.FlagAtoms Proof.FlagRefute.
Import ListNotations.
Local Open Scope Z_scope.

(** (a, algebra) CalculateNewFlags computes exactly the set algebra of the
    three data items on flag KEYS (flag names are case-insensitive: [fkey] =
    ASCII upper-casing), for ALL current flags, ALL named flags (any bytes);
    the result holds no flag twice in any spelling and only spellings that the
    store or the client supplied; [\Recent] cannot be named in any spelling. *)
Theorem c10_apply_exact : forall (cur new : list str) (s : str) (it : item),
  item_of s = Some it ->
  (forall k, In k (keys (calculate_new_flags cur new s)) <-> apply_rel it cur new k)
  /\ NoDup (keys (calculate_new_flags cur new s))
  /\ (forall f, In f (calculate_new_flags cur new s) -> In f cur \/ In f new).
Proof. exact calculate_new_flags_exact. Qed.
Print Assumptions c10_apply_exact.

(** (a, addressing) UID STORE / UID STORE .SILENT that re-files no message
    (the only remaining class; a same-mailbox copy, Junk inside Spam, NonJunk
    inside INBOX are all covered):
    every row keeps its place, message, mailbox and uid; the rows of the
    selected mailbox whose uid the set denotes get exactly the set algebra;
    every other row is literally unchanged; nothing else of the store changes. *)
Theorem c10_uid_store_touches_only_addressed :
  forall e s silent mb q item new it,
  uniq_keys (links s) -> item_of item = Some it -> flags_valid new = true ->
  classify e s (OUidStore false silent mb q item new) = None ->
  let s' := step e s (OUidStore false silent mb q item new) in
  Forall2 (row_ok mb (expand_uid (links s) mb q) it new) (links s) (links s')
  /\ nexts s' = nexts s /\ next_msg s' = next_msg s.
Proof. exact uid_store_meaning. Qed.
Print Assumptions c10_uid_store_touches_only_addressed.

(** the same for STORE / STORE .SILENT by sequence numbers *)
Theorem c10_store_touches_only_addressed :
  forall e s silent mb q item new it,
  uniq_keys (links s) -> item_of item = Some it -> flags_valid new = true ->
  classify e s (OStore false silent mb q item new) = None ->
  let s' := step e s (OStore false silent mb q item new) in
  Forall2 (row_ok mb (seq_targets (links s) mb q) it new) (links s) (links s')
  /\ nexts s' = nexts s /\ next_msg s' = next_msg s.
Proof. exact seq_store_meaning. Qed.
Print Assumptions c10_store_touches_only_addressed.

(** (a) when the Junk auto-move FAILS - no mailbox is named Spam (RENAME Spam x,
    DELETE Spam), MoveMessageToMailbox answers "destination mailbox not found" -
    an accepted STORE / UID STORE in INBOX stores Junk and every flag named with
    it in place, exactly as for any other flag (this branch has classify = None,
    so c10_step_exact and c10_history_exact cover it too; stated here on its own) *)
Theorem c10_failed_move_stores_in_place :
  forall e s silent mb q item new it,
  uniq_keys (links s) -> item_of item = Some it -> flags_valid new = true ->
  spam s = None -> mb = inbox_id e ->
  Forall2 (row_ok mb (seq_targets (links s) mb q) it new) (links s) (links (step e s (OStore false silent mb q item new)))
  /\ Forall2 (row_ok mb (expand_uid (links s) mb q) it new) (links s) (links (step e s (OUidStore false silent mb q item new))).
Proof. exact failed_move_stores_in_place. Qed.
Print Assumptions c10_failed_move_stores_in_place.

(** the targets of a sequence set are the uids of the rows at the denoted positions *)
Theorem c10_seq_targets : forall ls mb q u,
  In u (seq_targets ls mb q) <->
  exists n l, In n (expand_seq ls mb q) /\ nth_link ls mb n = Some l /\ lk_uid l = u.
Proof. exact seq_targets_spec. Qed.
Print Assumptions c10_seq_targets.

(** every operation, outside the classes, is the reference operation *)
Theorem c10_step_exact : forall e s o,
  uniq_keys (links s) -> classify e s o = None -> step e s o = spec_step e s o.
Proof. exact step_exact. Qed.
Print Assumptions c10_step_exact.

(** UNIQUE(mailbox_id, uid) is kept by every operation (no side condition) *)
Theorem c10_unique_keys_invariant : forall e s o,
  uniq_keys (links s) -> uniq_keys (links (step e s o)).
Proof. exact uniq_step. Qed.
Print Assumptions c10_unique_keys_invariant.

(** histories: any interleaving of STORE / UID STORE (+-.SILENT) / UID COPY /
    APPEND with flags / EXPUNGE-CLOSE, with or without EXAMINE, in which no step
    falls into a listed class, leaves exactly the table of the reference
    semantics — hence every later FETCH FLAGS / SEARCH / UNSEEN answer. *)
Theorem c10_history_exact : forall e h s,
  uniq_keys (links s) -> hist_class e s h = None -> run e s h = spec_run e s h.
Proof. exact history_exact. Qed.
Print Assumptions c10_history_exact.

(** (c) flags of a copy are independent: a copy is a row of its own key, so
    the two theorems above apply to it like to any row (also inside the same
    mailbox); a STORE never touches a row outside the selected mailbox; a copy
    starts with the original's flags + \Recent *)
Theorem c10_copy_independent : forall e s o mb,
  uniq_keys (links s) -> classify e s o = None ->
  (exists si q item new, o = OStore false si mb q item new \/ o = OUidStore false si mb q item new) ->
  forall l, In l (links s) -> lk_mbox l <> mb -> In l (links (step e s o)).
Proof. exact store_other_mailbox_untouched. Qed.
Print Assumptions c10_copy_independent.

Theorem c10_copy_flags : forall fl f,
  In f (copy_flags fl) <-> In f fl \/ (f = RECENT /\ ~ In (fkey RECENT) (keys fl)).
Proof. exact copy_flags_spec. Qed.
Print Assumptions c10_copy_flags.

(** (b) FETCH (UID FLAGS) reports the table *)
Theorem c10_fetch_reports_table : forall ls mb u fl,
  In (u, fl) (view ls mb) <-> exists l, In l ls /\ lk_mbox l = mb /\ lk_uid l = u /\ lk_flags l = fl.
Proof. exact view_iff. Qed.
Print Assumptions c10_fetch_reports_table.

(** (b) SEARCH by flag, STATUS UNSEEN and [UNSEEN n] are membership of the
    queried flag's key in the keys of the stored flags, for every table and
    every search key (no side condition) *)
Theorem c10_flag_queries_exact : forall ls mb k, search ls mb k = spec_search ls mb k.
Proof. exact search_exact. Qed.
Print Assumptions c10_flag_queries_exact.

Theorem c10_unseen_exact : forall ls mb,
  unseen_count ls mb = spec_unseen_count ls mb /\ first_unseen ls mb = spec_first_unseen ls mb.
Proof. exact unseen_exact. Qed.
Print Assumptions c10_unseen_exact.

(** (b) every report is a function of the flag table, not of the asking
    session: STATUS UNSEEN / MESSAGES of two sessions agree whatever each has
    selected (the mailbox asked about - "STATUS on the selected mailbox" -
    another one, or none), however it selected it and whatever its cached
    counters (ClientState.LastMessageCount / LastRecentCount) hold; SEARCH and
    FETCH of two sessions with the same selection agree; and all of them are
    the set-membership answers about the table. *)
Theorem c10_reports_independent_of_session : forall ss ss' s,
  (forall mb, status_unseen ss s mb = status_unseen ss' s mb)
  /\ (forall mb, status_messages ss s mb = status_messages ss' s mb)
  /\ (ss_selected ss = ss_selected ss' ->
      (forall k, sess_search ss s k = sess_search ss' s k) /\ sess_fetch ss s = sess_fetch ss' s).
Proof. exact reports_independent_of_session. Qed.
Print Assumptions c10_reports_independent_of_session.

Theorem c10_session_reports_exact : forall ss s,
  (forall mb, status_unseen ss s mb = spec_unseen_count (links s) mb)
  /\ (forall k, sess_search ss s k = spec_search (links s) (ss_selected ss) k)
  /\ (forall u fl, In (u, fl) (sess_fetch ss s) <->
        exists l, In l (links s) /\ lk_mbox l = ss_selected ss /\ lk_uid l = u /\ lk_flags l = fl)
  /\ (forall mb, status_messages ss s mb = Z.of_nat (length (view (links s) mb))).
Proof. exact session_reports_exact. Qed.
Print Assumptions c10_session_reports_exact.

(** (d) STORE, UID STORE, EXPUNGE and CLOSE of a session that opened the
    mailbox with EXAMINE change nothing, in every state (no side condition) *)
Theorem c10_examine_never_modifies : forall e s o, read_only_op o -> step e s o = s.
Proof. exact examine_changes_nothing. Qed.
Print Assumptions c10_examine_never_modifies.

(** (e) flags are RFC 3501 flags (an atom, optionally preceded by one
    backslash): a STORE / UID STORE / APPEND that names anything else changes
    nothing; every operation keeps "all stored flags are RFC 3501 flags", so
    after any history from such a store FETCH FLAGS prints atoms only; a valid
    flag is not empty and contains none of ( ) SP { DQUOTE or a control octet. *)
Theorem c10_invalid_flag_refused : forall e s o,
  match o with
  | OStore _ _ _ _ _ new | OUidStore _ _ _ _ _ new => flags_valid new = false
  | OAppend _ fl => flags_valid fl = false
  | _ => False
  end -> step e s o = s.
Proof. exact invalid_flag_refused. Qed.
Print Assumptions c10_invalid_flag_refused.

Theorem c10_stored_flags_are_atoms : forall e h s,
  atoms_ok (links s) -> atoms_ok (links (run e s h)).
Proof. exact atoms_run. Qed.
Print Assumptions c10_stored_flags_are_atoms.

Theorem c10_valid_flag_is_printable : forall f, valid_flag f = true ->
  f <> [] /\ forallb (fun c => negb (list_breaker c)) f = true.
Proof. exact valid_flag_chars. Qed.
Print Assumptions c10_valid_flag_is_printable.

(** ---- where raven still deviates from the statement: the auto-move ---- *)
Theorem c10_refuted_junk_move :
  refutes JunkMove [OAppend 1 [NONJUNK]] (OUidStore false false 1 (one 1) IT_ADD [JUNK; SEEN]) 1
  /\ view (links (run env0 st0 [OAppend 1 [NONJUNK]; OUidStore false false 1 (one 1) IT_ADD [JUNK; SEEN]])) 5
     = [(1, [JUNK; SEEN])].
Proof. exact refuted_junk_move. Qed.
Print Assumptions c10_refuted_junk_move.

(** ---- non-vacuity: a history with substring twins, \Recent, copies (one
    inside the same mailbox), an EXAMINE session that tries to write, NonJunk
    added inside INBOX — it meets every hypothesis above and changes flags ---- *)
Example c10_history_example :
  let h := [OAppend 1 [SEEN; S_ "kw"]; OAppend 1 [S_ "\Seenish"; NONJUNK]; OUidCopy 1 [(Some 1, None)] 2;
            OUidCopy 1 (one 2) 1;
            OStore false true 1 [(Some 1, Some 2)] IT_ADD [S_ "\Flagged"; RECENT];
            OStore true false 1 [(Some 1, None)] IT_FLAGS [DELETED]; OExpunge true 1;
            OUidStore false false 2 [(None, None)] IT_DEL [NONJUNK; S_ "Seen"];
            OStore false false 1 (one 1) IT_ADD [NONJUNK]] in
  uniq_keys_b (links st0) = true /\ hist_class env0 st0 h = None
  /\ view (links (run env0 st0 h)) 1
     = [(1, [SEEN; S_ "kw"; S_ "\Flagged"; NONJUNK]); (2, [S_ "\Seenish"; NONJUNK; S_ "\Flagged"]);
        (3, [S_ "\Seenish"; NONJUNK; RECENT])]
  /\ view (links (run env0 st0 h)) 2 = [(1, [SEEN; S_ "kw"; RECENT]); (2, [S_ "\Seenish"; RECENT])].
Proof. vm_compute. repeat split. Qed.

(** the witnesses of the repaired classes now behave as the statement demands *)
Example c10_fixed_examine_writes :
  let h := [OAppend 1 [SEEN]; OStore true false 1 (one 1) IT_ADD [DELETED]; OExpunge true 1] in
  hist_class env0 st0 h = None /\ view (links (run env0 st0 h)) 1 = [(1, [SEEN])].
Proof. exact fixed_examine_writes. Qed.

Example c10_fixed_same_mailbox_copy :
  let h := [OAppend 1 [S_ "kw"]; OUidCopy 1 (one 1) 1; OStore false false 1 (one 1) IT_ADD [S_ "\Flagged"]] in
  hist_class env0 st0 h = None
  /\ view (links (run env0 st0 h)) 1 = [(1, [S_ "kw"; S_ "\Flagged"]); (2, [S_ "kw"; RECENT])].
Proof. exact fixed_same_mailbox_copy. Qed.

Example c10_fixed_junk_same_mailbox :
  let h := [OAppend 1 [S_ "kw"]; OStore false false 1 (one 1) IT_ADD [NONJUNK; SEEN]] in
  hist_class env0 st0 h = None /\ view (links (run env0 st0 h)) 1 = [(1, [S_ "kw"; NONJUNK; SEEN])].
Proof. exact fixed_junk_same_mailbox. Qed.

Example c10_fixed_junk_shift :
  let h := [OAppend 1 [S_ "a1"]; OAppend 1 [S_ "a2"]; OAppend 1 [S_ "a3"];
            OStore false false 1 [(Some 1, Some 2)] IT_ADD [JUNK]] in
  view (links (run env0 st0 h)) 1 = [(3, [S_ "a3"])]
  /\ view (links (run env0 st0 h)) 5 = [(1, [S_ "a1"; JUNK]); (2, [S_ "a2"; JUNK])].
Proof. exact fixed_junk_shift. Qed.

Example c10_fixed_substring :
  let fl := [NONJUNK; S_ "\Seenish"] in
  key_holds (KHas JUNK) fl = false /\ key_holds (KHas SEEN) fl = false
  /\ unseen_count [mkLink 1 1 1 fl] 1 = 1 /\ first_unseen [mkLink 1 1 1 fl] 1 = Some 1.
Proof. exact fixed_substring. Qed.

Example c10_fixed_flag_case :
  calculate_new_flags [SEEN; S_ "kw"] [S_ "\seen"; S_ "KW"; S_ "\recent"] IT_ADD = [SEEN; S_ "kw"]
  /\ calculate_new_flags [SEEN; S_ "kw"] [S_ "\seen"] IT_DEL = [S_ "kw"]
  /\ calculate_new_flags [] [S_ "\Seen"; S_ "\seen"; S_ "\SEEN"] IT_FLAGS = [S_ "\Seen"]
  /\ view (links (run env0 st0 [OAppend 1 [S_ "\deleted"]; OAppend 1 [S_ "\DeletedX"]; OExpunge false 1])) 1 = [(2, [S_ "\DeletedX"])]
  /\ unseen_count [mkLink 1 1 1 [S_ "\seen"]; mkLink 2 1 2 [S_ "\Seenish"]] 1 = 1
  /\ copy_flags [S_ "\recent"] = [S_ "\recent"].
Proof. exact fixed_flag_case. Qed.

Example c10_fixed_flag_atom :
  let h := [OAppend 1 [S_ "kw"]; OStore false false 1 (one 1) IT_ADD [S_ "x)y"; SEEN];
            OUidStore false false 1 (one 1) IT_FLAGS [S_ "a\b"]; OAppend 1 [S_ "a""b"]; OAppend 1 [S_ "\*"]] in
  view (links (run env0 st0 h)) 1 = [(1, [S_ "kw"])] /\ next_of (nexts (run env0 st0 h)) 1 = 2.
Proof. exact fixed_flag_atom. Qed.

Example c10_move_fails_example :
  let h := [OAppend 1 [S_ "kw"]; OAppend 1 []; ODropSpam false;
            OStore false false 1 (one 2) IT_ADD [JUNK; S_ "\Flagged"];
            OUidStore false true 1 (one 1) IT_FLAGS [JUNK; SEEN]] in
  hist_class env0 st0 h = None
  /\ view (links (run env0 st0 h)) 1 = [(1, [JUNK; SEEN]); (2, [JUNK; S_ "\Flagged"])]
  /\ unseen_count (links (run env0 st0 h)) 1 = 1
  /\ search (links (run env0 st0 h)) 1 (KHas JUNK) = [1; 2]
  /\ view (links (run env0 st0 (h ++ [OCreateSpam 6; OUidStore false false 1 (one 2) IT_DEL [JUNK];
                                        OUidStore false false 1 (one 2) IT_ADD [JUNK]]))) 6 = [(1, [S_ "\Flagged"; JUNK])].
Proof. exact move_fails_example. Qed.
