(** C10 — Flag updates are exact, persistent and respect read-only selection.
    Statements only; every proof is [exact <lemma>]. *)
From Coq Require Import String Ascii List Bool Arith ZArith.
From Raven Require Import Base.GoStr Model.Flags Spec.FlagSet Proof.Flags.
Import ListNotations.

(** (a, algebra) CalculateNewFlags (both copies: message/ and utils/) computes
    exactly the set algebra of the three data items, for ALL current flag
    lists, ALL named flags (any bytes) and the three data items; the result has
    no duplicates. [\Recent] cannot be named. *)
Theorem c10_apply_exact : forall (cur new : list str) (s : str) (it : item),
  item_of s = Some it ->
  (forall f, In f (calculate_new_flags cur new s) <-> apply_rel it cur new f)
  /\ NoDup (calculate_new_flags cur new s).
Proof. exact calculate_new_flags_exact. Qed.
Print Assumptions c10_apply_exact.
