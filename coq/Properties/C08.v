(** C08 — Concurrent sessions never lose, duplicate or mix up messages.
    Statements only; every proof is [exact <lemma>].

    Model (Model/Conc.v): any number of threads over one per-user store; a
    thread is a delivery (Storage.DeliverMessage), an APPEND, or one of the
    atomic operations CREATE / UID COPY / UID STORE (incl. the Junk move) /
    EXPUNGE of Model/Ops.v; deliveries and appends advance by ATOMIC MICRO-STEPS
    (one SQL statement each) with the uid handed out by the allocation step kept
    in a thread-local register; a delivery or a LOGIN may be the FIRST CONTACT
    with the store ([PFirstDeliver], [PLogin]: count the mailboxes, then the
    initialisation transaction).  State of the code: with
    fixes/c08-init-defaults-lock.patch (the count is repeated under BEGIN
    IMMEDIATE).  A schedule is any list of thread indices;
    [run_sched] interleaves accordingly.  Theorems hold for EVERY schedule and
    every list of programs, from every initial store that satisfies
    UNIQUE(mailbox_id,uid) and whose links refer to allocated message rows
    ([store_ok]; [store_ok_init]: the store of a new account does). *)
From Coq Require Import String Ascii List Bool ZArith.
From Raven Require Import Base.GoStr Model.Store Model.Ops Model.Conc
  Proof.ConcStore Proof.ConcInv Proof.ConcAck Proof.ConcNoFail Proof.ConcBounded
  Model.ConcInit Proof.ConcInit.
Import ListNotations.
Local Open Scope Z_scope.

Theorem store_ok_init : forall t, store_ok (init t) /\ msgs_nodup (init t).
Proof. exact store_ok_init_l. Qed.
Print Assumptions store_ok_init.

(** (a) whatever the interleaving, no two links of a mailbox share a UID *)
Theorem c08_uid_unique_all_schedules : forall s ps sch,
  store_ok s ->
  NoDup (map lkey (links (c_store (run_sched sch (init_cfg s ps))))).
Proof. exact c08_uid_unique_l. Qed.
Print Assumptions c08_uid_unique_all_schedules.

(** (b) thread sets without removing operations (deliveries, appends, CREATE,
    UID COPY): a thread that answered 250/OK has its link at the (mailbox, uid)
    it used, carrying its own message row *)
Theorem c08_ack_linked : forall s ps sch i th mb m u,
  forallb keeps ps = true ->
  nth_error (c_threads (run_sched sch (init_cfg s ps))) i = Some th ->
  t_st th = SOk mb m u ->
  linked (c_store (run_sched sch (init_cfg s ps))) mb m u.
Proof. exact c08_ack_linked_l. Qed.
Print Assumptions c08_ack_linked.

(** (b) deliveries, appends and CREATE only: present EXACTLY once *)
Theorem c08_ack_exactly_once : forall s ps sch i th mb m u,
  store_ok s -> msgs_nodup s -> forallb simple ps = true ->
  nth_error (c_threads (run_sched sch (init_cfg s ps))) i = Some th ->
  t_st th = SOk mb m u ->
  exists l, In l (links (c_store (run_sched sch (init_cfg s ps)))) /\
            lk_mbox l = mb /\ lk_uid l = u /\ lk_msg l = m /\
            forall l', In l' (links (c_store (run_sched sch (init_cfg s ps)))) ->
                       lk_msg l' = m -> l' = l.
Proof. exact c08_exactly_once_l. Qed.
Print Assumptions c08_ack_exactly_once.

(** (b) no mix-up: two threads never own the same message row *)
Theorem c08_own_message : forall s ps sch i j thi thj m,
  store_ok s -> i <> j ->
  nth_error (c_threads (run_sched sch (init_cfg s ps))) i = Some thi ->
  nth_error (c_threads (run_sched sch (init_cfg s ps))) j = Some thj ->
  owns thi = Some m -> owns thj = Some m -> False.
Proof. exact c08_own_message_l. Qed.
Print Assumptions c08_own_message.

(** (c) a thread that answered 550/NO added nothing: no link carries its
    message row — in any thread set, incl. UID COPY / STORE / EXPUNGE threads *)
Theorem c08_failed_adds_nothing : forall s ps sch i th m,
  store_ok s ->
  nth_error (c_threads (run_sched sch (init_cfg s ps))) i = Some th ->
  t_st th = SFail (Some m) ->
  forall l, In l (links (c_store (run_sched sch (init_cfg s ps)))) -> lk_msg l <> m.
Proof. exact c08_failed_l. Qed.
Print Assumptions c08_failed_adds_nothing.

(** ... and nothing of a thread is visible before it has answered *)
Theorem c08_unacknowledged_invisible : forall s ps sch i th m,
  store_ok s ->
  nth_error (c_threads (run_sched sch (init_cfg s ps))) i = Some th ->
  owns th = Some m -> is_okst th = false ->
  forall l, In l (links (c_store (run_sched sch (init_cfg s ps)))) -> lk_msg l <> m.
Proof. exact c08_pending_l. Qed.
Print Assumptions c08_unacknowledged_invisible.

(** a delivery thread on its own is the sequential operation of Model/Ops.v
    (instances; the general statement is not proved, see NOTES/C08.md) *)
Example solo_is_op_deliver_existing :
  fst (solo (init 0) (PDeliver INBOX 0)) = fst (op_deliver (init 0) INBOX 0).
Proof. vm_compute. reflexivity. Qed.
Example solo_is_op_deliver_new_folder :
  fst (solo (init 0) (PDeliver (S_ "D") 9)) = fst (op_deliver (init 0) (S_ "D") 9).
Proof. vm_compute. reflexivity. Qed.

(** (e) NO SPURIOUS FAILURE — every schedule, any number of deliveries, appends
    and CREATEs, from any store with UIDNEXT above the UIDs, existing home rows
    and distinct row ids: a thread is refused only if it is an APPEND to a
    folder that did not exist when the run started (NO [TRYCREATE]) or a
    delivery to the empty folder name — both are refused on their own as well —
    and never after its message row was written ([o = None]) *)
Theorem c08_no_spurious_failure : forall s ps sch i th o,
  good_store s -> forallb simple ps = true ->
  nth_error (c_threads (run_sched sch (init_cfg s ps))) i = Some th ->
  t_st th = SFail o ->
  o = None /\ find_name s (prog_folder (t_prog th)) = None /\
  (is_append (t_prog th) = true \/ prog_folder (t_prog th) = []).
Proof. exact c08_no_spurious_failure_l. Qed.
Print Assumptions c08_no_spurious_failure.

(** (d) counters agree: UIDNEXT of every mailbox stays above every UID in it,
    at every point of every schedule (same thread sets) *)
Theorem c08_counters_agree : forall s ps sch,
  good_store s -> forallb simple ps = true ->
  forall l m, In l (links (c_store (run_sched sch (init_cfg s ps)))) ->
              In m (mboxes (c_store (run_sched sch (init_cfg s ps)))) ->
              mb_id m = lk_mbox l -> lk_uid l < mb_next m.
Proof. exact c08_counters_agree_l. Qed.
Print Assumptions c08_counters_agree.

(** first contact: a brand-new user's store has NO mailbox rows; the theorems
    above apply to it ([PFirstDeliver], [PLogin] threads count the mailboxes and
    initialise the store themselves, [simple] holds for them) *)
Theorem good_store_empty : good_store empty_store.
Proof. exact good_store_empty_l. Qed.
Print Assumptions good_store_empty.

(** regression instance of the repaired store-initialisation race: two first
    deliveries and a LOGIN that ALL see the empty mailboxes table before any of
    them initialises: three OK, five default mailboxes, UIDNEXT 3, UIDs 1, 2 *)
Theorem c08_regression_first_contact :
  eval_first (f_ps, f_sch) = ([1; 1; 1], 5, 3, 2, 1).
Proof. exact c08_regression_first_contact_l. Qed.
Print Assumptions c08_regression_first_contact.

Theorem good_store_init : forall t, good_store (init t).
Proof. exact good_store_init_l. Qed.
Print Assumptions good_store_init.

(** regression instances of the two repaired races (classes uidnext_race and
    create_race of the unrepaired code): the schedules that bounced a delivery
    now store both messages *)
Theorem c08_regression_lost_delivery :
  failed_at (run_sched w_sch (init_cfg (init 0) w_ps)) 0 = false /\
  failed_at (run_sched w_sch (init_cfg (init 0) w_ps)) 1 = false /\
  mbox_view (run_sched w_sch (init_cfg (init 0) w_ps)) INBOX = (3, [(1, 0); (2, 1)]).
Proof. exact c08_regression_lost_delivery_l. Qed.
Print Assumptions c08_regression_lost_delivery.

Theorem c08_regression_create_race :
  failed_at (run_sched w2_sch (init_cfg (init 0) w2_ps)) 0 = false /\
  failed_at (run_sched w2_sch (init_cfg (init 0) w2_ps)) 1 = false /\
  mbox_view (run_sched w2_sch (init_cfg (init 0) w2_ps)) (S_ "D") = (3, [(1, 0); (2, 1)]).
Proof. exact c08_regression_create_race_l. Qed.
Print Assumptions c08_regression_create_race.

(** (e), (a), (d) with UID COPY / UID STORE (Junk move) / EXPUNGE / CREATE threads
    competing with deliveries for the same mailbox — BOUNDED (complete
    enumeration of the schedule tree, bounds in the statement; 12 steps cover
    every complete run of the listed sets).  Unbounded: not proved. *)
Theorem c08_no_failure_with_atomic_ops_bounded_partial : forall ps n sch,
  In (ps, n) bounded_cases -> (length sch <= n)%nat ->
  Forall (fun i => (i < length ps)%nat) sch ->
  no_failure (run_sched sch (init_cfg s2 ps)) = true.
Proof. exact c08_bounded_l. Qed.
Print Assumptions c08_no_failure_with_atomic_ops_bounded_partial.

(** ---- FIRST OPEN of a store, statement by statement, under SQLite's lock rules
    (Model/ConcInit.v: count; BEGIN; count again; five times UIDVALIDITY allocator +
    INSERT; COMMIT; then the
    session's own write).  [begin_mode kind] is the transaction mode the code
    uses for a store of that kind (user store / role-mailbox store): IMMEDIATE
    for both.  Every schedule, any number of sessions (of any DBManager):
    nobody is refused, the five default mailboxes are committed at most once,
    and exactly once as soon as one session is through. *)
Theorem c08_first_open_no_failure : forall kd k sch,
  let c := irun sch (iinit_kind kd k) in
  (forall i t, nth_error (ths c) i = Some t -> it_st t <> IFail) /\
  (defaults c <= 1)%nat /\
  (forall i t, nth_error (ths c) i = Some t -> it_st t = IDone -> defaults c = 1%nat).
Proof. exact c08_first_open_kind_l. Qed.
Print Assumptions c08_first_open_no_failure.

(** the same for any list of sessions that all begin IMMEDIATE *)
Theorem c08_first_open_immediate : forall modes sch,
  Forall (fun m => m = Immediate) modes ->
  let c := irun sch (iinit modes) in
  (forall i t, nth_error (ths c) i = Some t -> it_st t <> IFail) /\
  (defaults c <= 1)%nat /\
  (forall i t, nth_error (ths c) i = Some t -> it_st t = IDone -> defaults c = 1%nat).
Proof. exact c08_first_open_l. Qed.
Print Assumptions c08_first_open_immediate.

(** regression: with a DEFERRED begin the two-step interleaving refutes it — A
    has executed its first INSERT (holds RESERVED), B counts, begins, counts
    again and must upgrade SHARED to RESERVED: SQLITE_BUSY at once, B is refused *)
Example c08_first_open_deferred_refuted :
  let c := irun [0; 0; 0; 0; 1; 1; 1; 1]%nat (iinit [Deferred; Deferred]) in
  map it_st (ths c) = [IIns 1; IFail].
Proof. exact c08_deferred_refuted_l. Qed.

(** the "peer in the middle" schedules of the correspondence suite: holder held
    before its h-th statement, peer runs, holder released: both acknowledged, one
    set of defaults, two messages; the peer is blocked exactly while the holder
    is inside its transaction (h = 2..13) *)
Theorem c08_first_open_hold_schedules : forall h, (h <= 15)%nat ->
  eval_hold (Immediate, h) =
  (1%Z, 1%Z, 1%Z, 2%Z, if ((2 <=? h) && (h <=? 13))%nat then 0%Z else 1%Z).
Proof. exact c08_hold_cases_l. Qed.
Print Assumptions c08_first_open_hold_schedules.
