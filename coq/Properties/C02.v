From Coq Require Import String Ascii List Bool Arith ZArith.
From Raven Require Import Base.GoStr Base.GoStrMime Spec.Mime Model.MimeHeaders Model.MimeStore Proof.MimeBlob.
Import ListNotations.
Theorem c02_blob_rows_are_immutable : forall (bs later : blobs) (id : nat),
  id < length bs -> get_blob (bs ++ later) id = get_blob bs id.
Proof. exact get_blob_app. Qed.
Print Assumptions c02_blob_rows_are_immutable.
