(** C02 — stored messages are returned as they were submitted.
    Statements only; every proof is [exact <lemma>].
    [hash] stands for sha256 (any function: no collision-freeness is needed,
    a collision is just another way to meet class DedupForeignForm). *)
From Coq Require Import String Ascii List Bool Arith ZArith.
From Raven Require Import Base.GoStr Base.GoStrMime Spec.Mime Model.MimeHeaders Model.MimeStore Model.MimeBoundary
  Spec.MimeCheck Proof.MimeBlob Proof.MimeTrim Proof.MimeSingle Proof.MimeRefute.
Import ListNotations.

(** Single-part messages: for EVERY header list, body, blob history [bs] and
    later stores [later], outside the finding classes the fetched message has
    identical body octets and the same header fields in order, names and values
    up to surrounding white space, plus at most one default Content-Type. *)
Theorem c02_roundtrip_single : forall (hash : str -> str) (bs later : blobs) (hs : list header) (b : str),
  hs <> [] ->
  classify hash bs (mk_msg hs (Single b)) = None ->
  spec_ok (mk_msg hs (Single b)) (roundtrip hash bs (mk_msg hs (Single b)) later) = true.
Proof. exact single_roundtrip. Qed.
Print Assumptions c02_roundtrip_single.

(** What a single-part message returns depends neither on the messages stored
    before it (any two blob histories) nor on when it is fetched (any later stores). *)
Theorem c02_independent_single : forall (hash : str -> str) (bs1 bs2 later1 later2 : blobs) (hs : list header) (b : str),
  hs <> [] ->
  classify hash bs1 (mk_msg hs (Single b)) = None ->
  classify hash bs2 (mk_msg hs (Single b)) = None ->
  roundtrip hash bs1 (mk_msg hs (Single b)) later1 = roundtrip hash bs2 (mk_msg hs (Single b)) later2.
Proof. exact single_independent. Qed.
Print Assumptions c02_independent_single.

(** The result is explicit: stored header fields + what the rebuild appends + the body. *)
Theorem c02_single_result : forall (hash : str -> str) (bs later : blobs) (hs : list header) (b : str),
  hs <> [] ->
  single_no_boundary hs = false ->
  conflict_parts hash bs (snd (parse_msg (mk_msg hs (Single b)))) = false ->
  roundtrip hash bs (mk_msg hs (Single b)) later
  = Some (mk_msg (map out_hdr (map hdr_store hs) ++ single_extra hs) (Single b)).
Proof. exact single_result. Qed.
Print Assumptions c02_single_result.

(** the first message ever stored meets no conflicting blob *)
Theorem c02_no_conflict_on_empty_store : forall (hash : str -> str) (hs : list header) (b : str),
  conflict_parts hash [] (snd (parse_msg (mk_msg hs (Single b)))) = false.
Proof. exact single_no_conflict_empty. Qed.
Print Assumptions c02_no_conflict_on_empty_store.

(** every header field without the FoldWs shape keeps its name and value up to surrounding white space *)
Theorem c02_header_field_kept : forall h : header,
  fold_ws h = false -> hdr_eqv h (out_hdr (hdr_store h)) = true.
Proof. exact hdr_kept. Qed.
Print Assumptions c02_header_field_kept.

Theorem c02_blob_rows_are_immutable : forall (bs later : blobs) (id : nat),
  id < length bs -> get_blob (bs ++ later) id = get_blob bs id.
Proof. exact get_blob_app. Qed.
Print Assumptions c02_blob_rows_are_immutable.

(** ---- refutations: the faithful model violates the property on each class *)
Theorem c02_refuted_dedup :
  classify hid bs_after_first m_second = Some DedupForeignForm
  /\ spec_ok m_second (roundtrip hid bs_after_first m_second []) = false
  /\ spec_ok m_second (roundtrip hid [] m_second []) = true.
Proof. exact refuted_dedup. Qed.
Print Assumptions c02_refuted_dedup.

Theorem c02_refuted_independence :
  omsg_eqb (roundtrip hid bs_after_first m_second []) (roundtrip hid [] m_second []) = false.
Proof. exact refuted_independence. Qed.
Print Assumptions c02_refuted_independence.

Theorem c02_refuted_no_boundary :
  classify hid [] m_nob = Some NoBoundary /\ roundtrip hid [] m_nob [] = None.
Proof. exact refuted_no_boundary. Qed.
Print Assumptions c02_refuted_no_boundary.

Theorem c02_refuted_no_boundary_nested :
  classify hid [] m_nob_nested = Some NoBoundary /\ spec_ok m_nob_nested (roundtrip hid [] m_nob_nested []) = false.
Proof. exact refuted_no_boundary_nested. Qed.
Print Assumptions c02_refuted_no_boundary_nested.

Theorem c02_refuted_fold_ws :
  classify hid [] m_fold = Some FoldWs /\ spec_ok m_fold (roundtrip hid [] m_fold []) = false.
Proof. exact refuted_fold_ws. Qed.
Print Assumptions c02_refuted_fold_ws.

Theorem c02_refuted_dup_cte :
  classify hid [] m_dupcte = Some DupCte /\ spec_ok m_dupcte (roundtrip hid [] m_dupcte []) = false.
Proof. exact refuted_dup_cte. Qed.
Print Assumptions c02_refuted_dup_cte.

Theorem c02_refuted_ct_name :
  classify hid [] m_ctname = Some CtNameDropped /\ spec_ok m_ctname (roundtrip hid [] m_ctname []) = false.
Proof. exact refuted_ct_name. Qed.
Print Assumptions c02_refuted_ct_name.

Theorem c02_refuted_unstable_boundary :
  str_eqb (container_ct_line (S_ "multipart/mixed") 1790887695926728677)
          (container_ct_line (S_ "multipart/mixed") 1790887696187990678) = false
  /\ gen_boundary (S_ "multipart/mixed") 1790887695926728677 = S_ "----=_Part_Mixed_1790887695926728677".
Proof. exact refuted_unstable_boundary. Qed.
Print Assumptions c02_refuted_unstable_boundary.

(** ---- non-vacuity / tests (finite evaluations, not the property theorem) *)
Example c02_hypotheses_satisfiable : classify hid bs_after_first m_plain = None /\ H0 <> [].
Proof. exact plain_classify_none. Qed.

(** multipart messages: the tree-level round trip (flattening, relative
    numbering, rebuild, per-leaf rules) is NOT proved for all trees (see
    NOTES/C02.md); it is evaluated on this depth-4 message and, on every run,
    on the generated trees of the correspondence check ([mspec] column). *)
Example c02_multipart_depth4_example :
  classify hid [] m_deep = None /\ spec_ok m_deep (roundtrip hid [] m_deep []) = true.
Proof. exact deep_roundtrip. Qed.
