(** C02 — stored messages are returned as they were submitted.
    Statements only; every proof is [exact <lemma>].
    The model is raven's parse / store / rebuild path as of the fixes
    C02-1 .. C02-6, 12a5042, 84a3070 and eb5748f; no class of inputs is excepted.
    [faults] is the schedule of failing writes to the blobs table of the shared
    database (one boolean per out-of-line part): every theorem holds for every schedule.
    [hash] stands for sha256 (any function: a collision is harmless since
    fix C02-6, a blob is used only if it holds exactly the part's octets). *)
From Coq Require Import String Ascii List Bool Arith ZArith.
From Raven Require Import Base.GoStr Base.GoStrMime Spec.Mime Model.MimeHeaders Model.MimeStore Model.MimeBoundary
  Spec.MimeCheck Proof.MimeBlob Proof.MimeTrim Proof.MimeRows Proof.MimeTree Proof.MimeTree2 Proof.MimeMulti
  Proof.MimeSingle Proof.MimeLeaf Proof.MimeRoundtrip Proof.MimeRegress.
Import ListNotations.

(** THE PROPERTY, round trip: for every hash function, every blob history [bs]
    (messages of any user stored before), every later store [later] and every
    well-formed message [m] (single-part or a MIME tree of any shape and depth),
    FETCH returns a message equivalent to [m] under the property's equivalence
    [msg_equiv]: single-part — identical body octets, same header fields in order,
    names and values up to surrounding white space, at most one default
    Content-Type added; multipart — same tree, per node media type, charset, file
    name, content-id and IDENTICAL decoded content (stronger than the property's
    "up to a final line break": since 84a3070 / eb5748f parts are written as stored). *)
Theorem c02_roundtrip : forall (hash : str -> str) (faults : list bool) (bs later : blobs) (m : msg),
  wf_msg m = true -> spec_ok m (roundtrip hash faults bs m later) = true.
Proof. exact roundtrip_all. Qed.
Print Assumptions c02_roundtrip.

(** THE PROPERTY, independence and stability: what a message returns depends
    neither on the messages stored before it (any two histories) nor on when it
    is fetched (any later stores), nor on which writes to the blob table failed
    while it was stored (any two fault schedules). *)
Theorem c02_independent : forall (hash : str -> str) (f1 f2 : list bool) (bs1 bs2 later1 later2 : blobs) (m : msg),
  wf_msg m = true -> roundtrip hash f1 bs1 m later1 = roundtrip hash f2 bs2 m later2.
Proof. exact independent_all. Qed.
Print Assumptions c02_independent.

(** explicit results *)
Theorem c02_single_result : forall (hash : str -> str) (faults : list bool) (bs later : blobs) (hs : list header) (b : str),
  hs <> [] ->
  roundtrip hash faults bs (mk_msg hs (Single b)) later
  = Some (mk_msg (map out_hdr (map hdr_store hs) ++ single_extra hs) (Single b)).
Proof. exact single_result. Qed.
Print Assumptions c02_single_result.

Theorem c02_multipart_result : forall (hash : str -> str) (faults : list bool) (bs later : blobs) (hs : list header) (st : str) (ks : list mime),
  wf_kids ks = true -> kept_hdrs hs st <> [] ->
  roundtrip hash faults bs (mk_msg hs (Multipart st ks)) later
  = Some (mk_msg (map out_hdr (kept_hdrs hs st) ++ [(S_ "MIME-Version", S_ " 1.0")])
                 (Multipart (to_lower st) (map tmap ks))).
Proof. exact multi_result. Qed.
Print Assumptions c02_multipart_result.

(** tree shape: flattening with parent indices, relative part numbers and the
    rebuild by parent id + part number give back the tree, wherever its rows lie
    inside a row list *)
Theorem c02_tree_rebuild : forall t : mime, node_ok t.
Proof. exact all_nodes_ok. Qed.
Print Assumptions c02_tree_rebuild.

(** per leaf: media type, charset, file name, content-id, identical decoded content *)
Theorem c02_leaf_roundtrip : forall l : leaf, wf_leaf l = true -> leaf_equiv l (leaf_image l) = true.
Proof. exact leaf_roundtrip. Qed.
Print Assumptions c02_leaf_roundtrip.

(** a leaf that is not quoted-printable (which the MIME reader decodes) comes back octet for octet *)
Theorem c02_leaf_body_exact : forall l : leaf,
  equal_fold (l_cte l) s_qp = false -> l_body (leaf_image l) = l_body l.
Proof. exact leaf_body_exact. Qed.
Print Assumptions c02_leaf_body_exact.

(** every header field keeps its name and value up to surrounding white space *)
Theorem c02_header_field_kept : forall h : header, hdr_eqv h (out_hdr (hdr_store h)) = true.
Proof. exact hdr_kept. Qed.
Print Assumptions c02_header_field_kept.

(** the non-MIME header fields of a multipart message come back in order *)
Theorem c02_multipart_headers_kept : forall (hs : list header) (st : str),
  Forall2 (fun h h' => hdr_eqv h h' = true)
          (filter (fun h => negb (is_mime_hdr (fst h))) hs) (map out_hdr (kept_hdrs hs st)).
Proof. exact multipart_headers_kept. Qed.
Print Assumptions c02_multipart_headers_kept.

(** blob de-duplication AND blob-store failures are invisible: whatever the fault
    schedule, the stored rows read with the blob table of any later time are the rows
    one gets without a blob table (a failed blob write keeps the part in line) *)
Theorem c02_blobs_invisible : forall (hash : str -> str) (todo : list ppart) (faults : list bool) (bs : blobs) (done : list ppart) (rows : list row)
  (bs' : blobs) (rows' : list row),
  store_parts hash faults bs done todo rows = (bs', rows') ->
  exists ext new, bs' = bs ++ ext /\ rows' = rows ++ new /\
    forall later, map (inline_row (bs' ++ later)) new = rowsP_aux done todo.
Proof. exact store_parts_inline. Qed.
Print Assumptions c02_blobs_invisible.

Theorem c02_blob_rows_are_immutable : forall (bs later : blobs) (id : nat),
  id < length bs -> get_blob (bs ++ later) id = get_blob bs id.
Proof. exact get_blob_app. Qed.
Print Assumptions c02_blob_rows_are_immutable.

(** ---- regression examples about the behaviour before the fixes (old code, not the model) *)
Example c02_old_fold_ws_lost : hdr_eqv h_fold (out_hdr (old_hdr_store h_fold)) = false.
Proof. exact old_fold_ws_lost. Qed.

Example c02_old_boundary_unstable :
  str_eqb (old_gen_boundary (S_ "multipart/mixed") 1790887695926728677)
          (old_gen_boundary (S_ "multipart/mixed") 1790887696187990678) = false.
Proof. exact old_boundary_unstable. Qed.

(** ---- non-vacuity: the hypotheses are satisfiable (depth 4, all encodings, a
    name= only attachment, a multipart/* leaf without boundary, a default-typed part;
    a single-part message with NUL and 8-bit octets, CTE without charset) *)
Example c02_wf_examples : wf_msg m_deep = true /\ wf_msg m_nob = true.
Proof. exact (conj deep_is_wf single_is_wf). Qed.

(** the former DedupForeignForm witness: equivalent and history-independent now *)
Example c02_dedup_witness_ok :
  wf_msg m_second = true
  /\ spec_ok m_second (roundtrip hid [] bs_after_first m_second []) = true
  /\ omsg_eqb (roundtrip hid [] bs_after_first m_second []) (roundtrip hid [] [] m_second []) = true
  /\ omsg_eqb (roundtrip hid [true; true] bs_after_first m_second []) (roundtrip hid [] [] m_second []) = true.
Proof. exact dedup_witness_ok. Qed.

(** every blob write fails: nothing reaches the blob table, the message comes back *)
Example c02_faulty_store_example :
  fst (store hid [true; true] [] m_first) = [] /\ spec_ok m_first (roundtrip hid [true; true] [] m_first []) = true.
Proof. exact faulty_store_example. Qed.
