(** C11 -- Mailbox names form an exact set; operations touch only what they name.
    Statements only; every proof is [exact <lemma>] or, for the refutation
    witnesses, evaluation of the executable model and spec on one history.

    Proved for ALL stores / names (closed, no axioms):
    - the child query of RENAME/DELETE (db.childNameRange: name >= old+"/" AND
      name < old+"0", bytewise) selects exactly the names that start with old+"/",
      for all byte strings (fix F16 replaced name LIKE old||'/%');
    - the intermediate paths of CREATE/RENAME are exactly the proper prefixes
      ending before a '/';
    - the sequential UNIQUE-checked row updates compute the simultaneous renaming;
    - db.RenameMailboxPerUser and db.DeleteMailboxPerUser equal the set
      semantics of Spec/Names.v (DELETE unconditionally; RENAME whenever no name
      lies below the new name)
      (these are the [_partial] theorems: their composition with the command
      line (proved separately: c11_command_line_exact, c11_name_argument_exact)
      and with CREATE, SUBSCRIBE, LSUB, ... into one theorem over histories is NOT
      proved; it is evaluated step by step inside Coq on every run of the check).
    No finding class is left; the former witnesses are regression Examples. *)
From Coq Require Import String Ascii List Bool Arith ZArith.
From Raven Require Import Base.GoStr Base.Like Model.Pattern Model.CmdTokenizer Spec.CmdArgs Model.Names Spec.Names Spec.NamesEval
  Proof.NamesRange Proof.NamesUpdates Proof.NamesParents Proof.NamesDb Proof.NamesArgs Proof.NamesQuote Proof.NamesEnv.
Import ListNotations.

(** the SQL range test of db.childNameRange is the exact, case-sensitive prefix test *)
Theorem c11_child_range_is_prefix : forall n m : str, child_range n m = has_prefix m (n ++ [delim]).
Proof. exact child_range_prefix. Qed.
Print Assumptions c11_child_range_is_prefix.

(** the parent paths computed from strings.Split are the proper prefixes before a '/' *)
Theorem c11_parent_paths_are_prefixes : forall n p : str,
  In p (paths_of n) <-> exists r, n = p ++ delim :: r.
Proof. intros n p. rewrite paths_of_raw. apply raw_parents_in. Qed.
Print Assumptions c11_parent_paths_are_prefixes.

(** creating missing parents adds exactly the missing ones and keeps names unique *)
Theorem c11_add_missing_exact : forall (ps : list str) (bs : list mbox) (m : str),
  In m (names (add_missing ps bs)) <-> In m (names bs) \/ In m ps.
Proof. exact add_missing_names. Qed.
Print Assumptions c11_add_missing_exact.

Theorem c11_add_missing_unique : forall (ps : list str) (bs : list mbox),
  NoDup (names bs) -> NoDup (names (add_missing ps bs)).
Proof. exact add_missing_nodup. Qed.
Print Assumptions c11_add_missing_unique.

(** the row-by-row UPDATEs under UNIQUE(user_id,name) equal the simultaneous renaming
    when the new names are fresh, pairwise distinct and no source *)
Theorem c11_sequential_updates : forall (us : list (str * str)) (bs : list mbox),
  (forall n, In n (map snd us) -> ~ In n (names bs)) ->
  NoDup (map snd us) ->
  (forall n, In n (map snd us) -> ~ In n (map fst us)) ->
  apply_updates us bs = Some (map (ren_by us) bs).
Proof. exact apply_updates_ok. Qed.
Print Assumptions c11_sequential_updates.

(** RENAME old new on ANY store with unique names (old, new non-empty, not INBOX, new not in
    the reserved Roles namespace, old present, new absent) in which no name lies below [new]:
    the model of db.RenameMailboxPerUser returns OK and the table is the spec's -- parents of
    [new] added, [old] -> [new], every child old/r -> new/r (also when new lies below old:
    RENAME a a/b), all other rows and every row's messages untouched.  (If a name does lie
    below [new], the spec refuses a renaming that would duplicate a name, and so does the
    code, atomically; that case is evaluated by the check, not proved.) *)
Theorem c11_db_rename_refines_partial : forall (st : store) (old new : str),
  NoDup (names (boxes st)) ->
  is_nil old = false -> is_nil new = false -> reserved new = false ->
  str_eqb (canon new) INBOX = false -> str_eqb (canon old) INBOX = false ->
  exists_box (boxes st) old = true -> exists_box (boxes st) new = false ->
  existsb (fun m => is_child new m) (names (add_missing (parents new) (boxes st))) = false ->
  (let '(bs, r) := db_rename (boxes st) old new in (with_boxes st bs, r)) = spec_rename st old new.
Proof. exact db_rename_refines. Qed.
Print Assumptions c11_db_rename_refines_partial.

(** the parent loops of CREATE / RENAME / RENAME INBOX add exactly the spec's parents *)
Theorem c11_parent_creation_is_spec : forall (n : str) (bs : list mbox),
  create_missing (paths_of n) bs = add_missing (parents n) bs.
Proof. exact create_missing_parents. Qed.
Print Assumptions c11_parent_creation_is_spec.

(** what the spec's RENAME does to the set of names, and that messages travel with the name *)
Theorem c11_rename_moves_exactly : forall (old new : str) (bs : list mbox) (m : str),
  In m (names (map (ren old new) bs)) <->
  exists k, In k (names bs) /\
    m = (if str_eqb k old then new else if is_child old k then new ++ skipn (length old) k else k).
Proof. exact ren_names. Qed.
Print Assumptions c11_rename_moves_exactly.

Theorem c11_rename_keeps_messages : forall (old new : str) (b : mbox),
  mb_msgs (ren old new b) = mb_msgs b /\ mb_next (ren old new b) = mb_next b.
Proof. exact ren_keeps_cargo. Qed.
Print Assumptions c11_rename_keeps_messages.

(** DELETE n equals the spec on ANY store, for every non-empty name (unconditional since
    the fixes of the LIKE child query and of the protected-name comparison) *)
Theorem c11_db_delete_refines_partial : forall (st : store) (n : str),
  is_nil n = false ->
  (let '(bs, r) := db_delete (boxes st) n in (with_boxes st bs, r)) = spec_delete st n.
Proof. exact db_delete_refines. Qed.
Print Assumptions c11_db_delete_refines_partial.

(** the command-line layer (since the tokenizer fix 2599345; the tokenizer's own model and
    theorems are property C04's, Proof/CmdTokenizer.v): for EVERY astring the client can
    write -- atom or quoted string, any octets, blanks, double quotes and backslashes
    included -- utils.SplitCommandLine hands the argument to the handler in one piece and
    utils.ParseQuotedString returns exactly the name the client wrote *)
Theorem c11_name_argument_exact : forall raw n : str,
  decode_astring raw = Some n -> parse_quoted raw = n.
Proof. exact arg_exact. Qed.
Print Assumptions c11_name_argument_exact.

Theorem c11_command_line_exact : forall tag word raw n : str,
  atom_ok tag = true -> atom_ok word = true -> decode_astring raw = Some n ->
  split_command_line (tag ++ " "%char :: word ++ " "%char :: raw) = [tag; word; raw].
Proof. exact line_exact1. Qed.
Print Assumptions c11_command_line_exact.

Theorem c11_command_line_exact_rename : forall tag word raw1 n1 raw2 n2 : str,
  atom_ok tag = true -> atom_ok word = true ->
  decode_astring raw1 = Some n1 -> decode_astring raw2 = Some n2 ->
  split_command_line (tag ++ " "%char :: word ++ " "%char :: raw1 ++ " "%char :: raw2) = [tag; word; raw1; raw2].
Proof. exact line_exact2. Qed.
Print Assumptions c11_command_line_exact_rename.

(** the token LIST / LSUB / STATUS write for a name (utils.QuoteString) reads back, as an
    IMAP quoted string, as exactly that name: every stored name is shown faithfully *)
Theorem c11_shown_name_reads_back : forall n : str, decode_astring (quote_string n) = Some n.
Proof. exact quote_string_reads_back. Qed.
Print Assumptions c11_shown_name_reads_back.

(** ---- across restarts and the two services ----
    A history is any sequence of command lines (arbitrary raw arguments), restarts of the IMAP
    side followed by a login, and deliveries through the delivery side's own manager.  After
    EVERY such history INBOX is in the table, hence the table is not empty, hence opening the
    store (db.createDefaultMailboxes: defaults only while the table is empty) changes nothing:
    the name set is changed by the naming commands alone, plus a delivery's get-or-create of its
    own target folder. *)
Theorem c11_inbox_always_there : forall h : list estep, In INBOX (names (boxes (run_env init_store h))).
Proof. intros h. apply env_inbox, init_has_inbox. Qed.
Print Assumptions c11_inbox_always_there.

Theorem c11_open_store_changes_nothing : forall h : list estep,
  open_store (run_env init_store h) = run_env init_store h.
Proof. exact open_identity_everywhere. Qed.
Print Assumptions c11_open_store_changes_nothing.

Theorem c11_restart_changes_nothing : forall h : list estep,
  run_step (run_env init_store h) ERestart = (run_env init_store h, ROk, []).
Proof. exact restart_changes_nothing. Qed.
Print Assumptions c11_restart_changes_nothing.

Theorem c11_delivery_is_spec : forall (h : list estep) (spam : bool),
  deliver (run_env init_store h) spam = spec_deliver (run_env init_store h) spam.
Proof. exact deliver_is_spec. Qed.
Print Assumptions c11_delivery_is_spec.

(** the only name a delivery can add is its target folder, and only if it is missing *)
Theorem c11_delivery_adds_only_its_target : forall (h : list estep) (spam : bool),
  names (boxes (fst (deliver (run_env init_store h) spam))) =
  names (boxes (run_env init_store h)) ++
  (if exists_box (boxes (run_env init_store h)) (if spam then S_ "Spam" else INBOX) then []
   else [if spam then S_ "Spam" else INBOX]).
Proof. exact deliver_names. Qed.
Print Assumptions c11_delivery_adds_only_its_target.

(** regression (seeded change C11-4): a store open that "completes missing defaults" -- counts
    the five default NAMES and re-inserts them -- resurrects a deleted Spam and a renamed Drafts;
    the tree's rule (defaults only into an empty table) does not *)
Example c11_refill_variant_resurrects_names :
  let refill (st : store) :=
    MkStore (fold_left (fun bs n => if exists_box bs n then bs else bs ++ [new_box n])
                       [INBOX; S_ "Sent"; S_ "Drafts"; S_ "Trash"; S_ "Spam"] (boxes st)) (subs st) (next_msg st) in
  let st := run_env init_store [ECmd (CDelete (S_ "Spam")); ECmd (CRename (S_ "Drafts") (S_ "Drafts-2023"))] in
  names (boxes (refill st)) = map S_ ["INBOX"; "Sent"; "Drafts-2023"; "Trash"; "Drafts"; "Spam"]%string
  /\ names (boxes (open_store st)) = map S_ ["INBOX"; "Sent"; "Drafts-2023"; "Trash"]%string
  /\ names (boxes (run_env st [EDeliver false; ERestart; EDeliver true])) = map S_ ["INBOX"; "Sent"; "Drafts-2023"; "Trash"; "Spam"]%string.
Proof. vm_compute. repeat split; reflexivity. Qed.

(** regression (seeded change C11-5): the trailing separator of a CREATE argument is removed
    before the INBOX / Roles / exists tests.  CREATE inbox/, "Inbox/", Roles/, Sent/ are refused and
    change nothing, INBOX// creates the name INBOX/, and model = spec on all of them; a variant that
    tests first and strips afterwards would insert a second mailbox "inbox" *)
Example c11_create_strips_separator_first :
  forallb (fun a => match run_cmd init_store (CCreate (S_ a)) with
                    | (st, RNo, _) => list_eqb str_eqb (names (boxes st)) (names (boxes init_store))
                    | _ => false end
                    && refines_at init_store (CCreate (S_ a)))
          ["inbox/"; """Inbox/"""; "INBOX/"; "Roles/"; "Sent/"; "/"]%string = true
  /\ names (boxes (fst (fst (run_cmd init_store (CCreate (S_ "INBOX//"))))))
     = map S_ ["INBOX"; "Sent"; "Drafts"; "Trash"; "Spam"; "INBOX/"]%string
  /\ refines_at init_store (CCreate (S_ "INBOX//")) = true
  /\ (let n0 := S_ "inbox/" in
      negb (str_eqb (to_upper n0) INBOX) && negb (exists_box (boxes init_store) n0)
      && negb (exists_box (boxes init_store) (trim_suffix n0 [delim]))) = true.
Proof. vm_compute. repeat split; reflexivity. Qed.

(** ---- no finding class is left: every class C11 ever listed has been repaired in /repo ---- *)
(** the witnesses of the classes repaired in fix wave 3 (rename_into_child, rename_leading_slash,
    rename_partial, inbox_rename_orphan, protected_case, inbox_twin, roles_shadow, lsub_persists,
    lsub_adds_inbox) are now outside every class and the model refines the spec on them *)
Example c11_fixed_wave3_witnesses :
  forallb (fun '(h, c) => match classify (state_after h) c with None => true | _ => false end && refines_at (state_after h) c)
    [([CCreate (S_ "a/x")], CRename (S_ "a") (S_ "a/b"));
     ([], CRename (S_ "Spam") (S_ "/y"));
     ([CRename (S_ "INBOX") (S_ "p/q/r"); CCreate (S_ "k/r")], CRename (S_ "k") (S_ "p/q"));
     ([], CRename (S_ "INBOX") (S_ "p/q"));
     ([CCreate (S_ "sent")], CDelete (S_ "sent"));
     ([], CCreate (S_ "Inbox/sub"));
     ([CAppend (S_ "INBOX")], CStatus (S_ "inbox"));
     ([], CCreate (S_ "Roles/r@x/INBOX"));
     ([CCreate (S_ "Roles/r@x/INBOX")], CSelect (S_ "Roles/r@x/INBOX"));
     ([], CLsub);
     ([CSubscribe (S_ "x")], CLsub);
     ([CLsub; CSubscribe (S_ "x")], CLsub)] = true.
Proof. vm_compute. reflexivity. Qed.

(** the witnesses of quoted_space / quoted_escape: the names arrive whole, and what CREATE
    stored is what LIST shows and what reads back *)
Example c11_fixed_tokenizer_witnesses :
  forallb (fun '(h, c) => match classify (state_after h) c with None => true | _ => false end && refines_at (state_after h) c)
    [([], CCreate (S_ """My Folder"""));
     ([], CCreate (S_ """q\""uote"""));
     ([CCreate (S_ """My Folder""")], CRename (S_ """My Folder""") (S_ """back\\slash x"""));
     ([CCreate (S_ """q\""uote""")], CList)] = true
  /\ names (boxes (state_after [CCreate (S_ """q\""uote""")])) = map S_ ["INBOX"; "Sent"; "Drafts"; "Trash"; "Spam"; "q""uote"]%string.
Proof. vm_compute. split; reflexivity. Qed.

(** RENAME a a/b now gives a/b and a/b/x *)
Example c11_rename_below_itself :
  names (boxes (state_after [CCreate (S_ "a/x"); CRename (S_ "a") (S_ "a/b")]))
  = map S_ ["INBOX"; "Sent"; "Drafts"; "Trash"; "Spam"; "a/b"; "a/b/x"]%string.
Proof. vm_compute. reflexivity. Qed.

(** ---- regression: the behaviour BEFORE the fix of the child query (facts about SQLite's
    LIKE, Base/Like.v, not about the current model): the old query selected rows that are no children ---- *)
Example c11_old_like_query_selected_non_children :
  like (S_ "a_b/%") (S_ "axb/child") = true /\ is_child (S_ "a_b") (S_ "axb/child") = false
  /\ like (S_ "foo/%") (S_ "FOO/kid") = true /\ is_child (S_ "foo") (S_ "FOO/kid") = false
  /\ like (S_ "a%%%b/%") (S_ "ab/x") = true /\ Nat.ltb (length (S_ "ab/x")) (length (S_ "a%%%b")) = true.
Proof. vm_compute. repeat split; reflexivity. Qed.

(** before "fix: LIST, LSUB and STATUS escape the mailbox name they quote" the name was written
    between bare quotes: the token of the stored 7-byte name q-backslash-dquote-uote read back as the 6-byte name q-dquote-uote *)
Example c11_old_list_token_read_back_as_another_name :
  let n := S_ "q\""uote" in decode_astring (dq :: n ++ [dq]) = Some (S_ "q""uote") /\ decode_astring (quote_string n) = Some n.
Proof. vm_compute. split; reflexivity. Qed.

(** the former witnesses of classes like_wildcard / like_case are now outside every class and refine the spec *)
Example c11_fixed_like_witnesses :
  forallb (fun '(h, c) => match classify (state_after h) c with None => true | _ => false end && refines_at (state_after h) c)
    [([CCreate (S_ "a_b"); CCreate (S_ "axb/child")], CRename (S_ "a_b") (S_ "z"));
     ([CCreate (S_ """a%%%b"""); CCreate (S_ "ab/x")], CRename (S_ """a%%%b""") (S_ "z"));
     ([CCreate (S_ "foo"); CCreate (S_ "FOO/kid")], CRename (S_ "foo") (S_ "bar"));
     ([CCreate (S_ "q"); CCreate (S_ "Q/k")], CDelete (S_ "q"))] = true.
Proof. vm_compute. reflexivity. Qed.

(** ---- the premises are satisfiable; a clean history on which model and spec coincide ---- *)
Example c11_rename_premises_hold :
  let st := state_after [CCreate (S_ "Work/sub"); CAppend (S_ "Work/sub")] in
  classify st (CRename (S_ "Work") (S_ """Archive/2024""")) = None
  /\ refines_at st (CRename (S_ "Work") (S_ """Archive/2024""")) = true
  /\ names (boxes (fst (fst (run_cmd st (CRename (S_ "Work") (S_ "Archive/2024"))))))
     = map S_ ["INBOX"; "Sent"; "Drafts"; "Trash"; "Spam"; "Archive/2024"; "Archive/2024/sub"; "Archive"]%string.
Proof. vm_compute. repeat split; reflexivity. Qed.

Example c11_clean_history_agrees :
  let h := [CCreate (S_ "a/b/c"); CAppend (S_ """a/b"""); CRename (S_ "a/b") (S_ "x/y"); CDelete (S_ "a");
            CSubscribe (S_ "INBOX"); CLsub; CList; CStatus (S_ "x/y"); CDelete (S_ "x/y"); CUnsubscribe (S_ "INBOX")] in
  forallb (fun k => match classify (state_after (firstn k h)) (nth k h CList) with None => true | _ => false end
                    && refines_at (state_after (firstn k h)) (nth k h CList)) (seq 0 (length h)) = true.
Proof. vm_compute. reflexivity. Qed.
