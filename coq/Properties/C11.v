(** C11 -- Mailbox names form an exact set; operations touch only what they name. *)
From Coq Require Import String Ascii List Bool Arith ZArith.
From Raven Require Import Base.GoStr Base.Like Model.Pattern Model.Names Spec.Names.
Import ListNotations.

Example c11_like_underscore_matches_x : like (child_pattern (S_ "a_b")) (S_ "axb/child") = true.
Proof. vm_compute. reflexivity. Qed.
