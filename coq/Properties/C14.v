(** C14 — The attributes of a message agree with each other.
    Statements only; every proof is [exact <lemma>]. *)
From Coq Require Import String Ascii List Bool Arith.
From Raven Require Import Base.GoStr Model.Sections Model.Envelope Spec.Attrs Spec.EnvelopeSpec
  Proof.Sections Proof.SectionsTree Proof.EnvelopeFacts.
Import ListNotations.

(** (a) RFC822.SIZE is the length of what BODY[] returns (both are computed
    from the same reconstructed text). *)
Theorem c14_size_is_length : forall (raw : str) (rows : list row) (b : str),
  fetch_item raw rows SecAll None = Some b -> size_of raw = length b.
Proof. exact size_is_length. Qed.
Print Assumptions c14_size_is_length.

(** loadRawMsg leaves every reconstructed text that contains a CRLF (every
    text the reconstruction writes: header lines end in CRLF) unchanged, so
    bare LF / lone CR inside part content are served as stored. *)
Theorem c14_load_raw_transparent : forall recon : str,
  contains recon crlf = true -> load_raw recon = recon.
Proof. exact load_raw_transparent. Qed.
Print Assumptions c14_load_raw_transparent.

(** (b) BODY[HEADER] ++ BODY[TEXT] = BODY[] for EVERY text (with or without
    a blank line); the header section is the text up to and including the
    first blank line.  (Unconditional since the repair of F13,
    known_findings/C14.txt.) *)
Theorem c14_header_text : forall raw : str, header_of raw ++ text_of raw = raw.
Proof. exact header_text. Qed.
Print Assumptions c14_header_text.

Theorem c14_header_text_ok : forall raw : str, header_text_ok raw = true.
Proof. exact header_text_ok_all. Qed.
Print Assumptions c14_header_text_ok.

Theorem c14_header_ends_with_blank_line : forall (raw : str) (i : nat),
  index raw sep4 = Some i -> header_of raw = firstn i raw ++ sep4.
Proof. exact header_ends_with_blank_line. Qed.
Print Assumptions c14_header_ends_with_blank_line.

(** (e) a partial <o.n> on ANY section (BODY[], BODY[HEADER], BODY[TEXT],
    numeric) returns exactly [firstn n (skipn o x)] of what the section
    returns without a partial, for all o, n.  (Unconditional since the repair
    of partial_ignored.) *)
Theorem c14_partial_slice : forall raw rows s part x,
  fetch_item raw rows s None = Some x ->
  fetch_item raw rows s part = Some (expected x part).
Proof. exact partial_slice. Qed.
Print Assumptions c14_partial_slice.

(** (c, size) Under the hypothesis on Go's multipart.Reader (it returns a
    part's content without the CRLF preceding the next delimiter line), for
    EVERY leaf (any encoding, content ending in CRLF or not) the size
    BODYSTRUCTURE announces is the length of what BODY[p] returns, and the
    part the reader finds in BODY[] is the stored content itself.
    (Unconditional since the repairs of trailing_crlf and rewrap.) *)
Theorem c14_leaf_size_agrees : forall reader_part : str -> str,
  (forall w, has_suffix w crlf = true -> reader_part w = strip2 w) ->
  forall enc c, announced_size reader_part enc c = length c.
Proof. exact leaf_size_agrees. Qed.
Print Assumptions c14_leaf_size_agrees.

Theorem c14_leaf_content_agrees : forall reader_part : str -> str,
  (forall w, has_suffix w crlf = true -> reader_part w = strip2 w) ->
  forall enc c, reader_part (written_content enc c) = c.
Proof. exact leaf_content_agrees. Qed.
Print Assumptions c14_leaf_content_agrees.

(** the reader hypothesis is satisfiable *)
Example reader_hypothesis_satisfiable :
  exists reader_part : str -> str, forall w, has_suffix w crlf = true -> reader_part w = strip2 w.
Proof. exists strip2. reflexivity. Qed.

(** (c, paths) For EVERY MIME tree the delivery side can store (container
    types "multipart/...", leaf types not multipart), every id base and EVERY
    section path: mapIMAPPartPathToDBPart over the stored rows (preorder ids,
    part numbers relative to the parent, root container without number) finds
    a row iff the IMAP numbering of the tree has a node at that path, and the
    row carries that node's media type, encoding and content. *)
Theorem c14_path_agrees : forall (t : tree) (base : nat) (p : list nat),
  wf t = true ->
  option_map view_r (map_path (rows_of t base) p) = option_map view_t (tree_at t p).
Proof. exact path_agrees. Qed.
Print Assumptions c14_path_agrees.

(** ... so BODY[p] of a leaf returns that leaf's content ... *)
Theorem c14_leaf_agrees : forall t base p ct enc c,
  wf t = true -> tree_at t p = Some (Leaf ct enc c) ->
  section_of (rows_of t base) p = SLeaf c /\
  exists r, map_path (rows_of t base) p = Some r /\ rct r = ct /\ renc r = enc /\ rcontent r = c.
Proof. exact leaf_path_content. Qed.
Print Assumptions c14_leaf_agrees.

(** ... and a path absent from the structure yields no data (NIL), also
    under a partial. *)
Theorem c14_absent_path_nil : forall t base p,
  wf t = true -> tree_at t p = None -> section_of (rows_of t base) p = SNil.
Proof. exact absent_path_nil. Qed.
Print Assumptions c14_absent_path_nil.

Definition ex_tree : tree :=
  Multi (S_ "multipart/mixed")
    (FCons (Leaf (S_ "text/plain") [] (S_ "hello"))
    (FCons (Multi (S_ "multipart/alternative")
              (FCons (Leaf (S_ "text/plain") [] (S_ "inner"))
              (FCons (Leaf (S_ "text/html") (S_ "base64") (S_ "QUJD")) FNil)))
    (FCons (Leaf (S_ "application/pdf") [] (S_ "PDF")) FNil))).

Example ex_tree_wf : wf ex_tree = true.
Proof. reflexivity. Qed.
Example ex_tree_leaf : section_of (rows_of ex_tree 7) [2; 2] = SLeaf (S_ "QUJD").
Proof. vm_compute. reflexivity. Qed.
Example ex_tree_absent : section_of (rows_of ex_tree 7) [2; 3] = SNil /\ tree_at ex_tree [2; 3] = None.
Proof. split; vm_compute; reflexivity. Qed.

(** (d) ENVELOPE.  Every header field value survives QuoteOrNIL for ALL byte
    strings: the empty value is NIL, any other value is a quoted string that
    decodes to the value (date, subject, in-reply-to, message-id, and each
    address component). *)
Theorem c14_envelope_quote_roundtrip : forall s : str, imap_unquote (quote_or_nil s) = Some s.
Proof. exact quote_roundtrip. Qed.
Print Assumptions c14_envelope_quote_roundtrip.

(** Address lists.  net/mail's ParseAddressList (a Go library, the parameter
    [mail_parse] of the model) reads the header; whenever it reads it as the
    mailboxes l, the ENVELOPE list is exactly the RFC 3501 structure of l —
    for all header texts, display names (commas, quotes, backslashes
    included), local parts and domains.  A header it rejects is read by the
    old comma splitting.  (The classes name_comma / name_quoted_pair are
    repaired; see the regression examples in Proof/EnvelopeFacts.v.) *)
Theorem c14_envelope_address_list_agrees :
  forall (mail_parse : str -> option (list (str * str))) (s : str) (l : list (str * str * str)),
  s <> [] -> l <> [] -> forallb dom_ok l = true ->
  mail_parse s = Some (map mail_addr l) ->
  parse_address_list mail_parse s = Some (expected_list l).
Proof. exact address_list_agrees. Qed.
Print Assumptions c14_envelope_address_list_agrees.

Theorem c14_envelope_address_list_fallback :
  forall (mail_parse : str -> option (list (str * str))) (s : str),
  mail_parse s = None -> s <> [] -> parse_address_list mail_parse s = parse_fallback s.
Proof. exact address_list_fallback. Qed.
Print Assumptions c14_envelope_address_list_fallback.

(** the premise is satisfiable: a reader that returns the two mailboxes of a header *)
Example ex_addr_list :
  parse_address_list (fun _ => Some [mail_addr (S_ "Doe, John", S_ "john", S_ "example.com"); mail_addr ([], S_ "a", S_ "b.c")])
                     (S_ "x") =
  Some (expected_list [(S_ "Doe, John", S_ "john", S_ "example.com"); ([], S_ "a", S_ "b.c")]).
Proof. vm_compute. reflexivity. Qed.
