(** C04 — Only the identity the auth backend verified is authenticated.
    Statements only; every proof is [exact <lemma>] or a [vm_compute] witness. *)
From Coq Require Import String Ascii List Bool Arith ZArith Permutation.
From Raven Require Import Base.GoStr Base.GoStrB64 Base.GoStrJson Spec.Json Model.CmdTokenizer Model.Auth Spec.CmdArgs Spec.AuthSpec
  Proof.AuthJson Proof.AuthIdent Proof.AuthFlow Proof.CmdTokenizer Proof.AuthSasl Proof.AuthLogin Proof.AuthB64 Proof.AuthPlain Proof.AuthEnd Proof.AuthConc.
Import ListNotations.

(** (a) For ALL addresses and passwords that are valid UTF-8 -- every ASCII
    string, with quotes, backslashes, braces and control octets -- the backend,
    reading the json.Marshal-built body with a strict JSON lexer, sees exactly
    the pair (email, password) and nothing else.  (Octets that are not valid
    UTF-8 are replaced by U+FFFD by encoding/json: stated domain limit.) *)
Theorem c04_body_exact : forall e p : str,
  utf8_valid e = true -> utf8_valid p = true -> body_exact (build_body e p) e p.
Proof. exact body_exact_valid. Qed.
Print Assumptions c04_body_exact.

Theorem c04_ascii_in_domain : forall s : str, all_ascii s = true -> utf8_valid s = true.
Proof. exact ascii_utf8_valid. Qed.
Print Assumptions c04_ascii_in_domain.

(** (c) For ALL user names with at most one '@' and every non-empty default
    domain, the user row the session is bound to is the row of the address
    that was verified ... *)
Theorem c04_bound_identity : forall d u : str, d <> [] -> count_byte u AT <= 1 ->
  store_of (address_of d u) (extract_username u, get_user_domain d u).
Proof. exact bound_identity. Qed.
Print Assumptions c04_bound_identity.

(** ... it would be a different row for EVERY user name with more than one '@'
    (a fact about ExtractUsername/GetUserDomain) ... *)
Theorem c04_bound_identity_conv : forall d u : str, d <> [] -> count_byte d AT = 0 ->
  2 <= count_byte u AT ->
  ~ store_of (address_of d u) (extract_username u, get_user_domain d u).
Proof. exact bound_identity_conv. Qed.
Print Assumptions c04_bound_identity_conv.

(** ... which is why such user names are refused before the backend is contacted *)
Theorem c04_multi_at_refused : forall d u p b ens init, multi_at u = true ->
  let r := authenticate_user d u p b ens init in sent r = [] /\ answer r = R_NO /\ bound r = None.
Proof. exact multi_at_refused. Qed.
Print Assumptions c04_multi_at_refused.

(** (b) Whatever the credentials, entry point (LOGIN line, AUTHENTICATE PLAIN
    data), default domain and backend outcome (any status, timeout, refused,
    garbage, dropped): OK only after a 200, for a usable account. *)
Theorem c04_only_200 : forall d c b ens init, creds_wf c ->
  answer (run_creds d c b ens init) = R_OK ->
  accepted b = true /\ init = true /\
  exists u p, c = Creds u p
    /\ ens (extract_username u) (get_user_domain d u) = bound (run_creds d c b ens init)
    /\ bound (run_creds d c b ens init) <> None.
Proof. exact only_200. Qed.
Print Assumptions c04_only_200.

(** every entry point (LOGIN line, AUTHENTICATE PLAIN data; authenticated or
    not; TLS or not) yields credentials or a non-OK answer, never a direct OK *)
Theorem c04_entry_never_direct_ok : forall au e, creds_wf (entry_creds au e).
Proof. exact entry_creds_wf. Qed.
Print Assumptions c04_entry_never_direct_ok.

(** (e) without TLS nothing reaches the backend and nothing is granted *)
Theorem c04_no_tls_no_request : forall d e b ens init au,
  (match e with E_login tls _ => tls | E_authplain tls _ => tls end) = false ->
  let r := run_creds d (entry_creds au e) b ens init in sent r = [] /\ answer r <> R_OK.
Proof. exact no_tls_no_request. Qed.
Print Assumptions c04_no_tls_no_request.

(** on an authenticated session LOGIN / AUTHENTICATE never consult the backend
    again and never re-bind the session (raven commit 473838b) *)
Theorem c04_authed_no_request : forall d e b ens init,
  let r := run_creds d (entry_creds true e) b ens init in sent r = [] /\ answer r <> R_OK.
Proof. exact authed_no_request. Qed.
Print Assumptions c04_authed_no_request.

Theorem c04_session_no_rebind : forall (l : list attempt) (s : sess),
  authed s = true -> fold_left sess_step l s = s.
Proof. exact session_no_rebind. Qed.
Print Assumptions c04_session_no_rebind.

(** The identity-binding step made explicit.  [ens] stands for
    IMAPServer.EnsureUserAndMailboxes; authenticateUser binds the session to
    whatever row it returns.  The property therefore needs (and the theorems
    below state as a premise) [ensure_sound ens]: the row returned for
    (local, domain) is the row whose (username, domain) is that pair. *)
Theorem c04_binds_what_ensure_returns : forall d u p b ens init,
  answer (authenticate_user d u p b ens init) = R_OK ->
  bound (authenticate_user d u p b ens init) = ens (extract_username u) (get_user_domain d u).
Proof. exact binds_what_ensure_returns. Qed.
Print Assumptions c04_binds_what_ensure_returns.

(** The premise is necessary: an EnsureUserAndMailboxes that returns another
    row (for instance the last row inserted on the connection when its INSERT
    was ignored) binds a verified client to a foreign store. *)
Example c04_ensure_premise_is_needed :
  let stale : ensure_fn := fun _ _ => Some (S_ "dave", S_ "d.test") in
  ~ ensure_sound stale
  /\ in_domain (S_ "d.test") (S_ "carol") (S_ "pw") = true
  /\ ~ imap_spec (S_ "d.test") (S_ "carol") (S_ "pw") true
        (authenticate_user (S_ "d.test") (S_ "carol") (S_ "pw") (Status 200) stale true).
Proof.
  split; [|split].
  - intros H. specialize (H (S_ "carol") (S_ "d.test") _ eq_refl). discriminate H.
  - vm_compute. reflexivity.
  - intros H. apply imap_spec_b_iff in H. vm_compute in H. discriminate.
Qed.

(** the property for one attempt: all default domains, all user names and
    passwords in the UTF-8 domain (any number of '@', quotes, backslashes,
    control octets), all backend outcomes -- no finding class left here *)
Theorem c04_imap_attempt : forall d u p b ens init,
  ensure_sound ens ->
  in_domain d u p = true ->
  imap_spec d u p (accepted b) (authenticate_user d u p b ens init).
Proof. exact imap_attempt_spec. Qed.
Print Assumptions c04_imap_attempt.

(** every sequence of attempts (any entry points, lines, default domains) and
    backend behaviours on one connection *)
Theorem c04_session_only_200 : forall l : list attempt,
  let s := run_session l in
  (authed s = false /\ who s = None)
  \/ exists a u p, In a l /\ entry_creds false (a_entry a) = Creds u p
       /\ accepted (a_backend a) = true /\ a_init a = true
       /\ authed s = true /\ who s = bound (run_attempt false a).
Proof. exact session_only_200. Qed.
Print Assumptions c04_session_only_200.

Theorem c04_session_bound_exact : forall l : list attempt,
  (forall a, In a l -> ensure_sound (a_ens a)) ->
  (forall a u p, In a l -> entry_creds false (a_entry a) = Creds u p -> in_domain (a_domain a) u p = true) ->
  forall row, who (run_session l) = Some row ->
  exists a u p, In a l /\ entry_creds false (a_entry a) = Creds u p /\ accepted (a_backend a) = true
    /\ store_of (address_of (a_domain a) u) row
    /\ exists body, sent (run_attempt false a) = [body] /\ body_exact body (address_of (a_domain a) u) p.
Proof. exact session_bound_exact. Qed.
Print Assumptions c04_session_bound_exact.

(** ---- concurrent logins on different connections ---- *)

(** For EVERY interleaving of the steps (render the request, send it) of any
    number of sessions, with the backend any function from the body it receives
    to its outcome: every body the backend receives is the encoding of SOME
    session's own credentials, and every session finishes exactly as it would
    alone with the backend's answer to the encoding of ITS OWN credentials
    ([answer_to i] = bk (request_of (sess i))). *)
Theorem c04_conc_own_credentials : forall (sess : nat -> csession) (bk : str -> outcome) (sched : list cev),
  let st := run_sched sess bk sched in
  (forall body, In body (recv st) -> exists i, request_of (sess i) = Some body)
  /\ (forall i o, outs st i = Some o -> o = finish (sess i) (answer_to sess bk i)).
Proof. exact conc_own_credentials. Qed.
Print Assumptions c04_conc_own_credentials.

(** When each of the sessions 0..N-1 renders and then sends once, in any
    interleaving: the multiset of bodies received is the multiset of the
    sessions' own encodings. *)
Theorem c04_conc_multiset : forall (sess : nat -> csession) (bk : str -> outcome) (sched : list cev) (N : nat),
  wf_sched [] sched = true -> Permutation (sends sched) (seq 0 N) ->
  Permutation (recv (run_sched sess bk sched))
              (flat_map (fun i => olist (request_of (sess i))) (seq 0 N)).
Proof. exact conc_multiset. Qed.
Print Assumptions c04_conc_multiset.

(** ... and session i is authenticated only if the backend accepted the
    encoding of ITS credentials, and is then bound to the store of ITS address *)
Theorem c04_conc_session_spec : forall (sess : nat -> csession) (bk : str -> outcome) (sched : list cev) i o,
  outs (run_sched sess bk sched) i = Some o ->
  ensure_sound (cs_ens (sess i)) ->
  in_domain (cs_d (sess i)) (cs_u (sess i)) (cs_p (sess i)) = true ->
  imap_spec (cs_d (sess i)) (cs_u (sess i)) (cs_p (sess i)) (accepted (answer_to sess bk i)) o.
Proof. exact conc_session_spec. Qed.
Print Assumptions c04_conc_session_spec.

(** contrast (not raven's code): with ONE buffer shared by the sessions the
    schedule render 0, render 1, send 0, send 1 makes the backend receive
    session 1's body twice and authenticates session 0 (wrong password) *)
Example c04_shared_buffer_would_mix :
  let sess := fun i => match i with
                       | 0 => mk_csession (S_ "d.test") (S_ "alice") (S_ "wrong-pw") ensure_ok true
                       | _ => mk_csession (S_ "d.test") (S_ "mally") (S_ "right-pw") ensure_ok true
                       end in
  let good := build_body (S_ "mally@d.test") (S_ "right-pw") in
  let bk := fun body => if str_eqb body good then Status 200 else Status 401 in
  let sched := [Render 0; Render 1; Send 0; Send 1] in
  let '(_, rc, out) := fold_left (cstep_shared sess bk) sched (None, [], fun _ => None) in
  rc = [good; good]
  /\ option_map answer (out 0) = Some R_OK
  /\ option_map answer (outs (run_sched sess bk sched) 0) = Some R_NO
  /\ recv (run_sched sess bk sched) = [build_body (S_ "alice@d.test") (S_ "wrong-pw"); good].
Proof. vm_compute. repeat split; reflexivity. Qed.

(** contrast (not raven's code): a cache of verifications in progress keyed by
    the first 32 octets of the user name answers OK for credentials the backend
    never saw -- the same long address with a wrong password, or another
    person's address sharing the first 32 octets -- while the model's session
    finishes with the backend's answer to ITS OWN body *)
Example c04_prefix_keyed_verification_cache_would_leak :
  let key := fun u : str => firstn 32 u in
  let d := S_ "example.org" in
  let alice := S_ "firstname.lastname.of.alice.a@research.example.org" in
  let alicf := S_ "firstname.lastname.of.alice.a@reserve.example.net" in
  let good := build_body alice (S_ "right-pw") in
  let bk := fun body => if str_eqb body good then Status 200 else Status 401 in
  (* the verdict a request inherits when a verification with an equal key is in flight *)
  let coalesced := fun (inflight : str * bool) (u p : str) =>
        if str_eqb (fst inflight) (key u) then snd inflight
        else accepted (bk (build_body (address_of d u) p)) in
  let inflight := (key alice, accepted (bk good)) in
  Nat.leb 32 (length alice) = true
  /\ coalesced inflight alice (S_ "wrong-pw") = true
  /\ coalesced inflight alicf (S_ "whatever") = true
  /\ accepted (bk (build_body (address_of d alice) (S_ "wrong-pw"))) = false
  /\ accepted (bk (build_body (address_of d alicf) (S_ "whatever"))) = false
  /\ answer (finish (mk_csession d alice (S_ "wrong-pw") ensure_ok true)
              (bk (build_body (address_of d alice) (S_ "wrong-pw")))) = R_NO.
Proof. vm_compute. repeat split; reflexivity. Qed.

(** ---- entry points: from the bytes on the wire ---- *)

(** The command-line tokenizer (utils.SplitCommandLine / ParseQuotedString /
    QuoteString): (a) for EVERY list of arguments, each written as an atom
    (non-empty, no white space, double quote or backslash) or as a quoted
    string of ARBITRARY octets, separated by single blanks, the fields are
    exactly the written arguments, and unquoting gives back each argument *)
Theorem c04_split_roundtrip : forall args : list (arg_form * str),
  forallb arg_ok args = true ->
  split_command_line (render_line args) = map (fun a => render_arg (fst a) (snd a)) args.
Proof. exact split_roundtrip. Qed.
Print Assumptions c04_split_roundtrip.

Theorem c04_unquote_roundtrip : forall f s, arg_ok (f, s) = true -> parse_quoted (render_arg f s) = s.
Proof. exact parse_render. Qed.
Print Assumptions c04_unquote_roundtrip.

Theorem c04_parse_quote_inverse : forall s : str, parse_quoted (quote_string s) = s.
Proof. exact parse_quote_roundtrip. Qed.
Print Assumptions c04_parse_quote_inverse.

(** (b) on lines without a double quote it is strings.Fields: nothing changes
    for the commands that worked before *)
Theorem c04_split_is_fields_without_quote : forall line : str,
  contains_byte line DQUOTE = false -> split_command_line line = fields line.
Proof. exact split_no_quote. Qed.
Print Assumptions c04_split_is_fields_without_quote.

(** (c) totality: for EVERY byte string the loop ends within the length of the
    line -- every iteration consumes at least one octet, more fuel never
    changes the result (the model has no partial operation: nothing to panic) *)
Theorem c04_split_total : forall (line : str) (extra : nat),
  split_quoted (S (length line) + extra) line = split_quoted (S (length line)) line.
Proof. exact split_command_line_total. Qed.
Print Assumptions c04_split_total.

(** LOGIN: user name and password written as atoms or as quoted strings of
    ARBITRARY octets (blanks, quotes, backslashes included) reach
    authenticateUser exactly as supplied -- no side condition left *)
Theorem c04_login_args_exact : forall tag fu fp u p,
  atom_ok tag = true -> arg_ok (fu, u) = true -> arg_ok (fp, p) = true ->
  login_creds false true (login_line tag fu fp u p) = Creds u p.
Proof. exact login_args_exact. Qed.
Print Assumptions c04_login_args_exact.

(** ... and the property end to end from the line as read ([line_safe]: no CR,
    LF, NUL inside the arguments, so that it is one line) *)
Theorem c04_login_end_to_end : forall d tag fu fp u p b ens init,
  atom_ok tag = true -> arg_ok (fu, u) = true -> arg_ok (fp, p) = true ->
  line_safe u = true -> line_safe p = true ->
  ensure_sound ens -> in_domain d u p = true ->
  imap_spec d u p (accepted b)
    (run_creds d (login_creds false true (login_line tag fu fp u p)) b ens init).
Proof. exact login_end_to_end. Qed.
Print Assumptions c04_login_end_to_end.

(** Go's base64.StdEncoding.DecodeString (model) inverts RFC 4648 encoding of
    ALL octet strings *)
Theorem c04_b64_roundtrip : forall s : str, b64_decode (b64_encode s) = Some s.
Proof. exact b64_roundtrip. Qed.
Print Assumptions c04_b64_roundtrip.

(** AUTHENTICATE PLAIN with an RFC 4616 message (no NUL inside the fields) *)
Theorem c04_authplain_exact : forall z u p,
  count_byte z NUL = 0 -> count_byte u NUL = 0 -> count_byte p NUL = 0 -> u <> [] -> p <> [] ->
  authplain_creds false true (b64_encode (z ++ NUL :: u ++ NUL :: p) ++ crlf) = Creds u p.
Proof. exact authplain_exact. Qed.
Print Assumptions c04_authplain_exact.

Theorem c04_authplain_end_to_end : forall d z u p b ens init,
  count_byte z NUL = 0 -> count_byte u NUL = 0 -> count_byte p NUL = 0 -> u <> [] -> p <> [] ->
  ensure_sound ens -> in_domain d u p = true ->
  imap_spec d u p (accepted b)
    (run_creds d (authplain_creds false true (b64_encode (z ++ NUL :: u ++ NUL :: p) ++ crlf)) b ens init).
Proof. exact authplain_end_to_end. Qed.
Print Assumptions c04_authplain_end_to_end.

(** ---- the SASL service ---- *)

(** the service decodes exactly (id, authcid, passwd) from a Dovecot AUTH line *)
Theorem c04_sasl_decoded_exact : forall id z u p,
  count_byte id TAB = 0 ->
  count_byte z NUL = 0 -> count_byte u NUL = 0 -> count_byte p NUL = 0 ->
  sasl_decoded (S_AUTH ++ TAB :: id ++ TAB :: S_ "PLAIN" ++ TAB :: S_ "service=smtp" ++ TAB ::
                S_ "resp=" ++ b64_encode (z ++ NUL :: u ++ NUL :: p)) = Some (id, u, p).
Proof. exact sasl_decoded_exact. Qed.
Print Assumptions c04_sasl_decoded_exact.

(** (d) for EVERY request line and backend outcome: one line, carrying the id *)
Theorem c04_sasl_single_line : forall domain raw b id,
  contains_byte raw LF = false -> request_id raw = Some id ->
  single_line (s_wrote (sasl_line domain raw b)) = true
  /\ carries_id id (s_wrote (sasl_line domain raw b)) = true.
Proof. exact sasl_single_line. Qed.
Print Assumptions c04_sasl_single_line.

(** (b) for EVERY line (any command, mechanism, parameters, encoding, user
    name) and backend outcome: an OK line only after a 200 for a request built
    from exactly the decoded pair -- read by the backend as exactly that pair
    when it is valid UTF-8 -- and the answer is then exactly OK <id> user=<u> *)
Theorem c04_sasl_ok_only_200 : forall domain raw b,
  contains_byte raw LF = false ->
  has_ok_line (s_wrote (sasl_line domain raw b)) = true ->
  accepted b = true /\
  exists id u p, sasl_decoded raw = Some (id, u, p)
    /\ s_sent (sasl_line domain raw b) = [build_body (address_of domain u) p]
    /\ (in_domain domain u p = true -> body_exact (build_body (address_of domain u) p) (address_of domain u) p)
    /\ s_wrote (sasl_line domain raw b) = S_ "OK" ++ TAB :: id ++ TAB :: S_ "user=" ++ u ++ [LF].
Proof. exact sasl_ok_only_200. Qed.
Print Assumptions c04_sasl_ok_only_200.

(** user names with TAB, CR or LF are refused without echo and without a
    backend request; user names with more than one '@' without a backend request *)
Theorem c04_sasl_bad_user_refused : forall domain id resp given u p b,
  sasl_plain_creds id resp given = inr (u, p) -> sasl_user_bad u = true ->
  sasl_plain domain id resp given b =
  mk_sasl [] (sasl_line1 (S_ "FAIL") id (S_ "reason=Invalid credentials format")).
Proof. exact sasl_bad_user_refused. Qed.
Print Assumptions c04_sasl_bad_user_refused.

Theorem c04_sasl_multi_at_refused : forall domain u p b, multi_at u = true ->
  sasl_authenticate domain u p b = ([], false).
Proof. exact sasl_multi_at_refused. Qed.
Print Assumptions c04_sasl_multi_at_refused.

(** ---- regression scenarios: behaviour raven used to violate the property with ---- *)

(** regression notes (raven before the fixes; these do not mention the model):
    the Sprintf-built body for user  victim@d.test","email":"attacker@d.test
    had two e-mail members ... *)
Definition inj_user : str := S_ "victim@d.test"",""email"":""attacker@d.test".
Example c04_old_sprintf_body_was_injectable :
  exists l, json_fields (S_ "{""email"":""" ++ inj_user ++ S_ """,""password"":""" ++ S_ "pw" ++ S_ """}") = Some l
    /\ last_of K_EMAIL l = Some (S_ "attacker@d.test") /\ first_of K_EMAIL l = Some (S_ "victim@d.test").
Proof.
  exists [(K_EMAIL, S_ "victim@d.test"); (K_EMAIL, S_ "attacker@d.test"); (K_PASSWORD, S_ "pw")].
  repeat split; vm_compute; reflexivity.
Qed.

(** ... the same input now: one e-mail member, read back verbatim, bound to nobody
    else; a@b@c and a SASL user name with LF are refused *)
Example c04_regression_inputs :
  body_exact_b (build_body inj_user (S_ "pw")) inj_user (S_ "pw") = true
  /\ answer (authenticate_user (S_ "d.test") (S_ "a@b@c") (S_ "pw") (Status 200) ensure_ok true) = R_NO
  /\ sent (authenticate_user (S_ "d.test") (S_ "a@b@c") (S_ "pw") (Status 200) ensure_ok true) = [].
Proof. repeat split; vm_compute; reflexivity. Qed.

 (** LOGIN "a b" "p q" (used to reach the backend as a / b) and a password with
    a quote and a backslash now arrive verbatim *)
Example c04_regression_login_tokens :
  login_creds false true (login_line (S_ "k1") QuotedForm QuotedForm (S_ "a b") (S_ "p q")) = Creds (S_ "a b") (S_ "p q")
  /\ login_creds false true (S_ "k2 LOGIN ""a b"" ""p q""" ++ crlf) = Creds (S_ "a b") (S_ "p q")
  /\ login_creds false true (login_line (S_ "k3") AtomForm QuotedForm (S_ "bob") (S_ "p""q\r  s")) = Creds (S_ "bob") (S_ "p""q\r  s").
Proof. repeat split; vm_compute; reflexivity. Qed.

(** SASL user name with LF (an OK line used to follow the FAIL after a 401):
    now one FAIL line, no backend request *)
Definition inj_sasl_line : str :=
  S_AUTH ++ TAB :: S_ "8" ++ TAB :: S_ "PLAIN" ++ TAB :: S_ "service=smtp" ++ TAB ::
  S_ "resp=" ++ b64_encode (NUL :: S_ "x" ++ LF :: S_ "OK" ++ TAB :: S_ "8" ++ TAB :: S_ "user=admin" ++ NUL :: S_ "pw").
Example c04_regression_sasl_injection :
  contains_byte inj_sasl_line LF = false
  /\ has_ok_line (s_wrote (sasl_line (S_ "d.test") inj_sasl_line (Status 401))) = false
  /\ single_line (s_wrote (sasl_line (S_ "d.test") inj_sasl_line (Status 401))) = true
  /\ s_sent (sasl_line (S_ "d.test") inj_sasl_line (Status 401)) = [].
Proof. repeat split; vm_compute; reflexivity. Qed.

(** non-vacuity: hypotheses are satisfiable and the accepting path exists *)
Example c04_accepting_path :
  in_domain (S_ "d.test") (S_ "alice") (S_ "s3cret {pw}") = true
  /\ answer (authenticate_user (S_ "d.test") (S_ "alice") (S_ "s3cret {pw}") (Status 200) ensure_ok true) = R_OK
  /\ bound (authenticate_user (S_ "d.test") (S_ "alice") (S_ "s3cret {pw}") (Status 200) ensure_ok true)
     = Some (S_ "alice", S_ "d.test").
Proof. repeat split; vm_compute; reflexivity. Qed.

Example c04_sasl_accepting_path :
  let line := S_AUTH ++ TAB :: S_ "7" ++ TAB :: S_ "PLAIN" ++ TAB :: S_ "service=smtp" ++ TAB ::
              S_ "resp=" ++ b64_encode (NUL :: S_ "bob" ++ NUL :: S_ "pw") in
  s_wrote (sasl_line (S_ "d.test") line (Status 200)) = S_ "OK" ++ TAB :: S_ "7" ++ TAB :: S_ "user=bob" ++ [LF].
Proof. vm_compute; reflexivity. Qed.

Example c04_b64_vectors :
  b64_encode (S_ "foobar") = S_ "Zm9vYmFy" /\ b64_encode (S_ "fooba") = S_ "Zm9vYmE=" /\ b64_encode (S_ "foob") = S_ "Zm9vYg==".
Proof. repeat split; vm_compute; reflexivity. Qed.
