(** C04 — Only the identity the auth backend verified is authenticated.
    Statements only; every proof is [exact <lemma>] or a [vm_compute] witness. *)
From Coq Require Import String Ascii List Bool Arith ZArith.
From Raven Require Import Base.GoStr Base.GoStrB64 Spec.Json Model.Auth Spec.AuthSpec
  Proof.AuthJson Proof.AuthIdent Proof.AuthFlow.
Import ListNotations.

(** (a) For ALL addresses and passwords free of double quote, backslash and
    control octets, the backend -- reading the Sprintf-built body with a strict
    JSON lexer -- sees exactly the pair (email, password) and nothing else. *)
Theorem c04_body_exact : forall e p : str,
  json_clean e = true -> json_clean p = true -> body_exact (build_body e p) e p.
Proof. exact body_exact_clean. Qed.
Print Assumptions c04_body_exact.

(** (c) For ALL user names with at most one '@' and every non-empty default
    domain, the user row the session is bound to is the row of the address
    that was verified ... *)
Theorem c04_bound_identity : forall d u : str, d <> [] -> count_byte u AT <= 1 ->
  store_of (address_of d u) (extract_username u, get_user_domain d u).
Proof. exact bound_identity. Qed.
Print Assumptions c04_bound_identity.

(** ... and it is a different row for EVERY user name with more than one '@' *)
Theorem c04_bound_identity_conv : forall d u : str, d <> [] -> count_byte d AT = 0 ->
  2 <= count_byte u AT ->
  ~ store_of (address_of d u) (extract_username u, get_user_domain d u).
Proof. exact bound_identity_conv. Qed.
Print Assumptions c04_bound_identity_conv.

(** (b) Whatever the credentials, entry point (LOGIN line, AUTHENTICATE PLAIN
    data), default domain and backend outcome (any status, timeout, refused,
    garbage, dropped): OK only after a 200, for a usable account. *)
Theorem c04_only_200 : forall d c b ens init, creds_wf c ->
  answer (run_creds d c b ens init) = R_OK ->
  accepted b = true /\ ens = true /\ init = true /\ exists u p, c = Creds u p.
Proof. exact only_200. Qed.
Print Assumptions c04_only_200.

(** every entry point (LOGIN line, AUTHENTICATE PLAIN data; authenticated or
    not; TLS or not) yields credentials or a non-OK answer, never a direct OK *)
Theorem c04_entry_never_direct_ok : forall au e, creds_wf (entry_creds au e).
Proof. exact entry_creds_wf. Qed.
Print Assumptions c04_entry_never_direct_ok.

(** (e) without TLS nothing reaches the backend and nothing is granted *)
Theorem c04_no_tls_no_request : forall d e b ens init au,
  (match e with E_login tls _ => tls | E_authplain tls _ => tls end) = false ->
  let r := run_creds d (entry_creds au e) b ens init in sent r = [] /\ answer r <> R_OK.
Proof. exact no_tls_no_request. Qed.
Print Assumptions c04_no_tls_no_request.

(** on an authenticated session LOGIN / AUTHENTICATE never consult the backend
    again and never re-bind the session (raven commit 473838b) *)
Theorem c04_authed_no_request : forall d e b ens init,
  let r := run_creds d (entry_creds true e) b ens init in sent r = [] /\ answer r <> R_OK.
Proof. exact authed_no_request. Qed.
Print Assumptions c04_authed_no_request.

Theorem c04_session_no_rebind : forall (l : list attempt) (s : sess),
  authed s = true -> fold_left sess_step l s = s.
Proof. exact session_no_rebind. Qed.
Print Assumptions c04_session_no_rebind.

(** the property for one attempt: all default domains, user names, passwords
    (all octets) outside the finding classes, all backend outcomes *)
Theorem c04_imap_attempt : forall d u p b ens init,
  classify_cred d u p = None ->
  imap_spec d u p (accepted b) (authenticate_user d u p b ens init).
Proof. exact imap_attempt_spec. Qed.
Print Assumptions c04_imap_attempt.

(** every sequence of attempts (any entry points, lines, default domains) and
    backend behaviours on one connection *)
Theorem c04_session_only_200 : forall l : list attempt,
  let s := run_session l in
  (authed s = false /\ who s = None)
  \/ exists a u p, In a l /\ entry_creds false (a_entry a) = Creds u p
       /\ accepted (a_backend a) = true /\ a_init a = true
       /\ authed s = true /\ who s = bound (run_attempt false a).
Proof. exact session_only_200. Qed.
Print Assumptions c04_session_only_200.

Theorem c04_session_bound_exact : forall l : list attempt,
  (forall a u p, In a l -> entry_creds false (a_entry a) = Creds u p -> classify_cred (a_domain a) u p = None) ->
  forall row, who (run_session l) = Some row ->
  exists a u p, In a l /\ entry_creds false (a_entry a) = Creds u p /\ accepted (a_backend a) = true
    /\ store_of (address_of (a_domain a) u) row
    /\ exists body, sent (run_attempt false a) = [body] /\ body_exact body (address_of (a_domain a) u) p.
Proof. exact session_bound_exact. Qed.
Print Assumptions c04_session_bound_exact.

(** ---- refuted regions: raven violates the property there ---- *)

(** JSON injection: the backend is asked about TWO e-mail members; a
    last-key-wins backend verifies attacker@d, a first-key-wins one victim@d;
    the session is bound to victim@d either way. *)
Definition inj_user : str := S_ "victim@d.test"",""email"":""attacker@d.test".
Theorem c04_refuted_json_meta :
  classify_cred (S_ "d.test") inj_user (S_ "pw") = Some F_json_meta
  /\ ~ imap_spec (S_ "d.test") inj_user (S_ "pw") true
         (authenticate_user (S_ "d.test") inj_user (S_ "pw") (Status 200) true true)
  /\ (let r := authenticate_user (S_ "d.test") inj_user (S_ "pw") (Status 200) true true in
      exists body l, sent r = [body] /\ json_fields body = Some l
        /\ last_of K_EMAIL l = Some (S_ "attacker@d.test")
        /\ first_of K_EMAIL l = Some (S_ "victim@d.test")
        /\ bound r = Some (S_ "victim", S_ "d.test")).
Proof.
  split; [vm_compute; reflexivity|]. split.
  - intros H. apply imap_spec_b_iff in H. vm_compute in H. discriminate.
  - exists (build_body inj_user (S_ "pw")),
           [(K_EMAIL, S_ "victim@d.test"); (K_EMAIL, S_ "attacker@d.test"); (K_PASSWORD, S_ "pw")].
    repeat split; vm_compute; reflexivity.
Qed.
Print Assumptions c04_refuted_json_meta.

(** a@b@c: verified address a@b@c, session bound to a@<default domain> *)
Theorem c04_refuted_multi_at :
  classify_cred (S_ "d.test") (S_ "a@b@c") (S_ "pw") = Some F_multi_at
  /\ ~ imap_spec (S_ "d.test") (S_ "a@b@c") (S_ "pw") true
         (authenticate_user (S_ "d.test") (S_ "a@b@c") (S_ "pw") (Status 200) true true)
  /\ bound (authenticate_user (S_ "d.test") (S_ "a@b@c") (S_ "pw") (Status 200) true true)
     = Some (S_ "a", S_ "d.test").
Proof.
  split; [vm_compute; reflexivity|]. split; [|vm_compute; reflexivity].
  intros H. apply imap_spec_b_iff in H. vm_compute in H. discriminate.
Qed.
Print Assumptions c04_refuted_multi_at.

(** non-vacuity: hypotheses are satisfiable and the accepting path exists *)
Example c04_accepting_path :
  classify_cred (S_ "d.test") (S_ "alice") (S_ "s3cret {pw}") = None
  /\ answer (authenticate_user (S_ "d.test") (S_ "alice") (S_ "s3cret {pw}") (Status 200) true true) = R_OK
  /\ bound (authenticate_user (S_ "d.test") (S_ "alice") (S_ "s3cret {pw}") (Status 200) true true)
     = Some (S_ "alice", S_ "d.test").
Proof. vm_compute. repeat split; reflexivity. Qed.
