(** C04 — Only the identity the auth backend verified is authenticated.
    Statements only; every proof is [exact <lemma>] or a [vm_compute] witness. *)
From Coq Require Import String Ascii List Bool Arith ZArith.
From Raven Require Import Base.GoStr Base.GoStrB64 Spec.Json Model.Auth Spec.AuthSpec
  Proof.AuthJson Proof.AuthIdent Proof.AuthFlow Proof.AuthSasl Proof.AuthLogin Proof.AuthB64 Proof.AuthPlain Proof.AuthEnd.
Import ListNotations.

(** (a) For ALL addresses and passwords free of double quote, backslash and
    control octets, the backend -- reading the Sprintf-built body with a strict
    JSON lexer -- sees exactly the pair (email, password) and nothing else. *)
Theorem c04_body_exact : forall e p : str,
  json_clean e = true -> json_clean p = true -> body_exact (build_body e p) e p.
Proof. exact body_exact_clean. Qed.
Print Assumptions c04_body_exact.

(** (c) For ALL user names with at most one '@' and every non-empty default
    domain, the user row the session is bound to is the row of the address
    that was verified ... *)
Theorem c04_bound_identity : forall d u : str, d <> [] -> count_byte u AT <= 1 ->
  store_of (address_of d u) (extract_username u, get_user_domain d u).
Proof. exact bound_identity. Qed.
Print Assumptions c04_bound_identity.

(** ... and it is a different row for EVERY user name with more than one '@' *)
Theorem c04_bound_identity_conv : forall d u : str, d <> [] -> count_byte d AT = 0 ->
  2 <= count_byte u AT ->
  ~ store_of (address_of d u) (extract_username u, get_user_domain d u).
Proof. exact bound_identity_conv. Qed.
Print Assumptions c04_bound_identity_conv.

(** (b) Whatever the credentials, entry point (LOGIN line, AUTHENTICATE PLAIN
    data), default domain and backend outcome (any status, timeout, refused,
    garbage, dropped): OK only after a 200, for a usable account. *)
Theorem c04_only_200 : forall d c b ens init, creds_wf c ->
  answer (run_creds d c b ens init) = R_OK ->
  accepted b = true /\ ens = true /\ init = true /\ exists u p, c = Creds u p.
Proof. exact only_200. Qed.
Print Assumptions c04_only_200.

(** every entry point (LOGIN line, AUTHENTICATE PLAIN data; authenticated or
    not; TLS or not) yields credentials or a non-OK answer, never a direct OK *)
Theorem c04_entry_never_direct_ok : forall au e, creds_wf (entry_creds au e).
Proof. exact entry_creds_wf. Qed.
Print Assumptions c04_entry_never_direct_ok.

(** (e) without TLS nothing reaches the backend and nothing is granted *)
Theorem c04_no_tls_no_request : forall d e b ens init au,
  (match e with E_login tls _ => tls | E_authplain tls _ => tls end) = false ->
  let r := run_creds d (entry_creds au e) b ens init in sent r = [] /\ answer r <> R_OK.
Proof. exact no_tls_no_request. Qed.
Print Assumptions c04_no_tls_no_request.

(** on an authenticated session LOGIN / AUTHENTICATE never consult the backend
    again and never re-bind the session (raven commit 473838b) *)
Theorem c04_authed_no_request : forall d e b ens init,
  let r := run_creds d (entry_creds true e) b ens init in sent r = [] /\ answer r <> R_OK.
Proof. exact authed_no_request. Qed.
Print Assumptions c04_authed_no_request.

Theorem c04_session_no_rebind : forall (l : list attempt) (s : sess),
  authed s = true -> fold_left sess_step l s = s.
Proof. exact session_no_rebind. Qed.
Print Assumptions c04_session_no_rebind.

(** the property for one attempt: all default domains, user names, passwords
    (all octets) outside the finding classes, all backend outcomes *)
Theorem c04_imap_attempt : forall d u p b ens init,
  classify_cred d u p = None ->
  imap_spec d u p (accepted b) (authenticate_user d u p b ens init).
Proof. exact imap_attempt_spec. Qed.
Print Assumptions c04_imap_attempt.

(** every sequence of attempts (any entry points, lines, default domains) and
    backend behaviours on one connection *)
Theorem c04_session_only_200 : forall l : list attempt,
  let s := run_session l in
  (authed s = false /\ who s = None)
  \/ exists a u p, In a l /\ entry_creds false (a_entry a) = Creds u p
       /\ accepted (a_backend a) = true /\ a_init a = true
       /\ authed s = true /\ who s = bound (run_attempt false a).
Proof. exact session_only_200. Qed.
Print Assumptions c04_session_only_200.

Theorem c04_session_bound_exact : forall l : list attempt,
  (forall a u p, In a l -> entry_creds false (a_entry a) = Creds u p -> classify_cred (a_domain a) u p = None) ->
  forall row, who (run_session l) = Some row ->
  exists a u p, In a l /\ entry_creds false (a_entry a) = Creds u p /\ accepted (a_backend a) = true
    /\ store_of (address_of (a_domain a) u) row
    /\ exists body, sent (run_attempt false a) = [body] /\ body_exact body (address_of (a_domain a) u) p.
Proof. exact session_bound_exact. Qed.
Print Assumptions c04_session_bound_exact.

(** ---- entry points: from the bytes on the wire ---- *)

(** LOGIN with atom or quoted arguments made of blank-free, quote-free,
    backslash-free ASCII octets: exactly (u, p) reaches authenticateUser *)
Theorem c04_login_args_exact : forall tag fu fp u p,
  nsp tag = true -> tag <> [] -> classify_login fu fp u p = None ->
  login_creds false true (login_line tag fu fp u p) = Creds u p.
Proof. exact login_args_exact. Qed.
Print Assumptions c04_login_args_exact.

Theorem c04_login_end_to_end : forall d tag fu fp u p b ens init,
  nsp tag = true -> tag <> [] ->
  classify_login fu fp u p = None -> classify_cred d u p = None ->
  imap_spec d u p (accepted b)
    (run_creds d (login_creds false true (login_line tag fu fp u p)) b ens init).
Proof. exact login_end_to_end. Qed.
Print Assumptions c04_login_end_to_end.

(** Go's base64.StdEncoding.DecodeString (model) inverts RFC 4648 encoding of
    ALL octet strings *)
Theorem c04_b64_roundtrip : forall s : str, b64_decode (b64_encode s) = Some s.
Proof. exact b64_roundtrip. Qed.
Print Assumptions c04_b64_roundtrip.

(** AUTHENTICATE PLAIN with an RFC 4616 message (no NUL inside the fields) *)
Theorem c04_authplain_exact : forall z u p,
  count_byte z NUL = 0 -> count_byte u NUL = 0 -> count_byte p NUL = 0 -> u <> [] -> p <> [] ->
  authplain_creds false true (b64_encode (z ++ NUL :: u ++ NUL :: p) ++ crlf) = Creds u p.
Proof. exact authplain_exact. Qed.
Print Assumptions c04_authplain_exact.

Theorem c04_authplain_end_to_end : forall d z u p b ens init,
  count_byte z NUL = 0 -> count_byte u NUL = 0 -> count_byte p NUL = 0 -> u <> [] -> p <> [] ->
  classify_cred d u p = None ->
  imap_spec d u p (accepted b)
    (run_creds d (authplain_creds false true (b64_encode (z ++ NUL :: u ++ NUL :: p) ++ crlf)) b ens init).
Proof. exact authplain_end_to_end. Qed.
Print Assumptions c04_authplain_end_to_end.

(** ---- the SASL service ---- *)

(** the service decodes exactly (id, authcid, passwd) from a Dovecot AUTH line *)
Theorem c04_sasl_decoded_exact : forall id z u p,
  count_byte id TAB = 0 ->
  count_byte z NUL = 0 -> count_byte u NUL = 0 -> count_byte p NUL = 0 ->
  sasl_decoded (S_AUTH ++ TAB :: id ++ TAB :: S_ "PLAIN" ++ TAB :: S_ "service=smtp" ++ TAB ::
                S_ "resp=" ++ b64_encode (z ++ NUL :: u ++ NUL :: p)) = Some (id, u, p).
Proof. exact sasl_decoded_exact. Qed.
Print Assumptions c04_sasl_decoded_exact.

(** (d) for EVERY request line and backend outcome: one line, carrying the id,
    unless the decoded user name contains TAB or LF *)
Theorem c04_sasl_single_line : forall domain raw b id,
  contains_byte raw LF = false -> request_id raw = Some id ->
  classify_sasl domain raw <> Some F_sasl_reply_injection ->
  single_line (s_wrote (sasl_line domain raw b)) = true
  /\ carries_id id (s_wrote (sasl_line domain raw b)) = true.
Proof. exact sasl_single_line. Qed.
Print Assumptions c04_sasl_single_line.

(** (b) for EVERY line (any command, mechanism, parameters, encoding) and
    backend outcome outside the finding classes: an OK line only after a 200
    for a request carrying exactly the decoded pair *)
Theorem c04_sasl_ok_only_200 : forall domain raw b,
  contains_byte raw LF = false -> classify_sasl domain raw = None ->
  has_ok_line (s_wrote (sasl_line domain raw b)) = true ->
  accepted b = true /\
  exists id u p, sasl_decoded raw = Some (id, u, p)
    /\ s_sent (sasl_line domain raw b) = [build_body (address_of domain u) p]
    /\ body_exact (build_body (address_of domain u) p) (address_of domain u) p
    /\ s_wrote (sasl_line domain raw b) = S_ "OK" ++ TAB :: id ++ TAB :: S_ "user=" ++ u ++ [LF].
Proof. exact sasl_ok_only_200. Qed.
Print Assumptions c04_sasl_ok_only_200.

(** ---- refuted regions: raven violates the property there ---- *)

(** JSON injection: the backend is asked about TWO e-mail members; a
    last-key-wins backend verifies attacker@d, a first-key-wins one victim@d;
    the session is bound to victim@d either way. *)
Definition inj_user : str := S_ "victim@d.test"",""email"":""attacker@d.test".
Theorem c04_refuted_json_meta :
  classify_cred (S_ "d.test") inj_user (S_ "pw") = Some F_json_meta
  /\ ~ imap_spec (S_ "d.test") inj_user (S_ "pw") true
         (authenticate_user (S_ "d.test") inj_user (S_ "pw") (Status 200) true true)
  /\ (let r := authenticate_user (S_ "d.test") inj_user (S_ "pw") (Status 200) true true in
      exists body l, sent r = [body] /\ json_fields body = Some l
        /\ last_of K_EMAIL l = Some (S_ "attacker@d.test")
        /\ first_of K_EMAIL l = Some (S_ "victim@d.test")
        /\ bound r = Some (S_ "victim", S_ "d.test")).
Proof.
  split; [vm_compute; reflexivity|]. split.
  - intros H. apply imap_spec_b_iff in H. vm_compute in H. discriminate.
  - exists (build_body inj_user (S_ "pw")),
           [(K_EMAIL, S_ "victim@d.test"); (K_EMAIL, S_ "attacker@d.test"); (K_PASSWORD, S_ "pw")].
    repeat split; vm_compute; reflexivity.
Qed.
Print Assumptions c04_refuted_json_meta.

(** a@b@c: verified address a@b@c, session bound to a@<default domain> *)
Theorem c04_refuted_multi_at :
  classify_cred (S_ "d.test") (S_ "a@b@c") (S_ "pw") = Some F_multi_at
  /\ ~ imap_spec (S_ "d.test") (S_ "a@b@c") (S_ "pw") true
         (authenticate_user (S_ "d.test") (S_ "a@b@c") (S_ "pw") (Status 200) true true)
  /\ bound (authenticate_user (S_ "d.test") (S_ "a@b@c") (S_ "pw") (Status 200) true true)
     = Some (S_ "a", S_ "d.test").
Proof.
  split; [vm_compute; reflexivity|]. split; [|vm_compute; reflexivity].
  intros H. apply imap_spec_b_iff in H. vm_compute in H. discriminate.
Qed.
Print Assumptions c04_refuted_multi_at.

(** LOGIN "a b" "p q": split on blanks before unquoting, the backend is asked
    about a / b *)
Theorem c04_refuted_login_tokens :
  let line := login_line (S_ "k1") Quoted Quoted (S_ "a b") (S_ "p q") in
  classify_login Quoted Quoted (S_ "a b") (S_ "p q") = Some F_login_tokens
  /\ login_creds false true line = Creds (S_ "a") (S_ "b")
  /\ ~ imap_spec (S_ "d.test") (S_ "a b") (S_ "p q") true
        (run_creds (S_ "d.test") (login_creds false true line) (Status 200) true true).
Proof.
  split; [vm_compute; reflexivity|]. split; [vm_compute; reflexivity|].
  intros H. apply imap_spec_b_iff in H. vm_compute in H. discriminate.
Qed.
Print Assumptions c04_refuted_login_tokens.

(** SASL user name with LF: after a 401 the answer has a second line that is
    an OK for the same request id *)
Definition inj_sasl_line : str :=
  S_AUTH ++ TAB :: S_ "8" ++ TAB :: S_ "PLAIN" ++ TAB :: S_ "service=smtp" ++ TAB ::
  S_ "resp=" ++ b64_encode (NUL :: S_ "x" ++ LF :: S_ "OK" ++ TAB :: S_ "8" ++ TAB :: S_ "user=admin" ++ NUL :: S_ "pw").
Theorem c04_refuted_sasl_reply_injection :
  classify_sasl (S_ "d.test") inj_sasl_line = Some F_sasl_reply_injection
  /\ contains_byte inj_sasl_line LF = false
  /\ accepted (Status 401) = false
  /\ has_ok_line (s_wrote (sasl_line (S_ "d.test") inj_sasl_line (Status 401))) = true
  /\ single_line (s_wrote (sasl_line (S_ "d.test") inj_sasl_line (Status 401))) = false.
Proof. repeat split; vm_compute; reflexivity. Qed.
Print Assumptions c04_refuted_sasl_reply_injection.

(** non-vacuity: hypotheses are satisfiable and the accepting path exists *)
Example c04_accepting_path :
  classify_cred (S_ "d.test") (S_ "alice") (S_ "s3cret {pw}") = None
  /\ answer (authenticate_user (S_ "d.test") (S_ "alice") (S_ "s3cret {pw}") (Status 200) true true) = R_OK
  /\ bound (authenticate_user (S_ "d.test") (S_ "alice") (S_ "s3cret {pw}") (Status 200) true true)
     = Some (S_ "alice", S_ "d.test").
Proof. repeat split; vm_compute; reflexivity. Qed.

Example c04_sasl_accepting_path :
  let line := S_AUTH ++ TAB :: S_ "7" ++ TAB :: S_ "PLAIN" ++ TAB :: S_ "service=smtp" ++ TAB ::
              S_ "resp=" ++ b64_encode (NUL :: S_ "bob" ++ NUL :: S_ "pw") in
  classify_sasl (S_ "d.test") line = None
  /\ s_wrote (sasl_line (S_ "d.test") line (Status 200)) = S_ "OK" ++ TAB :: S_ "7" ++ TAB :: S_ "user=bob" ++ [LF].
Proof. split; vm_compute; reflexivity. Qed.

Example c04_b64_vectors :
  b64_encode (S_ "foobar") = S_ "Zm9vYmFy" /\ b64_encode (S_ "fooba") = S_ "Zm9vYmE=" /\ b64_encode (S_ "foob") = S_ "Zm9vYg==".
Proof. repeat split; vm_compute; reflexivity. Qed.
