(** C20 — Sessions end when their client is gone; services shut down cleanly.
    Statements only; every proof is [exact <lemma>]. Events are the outcomes
    of the handler's blocking read calls (Model/Lifecycle.v). *)
From Coq Require Import String Ascii List Bool ZArith NArith Arith.
From Raven Require Import Base.GoStr Model.Lifecycle Model.LifecycleSrv Spec.Lifecycle
  Proof.Lifecycle Proof.LifecycleSrv.
Import ListNotations.

(** (a) IMAP, client gone. From EVERY state (reachable by a command prefix or
    not; a final unterminated line is just one more [Data] event of the prefix)
    outside the finding class, once every read fails with EOF or another
    error, the handler has returned after at most 2 further read calls. *)
Theorem c20_imap_gone_terminates : forall (s : istate) (es : list event),
  i_classify s true = None -> all_gone es = true -> imap_steps_bound <= length es ->
  i_done (fst (irun s es)) = true.
Proof. exact imap_gone_terminates. Qed.
Print Assumptions c20_imap_gone_terminates.

(** (b) IMAP, client silent: same with read deadlines running out, and the
    time this takes is at most 5 min + 30 min. *)
Theorem c20_imap_silent_terminates : forall (s : istate) (es : list event),
  i_classify s false = None -> all_silent es = true -> imap_steps_bound <= length es ->
  i_done (fst (irun s es)) = true.
Proof. exact imap_silent_terminates. Qed.
Print Assumptions c20_imap_silent_terminates.

Theorem c20_imap_silence_time : forall s : istate,
  i_classify s false = None ->
  exists t, i_silence_ms 3 s = Some t /\ (t <= imap_silence_bound)%N.
Proof. exact imap_silence_time. Qed.
Print Assumptions c20_imap_silence_time.

(** every read site of the IMAP handler is under a positive deadline of at most 30 min *)
Theorem c20_deadlines : forall m : imode,
  m <> IDone -> exists d, ideadline m = Some d /\ (0 < d)%N /\ (d <= 1800000)%N.
Proof. exact imap_deadlines. Qed.
Print Assumptions c20_deadlines.

(** one failed read leads to the end, back to the command loop, or (IDLE) changes nothing *)
Theorem c20_imap_failed_read_step : forall (s : istate) (e : event),
  is_nodata e = true ->
  let s' := fst (istep s e) in
  i_mode s' = IDone \/ i_mode s' = ICmd \/ (i_mode s = IIdle /\ s' = s).
Proof. exact imap_nodata_step. Qed.
Print Assumptions c20_imap_failed_read_step.

(** raven violates (a) inside IDLE: a reachable state from which NO sequence
    of failed reads, however long, ends the handler (class idle_ignores_read_errors) *)
Theorem c20_refuted_idle_ignores_read_errors :
  exists s, i_reachable s /\ i_classify s true = Some IdleIgnoresReadErrors /\
            forall es, all_gone es = true -> i_done (fst (irun s es)) = false.
Proof. exact imap_idle_never_ends. Qed.
Print Assumptions c20_refuted_idle_ignores_read_errors.

(** ... and (b): IDLE has no deadline that ends it (class idle_no_deadline) *)
Theorem c20_refuted_idle_no_deadline :
  exists s, i_reachable s /\ i_classify s false = Some IdleNoDeadline /\
            (forall es, all_silent es = true -> i_done (fst (irun s es)) = false) /\
            (forall fuel, i_silence_ms fuel s = None).
Proof. exact imap_idle_no_deadline. Qed.
Print Assumptions c20_refuted_idle_no_deadline.

(** LMTP: from every state (command loop, mid-DATA with any amount read), for
    every configuration, 2 failed reads end the session; silence costs at
    most twice the configured timeout. No finding class. *)
Theorem c20_lmtp_terminates : forall (cf : lconf) (s : lstate) (es : list event),
  no_data es = true -> lmtp_steps_bound <= length es -> l_done (fst (lrun cf s es)) = true.
Proof. exact lmtp_nodata_terminates. Qed.
Print Assumptions c20_lmtp_terminates.

Theorem c20_lmtp_silence_time : forall (cf : lconf) (s : lstate),
  exists t, l_silence_ms cf 3 s = Some t /\ (t <= 2 * lc_timeout_ms cf)%N.
Proof. exact lmtp_silence_time. Qed.
Print Assumptions c20_lmtp_silence_time.

(** SASL: one failed read ends the connection handler; 30 s deadline on every read *)
Theorem c20_sasl_terminates : forall (m : smode) (es : list event),
  no_data es = true -> sasl_steps_bound <= length es -> s_done (fst (srun m es)) = true.
Proof. exact sasl_nodata_terminates. Qed.
Print Assumptions c20_sasl_terminates.

Theorem c20_sasl_deadline : forall m : smode, m <> SDone -> sdeadline m = Some 30000%N.
Proof. exact sasl_deadline. Qed.
Print Assumptions c20_sasl_deadline.

(** (c) Shutdown. For both services, every history, every later history:
    after a Shutdown call no connection is accepted. *)
Theorem c20_shutdown_stops_accepting : forall (k : svc) (h1 h2 : list sev),
  forallb (fun o => match o with ORefused => true | _ => false end)
          (connect_outs k (fst (srv_run k srv_init (h1 ++ [Shutdown]))) h2) = true.
Proof. exact shutdown_stops_accepting. Qed.
Print Assumptions c20_shutdown_stops_accepting.

(** the first lmtp.Shutdown returns at once and leaves the sessions alone *)
Theorem c20_lmtp_shutdown_returns : forall s : srv,
  panicked s = false -> chan_closed s = false ->
  snd (sstep_srv SvcLMTP s Shutdown) = [OShutReturned] /\
  inflight (fst (sstep_srv SvcLMTP s Shutdown)) = inflight s.
Proof. exact lmtp_shutdown_returns. Qed.
Print Assumptions c20_lmtp_shutdown_returns.

Theorem c20_lmtp_shutdown_noninterference : forall (cf : lconf) (h : list sysev) (s : sys),
  snd (sys_run cf s h) = snd (sys_run cf s (drop_shutdown h)).
Proof. exact lmtp_shutdown_noninterference. Qed.
Print Assumptions c20_lmtp_shutdown_noninterference.

(** a transaction in flight, the process being stopped after ANY number k of
    its effects: a recipient that was acknowledged with 250 has been stored *)
Theorem c20_ack_not_before_store : forall (results : list bool) (k i : nat),
  In (Ack i true) (firstn k (data_trace results)) -> In (Store i true) (firstn k (data_trace results)).
Proof. exact ack_not_before_store. Qed.
Print Assumptions c20_ack_not_before_store.

(** sasl.Shutdown with n > 0 connections in flight returns as soon as n of
    them have ended (they do, within the bounds above, once their clients are
    gone or silent) ... *)
Theorem c20_sasl_shutdown_returns_when_drained : forall (h : list sev) (n : nat),
  0 < n -> existsb is_shutdown h = false -> n <= length (filter is_end h) ->
  In OShutReturned (snd (srv_run SvcSASL (blocked n) h)).
Proof. exact sasl_drains. Qed.
Print Assumptions c20_sasl_shutdown_returns_when_drained.

Theorem c20_sasl_first_shutdown : forall s : srv,
  panicked s = false -> chan_closed s = false ->
  sstep_srv SvcSASL s Shutdown =
    if inflight s =? 0 then (mk_srv false true 0 false false, [OShutReturned])
    else (blocked (inflight s), [OShutBlocked]).
Proof. exact sasl_first_shutdown. Qed.
Print Assumptions c20_sasl_first_shutdown.

(** ... and not before: while a client keeps its connection busy, Shutdown
    does not return (class sasl_shutdown_waits_for_clients) *)
Theorem c20_refuted_sasl_shutdown_waits_for_clients : forall (h : list sev) (n : nat),
  0 < n -> existsb is_end h = false ->
  ~ In OShutReturned (snd (srv_run SvcSASL (blocked n) h)) /\
  fst (srv_run SvcSASL (blocked n) h) = blocked n.
Proof. exact sasl_blocked_while_sessions_live. Qed.
Print Assumptions c20_refuted_sasl_shutdown_waits_for_clients.

(** a second lmtp.Shutdown closes a closed channel (class lmtp_double_shutdown) *)
Theorem c20_refuted_lmtp_double_shutdown :
  snd (srv_run SvcLMTP srv_init [Shutdown; Shutdown]) = [OShutReturned; OShutPanic].
Proof. exact lmtp_double_shutdown_panics. Qed.
Print Assumptions c20_refuted_lmtp_double_shutdown.

(** non-vacuity *)
Example c20_partial_idle_line_runs_forever :
  let s := fst (irun (i_init true) [Data (S_ "a LOGIN u p") true; Data (S_ "b SELECT INBOX") true]) in
  i_classify s true = None /\
  forall es, all_gone es = true -> i_done (fst (irun s (Data (S_ "c IDLE") true :: es))) = false.
Proof. exact imap_partial_line_idle. Qed.

Example c20_states_example :
  map (fun es => i_mode (fst (irun (i_init true) es)))
      [ [Data (S_ "a AUTHENTICATE PLAIN") true];
        [Data (S_ "a LOGIN u p") true; Data (S_ "b APPEND INBOX {10}") true];
        [Data (S_ "a LOGIN u p") true; Data (S_ "b APPEND INBOX {10}") true; Eof; Eof];
        [Data (S_ "a LOGIN u p") true; Data (S_ "b IDLE") true] ]
  = [IAuthWait; ILiteral; IDone; ICmd].
Proof. vm_compute. reflexivity. Qed.

Example c20_lmtp_example :
  let cf := mk_lc 1000 10 1000%N in
  l_mode (fst (lrun cf l_init [Data (S_ "LHLO x") true; Data (S_ "MAIL FROM:<a@b>") true;
                               Data (S_ "RCPT TO:<u@v>") true; Data (S_ "DATA") true; Data (S_ "Subject: x") true]))
  = LData 10 false /\
  l_done (fst (lrun cf l_init [Data (S_ "LHLO x") true; Data (S_ "MAIL FROM:<a@b>") true;
                               Data (S_ "RCPT TO:<u@v>") true; Data (S_ "DATA") true; Timeout; Timeout])) = true.
Proof. vm_compute. split; reflexivity. Qed.
