(** C20 — Sessions end when their client is gone; services shut down cleanly.
    Statements only; every proof is [exact <lemma>]. Events are the outcomes
    of the handler's blocking read calls (Model/Lifecycle.v). *)
From Coq Require Import String Ascii List Bool ZArith NArith Arith.
From Raven Require Import Base.GoStr Model.Lifecycle Model.LifecycleSrv Spec.Lifecycle
  Model.LifecycleWrite Model.LifecycleSaslLoop Model.LifecycleIdle Proof.LifecycleIdle Model.LifecycleAuth Proof.LifecycleAuth Gen.LifecycleFacts Proof.Lifecycle Proof.LifecycleSrv Proof.LifecycleWrite Proof.LifecycleSaslLoop.
Import ListNotations.

(** (a) IMAP, client gone. From EVERY state — IDLE included since fixes C20-1
    and C20-2 — (reachable by a command prefix or not; a final unterminated
    line is just one more [Data] event of the prefix), once every read fails
    with EOF or another error, the handler has returned after at most 2
    further read calls. *)
Theorem c20_imap_gone_terminates : forall (s : istate) (es : list event),
  all_gone es = true -> imap_steps_bound <= length es -> i_done (fst (irun s es)) = true.
Proof. exact imap_gone_terminates. Qed.
Print Assumptions c20_imap_gone_terminates.

(** (b) IMAP, client silent: same with read deadlines (in IDLE: the
    inactivity limit) running out, and the time this takes is at most 5 min + 30 min. *)
Theorem c20_imap_silent_terminates : forall (s : istate) (es : list event),
  all_silent es = true -> imap_steps_bound <= length es -> i_done (fst (irun s es)) = true.
Proof. exact imap_silent_terminates. Qed.
Print Assumptions c20_imap_silent_terminates.

Theorem c20_imap_silence_time : forall s : istate,
  exists t, i_silence_ms 3 s = Some t /\ (t <= imap_silence_bound)%N.
Proof. exact imap_silence_time. Qed.
Print Assumptions c20_imap_silence_time.

(** every read site of the IMAP handler is under a positive deadline of at most 30 min *)
Theorem c20_deadlines : forall m : imode,
  m <> IDone -> exists d, ideadline m = Some d /\ (0 < d)%N /\ (d <= 1800000)%N.
Proof. exact imap_deadlines. Qed.
Print Assumptions c20_deadlines.

(** one failed read leads to the end or back to the command loop *)
Theorem c20_imap_failed_read_step : forall (s : istate) (e : event),
  is_nodata e = true ->
  let s' := fst (istep s e) in i_mode s' = IDone \/ i_mode s' = ICmd.
Proof. exact imap_nodata_step. Qed.
Print Assumptions c20_imap_failed_read_step.

(** (w) the client stops READING. IMAP: the first reply that cannot be written
    costs the 5 min write deadline and closes the connection; from every state
    the handler has returned after 2 more read calls, which fail at once. *)
Theorem c20_imap_stalled_terminates : forall (s : istate) (e : event) (es : list (event * wout)),
  i_done s = false -> writes (real_replies (snd (istep s e))) = true -> 2 <= length es ->
  i_done (fst (irun_w false s ((e, WBlocked) :: es))) = true /\
  snd (irun_w false s ((e, WBlocked) :: es)) = (read_cost (ideadline (i_mode s)) e + 300000)%N.
Proof. exact imap_stalled_terminates. Qed.
Print Assumptions c20_imap_stalled_terminates.

(** LMTP: whatever the client has pipelined ([ds], any length, any content),
    with every write blocked and then silence, from every state and for every
    configuration the session ends, having been blocked for at most 3 x timeout
    (one write, two reads; 2 x once the writer's error is sticky). *)
Theorem c20_lmtp_stalled_terminates : forall (cf : lconf) (ds : list event) (werr : bool) (s : lstate),
  forallb is_data ds = true ->
  let r := lrun_w cf werr s (with_w WBlocked (ds ++ [Timeout; Timeout])) in
  l_done (fst r) = true /\ (snd r <= stall_bound cf werr)%N.
Proof. exact lmtp_stalled_terminates. Qed.
Print Assumptions c20_lmtp_stalled_terminates.

(** SASL: the first unwritable reply costs 30 s and closes the connection; the next read ends the handler *)
Theorem c20_sasl_stalled_terminates : forall (sh : bool) (e : event) (es : list (event * wout)),
  snd (sstep sh SCmd e) <> 0 -> 1 <= length es ->
  s_done (fst (srun_w sh false SCmd ((e, WBlocked) :: es))) = true /\
  snd (srun_w sh false SCmd ((e, WBlocked) :: es)) = (read_cost (sdeadline SCmd) e + 30000)%N.
Proof. exact sasl_stalled_terminates. Qed.
Print Assumptions c20_sasl_stalled_terminates.

(** every service writes its replies under a deadline *)
Theorem c20_write_deadlines : forall (k : service) (cf : lconf), write_deadline k cf <> None.
Proof. exact write_deadlines_exist. Qed.
Print Assumptions c20_write_deadlines.

(** LMTP: from every state (command loop, mid-DATA with any amount read), for
    every configuration, 2 failed reads end the session; silence costs at
    most twice the configured timeout. No finding class. *)
Theorem c20_lmtp_terminates : forall (cf : lconf) (s : lstate) (es : list event),
  no_data es = true -> lmtp_steps_bound <= length es -> l_done (fst (lrun cf s es)) = true.
Proof. exact lmtp_nodata_terminates. Qed.
Print Assumptions c20_lmtp_terminates.

Theorem c20_lmtp_silence_time : forall (cf : lconf) (s : lstate),
  exists t, l_silence_ms cf 3 s = Some t /\ (t <= 2 * lc_timeout_ms cf)%N.
Proof. exact lmtp_silence_time. Qed.
Print Assumptions c20_lmtp_silence_time.

(** SASL: one failed read ends the connection handler; 30 s deadline on every read *)
Theorem c20_sasl_terminates : forall (sh : bool) (m : smode) (es : list event),
  no_data es = true -> sasl_steps_bound <= length es -> s_done (fst (srun sh m es)) = true.
Proof. exact sasl_nodata_terminates. Qed.
Print Assumptions c20_sasl_terminates.

Theorem c20_sasl_deadline : forall m : smode, m <> SDone -> sdeadline m = Some 30000%N.
Proof. exact sasl_deadline. Qed.
Print Assumptions c20_sasl_deadline.

(** (c) Shutdown. For both services, every history, every later history:
    after a Shutdown call no connection is accepted. *)
Theorem c20_shutdown_stops_accepting : forall (k : svc) (h1 h2 : list sev),
  forallb (fun o => match o with ORefused => true | _ => false end)
          (connect_outs k (fst (srv_run k srv_init (h1 ++ [Shutdown]))) h2) = true.
Proof. exact shutdown_stops_accepting. Qed.
Print Assumptions c20_shutdown_stops_accepting.

(** the first lmtp.Shutdown returns at once and leaves the sessions alone *)
Theorem c20_lmtp_shutdown_returns : forall s : srv,
  panicked s = false -> chan_closed s = false ->
  snd (sstep_srv SvcLMTP s Shutdown) = [OShutReturned] /\
  inflight (fst (sstep_srv SvcLMTP s Shutdown)) = inflight s.
Proof. exact lmtp_shutdown_returns. Qed.
Print Assumptions c20_lmtp_shutdown_returns.

Theorem c20_lmtp_shutdown_noninterference : forall (cf : lconf) (h : list sysev) (s : sys),
  snd (sys_run cf s h) = snd (sys_run cf s (drop_shutdown h)).
Proof. exact lmtp_shutdown_noninterference. Qed.
Print Assumptions c20_lmtp_shutdown_noninterference.

(** a transaction in flight, the process being stopped after ANY number k of
    its effects: a recipient that was acknowledged with 250 has been stored *)
Theorem c20_ack_not_before_store : forall (results : list bool) (k i : nat),
  In (Ack i true) (firstn k (data_trace results)) -> In (Store i true) (firstn k (data_trace results)).
Proof. exact ack_not_before_store. Qed.
Print Assumptions c20_ack_not_before_store.

(** sasl.Shutdown with n > 0 connections in flight returns as soon as n of
    them have ended (they do, within the bounds above, once their clients are
    gone or silent) ... *)
Theorem c20_sasl_shutdown_returns_when_drained : forall (h : list sev) (n : nat),
  0 < n -> existsb is_shutdown h = false -> n <= length (filter is_end h) ->
  In OShutReturned (snd (srv_run SvcSASL (blocked n) h)).
Proof. exact sasl_drains. Qed.
Print Assumptions c20_sasl_shutdown_returns_when_drained.

Theorem c20_sasl_first_shutdown : forall s : srv,
  panicked s = false -> chan_closed s = false ->
  sstep_srv SvcSASL s Shutdown =
    if inflight s =? 0 then (mk_srv false true 0 false false, [OShutReturned])
    else (blocked (inflight s), [OShutBlocked]).
Proof. exact sasl_first_shutdown. Qed.
Print Assumptions c20_sasl_first_shutdown.

(** ... and not before (the wait is for the sessions, for nothing else) *)
Theorem c20_sasl_shutdown_waits_for_sessions_only : forall (h : list sev) (n : nat),
  0 < n -> existsb is_end h = false ->
  ~ In OShutReturned (snd (srv_run SvcSASL (blocked n) h)) /\
  fst (srv_run SvcSASL (blocked n) h) = blocked n.
Proof. exact sasl_waits_for_sessions. Qed.
Print Assumptions c20_sasl_shutdown_waits_for_sessions_only.

(** ... and the sessions do end (fix C20-4): once Shutdown has begun, every
    read outcome ends a connection — a failed read, or a request that is
    answered (it is the last one) — except a line of a single field, which is
    ignored WITHOUT re-arming the 30 s deadline. A busy client cannot keep
    Shutdown waiting. *)
Theorem c20_sasl_shutdown_ends_connection : forall (m : smode) (e : event),
  s_done (fst (sstep true m e)) = true \/
  (exists l o, e = Data l o /\ snd (sstep true m e) = 0 /\ fst (sstep true m e) = m).
Proof. exact sasl_shutdown_ends_connection. Qed.
Print Assumptions c20_sasl_shutdown_ends_connection.

(** Shutdown while the client keeps SENDING (timed loop model, Model/LifecycleSaslLoop.v).
    For every loop whose `continue` path does not re-arm the read deadline — the
    tree's loop is one — after ANY history, once Shutdown has begun, whatever
    lines the client sends (malformed, empty, over-long, unknown, well-formed)
    at whatever intervals, the connection is alive for at most one read
    deadline: no input extends the wait of Shutdown. *)
Theorem c20_sasl_shutdown_wait_bounded : forall (c : loopcfg) (before after : list (N * str)),
  rearm_malformed c = false ->
  (alive (trun c true (final (trun c false t_init before)) after) <= read_timeout)%N.
Proof. exact shutdown_wait_bounded. Qed.
Print Assumptions c20_sasl_shutdown_wait_bounded.

Theorem c20_sasl_shutdown_alive_bound : forall (c : loopcfg) (ls : list (N * str)) (s : tstate),
  rearm_malformed c = false ->
  (alive (trun c true s ls) <= (if t_done s then 0 else t_left s))%N.
Proof. intros c ls s H. exact (shutdown_alive_bound c ls H s). Qed.
Print Assumptions c20_sasl_shutdown_alive_bound.

(** for a loop whose `continue` path passes the shutdown check as well
    (fixes/C20-7): from every state, once shutdown has begun, the handler ends
    after at most one further line, whatever the line is *)
Theorem c20_sasl_strict_loop_one_line : forall (c : loopcfg) (s : tstate) (dt : N) (l : str),
  check_malformed c = true -> t_done (final (tstep c true s dt l)) = true.
Proof. exact strict_one_line. Qed.
Print Assumptions c20_sasl_strict_loop_one_line.

(** the timed loop is the handler model of Model/Lifecycle.v while the deadline does not fire *)
Theorem c20_sasl_loop_agrees : forall (shut : bool) (s : tstate) (dt : N) (l : str) (o : bool),
  t_done s = false -> (dt < t_left s)%N ->
  t_done (final (tstep tree_loop shut s dt l)) = match fst (sstep shut SCmd (Data l o)) with SDone => true | SCmd => false end.
Proof. exact tstep_agrees. Qed.
Print Assumptions c20_sasl_loop_agrees.

(** The IDLE poll loop as rounds (Model/LifecycleIdle.v): poll of the store —
    which may FAIL — then the read with its 50 ms deadline, then the autologout
    test. For EVERY sequence of poll outcomes (success / failure in any
    pattern) and round durations: a client that is gone (or says DONE) is
    noticed in the very round in which that is so ... *)
Theorem c20_idle_noticed_within_one_round : forall (T : N) (pre : list (poll * N * client)) (e : N) (p : poll) (d : N) (c : client)
    (post : list (poll * N * client)),
  c = Gone \/ c = SaysDone ->
  exists x t, idle_run false T e (pre ++ (p, d, c) :: post) = Some (x, t) /\ (t <= e + durations pre + d)%N.
Proof. exact noticed_within_one_round. Qed.
Print Assumptions c20_idle_noticed_within_one_round.

(** ... and a silent one is logged out at idleUntil + at most one round, and surely once the rounds add up to more than the limit *)
Theorem c20_idle_autologout_time : forall (T Dmax : N) (rounds : list (poll * N * client)) (e : N),
  (forall p d c, In (p, d, c) rounds -> (d <= Dmax)%N) ->
  forall x t, idle_run false T e rounds = Some (x, t) -> x = XAutologout -> (e <= T)%N -> (t <= T + Dmax)%N.
Proof. exact autologout_time. Qed.
Print Assumptions c20_idle_autologout_time.

Theorem c20_idle_silent_progress : forall (T : N) (rounds : list (poll * N * client)) (e : N),
  (e <= T)%N -> (T < e + durations rounds)%N -> idle_run false T e rounds <> None.
Proof. exact silent_progress. Qed.
Print Assumptions c20_idle_silent_progress.

(** The call to the authentication backend (Model/LifecycleAuth.v). An
    http.Client with Client.Timeout = T is back within T whatever the backend
    does: never accepts, accepts and never answers, answers its headers and
    stalls in the body, trickles an endless body, closes in the middle, answers. *)
Theorem c20_auth_call_bounded : forall (c : http_client) (T : N) (b : backend),
  hc_total c = Some T -> exists t, call_time c b = Some t /\ (t <= T)%N.
Proof. exact call_bounded. Qed.
Print Assumptions c20_auth_call_bounded.

(** handler lifetime with an auth call in flight when the client goes away or
    falls silent: at most the auth bound plus what the theorems above bound —
    for EVERY state the command leaves behind and EVERY backend behaviour *)
Theorem c20_imap_lifetime_bounded : forall (c : http_client) (T : N) (b : backend) (s : istate),
  hc_total c = Some T ->
  exists t r, call_time c b = Some t /\ i_silence_ms 3 s = Some r /\ (t + r <= T + imap_silence_bound)%N.
Proof. exact imap_lifetime_bounded. Qed.
Print Assumptions c20_imap_lifetime_bounded.

Theorem c20_sasl_lifetime_bounded : forall (c : http_client) (T : N) (b : backend),
  hc_total c = Some T -> exists t, call_time c b = Some t /\ (t + 30000 <= T + 30000)%N.
Proof. exact sasl_lifetime_bounded. Qed.
Print Assumptions c20_sasl_lifetime_bounded.

(** a backend that never delivers its headers is a refusal *)
Theorem c20_no_headers_no_success : forall (c : http_client) (b : backend),
  snd (headers_at c b) = false -> call_ok c b = false.
Proof. exact no_headers_no_success. Qed.
Print Assumptions c20_no_headers_no_success.

(** the implicit-TLS port (fix C20-9): no handshake, no session — within the 30 s handshake deadline *)
Theorem c20_ssl_no_handshake_ends : forall e : event, is_nodata e = true -> i_done (fst (istep i_init_ssl e)) = true.
Proof. exact ssl_no_handshake_ends. Qed.
Print Assumptions c20_ssl_no_handshake_ends.

(** for ANY facts table satisfying [facts_ok]: both auth paths are bounded by
    10 s and the handshake deadline is 30 s — and the table read from the tree
    under test satisfies it *)
Theorem c20_facts_bound : forall (f : lifecycle_facts) (b : backend),
  facts_ok f = true ->
  (exists t, call_time (client_of (lf_imap_auth_timeout f)) b = Some t /\ (t <= auth_timeout)%N) /\
  (exists t, call_time (client_of (lf_sasl_auth_timeout f)) b = Some t /\ (t <= auth_timeout)%N) /\
  lf_ssl_handshake_deadline f = Some 30000%N.
Proof. exact facts_bound. Qed.
Print Assumptions c20_facts_bound.

Theorem facts_ok_now : facts_ok Gen.LifecycleFacts.table = true.
Proof. vm_compute. reflexivity. Qed.
Print Assumptions facts_ok_now.

(** a second lmtp.Shutdown returns and changes nothing (fix C20-3); no history makes a service panic *)
Theorem c20_lmtp_shutdown_idempotent : forall s : srv,
  panicked s = false -> chan_closed s = true -> sstep_srv SvcLMTP s Shutdown = (s, [OShutReturned]).
Proof. exact lmtp_shutdown_idempotent. Qed.
Print Assumptions c20_lmtp_shutdown_idempotent.

Theorem c20_shutdown_never_panics : forall (k : svc) (h : list sev) (s : srv),
  panicked s = false -> panicked (fst (srv_run k s h)) = false.
Proof. exact never_panics. Qed.
Print Assumptions c20_shutdown_never_panics.

(** non-vacuity *)
(** regression witnesses of the repaired classes: the traces on which raven
    used to run for ever now end; [old_idle_poll] is the old loop *)
Example c20_idle_traces_end :
  i_done (fst (irun (i_init true) (idle_prefix ++ [Eof; Eof]))) = true /\
  i_done (fst (irun (i_init true) (idle_prefix ++ [Timeout; ReadErr]))) = true /\
  i_silence_ms 3 (fst (irun (i_init true) idle_prefix)) = Some 1800000%N.
Proof. exact imap_idle_gone_ends. Qed.

Example c20_old_idle_never_ended : forall es, no_data es = true -> fold_left old_idle_poll es true = true.
Proof. exact old_idle_never_ended. Qed.

(** the renewal moved to the top of the loop (seeded change C20-2): one-field
    lines 29.999 s apart hold the connection, and Shutdown, for ever *)
Example c20_seeded_loop_unbounded : forall n : nat,
  final (trun seeded_loop true t_init (repeat (29999%N, ping) n)) = t_init /\
  alive (trun seeded_loop true t_init (repeat (29999%N, ping) n)) = (N.of_nat n * 29999)%N.
Proof. exact seeded_unbounded. Qed.

Example c20_tree_loop_on_pings :
  trun tree_loop true t_init [(29999%N, ping); (29999%N, ping); (29999%N, ping)] = (mk_t true 0, 30000%N, 0).
Proof. exact tree_on_pings. Qed.

(** without a bound on the body read the wedged backend keeps the handler for
    ever (seeded change C20-3: per-phase transport timeouts + draining the body),
    and so did a backend that never answers before fix C20-8 (no timeout at all) *)
Example c20_seeded_client_wedged : forall th : N, (th <= auth_timeout)%N ->
  call_time seeded_client (BHeadersStall th) = None.
Proof. exact seeded_client_wedged. Qed.

Example c20_seeded_client_trickle : forall th : N, (th <= auth_timeout)%N ->
  call_time seeded_client (BTrickle th) = None.
Proof. exact seeded_client_trickle. Qed.

Example c20_unbounded_client_wedged :
  call_time unbounded_client BAcceptSilent = None /\ call_time unbounded_client BNeverAccepts = None.
Proof. exact unbounded_client_wedged. Qed.

Example c20_ssl_silence_time : i_silence_ms 3 i_init_ssl = Some 30000%N.
Proof. exact ssl_silence_time. Qed.

(** a loop whose failing poll skips the read (seeded change C20-4) never
    terminates on "all polls fail", whatever the client does *)
Example c20_skipping_idle_loop_never_ends : forall (T : N) (rounds : list (poll * N * client)) (e : N),
  (forall p d c, In (p, d, c) rounds -> p = PFail) -> idle_run true T e rounds = None.
Proof. exact skipping_loop_never_ends. Qed.

Example c20_idle_rounds_example :
  idle_run false 1800000 0 [(PFail, 550, Silent); (PFail, 10550, Silent); (PFail, 550, Gone)]%N = Some (XGone, 11650%N) /\
  idle_run true 1800000 0 [(PFail, 550, Silent); (PFail, 10550, Silent); (PFail, 550, Gone)]%N = None.
Proof. vm_compute. split; reflexivity. Qed.

Example c20_double_shutdown_returns :
  snd (srv_run SvcLMTP srv_init [Shutdown; Shutdown]) = [OShutReturned; OShutReturned].
Proof. exact lmtp_double_shutdown_returns. Qed.

Example c20_stalled_idle_ends :
  let s := fst (irun (i_init true) [Data (S_ "a LOGIN u p") true; Data (S_ "b SELECT INBOX") true]) in
  irun_w false s (with_w WBlocked [Data (S_ "c IDLE") true; Timeout; Timeout])
  = (mk_i IDone true true true, 300000%N).
Proof. vm_compute. reflexivity. Qed.

Example c20_states_example :
  map (fun es => i_mode (fst (irun (i_init true) es)))
      [ [Data (S_ "a AUTHENTICATE PLAIN") true];
        [Data (S_ "a LOGIN u p") true; Data (S_ "b APPEND INBOX {10}") true];
        [Data (S_ "a LOGIN u p") true; Data (S_ "b APPEND INBOX {10}") true; Eof; Eof];
        [Data (S_ "a LOGIN u p") true; Data (S_ "b IDLE") true] ]
  = [IAuthWait; ILiteral; IDone; ICmd].
Proof. vm_compute. reflexivity. Qed.

Example c20_lmtp_example :
  let cf := mk_lc 1000 10 1000%N in
  l_mode (fst (lrun cf l_init [Data (S_ "LHLO x") true; Data (S_ "MAIL FROM:<a@b>") true;
                               Data (S_ "RCPT TO:<u@v>") true; Data (S_ "DATA") true; Data (S_ "Subject: x") true]))
  = LData 10 false /\
  l_done (fst (lrun cf l_init [Data (S_ "LHLO x") true; Data (S_ "MAIL FROM:<a@b>") true;
                               Data (S_ "RCPT TO:<u@v>") true; Data (S_ "DATA") true; Timeout; Timeout])) = true.
Proof. vm_compute. split; reflexivity. Qed.
