(** C07 — A crash at any instant leaves usable stores and keeps acknowledged work.
    Statements only; every proof is [exact <lemma>].

    Model (Model/Micro.v): every operation of raven on a per-user store is the
    list of its ATOMIC DURABLE MICRO-STEPS ([micro d o]: one autocommit SQL
    statement or one committed transaction each, in the statement order of the
    Go code).  HYPOTHESIS OF THE MODEL (SQLite, outside the proof): when the
    process dies, the database file holds the effects of exactly a prefix of
    the statements/transactions issued so far.  Under it, the durable state at
    crash point [k] of workload [h] is [crash_at d h k]; restart = the next
    GetUserDB ([COpen]: initUserDB is skipped when the file exists).
    All theorems quantify over ALL workloads [h] (lists of [cop]: first
    contact, deliveries, APPEND with any message shape incl. out-of-line parts,
    UID COPY, COPY, UID STORE incl. the Junk move, EXPUNGE, CLOSE, CREATE,
    DELETE, RENAME incl. RENAME INBOX, SUBSCRIBE, UNSUBSCRIBE) and ALL crash
    points [k]. *)
From Coq Require Import String Ascii List Bool ZArith Arith.
From Raven Require Import Base.GoStr Model.Store Model.Ops Model.Micro Spec.UidSpec Spec.Crash
  Proof.StoreInv Proof.MicroRefine Proof.MicroBase Proof.MicroWF Proof.MicroCrash Proof.MicroUid.
Import ListNotations.
Local Open Scope Z_scope.

(** ---- the micro-step lists ARE the operations ------------------------------------ *)

(** executing the micro-steps of an operation one by one gives the state the
    big-step operation gives (for the mailbox / link tables: Model/Ops.v's
    [step], the model of C03).  [op_plain] only excludes RENAME to a name with
    an empty hierarchy component ("/x", "a//b"). *)
Theorem c07_micro_refines : forall d o,
  WF d -> op_plain o = true -> run_steps d (micro d o) = fst (big d o).
Proof. exact refines. Qed.
Print Assumptions c07_micro_refines.

Theorem c07_workload_refines : forall h d,
  WF d -> forallb op_plain h = true -> run_all d h = big_all d h.
Proof. exact run_all_big. Qed.
Print Assumptions c07_workload_refines.

(** ---- (b) every listed message is complete, at every crash point ------------------ *)

(** the prefix invariant ("link last"): whatever the workload and wherever the
    process dies, every row of message_mailbox refers to a message all of whose
    header, address and part rows are present; link row ids and message ids
    are unique *)
Theorem c07_prefix_invariant : forall h k, WF (crash_at absent h k).
Proof. exact crash_links_complete. Qed.
Print Assumptions c07_prefix_invariant.

Theorem c07_prefix_invariant_from : forall h k d, WF d -> WF (crash_at d h k).
Proof. exact crash_WF. Qed.
Print Assumptions c07_prefix_invariant_from.

(** ---- (c) acknowledged work ----------------------------------------------------------- *)

(** a crash state is the state after a prefix [h1] of the workload executed
    COMPLETELY plus a proper prefix of the steps of the one operation in
    flight; an operation is acknowledged after its last step only, so every
    acknowledged operation is in [h1] and its whole effect ([c07_workload_refines])
    is in the recovered state *)
Theorem c07_crash_is_acked_prefix_plus_inflight : forall h d k,
  crash_at d h k = run_all d h \/
  exists h1 o h2 j, h = h1 ++ o :: h2 /\ (j < length (micro (run_all d h1) o))%nat /\
    crash_at d h k = run_steps (run_all d h1) (firstn j (micro (run_all d h1) o)).
Proof. exact crash_decomposition. Qed.
Print Assumptions c07_crash_is_acked_prefix_plus_inflight.

(** a crash between UPDATE uid_next and INSERT message_mailbox only skips a UID *)
Theorem c07_uid_gap_harmless : forall d msg mb fl m,
  find_id (d_st d) mb = Some m ->
  let c := run_steps d (firstn 1 (add_steps (d_st d) msg mb fl)) in
  links (d_st c) = links (d_st d) /\ find_id (d_st c) mb = Some (bump_row mb m) /\
  mb_next (bump_row mb m) = mb_next m + 1.
Proof. exact gap_state. Qed.
Print Assumptions c07_uid_gap_harmless.

(** ---- (d) the UID rules inside an operation (partial) ------------------------------- *)

(** PARTIAL: C03 proves its invariant [Inv] (UIDs unique, ascending, UIDNEXT
    above everything ever visible) at operation boundaries of clean histories;
    here it is carried into the crash states inside the operations that have
    more than one step touching mailboxes/links and are in C03's scope: after
    the message rows, after "UPDATE uid_next" alone, after the link
    (delivery, APPEND), and after any subset of an EXPUNGE's DELETEs.  Not
    covered: a UID STORE interrupted between two messages, RENAME INBOX between
    its two statements, CREATE/RENAME between parent INSERTs (outside C03's
    hierarchy-free scope anyway). *)
Theorem c07_uid_rules_inside_add_message_partial : forall s msg mb fl m,
  Inv s -> find_id s mb = Some m ->
  Inv (fst (store_message s)) /\ Inv (bump s mb) /\ Inv (fst (add_message s msg mb fl)).
Proof. exact add_message_crash_states. Qed.
Print Assumptions c07_uid_rules_inside_add_message_partial.

Theorem c07_uid_rules_inside_expunge_partial : forall d ids k,
  Inv (d_st d) -> Inv (d_st (run_steps d (firstn k (map MDelLink ids)))).
Proof. exact expunge_crash_states. Qed.
Print Assumptions c07_uid_rules_inside_expunge_partial.

(** ---- (a)+(e) usable stores, logins and deliveries succeed again ------------------ *)

(** outside the two finding classes every crash state is usable ... *)
Theorem c07_usable_outside_classes : forall h k,
  classify h k = None -> usable (crash_at absent h k) = true.
Proof. exact outside_classes_usable. Qed.
Print Assumptions c07_usable_outside_classes.

(** ... a usable state is reopened by the next login (OK, all tables, INBOX) ... *)
Theorem c07_usable_reopens : forall c t1 t2 t3 t4 t5,
  usable c = true ->
  snd (big c (COpen t1 t2 t3 t4 t5)) = ROk /\
  ready (fst (big c (COpen t1 t2 t3 t4 t5))) = true /\
  has_inbox (fst (big c (COpen t1 t2 t3 t4 t5))) = true /\
  d_file (fst (big c (COpen t1 t2 t3 t4 t5))) = true.
Proof. exact usable_reopens. Qed.
Print Assumptions c07_usable_reopens.

(** ... and a delivery into an existing mailbox of a reopened store is accepted,
    adds one link and leaves every listed message complete, provided the
    mailbox's uid_next is not stale ([add_ok]; C03's invariant gives it:
    [c07_uid_rules_give_add_ok]) *)
Theorem c07_recovered_delivery_accepted : forall d f t sh t1 t2 t3 t4 t5 m,
  WF d -> d_file d = true -> ready d = true ->
  find_name (d_st d) f = Some m -> add_ok (d_st d) (mb_id m) = true ->
  let dr := big d (CDeliver f t sh t1 t2 t3 t4 t5) in
  snd dr = ROk /\ links_complete (fst dr) /\
  length (links (d_st (fst dr))) = S (length (links (d_st d))).
Proof. exact ready_deliver_ok. Qed.
Print Assumptions c07_recovered_delivery_accepted.

Theorem c07_uid_rules_give_add_ok : forall s m, Inv s -> In m (mboxes s) -> add_ok s (mb_id m) = true.
Proof. exact inv_add_ok. Qed.
Print Assumptions c07_uid_rules_give_add_ok.

(** ---- (f) a clean stop and restart loses nothing ------------------------------------ *)

Theorem c07_clean_stop_is_full_prefix : forall d h,
  crash_at d h (length (all_steps d h)) = run_all d h.
Proof. exact crash_full. Qed.
Print Assumptions c07_clean_stop_is_full_prefix.

Theorem c07_reopen_changes_nothing : forall d t1 t2 t3 t4 t5,
  d_file d = true -> big d (COpen t1 t2 t3 t4 t5) = (d, ROk) /\ micro d (COpen t1 t2 t3 t4 t5) = [].
Proof. exact reopen_id. Qed.
Print Assumptions c07_reopen_changes_nothing.

(** ---- refuted: store creation is not crash-safe ------------------------------------- *)

(** a store whose file exists without the essential tables is never repaired:
    GetUserDB skips initUserDB because the file exists *)
Theorem c07_torn_store_stays_torn : forall h c,
  d_file c = true -> ready c = false -> run_all c h = c.
Proof. exact torn_forever. Qed.
Print Assumptions c07_torn_store_stays_torn.

Theorem c07_refuted_store_creation_torn_schema :
  exists h k, classify h k = Some CTornSchema /\
    (forall h', run_all (crash_at absent h k) h' = crash_at absent h k) /\
    (forall f t sh t1 t2 t3 t4 t5,
        snd (big (crash_at absent h k) (CDeliver f t sh t1 t2 t3 t4 t5)) = RNo) /\
    recovers_b (crash_at absent h k) 200 W_SHAPE = false.
Proof. exact refuted_torn_schema. Qed.
Print Assumptions c07_refuted_store_creation_torn_schema.

Theorem c07_refuted_store_creation_no_inbox :
  exists h k, classify h k = Some CNoInbox /\
    (forall t1 t2 t3 t4 t5,
        has_inbox (fst (big (crash_at absent h k) (COpen t1 t2 t3 t4 t5))) = false) /\
    recovers_b (crash_at absent h k) 200 W_SHAPE = false.
Proof. exact refuted_no_inbox. Qed.
Print Assumptions c07_refuted_store_creation_no_inbox.

(** ---- non-vacuity ---------------------------------------------------------------------- *)

(** a workload with every kind of operation has 74 crash points; points 1..27
    (inside store creation, before INSERT INBOX) are classified, all others
    are usable and recover (login OK, INBOX there, delivery accepted, all
    listed messages complete) *)
Example c07_mixed_workload :
  length (all_points W_MIXED) = 74%nat /\
  map (fun k => class_code (classify W_MIXED k)) (firstn 33 (all_points W_MIXED))
    = [0; 1; 1; 1; 1; 1; 1; 1; 1; 1; 2; 2; 2; 2; 2; 2; 2; 2; 2; 2; 2; 2; 2; 2; 2; 2; 2; 2; 0; 0; 0; 0; 0] /\
  forallb (fun k => match classify W_MIXED k with
                    | None => recovers_b (crash_at absent W_MIXED k) 200 W_SHAPE
                    | Some _ => negb (recovers_b (crash_at absent W_MIXED k) 200 W_SHAPE)
                    end) (all_points W_MIXED) = true /\
  forallb op_plain W_MIXED = true.
Proof. vm_compute. repeat split. Qed.
