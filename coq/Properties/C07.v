(** C07 — A crash at any instant leaves usable stores and keeps acknowledged work.
    Statements only; every proof is [exact <lemma>].

    Model (Model/Micro.v): every operation of raven on a per-user store is the
    list of its ATOMIC DURABLE MICRO-STEPS ([micro d o]: one autocommit SQL
    statement or one committed transaction each, in the statement order of the
    Go code).  HYPOTHESIS OF THE MODEL (SQLite, outside the proof): when the
    process dies, the database file holds the effects of exactly a prefix of
    the statements/transactions issued so far.  Under it, the durable state at
    crash point [k] of workload [h] is [crash_at d h k]; restart = the next
    GetUserDB ([COpen]: initUserDB runs at every open, all its statements are
    idempotent, the default mailboxes are one transaction on an empty table —
    the code after fixes/store-init-idempotent.patch).
    All theorems quantify over ALL workloads [h] (lists of [cop]: first
    contact, deliveries, APPEND with any message shape incl. out-of-line parts,
    UID COPY, COPY, UID STORE incl. the Junk move, EXPUNGE, CLOSE, CREATE,
    DELETE, RENAME incl. RENAME INBOX, SUBSCRIBE, UNSUBSCRIBE) and ALL crash
    points [k]. *)
From Coq Require Import String Ascii List Bool ZArith Arith.
From Raven Require Import Base.GoStr Model.Store Model.Ops Model.Micro Model.MicroView Spec.UidSpec Spec.Crash
  Proof.StoreInv Proof.MicroRefine Proof.MicroBase Proof.MicroWF Proof.MicroInbox Proof.MicroCrash Proof.MicroUid.
Import ListNotations.
Local Open Scope Z_scope.

(** ---- the micro-step lists ARE the operations ------------------------------------ *)

(** executing the micro-steps of an operation one by one gives the state the
    big-step operation gives (for the mailbox / link tables: Model/Ops.v's
    [step], the model of C03, for every operation incl. CREATE / RENAME with
    parents and the UIDVALIDITY allocator).  Unconditional. *)
Theorem c07_micro_refines : forall d o,
  WF d -> run_steps d (micro d o) = fst (big d o).
Proof. exact refines. Qed.
Print Assumptions c07_micro_refines.

Theorem c07_workload_refines : forall h d,
  WF d -> run_all d h = big_all d h.
Proof. exact run_all_big. Qed.
Print Assumptions c07_workload_refines.

(** ---- (b) every listed message is complete, at every crash point ------------------ *)

(** the prefix invariant ("link last"): whatever the workload and wherever the
    process dies, every row of message_mailbox refers to a message all of whose
    header, address and part rows are present; link row ids and message ids
    are unique *)
Theorem c07_prefix_invariant : forall h k, WF (crash_at absent h k).
Proof. exact crash_links_complete. Qed.
Print Assumptions c07_prefix_invariant.

Theorem c07_prefix_invariant_from : forall h k d, WF d -> WF (crash_at d h k).
Proof. exact crash_WF. Qed.
Print Assumptions c07_prefix_invariant_from.

(** ---- (c) acknowledged work ----------------------------------------------------------- *)

(** a crash state is the state after a prefix [h1] of the workload executed
    COMPLETELY plus a proper prefix of the steps of the one operation in
    flight; an operation is acknowledged after its last step only, so every
    acknowledged operation is in [h1] and its whole effect ([c07_workload_refines])
    is in the recovered state *)
Theorem c07_crash_is_acked_prefix_plus_inflight : forall h d k,
  crash_at d h k = run_all d h \/
  exists h1 o h2 j, h = h1 ++ o :: h2 /\ (j < length (micro (run_all d h1) o))%nat /\
    crash_at d h k = run_steps (run_all d h1) (firstn j (micro (run_all d h1) o)).
Proof. exact crash_decomposition. Qed.
Print Assumptions c07_crash_is_acked_prefix_plus_inflight.

(** a crash between UPDATE uid_next and INSERT message_mailbox only skips a UID *)
Theorem c07_uid_gap_harmless : forall d msg mb fl m,
  find_id (d_st d) mb = Some m ->
  let c := run_steps d (firstn 1 (add_steps (d_st d) msg mb fl)) in
  links (d_st c) = links (d_st d) /\ find_id (d_st c) mb = Some (bump_row mb m) /\
  mb_next (bump_row mb m) = mb_next m + 1.
Proof. exact gap_state. Qed.
Print Assumptions c07_uid_gap_harmless.

(** a crash between the allocator statement (nextUIDValidityPerUser, raven
    da328ca) and the INSERT of CreateMailboxPerUser leaves the high-water mark
    advanced and nothing else: no mailbox, link, log entry, message or
    subscription changed; the next stamp handed out is strictly larger than the
    one that was burnt; C03's invariant survives — a skipped stamp, harmless
    like the skipped UID of [c07_uid_gap_harmless] *)
Theorem c07_validity_gap_harmless : forall d n t,
  ready d = true ->
  let c := run_steps d (firstn 1 (create_steps (d_st d) n t)) in
  mboxes (d_st c) = mboxes (d_st d) /\ links (d_st c) = links (d_st d) /\ glog (d_st c) = glog (d_st d) /\
  d_msgs c = d_msgs d /\ d_subs c = d_subs d /\
  vhigh (d_st c) = next_validity (d_st d) t /\
  (forall t', next_validity (d_st d) t < next_validity (d_st c) t') /\
  (Inv (d_st d) -> Inv (d_st c)).
Proof. exact validity_gap_state. Qed.
Print Assumptions c07_validity_gap_harmless.

(** ---- (d) the UID rules inside an operation (partial) ------------------------------- *)

(** PARTIAL: C03 proves its invariant [Inv] (UIDs unique, ascending, UIDNEXT
    above everything ever visible) at operation boundaries of clean histories;
    here it is carried into the crash states inside the operations that have
    more than one step touching mailboxes/links and are in C03's scope: after
    the message rows, after "UPDATE uid_next" alone, after the link
    (delivery, APPEND), and after any subset of an EXPUNGE's DELETEs.  Not
    covered: a UID STORE interrupted between two messages, RENAME INBOX between
    its two statements, CREATE/RENAME between parent INSERTs (outside C03's
    hierarchy-free scope anyway). *)
Theorem c07_uid_rules_inside_add_message_partial : forall s msg mb fl m,
  Inv s -> find_id s mb = Some m -> msg < next_msg s ->
  Inv (fst (store_message s)) /\ Inv (bump s mb) /\ Inv (fst (add_message s msg mb fl)).
Proof. exact add_message_crash_states. Qed.
Print Assumptions c07_uid_rules_inside_add_message_partial.

Theorem c07_uid_rules_inside_expunge_partial : forall d ids k,
  Inv (d_st d) -> Inv (d_st (run_steps d (firstn k (map MDelLink ids)))).
Proof. exact expunge_crash_states. Qed.
Print Assumptions c07_uid_rules_inside_expunge_partial.

(** ---- (a)+(e) usable stores, logins and deliveries succeed again ------------------ *)

(** For EVERY workload and EVERY crash point — including every point inside
    store creation — the next GetUserDB (login, or the head of a delivery)
    answers OK and leaves a store with its file, all tables and an INBOX.
    (Before fixes/store-init-idempotent.patch this failed for the crash
    points inside store creation: Example [c07_old_store_creation_was_torn].) *)
Theorem c07_every_crash_state_reopens : forall h k t1 t2 t3 t4 t5,
  snd (big (crash_at absent h k) (COpen t1 t2 t3 t4 t5)) = ROk /\
  usable (fst (big (crash_at absent h k) (COpen t1 t2 t3 t4 t5))) = true.
Proof. exact every_crash_state_reopens. Qed.
Print Assumptions c07_every_crash_state_reopens.

(** the mailbox table at every crash point: row ids unique; INBOX exists unless
    the table is still empty (nothing deletes or renames the INBOX row); no
    rows without a file *)
Theorem c07_inbox_survives_every_crash : forall h k, MB (crash_at absent h k).
Proof. exact (fun h k => crash_MB h k absent BI_absent). Qed.
Print Assumptions c07_inbox_survives_every_crash.

(** a delivery into an existing mailbox of a ready store is accepted, adds one
    link and leaves every listed message complete, provided the mailbox's
    uid_next is not stale ([add_ok]; C03's invariant gives it:
    [c07_uid_rules_give_add_ok]) *)
Theorem c07_recovered_delivery_accepted : forall d f t sh m,
  WF d -> ready d = true ->
  find_name (d_st d) f = Some m -> add_ok (d_st d) (mb_id m) = true ->
  let dr := big d (CDeliver f t sh) in
  snd dr = ROk /\ links_complete (fst dr) /\
  length (links (d_st (fst dr))) = S (length (links (d_st d))).
Proof. exact ready_deliver_ok. Qed.
Print Assumptions c07_recovered_delivery_accepted.

Theorem c07_uid_rules_give_add_ok : forall s m, Inv s -> In m (mboxes s) -> add_ok s (mb_id m) = true.
Proof. exact inv_add_ok. Qed.
Print Assumptions c07_uid_rules_give_add_ok.

(** ---- (f) a clean stop and restart loses nothing ------------------------------------ *)

Theorem c07_clean_stop_is_full_prefix : forall d h,
  crash_at d h (length (all_steps d h)) = run_all d h.
Proof. exact crash_full. Qed.
Print Assumptions c07_clean_stop_is_full_prefix.

(** reopening a complete store (the 27 idempotent schema statements, no
    default-mailbox transaction) changes nothing *)
Theorem c07_reopen_changes_nothing : forall d t1 t2 t3 t4 t5,
  d_file d = true -> d_schema d = NSCHEMA -> mboxes (d_st d) <> [] ->
  big d (COpen t1 t2 t3 t4 t5) = (d, ROk) /\ run_steps d (micro d (COpen t1 t2 t3 t4 t5)) = d.
Proof. exact reopen_id. Qed.
Print Assumptions c07_reopen_changes_nothing.

(** at EVERY crash point and every clean stop of EVERY workload: if the mailbox
    table holds a row, the next GetUserDB leaves every row of the store as it
    is — mailboxes (names, UIDVALIDITY, UIDNEXT), links, messages,
    subscriptions; a default mailbox that was deleted or renamed away
    (acknowledged) does not come back.  The check compares the complete
    mailbox rows and subscriptions of every store before and after the first
    open of a restarted server (clean restarts inside traced workloads, and
    after every kill of the crash replay). *)
Theorem c07_reopen_keeps_every_row : forall h k t1 t2 t3 t4 t5,
  let c := crash_at absent h k in
  mboxes (d_st c) <> [] ->
  let d' := fst (big c (COpen t1 t2 t3 t4 t5)) in
  d_st d' = d_st c /\ d_msgs d' = d_msgs c /\ d_subs d' = d_subs c /\ d_deliv d' = d_deliv c
  /\ run_steps c (micro c (COpen t1 t2 t3 t4 t5)) = d'.
Proof. exact reopen_keeps_rows. Qed.
Print Assumptions c07_reopen_keeps_every_row.

(** ---- regression: the old store creation (before the fix) ---------------------------- *)

(** With the old GetUserDB ([old_open_steps]: nothing when the file exists) a
    process death after "create file" + 3 CREATE TABLE left a store that the
    old reopen never touched again (no steps, not ready); the repaired reopen
    completes it. *)
Example c07_old_store_creation_was_torn :
  let c := run_steps absent (firstn 4 (old_open_steps absent 100)) in
  old_open_steps c 200 = [] /\ ready c = false /\ recovers_b c 200 W_SHAPE = true.
Proof. vm_compute. repeat split. Qed.

(** ---- non-vacuity ---------------------------------------------------------------------- *)

(** a workload with every kind of operation: at each of its crash points a new
    login is OK, INBOX is there, a delivery is accepted and all listed messages
    are complete *)
Example c07_mixed_workload :
  length (all_points W_MIXED) = 74%nat /\
  forallb (fun k => recovers_b (crash_at absent W_MIXED k) 200 W_SHAPE) (all_points W_MIXED) = true.
Proof. vm_compute. repeat split. Qed.

(** the property's spec on an OBSERVED store ([crash_spec_b], Spec/Crash.v: every
    link of the acknowledged state still there unless the command in flight
    removes it, messages and mailboxes not lost, listed messages complete,
    nothing invented) — the check evaluates it on every recovered store.  It
    holds on every crash state of the model for workloads that copy from,
    expunge, rename and delete NON-EMPTY mailboxes, and it rejects the store a
    non-atomic DELETE leaves (mailbox 6 still listed, its two acknowledged
    messages gone) — the state of seeded change C07-3. *)
Example c07_observed_state_spec :
  spec_on_model_from absent W_MIXED = true /\
  spec_on_model_from absent W_REMOVE = true /\
  (let dA := run_all absent (firstn 9 W_REMOVE) in
   let dL := run_all absent (firstn 10 W_REMOVE) in
   length (links_named (d_st dA) (S_ "Arch2")) = 1%nat /\
   crash_spec_b dA dL [dA; dL] (obs_of dA) = true /\
   crash_spec_b dA dL [dA; dL] (obs_of dL) = true /\
   crash_spec_b dA dL [dA; dL] (obs_of (emptied dA 6)) = false /\
   lost_links dA dL (obs_of (emptied dA 6)) = [(6, 2, 3)]).
Proof. vm_compute. repeat split. Qed.
