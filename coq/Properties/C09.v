(** C09 — Sequence numbers, counts and expunge notices describe the same
    mailbox.  Statements only; every proof is [exact <lemma>] or a computed
    witness. *)
From Coq Require Import String Ascii List Bool Arith ZArith.
From Raven Require Import Base.GoStr Base.GoStrZ Model.SeqSet Model.Expunge Spec.SeqSet Spec.SeqSetFindings
  Proof.SeqSetStr Proof.SeqSetParse Proof.ExpungeReplay Proof.C09Findings Proof.JunkStore Proof.DeletedWord Proof.FetchSearchExact
  Model.Session Spec.SessionView Proof.SessionCount.
Import ListNotations.
Local Open Scope Z_scope.

(** (b) STORE and COPY (utils.ParseSequenceSetWithDB): every well-formed set
    (n, n:m, n:*, *, comma lists, reversed ranges; numbers < 2^32) addresses
    exactly the messages it denotes, for every mailbox size. *)
Theorem c09_store_set_exact : forall (s : seqset) (total i : Z),
  wf s = true -> 0 <= total <= max_int64 ->
  (In i (parse_seqset_db (print s) total) <-> In i (addressed s total)).
Proof. exact store_set_exact. Qed.
Print Assumptions c09_store_set_exact.

(** UID FETCH / UID STORE / UID COPY / UID EXPUNGE (utils.ParseUIDSequenceSetWithDB) *)
Theorem c09_uid_set_exact : forall (s : seqset) (uids : list Z) (u : Z),
  wf s = true -> Forall (fun u => 0 < u) uids ->
  (In u (parse_uidset_db (print s) uids) <-> In u (addressed_uids s uids)).
Proof. exact uid_set_exact. Qed.
Print Assumptions c09_uid_set_exact.

(** (c)+(d) EXPUNGE: exactly the rows matched by the \Deleted test go, and the
    untagged EXPUNGE numbers replayed in order on the old view give the new one *)
Theorem c09_expunge_replay : forall mbox : list msg,
  NoDup (map m_id mbox) ->
  let '(notices, mbox') := handle_expunge mbox in
  mbox' = filter (fun m => negb (sql_deleted (m_flags m))) mbox /\ replay notices mbox = mbox'.
Proof. exact expunge_replay. Qed.
Print Assumptions c09_expunge_replay.

Theorem c09_uid_expunge_replay : forall (set : str) (mbox : list msg),
  NoDup (map m_id mbox) ->
  let uids := parse_uidset_db set (map m_uid mbox) in
  let '(notices, mbox') := handle_uid_expunge set mbox in
  mbox' = filter (fun m => negb (uid_expunge_sel uids m)) mbox /\ replay notices mbox = mbox'.
Proof. exact uid_expunge_replay. Qed.
Print Assumptions c09_uid_expunge_replay.

(** ... and the SQL test is the \Deleted flag atom (case-insensitive) whenever
    the stored flag strings use the single blank as their only white space *)
Theorem c09_expunge_exact_deleted : forall mbox : list msg,
  NoDup (map m_id mbox) -> flags_blank_ws mbox = true ->
  snd (handle_expunge mbox) = filter (fun m => negb (has_deleted (m_flags m))) mbox
  /\ handle_close mbox = filter (fun m => negb (has_deleted (m_flags m))) mbox
  /\ replay (fst (handle_expunge mbox)) mbox = snd (handle_expunge mbox).
Proof. exact expunge_exact_deleted. Qed.
Print Assumptions c09_expunge_exact_deleted.

Theorem c09_sql_deleted_is_flag_atom : forall flags : str,
  blank_ws flags = true -> sql_deleted flags = has_deleted flags.
Proof. exact sql_deleted_is_flag_atom. Qed.
Print Assumptions c09_sql_deleted_is_flag_atom.

(** (a) the listings describe one mailbox: SEARCH ALL = 1..EXISTS, FETCH 1:*
    = rows numbered from 1, UID FETCH's rank is the position *)
Theorem c09_search_all_is_1_to_exists : forall mbox, search_all mbox = zrange 1 (exists_count mbox).
Proof. exact search_all_numbers. Qed.
Print Assumptions c09_search_all_is_1_to_exists.

Theorem c09_fetch_all_rows : forall uids, Z.of_nat (length uids) <= max_int64 ->
  fetch_inline (S_ "1:*") uids = Some (expected_fetch [Range (Num 1) Star] uids).
Proof. intros uids H. exact (fetch_set_exact [Range (Num 1) Star] uids eq_refl H). Qed.
Print Assumptions c09_fetch_all_rows.

Theorem c09_uid_rank_is_position : forall pre u post,
  ascending (pre ++ u :: post) -> rank_of (pre ++ u :: post) u = Z.of_nat (length pre) + 1.
Proof. exact rank_position. Qed.
Print Assumptions c09_uid_rank_is_position.

(** every history of appends, copies-in, flag changes, EXPUNGE, UID EXPUNGE,
    CLOSE leaves the rows in strictly ascending uid order *)
Theorem c09_history_ascending : forall h : list hop, ascending (map m_uid (rows (run_history h))).
Proof. exact history_ascending. Qed.
Print Assumptions c09_history_ascending.

(** STORE <set> +FLAGS (Junk) (auto-move, after d84f911): exactly the denoted
    messages leave the mailbox and the EXPUNGE numbers replay to the new view *)
Theorem c09_junk_store_exact : forall (s : seqset) (mbox : list msg),
  wf s = true -> Z.of_nat (length mbox) <= max_int64 ->
  ascending (map m_uid mbox) -> NoDup (map m_id mbox) ->
  let '(notices, ids, mbox') := handle_store_junk (print s) mbox in
  replay notices mbox = mbox'
  /\ forall m, In m mbox' <->
       (In m mbox /\ ~ exists i, In i (addressed s (Z.of_nat (length mbox))) /\ nth1 (map m_uid mbox) i 0 = m_uid m).
Proof. exact junk_store_exact. Qed.
Print Assumptions c09_junk_store_exact.

(** (b) FETCH <set> (HandleFetch resolves the set with ParseSequenceSetWithDB):
    for every well-formed set and every mailbox the untagged responses are
    exactly (i, uid of message i) for the denoted i, in ascending order, each once *)
Theorem c09_fetch_set_exact : forall (s : seqset) (uids : list Z),
  wf s = true -> Z.of_nat (length uids) <= max_int64 ->
  fetch_inline (print s) uids = Some (expected_fetch s uids).
Proof. exact fetch_set_exact. Qed.
Print Assumptions c09_fetch_set_exact.

(** SEARCH <set>: the matcher decides the denotation for every number, with "*"
    the largest number in use (message sequence numbers and, through
    matchesUIDSet, UIDs) ... *)
Theorem c09_search_matcher_exact : forall (s : seqset) (largest i : Z),
  wf s = true -> matches_sequence_set i (print s) largest = denote s largest i.
Proof. exact matches_set_exact. Qed.
Print Assumptions c09_search_matcher_exact.

(** ... hence SEARCH <set> returns exactly the denoted messages *)
Theorem c09_search_set_exact : forall (s : seqset) (total : Z),
  wf s = true -> search_set (print s) total = addressed s total.
Proof. exact search_set_exact. Qed.
Print Assumptions c09_search_set_exact.

(** UID SEARCH UID <set> (same evaluator and matcher since e09cd6b): exactly the denoted UIDs *)
Theorem c09_uidsearch_set_exact : forall (s : seqset) (uids : list Z),
  wf s = true -> uidsearch_set (print s) uids = addressed_uids s uids.
Proof. exact uidsearch_set_exact. Qed.
Print Assumptions c09_uidsearch_set_exact.

(** plain COPY as dispatched (fix F1): the handler reads the set argument, and
    addresses exactly the denoted messages; BAD only when nothing is addressed *)
Theorem c09_plain_copy_set_exact : forall (tag w mbox : str) (rest : list str) (s : seqset) (total : Z),
  wf s = true -> 0 <= total <= max_int64 ->
  match plain_copy (tag :: w :: print s :: mbox :: rest) total with
  | None => addressed s total = []
  | Some l => forall i, In i l <-> In i (addressed s total)
  end.
Proof. exact plain_copy_set_exact. Qed.
Print Assumptions c09_plain_copy_set_exact.

(** (d) across commands: the client of the observing session applies every
    untagged EXISTS / EXPUNGE strictly (an EXPUNGE must name a message it has).
    For EVERY trace of SELECT, NOOP, CHECK, EXPUNGE, UID EXPUNGE, STORE(Junk) and
    other commands, with ARBITRARY changes of the mailbox by deliveries and other
    sessions in between, outside the one bookkeeping class (an EXPUNGE notice for a
    message the session was never told about) its count equals
    the session's LastMessageCount after every command ... *)
Theorem c09_session_count_sync : forall (tr : list titem) (rows0 : list msg),
  let st := run_trace (Cmd CSelect :: tr) rows0 in
  t_cls st = None -> t_nodup st = true -> t_cnt st = Some (t_last st).
Proof. exact session_count_sync. Qed.
Print Assumptions c09_session_count_sync.

(** ... and therefore the server's count at every NOOP boundary: no addition
    (or removal) stays unannounced *)
Theorem c09_noop_boundary_count : forall (tr : list titem) (rows0 : list msg),
  let st := run_trace (Cmd CSelect :: tr ++ [Cmd CNoop]) rows0 in
  t_cls st = None -> t_nodup st = true -> t_cnt st = Some (count_of (t_rows st)).
Proof. exact noop_boundary_count. Qed.
Print Assumptions c09_noop_boundary_count.

Definition session_refuted (cls : sfinding) : Prop := exists tr rows0,
  let st := run_trace (Cmd CSelect :: tr ++ [Cmd CNoop]) rows0 in
  t_cls st = Some cls /\ t_nodup st = true /\ t_cnt st <> Some (count_of (t_rows st)).

Definition m_ (i : Z) (f : str) : msg := {| m_id := i; m_uid := i; m_flags := f |}.

Theorem c09_refuted_expunge_unannounced : exists tr rows0,
  let st := run_trace (Cmd CSelect :: tr) rows0 in
  t_cls st = Some SF_expunge_unannounced /\ t_nodup st = true /\ t_cnt st = None.
Proof. exists [Ext [m_ 1 []; m_ 2 (S_ "\Deleted")]; Cmd CExpunge], [m_ 1 []]. vm_compute. repeat split; reflexivity. Qed.
Print Assumptions c09_refuted_expunge_unannounced.

(** ---- refutations: every remaining finding class contains a violating input ---- *)
Theorem c09_refuted_noop_notices : exists old new,
  classify_noop old new = Some F_noop_notices /\ noop_ok old new = false.
Proof. exists [1;2;3], [2;3]. vm_compute. split; reflexivity. Qed.
Print Assumptions c09_refuted_noop_notices.

(** ---- regression facts about the repaired defects (old behaviour) ---- *)
Example c09_regression_copy_word_is_no_set : forall total, parse_seqset_db (S_ "COPY") total = [].
Proof. exact copy_word_is_no_set. Qed.
Example c09_copy_example :
  plain_copy [S_ "a"; S_ "COPY"; S_ "3:1,2"; S_ "Sent"] 5 = Some [1; 2; 3; 2]
  /\ fetch_inline (S_ "3") [4; 6; 9] = Some [(3, 9)]
  /\ fetch_inline (S_ "*") [4; 6; 9] = Some [(3, 9)] /\ fetch_inline (S_ "3:1,2") [4; 6; 9] = Some [(1, 4); (2, 6); (3, 9)]
  /\ fetch_inline (S_ "7:*") [4; 6; 9] = Some [(3, 9)] /\ fetch_inline (S_ "1:") [4; 6; 9] = None
  /\ search_set (S_ "*:2,9") 3 = [2; 3].
Proof. vm_compute. repeat split; reflexivity. Qed.

Example c09_regression_deletedx_not_selected :
  sql_deleted (S_ "\DeletedX") = false /\ sql_deleted (S_ "\Seen \Deleted") = true
  /\ sql_deleted (S_ "\Seen \DELETED") = true /\ sql_deleted (S_ "\deleted") = true
  /\ (let mb := [{| m_id := 1; m_uid := 1; m_flags := [] |}; {| m_id := 2; m_uid := 2; m_flags := [] |}; {| m_id := 3; m_uid := 3; m_flags := [] |}] in
      handle_store_junk (S_ "1:2") mb = ([1; 1], [1; 2], [{| m_id := 3; m_uid := 3; m_flags := [] |}])).
Proof. vm_compute. repeat split; reflexivity. Qed.

(** the seeded change "EXPUNGE resynchronises LastMessageCount from the database"
    is excluded by the model: an addition pending at the EXPUNGE is announced by the next NOOP *)
Example c09_pending_exists_survives_expunge :
  let st := run_trace [Cmd CSelect; Ext [m_ 1 (S_ "\Deleted"); m_ 2 []; m_ 3 []]; Cmd CExpunge; Cmd CNoop] [m_ 1 []; m_ 2 []] in
  t_cls st = None /\ t_last st = 2 /\ t_cnt st = Some 2 /\ map m_uid (t_rows st) = [2; 3]
  /\ sess_step CNoop [m_ 2 []; m_ 3 []] 1 = ([NExists 2], [m_ 2 []; m_ 3 []], 2).
Proof. vm_compute. repeat split; reflexivity. Qed.

(** CHECK leaves the count alone and the Junk auto-move takes its message off it:
    the next NOOP announces the pending addition once and no removal twice *)
Example c09_regression_check_and_junk :
  (let st := run_trace [Cmd CSelect; Ext [m_ 1 []; m_ 2 []]; Cmd CCheck; Cmd CNoop] [m_ 1 []] in
   t_cls st = None /\ t_cnt st = Some 2 /\ t_last st = 2)
  /\ (let st := run_trace [Cmd CSelect; Cmd (CJunk (S_ "1")); Cmd CNoop] [m_ 1 []; m_ 2 []] in
      t_cls st = None /\ t_cnt st = Some 1 /\ t_last st = 1 /\ map m_uid (t_rows st) = [2])
  /\ sess_step CNoop [m_ 2 []] 1 = ([], [m_ 2 []], 1).
Proof. vm_compute. repeat split; reflexivity. Qed.

(** ---- non-vacuity ---- *)
Example c09_wf_example : wf [Range (Num 4) (Num 2); One Star; Range (Num 7) Star] = true.
Proof. reflexivity. Qed.
Example c09_store_example :
  parse_seqset_db (print [Range (Num 4) (Num 2); One Star; Range (Num 7) Star]) 5 = [2; 3; 4; 5; 5]
  /\ addressed [Range (Num 4) (Num 2); One Star; Range (Num 7) Star] 5 = [2; 3; 4; 5].
Proof. vm_compute. split; reflexivity. Qed.
Example c09_expunge_example :
  let mb := [{| m_id := 10; m_uid := 2; m_flags := S_ "\Deleted" |}; {| m_id := 11; m_uid := 5; m_flags := S_ "\Seen" |};
             {| m_id := 12; m_uid := 9; m_flags := S_ "\Seen \Deleted" |}] in
  fst (handle_expunge mb) = [1; 2] /\ map m_uid (snd (handle_expunge mb)) = [5] /\ flags_blank_ws mb = true.
Proof. vm_compute. repeat split; reflexivity. Qed.
Example c09_history_example :
  map m_uid (rows (run_history [HAppend []; HAppend (S_ "\Deleted"); HAppend []; HExpunge; HCopyIn []; HAppend []])) = [1; 3; 4; 5].
Proof. vm_compute. reflexivity. Qed.
