(** C18 — LIST/LSUB wildcard matching follows RFC 3501 and stays polynomial.
    Statements only; every proof is [exact <lemma>]. *)
From Coq Require Import String Ascii List Bool Arith.
From Raven Require Import Base.GoStr Model.Pattern Spec.Match Proof.Pattern Proof.PatternFilter Proof.PatternLsub.
Import ListNotations.

(** The matcher (model of utils.doWildcardMatch) decides the RFC 3501 relation
    for ALL patterns and names over all 256 byte values. *)
Theorem c18_match_correct : forall p t : str, dp_match t p = true <-> Matches p t.
Proof. exact dp_match_correct. Qed.
Print Assumptions c18_match_correct.

(** The replaced recursive matcher computed the same function (the fix F18
    changed cost, not results). *)
Theorem c18_same_as_recursive : forall t p : str, dp_match t p = wm p t.
Proof. exact dp_match_wm. Qed.
Print Assumptions c18_same_as_recursive.

(** LIST returns exactly the names that match reference+pattern, INBOX
    case-insensitively. Hypothesis: no stored name other than INBOX
    upper-cases to INBOX (see KNOWN_FINDINGS class inbox_twin of C11). *)
Theorem c18_filter_exact : forall (ns : list str) (reference pattern n : str),
  (forall m, In m ns -> to_upper m = INBOX -> m = INBOX) ->
  In n (filter_mailboxes ns reference pattern) <->
  (In n ns \/ n = INBOX) /\ MatchesI (build_canonical_pattern reference pattern) n.
Proof. exact filter_mailboxes_exact. Qed.
Print Assumptions c18_filter_exact.

(** reference + pattern composition *)
Theorem c18_canon_absolute : forall reference pattern : str,
  has_prefix pattern [delim] = true -> build_canonical_pattern reference pattern = pattern.
Proof. exact canon_absolute. Qed.
Print Assumptions c18_canon_absolute.

Theorem c18_canon_empty_reference : forall pattern : str, build_canonical_pattern [] pattern = pattern.
Proof. exact canon_empty_reference. Qed.
Print Assumptions c18_canon_empty_reference.

Theorem c18_canon_relative : forall reference pattern : str,
  has_prefix pattern [delim] = false -> reference <> [] ->
  build_canonical_pattern reference pattern =
  if has_suffix reference [delim] then reference ++ pattern else reference ++ [delim] ++ pattern.
Proof. exact canon_relative. Qed.
Print Assumptions c18_canon_relative.

(** Cost: the number of row cells the matcher writes is at most
    (|pattern|+1) * (|name|+1), for every pattern and name. *)
Theorem c18_cost_quadratic : forall p t : str, row_cost p t <= S (length p) * S (length t).
Proof. exact row_cost_bound. Qed.
Print Assumptions c18_cost_quadratic.

(** LSUB: besides the subscribed names that match (c18_filter_exact applied to
    the subscription list), the names answered with \Noselect are exactly the
    proper ancestors of subscribed names that are not themselves subscribed and
    match reference+pattern, and only for a pattern containing '%'. *)
Theorem c18_lsub_implied_exact : forall (subs : list str) (reference pattern n : str),
  to_upper n <> INBOX ->
  (In n (lsub_implied subs reference pattern) <->
   In pct pattern /\ ~ In n subs /\
   (exists m rest, In m subs /\ m = n ++ delim :: rest) /\
   Matches (build_canonical_pattern reference pattern) n).
Proof. exact lsub_implied_exact. Qed.
Print Assumptions c18_lsub_implied_exact.

Theorem c18_lsub_implied_inbox_variant : forall (subs : list str) (reference pattern n : str),
  to_upper n = INBOX -> In n (lsub_implied subs reference pattern) ->
  Matches (to_upper (build_canonical_pattern reference pattern)) INBOX.
Proof. exact lsub_implied_inbox_variant. Qed.
Print Assumptions c18_lsub_implied_inbox_variant.

Theorem c18_lsub_no_pct : forall (subs : list str) (reference pattern : str),
  ~ In pct pattern -> lsub_implied subs reference pattern = [].
Proof. exact lsub_no_pct. Qed.
Print Assumptions c18_lsub_no_pct.

Theorem c18_lsub_plain_exact : forall (subs : list str) (reference pattern n : str),
  (forall m, In m subs -> to_upper m = INBOX -> m = INBOX) ->
  (In n (snd (lsub_names subs reference pattern)) <->
   In n subs /\ MatchesI (build_canonical_pattern reference pattern) n).
Proof. exact lsub_plain_exact. Qed.
Print Assumptions c18_lsub_plain_exact.

(** role mailboxes in LIST and LSUB: the names answered below "Roles" are
    exactly the paths Roles/<address>/<mailbox>, Roles/<address> and Roles of
    the assigned role stores that match reference+pattern *)
Theorem c18_role_names_exact : forall (roles : list (str * list str)) (reference pattern n : str),
  (forall m, In m (role_paths roles) -> to_upper m = INBOX -> m = INBOX) ->
  (In n (role_names roles reference pattern) <->
   In n (role_paths roles) /\ has_prefix n ROLES = true /\
   MatchesI (build_canonical_pattern reference pattern) n).
Proof. exact role_names_exact. Qed.
Print Assumptions c18_role_names_exact.

Example c18_role_names_example :
  role_names [(S_ "p@x", [S_ "INBOX"; S_ "Projects/2024"])] (S_ "Roles/p@x/") (S_ "%") = [S_ "Roles/p@x/INBOX"].
Proof. vm_compute. reflexivity. Qed.

Example c18_lsub_example :
  lsub_names [S_ "Foo/Bar/Baz"; S_ "Foo/Qux"] (S_ "Foo/") (S_ "%") = ([S_ "Foo/Bar"], [S_ "Foo/Qux"]).
Proof. vm_compute. reflexivity. Qed.

(** non-vacuity: a concrete list meeting the hypothesis of [c18_filter_exact],
    and the adversarial family on which the recursive matcher needed more than
    (|p|+1)^2 (|t|+1)^2 activations while the row matcher stays below its bound *)
Example c18_filter_example :
  filter_mailboxes [S_ "INBOX"; S_ "a/b"; S_ "c"] [] (S_ "%") = [S_ "INBOX"; S_ "c"].
Proof. vm_compute. reflexivity. Qed.

Example c18_recursive_was_superpolynomial :
  let p := S_ "*a*a*a*a*a*a*a*a*b" in let t := S_ "aaaaaaaaaaaaaaaaaaaaaaaa" in
  Nat.ltb (S (length p) * S (length p) * S (length t) * S (length t)) (wm_calls p t) = true
  /\ Nat.leb (row_cost p t) (S (length p) * S (length t)) = true.
Proof. vm_compute. split; reflexivity. Qed.
