(** C12 — No input can take a service down.
    Statements only; every proof is [exact <lemma>].

    Function layer: [None] = Go run-time panic.  After the fix wave
    (fixes/c12-2 … c12-7) every modelled hand-written slicing function is
    TOTAL: it panics on no input — all byte strings, all integers.  (Before
    the fixes each theorem carried a hypothesis [classify x = None] and a
    [c12_refuted_…] witness; the finding classes are gone.)
    Service layer: for ANY table of go statements satisfying [facts_ok]
    (regenerated from the Go AST on every run as Gen.FactsC12.table) a panic
    of whatever origin costs at most the offending connection.  After fix
    c12-1 the regenerated table satisfies [facts_ok]; the run proves
    [isolated Gen.FactsC12.table] from the theorem below (cases file of the
    suite `service`, re-checked by coqc on every run). *)
From Coq Require Import String Ascii List Bool Arith ZArith.
From Raven Require Import Base.GoStr Model.Slicers Model.SearchOr Model.SearchCost Model.UserCreate Model.Service Model.StoreLock Spec.NoCrash
  Proof.Slicers Proof.SearchOr Proof.SearchCost Proof.UserCreate Proof.Service Proof.StoreLock Gen.FactsC12.
Import ListNotations.

(** ================= function layer ================= *)

(** response.parseAddressList: all byte strings, whatever net/mail.ParseAddressList answers
    ([mail_parse] is universally quantified) *)
Theorem c12_address_list_total : forall (mail_parse : str -> option (list (str * str))) (a : str),
  no_panic (parse_address_list mail_parse a).
Proof. exact parse_address_list_total. Qed.
Print Assumptions c12_address_list_total.

(** utils.ParseAddressList (comma splitting only) = the fallback *)
Theorem c12_address_list_fallback_total : forall a : str, no_panic (parse_fallback a).
Proof. exact parse_fallback_total. Qed.
Print Assumptions c12_address_list_fallback_total.

(** response.extractHeader / utils.ExtractHeader *)
Theorem c12_extract_header_total : forall raw name : str, no_panic (extract_header raw name).
Proof. exact extract_header_total. Qed.
Print Assumptions c12_extract_header_total.

(** response.BuildEnvelope on every stored message *)
Theorem c12_envelope_total : forall (mail_parse : str -> option (list (str * str))) (raw : str),
  no_panic (build_envelope mail_parse raw).
Proof. exact build_envelope_total. Qed.
Print Assumptions c12_envelope_total.

(** message.slicePartial: all data, all integers *)
Theorem c12_partial_arith_total : forall (p : str) (start len : Z), no_panic (partial_apply p start len).
Proof. exact partial_apply_total. Qed.
Print Assumptions c12_partial_arith_total.

(** … and it returns the RFC 3501 window: octets start .. start+len-1, truncated
    to the data, empty when start is at or beyond the end *)
Theorem c12_partial_arith_window : forall (p : str) (start len : Z),
  (0 <= start)%Z -> (0 <= len)%Z ->
  partial_apply p start len = Some (firstn (Z.to_nat len) (skipn (Z.to_nat start) p)).
Proof. exact partial_apply_window. Qed.
Print Assumptions c12_partial_arith_window.

(** FETCH item list (parseFetchItems / parseFetchItem, 4d6a9a4): every byte string is tokenised
    and every token read without a failing slice or index *)
Theorem c12_fetch_item_total : forall tok : str, no_panic (parse_fetch_item tok).
Proof. exact parse_fetch_item_total. Qed.
Print Assumptions c12_fetch_item_total.

Theorem c12_fetch_items_total : forall items : str, no_panic (parse_fetch_items items).
Proof. exact parse_fetch_items_total. Qed.
Print Assumptions c12_fetch_items_total.

(** headerFieldNames, splitMessage, the part number of BODY[n.MIME], and the range of an item
    applied to any data *)
Theorem c12_header_field_names_total : forall section : str, no_panic (header_field_names section).
Proof. exact header_field_names_total. Qed.
Print Assumptions c12_header_field_names_total.

Theorem c12_split_message_total : forall msg : str, no_panic (split_message msg).
Proof. exact split_message_total. Qed.
Print Assumptions c12_split_message_total.

Theorem c12_numeric_part_num_total : forall section : str, no_panic (numeric_part_num section).
Proof. exact numeric_part_num_total. Qed.
Print Assumptions c12_numeric_part_num_total.

Theorem c12_apply_partial_total : forall (it : fitem) (data : str), no_panic (apply_partial it data).
Proof. exact apply_partial_total. Qed.
Print Assumptions c12_apply_partial_total.

(** BuildBodyStructure, non-multipart branch: every stored message *)
Theorem c12_bodystructure_single_total : forall raw : str, no_panic (bs_single_body raw).
Proof. exact bs_single_body_total. Qed.
Print Assumptions c12_bodystructure_single_total.

(** SEARCH: the OR case of evaluateTokens, every token list and cursor *)
Theorem c12_search_or_total : forall (tokens : list str) (i : nat), no_panic (or_step tokens i).
Proof. exact or_step_total. Qed.
Print Assumptions c12_search_or_total.

(** ================= termination and cost ================= *)

(** db.GetOrCreateUserInitialized (LMTP delivery, IMAP LOGIN / AUTHENTICATE): for EVERY users
    table — rows may exist but be disabled — the function returns within 2 steps of its
    body (one suffices), ... *)
Theorem c12_user_creation_terminates : forall (t : list urow) (name : str) (dom : nat),
  exists t' r, UserCreate.run UserCreate.step 2 t name dom Start = (t', Done r).
Proof. exact get_or_create_terminates. Qed.
Print Assumptions c12_user_creation_terminates.

(** ... with "user not found" exactly when the key is taken by a row the lookup does not see *)
Theorem c12_user_creation_result : forall (t : list urow) (name : str) (dom : nat),
  snd (UserCreate.step t name dom Start) =
  match lookup t name dom with
  | Some id => Done (Found id)
  | None => if existsb (same_key name dom) t then Done NotFound else Done (Created (fresh_id t))
  end.
Proof. exact get_or_create_result. Qed.
Print Assumptions c12_user_creation_result.

(** a variant whose conflict branch starts the function over never returns on such a table
    (the seeded change C12-3; regression [Example restart_variant_spins] in Proof/UserCreate.v) *)
Theorem c12_user_creation_restart_diverges : forall (t : list urow) (name : str) (dom : nat),
  shadowed t name dom -> forall fuel, UserCreate.run UserCreate.step_restart fuel t name dom Start = (t, Start).
Proof. exact restart_never_returns. Qed.
Print Assumptions c12_user_creation_restart_diverges.

(** SEARCH: the table of key lengths of fix c12-8 (filled once, from the last token to the
    first) holds at every position what the recursive searchKeyLength computed — the fix
    changes no result — and costs one step per token *)
Theorem c12_search_key_lengths_correct : forall (l : list kind) (i : nat), nth i (lens l) 1 = klen (skipn i l).
Proof. exact lens_correct. Qed.
Print Assumptions c12_search_key_lengths_correct.

Theorem c12_search_key_lengths_linear : forall l : list kind, length (lens l) = length l /\ new_cost l <= 3 * length l.
Proof. exact (fun l => conj (lens_length l) (new_cost_linear l)). Qed.
Print Assumptions c12_search_key_lengths_linear.

(** ================= service layer ================= *)

(** any table in which every connection goroutine recovers: whatever the
    connections send and however their handlers panic, the process stays up
    and each connection observes exactly what it would observe alone *)
Theorem c12_service_isolated_of_facts : forall t : list entry,
  facts_ok t = true ->
  forall evs : list conn_event, from_table t evs -> run true evs = (true, map alone evs).
Proof. exact isolated_of_facts. Qed.
Print Assumptions c12_service_isolated_of_facts.

(** the table regenerated from the CURRENT tree: either it is isolated, or it
    names the connection goroutine that does not recover / the listener that
    was not found.  (Stated as a case split so that a tree that loses a
    recover still compiles and the run can show the failing session; the run
    itself proves [facts_ok table = true] and [isolated table].) *)
Theorem c12_service_status_now :
  if facts_ok FactsC12.table then isolated FactsC12.table
  else (exists e, In e FactsC12.table /\ e_conn e = true /\ recovers e = false)
       \/ (exists sv, In sv [Imap; Lmtp; Sasl] /\ existsb (serves sv) FactsC12.table = false).
Proof. exact (service_status FactsC12.table). Qed.
Print Assumptions c12_service_status_now.

(** without recover, ANY panicking command of ANY handler kills the process and
    every later connection gets nothing (why the recover is necessary) *)
Theorem c12_unrecovered_panic_kills :
  forall (e : entry) (h : handler) (cmds : list cmd) (later : list conn_event),
  recovers e = false ->
  (exists c, In c cmds /\ h c = None) ->
  fst (run true (mk_event e h cmds :: later)) = false
  /\ skipn 1 (snd (run true (mk_event e h cmds :: later)))
     = map (fun ev => mk_obs [] true (length (ev_cmds ev))) later.
Proof. exact unrecovered_panic_kills. Qed.
Print Assumptions c12_unrecovered_panic_kills.

(** ---- mutexes (DBManager.cacheMutex and the servers' mu): a function that takes a mutex its caller holds
    never returns, and nobody else gets the lock either ---- *)

(** for ANY facts without re-acquisition: every region that holds a mutex runs to its Unlock, whichever of
    its callees run (so GetUserDB / GetRoleMailboxDB / Close return on every path, error paths included) *)
Theorem c12_held_regions_complete_of_facts : forall (ls : list locker) (hs : list hold),
  locks_ok ls hs = true ->
  forall h, In h hs -> forall trace, trace_of h trace -> run_region ls (h_mutex h) trace = Some (length trace).
Proof. exact regions_complete. Qed.
Print Assumptions c12_held_regions_complete_of_facts.

(** a callee that takes the held mutex blocks the region for ever, whatever ran before it *)
Theorem c12_reacquisition_blocks : forall (ls : list locker) (h : hold) (c p : str) (before after : list str),
  In (c, p) (reacquired ls h) -> run_region ls (h_mutex h) (before ++ c :: after) = None.
Proof. exact reacquisition_blocks. Qed.
Print Assumptions c12_reacquisition_blocks.

(** the facts regenerated from the CURRENT tree: all held regions complete, or the offending call path *)
Theorem c12_store_lock_status_now :
  if locks_ok FactsC12.lockers FactsC12.holds
  then forall h, In h FactsC12.holds -> forall trace, trace_of h trace -> run_region FactsC12.lockers (h_mutex h) trace = Some (length trace)
  else exists h c p, In h FactsC12.holds /\ In (c, p) (reacquired FactsC12.lockers h).
Proof. exact (locks_status FactsC12.lockers FactsC12.holds). Qed.
Print Assumptions c12_store_lock_status_now.

(** ---- non-vacuity / examples ---- *)
Example c12_facts_ok_satisfiable :
  facts_ok [mk_entry (S_ "a.go:1") (S_ "h") Imap true true true;
            mk_entry (S_ "b.go:1") (S_ "h") Lmtp true true true;
            mk_entry (S_ "c.go:1") (S_ "h") Sasl true true true;
            mk_entry (S_ "d.go:1") (S_ "sig") Imap false true false] = true.
Proof. vm_compute. reflexivity. Qed.

Example c12_envelope_ok_example :
  option_map string_of_list_ascii (build_envelope (fun _ => None) (S_ "From: Ann <a@b>" ++ crlf ++ crlf))
  = Some "ENVELOPE (NIL NIL ((""Ann"" NIL ""a"" ""b"")) ((""Ann"" NIL ""a"" ""b"")) ((""Ann"" NIL ""a"" ""b"")) NIL NIL NIL NIL NIL)"%string.
Proof. vm_compute. reflexivity. Qed.

(** the former witnesses now have values *)
Example c12_former_witnesses :
  option_map string_of_list_ascii (parse_fallback (S_ ">a<")) = Some "((NIL NIL "">a<"" NIL))"%string
  /\ option_map string_of_list_ascii (parse_address_list (fun _ => Some [(S_ "x>", S_ "a@b@c")]) (S_ "x> <a@b@c>"))
     = Some "((""x>"" NIL ""a@b"" ""c""))"%string
  /\ option_map f_partial (parse_fetch_item (S_ "BODY[1]<1.9223372036854775807>")) = Some (Some (1, 9223372036854775807)%Z)
  /\ option_map f_partial (parse_fetch_item (S_ "BODY[TEXT]<3.-2>")) = Some None
  /\ option_map (map (fun it => string_of_list_ascii (f_sec it))) (parse_fetch_items (S_ "(FLAGS BODY[HEADER.FIELDS (a b)] BODY[HEADER.FIELDS"))
     = Some [""; "HEADER.FIELDS (a b)"; "HEADER.FIELDS"]%string
  /\ header_field_names (S_ "HEADER.FIELDS") = Some hf_defaults
  /\ bs_single_body (S_ "A: b" ++ crlf ++ S_ "C: d" ++ [LF; LF]) = Some []
  /\ or_step [S_ "OR"; S_ "KEYWORD"; S_ "x"] 0 = Some None
  /\ quote_or_nil (S_ "a" ++ [CR] ++ S_ "b") = S_ "{3}" ++ crlf ++ S_ "a" ++ [CR] ++ S_ "b".
Proof. vm_compute. repeat split; reflexivity. Qed.
