(** C12 — No input can take a service down.
    Statements only; every proof is [exact <lemma>].

    Function layer: [None] = Go run-time panic.  After the fix wave
    (fixes/c12-2 … c12-7) every modelled hand-written slicing function is
    TOTAL: it panics on no input — all byte strings, all integers.  (Before
    the fixes each theorem carried a hypothesis [classify x = None] and a
    [c12_refuted_…] witness; the finding classes are gone.)
    Service layer: for ANY table of go statements satisfying [facts_ok]
    (regenerated from the Go AST on every run as Gen.FactsC12.table) a panic
    of whatever origin costs at most the offending connection.  After fix
    c12-1 the regenerated table satisfies [facts_ok]; the run proves
    [isolated Gen.FactsC12.table] from the theorem below (cases file of the
    suite `service`, re-checked by coqc on every run). *)
From Coq Require Import String Ascii List Bool Arith ZArith.
From Raven Require Import Base.GoStr Model.Slicers Model.SearchOr Model.Service Spec.NoCrash
  Proof.Slicers Proof.SearchOr Proof.Service Gen.FactsC12.
Import ListNotations.

(** ================= function layer ================= *)

(** response.parseAddressList / utils.ParseAddressList, all byte strings *)
Theorem c12_address_list_total : forall a : str, no_panic (parse_address_list a).
Proof. exact parse_address_list_total. Qed.
Print Assumptions c12_address_list_total.

(** response.extractHeader / utils.ExtractHeader *)
Theorem c12_extract_header_total : forall raw name : str, no_panic (extract_header raw name).
Proof. exact extract_header_total. Qed.
Print Assumptions c12_extract_header_total.

(** response.BuildEnvelope on every stored message *)
Theorem c12_envelope_total : forall raw : str, no_panic (build_envelope raw).
Proof. exact build_envelope_total. Qed.
Print Assumptions c12_envelope_total.

(** message.slicePartial: all data, all integers *)
Theorem c12_partial_arith_total : forall (p : str) (start len : Z), no_panic (partial_apply p start len).
Proof. exact partial_apply_total. Qed.
Print Assumptions c12_partial_arith_total.

(** … and it returns the RFC 3501 window: octets start .. start+len-1, truncated
    to the data, empty when start is at or beyond the end *)
Theorem c12_partial_arith_window : forall (p : str) (start len : Z),
  (0 <= start)%Z -> (0 <= len)%Z ->
  partial_apply p start len = Some (firstn (Z.to_nat len) (skipn (Z.to_nat start) p)).
Proof. exact partial_apply_window. Qed.
Print Assumptions c12_partial_arith_window.

(** FETCH BODY[n]<…>: every text after the closing bracket, every part payload *)
Theorem c12_numeric_partial_total : forall rest payload : str, no_panic (numeric_partial rest payload).
Proof. exact numeric_partial_total. Qed.
Print Assumptions c12_numeric_partial_total.

(** FETCH BODY[TEXT]<…>: every item string, every body *)
Theorem c12_text_partial_total : forall items_upper body : str, no_panic (text_partial items_upper body).
Proof. exact text_partial_total. Qed.
Print Assumptions c12_text_partial_total.

(** FETCH … HEADER.FIELDS prefix arithmetic: every item string (all 256 byte
    values: the code now upper-cases ASCII letters only, which is [to_upper]) *)
Theorem c12_header_fields_total : forall items : str, no_panic (header_fields items).
Proof. exact header_fields_total. Qed.
Print Assumptions c12_header_fields_total.

(** BuildBodyStructure, non-multipart branch: every stored message *)
Theorem c12_bodystructure_single_total : forall raw : str, no_panic (bs_single_body raw).
Proof. exact bs_single_body_total. Qed.
Print Assumptions c12_bodystructure_single_total.

(** SEARCH: the OR case of evaluateTokens, every token list and cursor *)
Theorem c12_search_or_total : forall (tokens : list str) (i : nat), no_panic (or_step tokens i).
Proof. exact or_step_total. Qed.
Print Assumptions c12_search_or_total.

(** ================= service layer ================= *)

(** any table in which every connection goroutine recovers: whatever the
    connections send and however their handlers panic, the process stays up
    and each connection observes exactly what it would observe alone *)
Theorem c12_service_isolated_of_facts : forall t : list entry,
  facts_ok t = true ->
  forall evs : list conn_event, from_table t evs -> run true evs = (true, map alone evs).
Proof. exact isolated_of_facts. Qed.
Print Assumptions c12_service_isolated_of_facts.

(** the table regenerated from the CURRENT tree: either it is isolated, or it
    names the connection goroutine that does not recover / the listener that
    was not found.  (Stated as a case split so that a tree that loses a
    recover still compiles and the run can show the failing session; the run
    itself proves [facts_ok table = true] and [isolated table].) *)
Theorem c12_service_status_now :
  if facts_ok FactsC12.table then isolated FactsC12.table
  else (exists e, In e FactsC12.table /\ e_conn e = true /\ recovers e = false)
       \/ (exists sv, In sv [Imap; Lmtp; Sasl] /\ existsb (serves sv) FactsC12.table = false).
Proof. exact (service_status FactsC12.table). Qed.
Print Assumptions c12_service_status_now.

(** without recover, ANY panicking command of ANY handler kills the process and
    every later connection gets nothing (why the recover is necessary) *)
Theorem c12_unrecovered_panic_kills :
  forall (e : entry) (h : handler) (cmds : list cmd) (later : list conn_event),
  recovers e = false ->
  (exists c, In c cmds /\ h c = None) ->
  fst (run true (mk_event e h cmds :: later)) = false
  /\ skipn 1 (snd (run true (mk_event e h cmds :: later)))
     = map (fun ev => mk_obs [] true (length (ev_cmds ev))) later.
Proof. exact unrecovered_panic_kills. Qed.
Print Assumptions c12_unrecovered_panic_kills.

(** ---- non-vacuity / examples ---- *)
Example c12_facts_ok_satisfiable :
  facts_ok [mk_entry (S_ "a.go:1") (S_ "h") Imap true true true;
            mk_entry (S_ "b.go:1") (S_ "h") Lmtp true true true;
            mk_entry (S_ "c.go:1") (S_ "h") Sasl true true true;
            mk_entry (S_ "d.go:1") (S_ "sig") Imap false true false] = true.
Proof. vm_compute. reflexivity. Qed.

Example c12_envelope_ok_example :
  option_map string_of_list_ascii (build_envelope (S_ "From: Ann <a@b>" ++ crlf ++ crlf))
  = Some "ENVELOPE (NIL NIL ((""Ann"" NIL ""a"" ""b"")) ((""Ann"" NIL ""a"" ""b"")) ((""Ann"" NIL ""a"" ""b"")) NIL NIL NIL NIL NIL)"%string.
Proof. vm_compute. reflexivity. Qed.

(** the former witnesses now have values *)
Example c12_former_witnesses :
  option_map string_of_list_ascii (parse_address_list (S_ ">a<")) = Some "((NIL NIL "">a<"" NIL))"%string
  /\ option_map string_of_list_ascii (parse_address_list (S_ "x> <a@b>")) = Some "((""x>"" NIL ""a"" ""b""))"%string
  /\ numeric_partial (S_ "<1.9223372036854775807>") (S_ "body") = Some (S_ "ody")
  /\ text_partial (S_ "BODY[TEXT]<3.-2>") (S_ "hello") = Some []
  /\ header_fields (S_ "BODY[HEADER.FIELDS]") = Some (Some hf_defaults)
  /\ bs_single_body (S_ "A: b" ++ crlf ++ S_ "C: d" ++ [LF; LF]) = Some []
  /\ or_step [S_ "OR"; S_ "KEYWORD"; S_ "x"] 0 = Some None.
Proof. vm_compute. repeat split; reflexivity. Qed.

Example c12_partial_ok_example :
  option_map string_of_list_ascii (numeric_partial (S_ "<1.3>") (S_ "hello")) = Some "ell"%string.
Proof. vm_compute. reflexivity. Qed.
