(** C12 — No input can take a service down.
    Statements only; every proof is [exact <lemma>].

    Function layer: [None] = Go run-time panic.  For each hand-written slicing
    function: it panics on NO input outside its (decidable, narrow) finding
    class, and exactly on the class ([…_exact]); [c12_refuted_…] are computed
    witnesses that the class is inhabited on the tree as it is.
    Service layer: for ANY table of go statements satisfying [facts_ok]
    (regenerated from the Go AST on every run as Gen.FactsC12.table) a panic
    costs at most the offending connection. *)
From Coq Require Import String Ascii List Bool Arith ZArith.
From Raven Require Import Base.GoStr Model.Slicers Model.SearchOr Model.Service Spec.NoCrash
  Proof.Slicers Proof.SearchOr Proof.Service Gen.FactsC12.
Import ListNotations.

(** ================= function layer ================= *)

(** response.parseAddressList / utils.ParseAddressList, all byte strings *)
Theorem c12_address_list_total : forall a : str,
  classify_address_list a = None -> no_panic (parse_address_list a).
Proof. exact parse_address_list_total. Qed.
Print Assumptions c12_address_list_total.

Theorem c12_address_list_exact : forall a : str,
  parse_address_list a = None <-> classify_address_list a = Some AddressAngle.
Proof. exact parse_address_list_none_iff. Qed.
Print Assumptions c12_address_list_exact.

(** response.extractHeader / utils.ExtractHeader never panics *)
Theorem c12_extract_header_total : forall raw name : str, no_panic (extract_header raw name).
Proof. exact extract_header_total. Qed.
Print Assumptions c12_extract_header_total.

(** response.BuildEnvelope on every stored message *)
Theorem c12_envelope_total : forall raw : str,
  classify_envelope raw = None -> no_panic (build_envelope raw).
Proof. exact build_envelope_total. Qed.
Print Assumptions c12_envelope_total.

Theorem c12_envelope_panic_classified : forall raw : str,
  build_envelope raw = None -> classify_envelope raw = Some AddressAngle.
Proof. exact build_envelope_none_classified. Qed.
Print Assumptions c12_envelope_panic_classified.

(** FETCH BODY[n]<…>: every text after the closing bracket, every part payload *)
Theorem c12_numeric_partial_exact : forall rest payload : str,
  numeric_partial rest payload = None <-> classify_numeric_partial rest payload = Some PartialNegative.
Proof. exact numeric_partial_none_iff. Qed.
Print Assumptions c12_numeric_partial_exact.

Theorem c12_numeric_partial_total : forall rest payload : str,
  classify_numeric_partial rest payload = None -> no_panic (numeric_partial rest payload).
Proof. exact (fun r p => total_of_iff _ _ _ (numeric_partial_none_iff r p)). Qed.
Print Assumptions c12_numeric_partial_total.

(** the arithmetic itself, for all integers (Go int = wrap64) *)
Theorem c12_partial_arith_exact : forall (p : str) (start len : Z),
  partial_apply p start len = None <-> partial_bad p start len = true.
Proof. exact partial_apply_none_iff. Qed.
Print Assumptions c12_partial_arith_exact.

(** FETCH BODY[TEXT]<…>: every item string, every body *)
Theorem c12_text_partial_exact : forall items_upper body : str,
  text_partial items_upper body = None <-> classify_text_partial items_upper body = Some TextPartialNegative.
Proof. exact text_partial_none_iff. Qed.
Print Assumptions c12_text_partial_exact.

Theorem c12_text_partial_total : forall items_upper body : str,
  classify_text_partial items_upper body = None -> no_panic (text_partial items_upper body).
Proof. exact (fun i b => total_of_iff _ _ _ (text_partial_none_iff i b)). Qed.
Print Assumptions c12_text_partial_total.

(** FETCH … HEADER.FIELDS prefix arithmetic: every item string *)
Theorem c12_header_fields_exact : forall items : str,
  header_fields items = None <-> classify_header_fields items = Some HeaderFieldsShort.
Proof. exact header_fields_none_iff. Qed.
Print Assumptions c12_header_fields_exact.

Theorem c12_header_fields_total : forall items : str,
  classify_header_fields items = None -> no_panic (header_fields items).
Proof. exact (fun i => total_of_iff _ _ _ (header_fields_none_iff i)). Qed.
Print Assumptions c12_header_fields_total.

(** BuildBodyStructure, non-multipart branch: every stored message *)
Theorem c12_bodystructure_single_exact : forall raw : str,
  bs_single_body raw = None <-> classify_bs_single raw = Some BodystructureLfTail.
Proof. exact bs_single_body_none_iff. Qed.
Print Assumptions c12_bodystructure_single_exact.

Theorem c12_bodystructure_single_total : forall raw : str,
  classify_bs_single raw = None -> no_panic (bs_single_body raw).
Proof. exact (fun r => total_of_iff _ _ _ (bs_single_body_none_iff r)). Qed.
Print Assumptions c12_bodystructure_single_total.

(** SEARCH: the OR case of evaluateTokens, every token list and cursor *)
Theorem c12_search_or_exact : forall (tokens : list str) (i : nat),
  or_step tokens i = None <-> classify_or tokens i = Some SearchOrArity.
Proof. exact or_step_none_iff. Qed.
Print Assumptions c12_search_or_exact.

Theorem c12_search_or_total : forall (tokens : list str) (i : nat),
  classify_or tokens i = None -> no_panic (or_step tokens i).
Proof. exact (fun t i => total_of_iff _ _ _ (or_step_none_iff t i)). Qed.
Print Assumptions c12_search_or_total.

(** ---- the classes are inhabited on the tree as it is (known findings) ---- *)
Theorem c12_refuted_search_or_arity :
  exists tokens i, classify_or tokens i = Some SearchOrArity /\ or_step tokens i = None.
Proof. exists [S_ "OR"; S_ "KEYWORD"; S_ "x"], 0. vm_compute. split; reflexivity. Qed.
Print Assumptions c12_refuted_search_or_arity.

Theorem c12_refuted_address_angle :
  exists a, classify_address_list a = Some AddressAngle /\ parse_address_list a = None.
Proof. exists (S_ ">a<"). vm_compute. split; reflexivity. Qed.
Print Assumptions c12_refuted_address_angle.

Theorem c12_refuted_partial_negative :
  exists rest payload, classify_numeric_partial rest payload = Some PartialNegative
                       /\ numeric_partial rest payload = None.
Proof. exists (S_ "<-1.5>"), []. vm_compute. split; reflexivity. Qed.
Print Assumptions c12_refuted_partial_negative.

Theorem c12_refuted_partial_overflow :
  exists rest payload, classify_numeric_partial rest payload = Some PartialNegative
                       /\ numeric_partial rest payload = None.
Proof. exists (S_ "<1.9223372036854775807>"), (S_ "body"). vm_compute. split; reflexivity. Qed.
Print Assumptions c12_refuted_partial_overflow.

Theorem c12_refuted_text_partial_negative :
  exists items body, classify_text_partial items body = Some TextPartialNegative
                     /\ text_partial items body = None.
Proof. exists (S_ "BODY[TEXT]<3.-2>"), (S_ "hello"). vm_compute. split; reflexivity. Qed.
Print Assumptions c12_refuted_text_partial_negative.

Theorem c12_refuted_header_fields_short :
  exists items, classify_header_fields items = Some HeaderFieldsShort /\ header_fields items = None.
Proof. exists (S_ "BODY[HEADER.FIELDS]"). vm_compute. split; reflexivity. Qed.
Print Assumptions c12_refuted_header_fields_short.

Theorem c12_refuted_bodystructure_lf_tail :
  exists raw, classify_bs_single raw = Some BodystructureLfTail /\ bs_single_body raw = None.
Proof. exists (S_ "A: b" ++ crlf ++ S_ "C: d" ++ [LF; LF]). vm_compute. split; reflexivity. Qed.
Print Assumptions c12_refuted_bodystructure_lf_tail.

(** ================= service layer ================= *)

(** any table in which every connection goroutine recovers: whatever the
    connections send and however their handlers panic, the process stays up
    and each connection observes exactly what it would observe alone *)
Theorem c12_service_isolated_of_facts : forall t : list entry,
  facts_ok t = true ->
  forall evs : list conn_event, from_table t evs -> run true evs = (true, map alone evs).
Proof. exact isolated_of_facts. Qed.
Print Assumptions c12_service_isolated_of_facts.

(** the table regenerated from the CURRENT tree: either it is isolated, or it
    names the connection goroutine that does not recover / the listener that
    was not found *)
Theorem c12_service_status_now :
  if facts_ok FactsC12.table then isolated FactsC12.table
  else (exists e, In e FactsC12.table /\ e_conn e = true /\ recovers e = false)
       \/ (exists sv, In sv [Imap; Lmtp; Sasl] /\ existsb (serves sv) FactsC12.table = false).
Proof. exact (service_status FactsC12.table). Qed.
Print Assumptions c12_service_status_now.

(** without recover, ANY panicking command of ANY handler kills the process and
    every later connection gets nothing *)
Theorem c12_unrecovered_panic_kills :
  forall (e : entry) (h : handler) (cmds : list cmd) (later : list conn_event),
  recovers e = false ->
  (exists c, In c cmds /\ h c = None) ->
  fst (run true (mk_event e h cmds :: later)) = false
  /\ skipn 1 (snd (run true (mk_event e h cmds :: later)))
     = map (fun ev => mk_obs [] true (length (ev_cmds ev))) later.
Proof. exact unrecovered_panic_kills. Qed.
Print Assumptions c12_unrecovered_panic_kills.

(** the function-layer witness lifted to the service: FETCH ENVELOPE of a
    message with From: >a< on the pinned IMAP entry point, then a second
    connection that is no longer served *)
Theorem c12_refuted_service :
  recovers pinned_imap_entry = false
  /\ classify_envelope witness_message = Some AddressAngle
  /\ fst (run true witness_events) = false
  /\ snd (run true witness_events) <> map alone witness_events.
Proof. exact refuted_service_witness. Qed.
Print Assumptions c12_refuted_service.

(** ---- non-vacuity ---- *)
Example c12_facts_ok_satisfiable :
  facts_ok [mk_entry (S_ "a.go:1") (S_ "h") Imap true true true;
            mk_entry (S_ "b.go:1") (S_ "h") Lmtp true true true;
            mk_entry (S_ "c.go:1") (S_ "h") Sasl true true true;
            mk_entry (S_ "d.go:1") (S_ "sig") Imap false true false] = true.
Proof. vm_compute. reflexivity. Qed.

Example c12_envelope_ok_example :
  classify_envelope (S_ "From: Ann <a@b>" ++ crlf ++ crlf) = None
  /\ option_map string_of_list_ascii (build_envelope (S_ "From: Ann <a@b>" ++ crlf ++ crlf))
     = Some "ENVELOPE (NIL NIL ((""Ann"" NIL ""a"" ""b"")) ((""Ann"" NIL ""a"" ""b"")) ((""Ann"" NIL ""a"" ""b"")) NIL NIL NIL NIL NIL)"%string.
Proof. vm_compute. split; reflexivity. Qed.

Example c12_partial_ok_example :
  option_map string_of_list_ascii (numeric_partial (S_ "<1.3>") (S_ "hello")) = Some "ell"%string.
Proof. vm_compute. reflexivity. Qed.
