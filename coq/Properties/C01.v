(** C01 — An LMTP acceptance is a durable, per-recipient promise.
    Statements only; every proof is [exact <lemma>].

    [lmtp_data w folder rs p clk] (Model/Deliver.v) is Session.handleDATA from
    the parsed end-of-data on: world [w] of per-user / per-role stores,
    configured folder, RCPT list [rs] (duplicates allowed), the submitted
    message as the record [p] of what net/mail + mime answer for it, clock.
    It returns the new world, the replies, and the per-position attempts
    (world before / after, recipient, outcome).  [spec_C01] (Spec/DeliverSpec.v)
    is the reading of the property: one reply per position; a 2xx position added
    exactly one link, in the mailbox named by the target folder of the
    recipient's store, whose message reconstructs (BODY[] is served) with the
    submitted header/part rows, and touched no other store; a 4xx/5xx position
    changed no link anywhere. *)
From Coq Require Import String Ascii List Bool ZArith.
From Raven Require Import Base.GoStr Model.Store Model.Ops Model.Deliver Spec.UidSpec Spec.DeliverSpec
  Proof.DeliverStore Proof.DeliverWorld Proof.DeliverHist Proof.DeliverFresh Proof.DeliverCfg Proof.DeliverRefuted.
Import ListNotations.
Local Open Scope Z_scope.

(** ---- proved part --------------------------------------------------------------- *)

(** After EVERY history [h] — any interleaving of IMAP operations of Model/Ops.v
    on any store (APPEND, COPY, UID COPY, STORE incl. the Junk move, EXPUNGE,
    CLOSE, CREATE, DELETE, RENAME incl. RENAME INBOX; inside or outside C03's
    finding classes) and earlier LMTP transactions — for every folder,
    recipient list, message and clock: outside the one remaining (latent) class
    the property holds. *)
Theorem c01_accept_iff_visible : forall roles h folder rs p clk,
  classify (wrun h (w0 roles)) folder rs p clk = None ->
  spec_C01 (wrun h (w0 roles)) folder rs p clk.
Proof. exact c01_after_every_history_l. Qed.
Print Assumptions c01_accept_iff_visible.

(** the same for any world satisfying the invariant "message ids come from a
    counter" (which every history preserves: [c01_invariant_every_history]) *)
Theorem c01_accept_iff_visible_inv : forall w folder rs p clk,
  WInv w -> classify w folder rs p clk = None -> spec_C01 w folder rs p clk.
Proof. exact c01_accept_iff_visible_l. Qed.
Print Assumptions c01_accept_iff_visible_inv.

Theorem c01_invariant_every_history : forall roles h, WInv (wrun h (w0 roles)).
Proof. intros roles h. apply wrun_WInv, WInv_w0. Qed.
Print Assumptions c01_invariant_every_history.

(** a position answered 4xx/5xx adds nothing unless its reply is taken from
    another attempt (stated on the attempts, without the classifier) *)
Theorem c01_reject_adds_nothing : forall w folder rs p clk,
  WInv w ->
  let '(w', replies, atts) := lmtp_data w folder rs p clk in
  (forall a, In a atts -> mismatch (results_of atts) a = false) ->
  forall c a, In (c, a) (combine replies atts) -> is_2xx c = false -> rejected_ok a.
Proof. exact c01_reject_adds_nothing_l. Qed.
Print Assumptions c01_reject_adds_nothing.

(** one reply per recipient — unconditional since raven aeac4b2 (a refused
    message is answered 554 once per recipient) *)
Theorem c01_one_reply_per_recipient : forall w folder rs p clk,
  length (snd (fst (lmtp_data w folder rs p clk))) = length rs.
Proof. exact c01_one_reply_per_recipient_l. Qed.
Print Assumptions c01_one_reply_per_recipient.

(** class CDupLastResult is narrow: the reply of a position differs from the
    outcome of its own attempt only if the same recipient string occurs at a
    LATER position *)
Theorem c01_mismatch_needs_duplicate : forall (pre post : list attempt) (a : attempt),
  (forall b, In b post -> a_rcpt b <> a_rcpt a) ->
  mismatch (results_of (pre ++ a :: post)) a = false.
Proof. exact c01_mismatch_needs_duplicate_l. Qed.
Print Assumptions c01_mismatch_needs_duplicate.

(** ... and it cannot occur at all when UIDNEXT is truthful in every store: the
    outcome of an attempt is then a function of the recipient string.  Every
    operation keeps UIDNEXT truthful since raven 02d2f67 / 30e4be8 (C03), so
    the class is unreachable through the protocol. *)
Theorem c01_dup_class_needs_stale : forall w folder rs p clk,
  WFresh w -> target_folder folder p <> [] ->
  classify w folder rs p clk <> Some CDupLastResult.
Proof. exact c01_dup_class_needs_stale_l. Qed.
Print Assumptions c01_dup_class_needs_stale.

(** C01 on worlds with truthful UIDNEXT holds without any exclusion, for every
    message shape (a root multipart/* without boundary included, raven f7e0490) *)
Theorem c01_holds_when_fresh : forall w folder rs p clk,
  WInv w -> WFresh w -> target_folder folder p <> [] -> spec_C01 w folder rs p clk.
Proof. exact c01_holds_when_fresh_l. Qed.
Print Assumptions c01_holds_when_fresh.

(** ---- the blob-table write fails ---------------------------------------------------
    [p_blob_fail p = true]: while the message is stored, writes to shared.db's
    blobs table fail (lock held longer than the busy timeout, I/O fault) and
    everything else works.  The store step keeps an out-of-line part INLINE then. *)

(** where the octets are: never nowhere; in blobs exactly when the write worked *)
Theorem c01_blob_failure_kept_inline : forall id p np,
  m_lost (stored_rec id p np) = 0%nat /\
  m_blob (stored_rec id p np) = if p_blob_fail p then 0%nat else p_big p.
Proof. exact stored_rec_places. Qed.
Print Assumptions c01_blob_failure_kept_inline.

(** the per-recipient promise covers that branch: also when the blob write
    fails, a 2xx position has its message with every part's octets
    ([holds_submission] demands [m_lost = 0]) *)
Theorem c01_promise_under_blob_failure : forall roles h folder rs p clk,
  p_blob_fail p = true ->
  classify (wrun h (w0 roles)) folder rs p clk = None ->
  spec_C01 (wrun h (w0 roles)) folder rs p clk.
Proof. intros roles h folder rs p clk _. apply c01_after_every_history_l. Qed.
Print Assumptions c01_promise_under_blob_failure.

(** regression (seeded C01-3): clearing the inline copy before knowing that the
    blob row exists leaves the octets of every out-of-line part nowhere *)
Theorem c01_clear_before_blob_known_loses : forall id p np,
  p_blob_fail p = true ->
  m_lost (stored_rec_gen true id p np) = p_big p /\ m_blob (stored_rec_gen true id p np) = 0%nat.
Proof. exact clear_first_loses. Qed.
Print Assumptions c01_clear_before_blob_known_loses.
Example c01_clear_before_blob_known_example :
  let p := mkParsed true false 5 (MultiB 3) 2 true in
  m_lost (stored_rec 7 p 4) = 0%nat /\ m_blob (stored_rec 7 p 4) = 0%nat /\ m_lost (stored_rec_gen true 7 p 4) = 2%nat.
Proof. vm_compute. repeat split. Qed.

(** ---- every configuration ---------------------------------------------------------
    [handle_data c over_quota w rs p size clk]: handleDATA under configuration
    [c] (default folder, max_size, quota_enabled); [over_quota r] = "CheckRecipientQuota
    refuses r" (quota_limit against the usage of r's store when the message
    arrives); [rs] are the recipients accepted at RCPT time (max_recipients,
    allowed_domains and reject_unknown_user only decide membership in [rs]).
    Over max_size: 552 for every recipient.  Quota enabled: an over-quota
    recipient is left out of the deliveries and answered 552 in its position
    (raven 57171c2) — a refusal: no promise made, nothing may be filed. *)

(** after every history, under every configuration and every quota verdict:
    outside the one latent class (a DELIVERED position answered from another
    attempt's result) the property holds *)
Theorem c01_any_configuration : forall roles h c over_quota rs p size clk,
  classify_cfg c over_quota (wrun h (w0 roles)) rs p size clk = None ->
  spec_C01_cfg c over_quota (wrun h (w0 roles)) rs p size clk.
Proof. exact c01_any_configuration_hist_l. Qed.
Print Assumptions c01_any_configuration.

(** ... and without any exclusion on worlds with truthful UIDNEXT *)
Theorem c01_any_configuration_fresh : forall c over_quota w rs p size clk,
  WInv w -> WFresh w -> c_folder c <> [] -> spec_C01_cfg c over_quota w rs p size clk.
Proof. exact c01_any_configuration_fresh_l. Qed.
Print Assumptions c01_any_configuration_fresh.

(** an over-quota recipient gets 552 in its own position and its position
    does nothing *)
Theorem c01_over_quota_refused : forall c oq w rs p size clk,
  c_max_size c <? size = false -> p_ok p = true ->
  let '(_, replies, atts) := handle_data c oq w rs p size clk in
  Forall2 (fun r c' => skipped c oq r = true -> c' = R552) rs replies /\
  Forall (fun a => skipped c oq (a_rcpt a) = true -> a_before a = a_after a /\ a_ok a = false) atts.
Proof. exact over_quota_refused. Qed.
Print Assumptions c01_over_quota_refused.

(** the loop told per position IS DeliverToMultipleRecipients on the filtered
    list: same final world, same delivery attempts *)
Theorem c01_deliveries_are_filtered_list : forall skip folder p clk rs w i,
  fst (deliver_all_q skip w folder rs p clk i) = fst (deliver_all w folder (filter (fun r => negb (skip r)) rs) p clk i) /\
  filter (fun a => negb (skip (a_rcpt a))) (snd (deliver_all_q skip w folder rs p clk i))
    = snd (deliver_all w folder (filter (fun r => negb (skip r)) rs) p clk i).
Proof. exact deliver_all_q_filter. Qed.
Print Assumptions c01_deliveries_are_filtered_list.

(** with quota off (or nobody over quota) and the size within the limit,
    handleDATA is [lmtp_data] of the theorems above *)
Theorem c01_no_quota_is_lmtp_data : forall c oq w rs p size clk,
  (forall r, skipped c oq r = false) -> c_max_size c <? size = false ->
  handle_data c oq w rs p size clk = lmtp_data w (c_folder c) rs p clk.
Proof. exact handle_data_no_quota. Qed.
Print Assumptions c01_no_quota_is_lmtp_data.

(** regression (seeded C01-2 / the behaviour before 57171c2): <u> over quota, <v>
    not: 552 for u with nothing filed, 250 for v with one message *)
Example c01_over_quota_example :
  let c := mkCfg INBOX 1000 true in
  let oq := fun r => str_eqb r U1 in
  classify_cfg c oq (w0 []) [U1; U2; U1] p_plain 100 clk0 = None /\
  snd (fst (handle_data c oq (w0 []) [U1; U2; U1] p_plain 100 clk0)) = [R552; R250; R552] /\
  links_of (fst (fst (handle_data c oq (w0 []) [U1; U2; U1] p_plain 100 clk0))) KU1 = [].
Proof. vm_compute. repeat split. Qed.

(** acceptance is not withheld: when every store's UIDNEXT is above its UIDs
    (e.g. every store has a C03-clean history), a parsable message is accepted
    for every recipient DeliverMessage has no reason to refuse *)
Theorem c01_no_spurious_refusal : forall w folder rs p clk,
  WCleanHist w -> p_ok p = true -> forallb (fun r => deliverable w folder r p) rs = true ->
  Forall (fun c => c = R250) (snd (fst (lmtp_data w folder rs p clk))).
Proof. exact c01_no_spurious_refusal_hist_l. Qed.
Print Assumptions c01_no_spurious_refusal.

Theorem c01_no_spurious_refusal_fresh : forall w folder rs p clk,
  WFresh w -> p_ok p = true -> forallb (fun r => deliverable w folder r p) rs = true ->
  Forall (fun c => c = R250) (snd (fst (lmtp_data w folder rs p clk))).
Proof. exact c01_no_spurious_refusal_l. Qed.
Print Assumptions c01_no_spurious_refusal_fresh.

(** inside a store, a delivery of this model is C03's [op_deliver] *)
Theorem c01_delivery_is_op_deliver : forall u target p t,
  p_shape p <> MultiBroken ->
  us (fst (deliver_store u target p t)) = fst (op_deliver (us u) target t) /\
  snd (deliver_store u target p t) = is_ok (snd (op_deliver (us u) target t)).
Proof. exact deliver_store_is_op_deliver. Qed.
Print Assumptions c01_delivery_is_op_deliver.

(** non-vacuity: a transaction outside every class after a mixed history *)
Example c01_clean_example :
  classify (wrun h_mixed (w0 [R1])) INBOX rs_mixed p_multi clk0 = None /\
  snd (fst (lmtp_data (wrun h_mixed (w0 [R1])) INBOX rs_mixed p_multi clk0))
    = [R250; R250; R250; R250; R550; R550].
Proof. vm_compute. split; reflexivity. Qed.

(** regression examples: the repaired behaviours.  A refused message is
    answered once per recipient (was: one 554, class single_554); after
    "deliver; UID COPY 1 INBOX" (and the gap history) the next deliveries are
    accepted, duplicates included (was: 550 / 250 250 with one message) *)
Example c01_repaired_single_554 :
  classify (w0 []) INBOX [U1; U2] p_noparse clk0 = None /\
  snd (fst (lmtp_data (w0 []) INBOX [U1; U2] p_noparse clk0)) = [R554; R554].
Proof. vm_compute. split; reflexivity. Qed.
Example c01_repaired_stale_uidnext :
  classify (wrun h_stale (w0 [])) INBOX [U1; U1] p_plain clk0 = None /\
  snd (fst (lmtp_data (wrun h_stale (w0 [])) INBOX [U1; U1] p_plain clk0)) = [R250; R250] /\
  classify (wrun h_gap (w0 [])) INBOX [U1; U1] p_plain clk0 = None /\
  snd (fst (lmtp_data (wrun h_gap (w0 [])) INBOX [U1; U1] p_plain clk0)) = [R250; R250].
Proof. vm_compute. repeat split. Qed.

(** a root multipart/* without boundary is stored as one part and reconstructs
    (was: zero part rows, 250, empty BODY[] — class noboundary_unfetchable) *)
Example c01_repaired_noboundary :
  classify (w0 []) INBOX [U1] p_nob clk0 = None /\
  snd (fst (lmtp_data (w0 []) INBOX [U1] p_nob clk0)) = [R250] /\
  (forall u, get (fst (fst (lmtp_data (w0 []) INBOX [U1] p_nob clk0))) KU1 = Some u -> reconstructs u 1 = true).
Proof.
  split; [vm_compute; reflexivity|]. split; [vm_compute; reflexivity|].
  intros u H. vm_compute in H. injection H as <-. vm_compute. reflexivity.
Qed.

(** ---- refuted parts ------------------------------------------------------------- *)

(** LATENT in raven's current code (result map keyed by recipient string, reply
    loop reading it): on a world whose INBOX has UIDNEXT behind an existing UID
    — not produced by any operation any more, [c01_dup_class_needs_stale] —
    "<u>,<u>" is answered 250 250 with one new message ... *)
Theorem c01_refuted_duplicate_rcpt_map_latent :
  exists w folder rs p clk, WInv w /\
    classify w folder rs p clk = Some CDupLastResult /\
    snd (fst (lmtp_data w folder rs p clk)) = [R250; R250] /\
    ~ spec_C01 w folder rs p clk.
Proof. exact refuted_dup_last_result. Qed.
Print Assumptions c01_refuted_duplicate_rcpt_map_latent.

(** ... or 550 550 with one new message (a rejection that stored a message) *)
Theorem c01_refuted_duplicate_rejected_but_stored_latent :
  exists w folder rs p clk, WInv w /\
    classify w folder rs p clk = Some CDupLastResult /\
    snd (fst (lmtp_data w folder rs p clk)) = [R550; R550] /\
    ~ spec_C01 w folder rs p clk.
Proof. exact refuted_dup_rejected_but_stored. Qed.
Print Assumptions c01_refuted_duplicate_rejected_but_stored_latent.
