(** C05 — A session reaches only its own stores and only the mailbox it selected.
    Statements only. *)
From Coq Require Import String List Bool Arith.
From Raven Require Import Model.ProtoFacts Model.Protocol Proof.Protocol Proof.Isolation Gen.Facts.
From Raven Require Model.Policy Spec.Policy Proof.PolicyFacts Proof.IsolationDelivery.
Import ListNotations.

(** For ANY facts table satisfying [c05_facts_ok], every connection kind, every
    command sequence and EVERY oracle: before every command the selected
    mailbox id (if any) belongs to the store GetSelectedDB returns; every store
    a command opens is the shared tables, the personal store of the bound user
    (or, during a login on TLS answered 200, of the identity just verified), a
    role store the user is assigned to at that moment (SELECT) / was assigned
    to at login (LIST, LSUB), or the role store of the selected mailbox; and a
    command that uses the selected mailbox id opens, besides the shared
    tables, only the store that id was looked up in. *)
Theorem c05_isolation_of_table : forall t, c05_facts_ok t = true ->
  forall tls cmds stf tr, run t (init_state tls) cmds = Some (stf, tr) ->
  Inv5 stf /\ Forall (obs5_ok t) tr.
Proof. exact isolation_of_table. Qed.
Print Assumptions c05_isolation_of_table.

(** the obligations on the CURRENT tree, recomputed from the regenerated table *)
Theorem c05_facts_now : c05_facts_ok Gen.Facts.table = true.
Proof. vm_compute. reflexivity. Qed.
Print Assumptions c05_facts_now.

(** the delivery clause ("no delivery addressed to one recipient changes ...
    another user's store or a role mailbox"): for every configuration, user
    and role table, accepted-recipient list and message, every store in which
    the LMTP model files a copy is the store of one of the transaction's
    accepted recipients: the role store of exactly that (enabled) role
    address, else the personal store of exactly that local part and domain.
    (The LMTP model and these lemmas are C17's; its correspondence check ties
    them to internal/delivery on every run, and [delivery_probe] in
    checks/c05.py observes the full dump delta of all stores around
    deliveries.) *)
Theorem c05_delivery_reaches_only_recipients : forall cfg d acc m r st f,
  In (r, Policy.D_ok st f) (Policy.do_deliveries (Policy.handle_data cfg d acc m)) ->
  In r acc /\ Spec.Policy.spec_target d r = Some st.
Proof. exact IsolationDelivery.delivery_reaches_only_recipients. Qed.
Print Assumptions c05_delivery_reaches_only_recipients.

Theorem c05_delivery_role_store_exact : forall cfg d acc m r e f,
  In (r, Policy.D_ok (Policy.RoleStore e) f) (Policy.do_deliveries (Policy.handle_data cfg d acc m)) ->
  e = r /\ In (Policy.mkRole r true) (Policy.roles d).
Proof. exact PolicyFacts.role_store_exact. Qed.
Print Assumptions c05_delivery_role_store_exact.

Theorem c05_delivery_user_store_exact : forall cfg d acc m r n dom f,
  In (r, Policy.D_ok (Policy.UserStore n dom) f) (Policy.do_deliveries (Policy.handle_data cfg d acc m)) ->
  Policy.extract_parts r = Some (n, dom) /\ Policy.is_role d r = false.
Proof. exact PolicyFacts.user_store_exact. Qed.
Print Assumptions c05_delivery_user_store_exact.

(** regression witnesses of the repaired defects: the hypotheses are not idle *)
Theorem c05_old_accessor_breaks_isolation :
  let st := mk_c true true true 7 true 3 (RoleStore 3) [3] in
  let e := mk_env false 0 [] (fun _ _ => true) 0 0 (f_sites old_store_table) (TPersonal false) false true in
  access_ok old_store_table = false /\
  exists st' evs, step old_store_table st "STORE" e = Some (st', evs) /\
    In (Touch (Personal 7)) evs /\ In UseSelId evs /\ c_origin st = RoleStore 3.
Proof. exact old_accessor_breaks_isolation. Qed.

Theorem c05_unfixed_failed_select_breaks_origin :
  let st := mk_c true true true 7 true 3 (RoleStore 3) [3] in
  let e := mk_env false 0 [] (fun _ _ => true) 0 0 [] (TPersonal false) false true in
  let st' := fst (do_select false st e) in
  c_sel st' = true /\ c_origin st' <> selected_store st'.
Proof. exact unfixed_failed_select_breaks_origin. Qed.

(** non-vacuity: on the current table a user assigned to role 3 selects a
    role mailbox and STOREs; the only stores touched are shared and role 3 *)
Definition pick5 (w : string) (k : site_kind) : list site :=
  filter (fun s => String.eqb (s_cmd s) w && kind_eqb (s_kind s) k) (f_sites Gen.Facts.table).
Definition e_sel : env := mk_env false 0 [] (fun _ r => Nat.eqb r 3) 0 3 [] (TRole 3 true) false true.
Definition e_store : env := mk_env false 0 [] (fun _ r => Nat.eqb r 3) 0 3 (pick5 "STORE" AccSelected ++ pick5 "STORE" UseSel) (TPersonal false) false true.
Example c05_example_run :
  match run Gen.Facts.table (mk_c true true false 7 false 0 SharedStore [3]) [("SELECT"%string, e_sel); ("STORE"%string, e_store)] with
  | Some (st, tr) => c_sel st && forallb (fun o => forallb (fun ev => match ev with Touch (Personal _) => false | _ => true end) (o_events o)) tr
                     && existsb (fun o => existsb (fun ev => match ev with Touch (RoleStore 3) => true | _ => false end) (o_events o)) tr
  | None => false
  end = true.
Proof. vm_compute. reflexivity. Qed.
