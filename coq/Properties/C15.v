(** C15 — Out-of-line blob storage and de-duplication are invisible to readers.
    Statements only; every proof is [exact <lemma>].

    [key enc content] = hex(sha256(decodeContentForHashing content enc)) and
    [okey content] = hex(sha256 content) are universally quantified: the
    theorems hold for every pair of functions (premises where needed: object
    names are collision-free and not empty).  A history is any list of
    [EStore s3on o d parts] (one message stored by a writer with S3
    enabled/disabled, object-store fault oracle [o], database fault oracle [d])
    and [ELose keys] (objects vanish); reads do not change the state, so a read
    by a reader with S3 enabled/disabled under oracle [o] is taken at the end. *)
From Coq Require Import String Ascii List Bool Arith.
From Raven Require Import Base.GoStr Model.BlobCodec Model.Blobs Spec.BlobSpec
  Model.BlobLinks Proof.BlobsInv Proof.Blobs Proof.BlobsWitness Proof.BlobsMono Proof.BlobLinks.
Import ListNotations.

(** (a)+(d) UNCONDITIONALLY: for every history, every stored part (every
    encoding / wrapping / de-duplication pattern, empty parts included), every
    writer/reader configuration and every fault oracle, a read either yields
    exactly the part's own octets, or is reported as an error and then the
    backend did fail for this read ([read_failed]: the blob lives in the object
    store and the reader has no S3, or the GET failed, or the object is gone).
    (Repairs in /repo: 12a5042 read errors, 573e876 + 03ae0ff a part is linked
    to a blob only if the blob holds its exact octets.) *)
Theorem c15_read_own_octets :
  forall (key : str -> str -> str) (okey : str -> str),
  (forall a b, okey a = okey b -> a = b) -> (forall a, okey a <> []) ->
  forall (evs : list event) (m k : nat) (row : partrow) (reader_s3 : bool) (o : oracle),
  row_of (run key okey evs) m k = Some row ->
  spec_read (r_own row) (read_failed reader_s3 (run key okey evs) row o)
            (rd (read_part reader_s3 (run key okey evs) row o)).
Proof. exact read_own_octets. Qed.
Print Assumptions c15_read_own_octets.

(** no read ever yields foreign or silently empty octets: own octets, or an error. *)
Theorem c15_read_never_foreign :
  forall (key : str -> str -> str) (okey : str -> str),
  (forall a b, okey a = okey b -> a = b) -> (forall a, okey a <> []) ->
  forall evs m k row reader_s3 o,
  row_of (run key okey evs) m k = Some row ->
  rd (read_part reader_s3 (run key okey evs) row o) = Some (r_own row) \/
  rd (read_part reader_s3 (run key okey evs) row o) = None.
Proof. exact read_never_foreign. Qed.
Print Assumptions c15_read_never_foreign.

(** every part row that points at a blob points at a blob that holds the
    part's own text (local content, or the object named by the text's hash) *)
Theorem c15_linked_blob_holds_own :
  forall (key : str -> str -> str) (okey : str -> str), (forall a, okey a <> []) ->
  forall evs m k row id,
  row_of (run key okey evs) m k = Some row -> r_blob row = Some id ->
  exists b, get_blob (w_blobs (run key okey evs)) id = Some b /\ form_is_own okey (b_form b) (r_own row) = true.
Proof. exact linked_blob_holds_own. Qed.
Print Assumptions c15_linked_blob_holds_own.

(** (d) in EVERY state (reachable or not, any class): a backend failure while
    reading is reported as an error ... *)
Theorem c15_read_failure_is_error :
  forall w row reader_s3 o,
  read_failed reader_s3 w row o = true -> rd (read_part reader_s3 w row o) = None.
Proof. exact read_failure_is_error. Qed.
Print Assumptions c15_read_failure_is_error.

(** ... and an error is reported only then. *)
Theorem c15_error_only_if_failed :
  forall (key : str -> str -> str) (okey : str -> str),
  (forall a b, okey a = okey b -> a = b) -> (forall a, okey a <> []) ->
  forall evs m k row reader_s3 o,
  row_of (run key okey evs) m k = Some row ->
  rd (read_part reader_s3 (run key okey evs) row o) = None ->
  read_failed reader_s3 (run key okey evs) row o = true.
Proof. exact error_only_if_failed. Qed.
Print Assumptions c15_error_only_if_failed.

(** (b) For every history with every fault oracle: the reference count of
    every blob equals the number of part rows that use it ... *)
Theorem c15_refcount :
  forall (key : str -> str -> str) (okey : str -> str), (forall a, okey a <> []) -> forall evs id b,
  get_blob (w_blobs (run key okey evs)) id = Some b ->
  b_refs b = refcount id (all_rows (run key okey evs)).
Proof. exact refcount_exact. Qed.
Print Assumptions c15_refcount.

(** ... no two blobs have the same hash, and two out-of-line parts with the
    same decoded hash share one blob. *)
Theorem c15_stored_once :
  forall (key : str -> str -> str) (okey : str -> str), (forall a, okey a <> []) -> forall evs,
  NoDup (map b_key (w_blobs (run key okey evs))).
Proof. exact keys_stored_once. Qed.
Print Assumptions c15_stored_once.

Theorem c15_same_content_same_blob :
  forall (key : str -> str -> str) (okey : str -> str), (forall a, okey a <> []) ->
  forall evs m1 k1 m2 k2 r1 r2 i1 i2,
  row_of (run key okey evs) m1 k1 = Some r1 -> row_of (run key okey evs) m2 k2 = Some r2 ->
  r_blob r1 = Some i1 -> r_blob r2 = Some i2 ->
  key (r_enc r1) (r_own r1) = key (r_enc r2) (r_own r2) -> i1 = i2.
Proof. exact same_content_same_blob. Qed.
Print Assumptions c15_same_content_same_blob.

(** (c) Whatever the object store and the database do during a store, no part
    is dropped: the new message has one row per part, each either holding its
    own octets inline or pointing at an existing blob filed under its own hash. *)
Theorem c15_store_never_drops :
  forall (key : str -> str -> str) (okey : str -> str), (forall a, okey a <> []) -> forall evs writer_s3 o d ps,
  exists rows,
    w_msgs (run key okey (evs ++ [EStore writer_s3 o d ps])) = w_msgs (run key okey evs) ++ [rows] /\
    map r_own rows = map p_content ps /\
    Forall (row_ok key okey (w_blobs (run key okey (evs ++ [EStore writer_s3 o d ps])))) rows.
Proof. exact store_never_drops. Qed.
Print Assumptions c15_store_never_drops.

(** (c) A part whose hash is not yet in the table is, after the store loop
    body ran under ANY object-store/database fault oracle, readable by the
    configuration that stored it (S3 ok / S3 ok + DB error => inline /
    S3 error => local blob / local error => inline). *)
Theorem c15_store_fault_falls_back :
  forall (key : str -> str -> str) (okey : str -> str),
  (forall a b, okey a = okey b -> a = b) -> (forall a, okey a <> []) ->
  forall w writer_s3 p o d row w' o' d',
  objs_ok okey (w_objs w) ->
  find_key (w_blobs w) (key (p_enc p) (p_content p)) = None ->
  store_part key okey writer_s3 w p o d = (row, w', o', d') ->
  rd (read_part writer_s3 w' row []) = Some (p_content p).
Proof. exact store_fault_falls_back. Qed.
Print Assumptions c15_store_fault_falls_back.

(** the premise [objs_ok] of the previous theorem holds in every reachable state *)
Theorem c15_reachable_objs_ok :
  forall (key : str -> str -> str) (okey : str -> str), (forall a, okey a <> []) -> forall evs, objs_ok okey (w_objs (run key okey evs)).
Proof. exact run_objs_ok. Qed.
Print Assumptions c15_reachable_objs_ok.

(** the reference is only ever given back for a blob row that existed before:
    DecrementBlobReference's "delete the row at count 0" is unreachable from the
    store loop, and giving the reference back restores the table *)
Theorem c15_give_back_keeps_row :
  forall (key : str -> str -> str) (okey : str -> str), (forall a, okey a <> []) ->
  forall f stored bl enc content id bl',
  call_ok okey f stored content ->
  store_blob key f bl enc content OOk = (Some id, bl') ->
  blob_holds bl' id content stored = false ->
  find_key bl (key enc content) = Some id /\ decr_ref bl' id = bl.
Proof. exact give_back_keeps_row. Qed.
Print Assumptions c15_give_back_keeps_row.

(** ---- removal operations (EXPUNGE, CLOSE, UID EXPUNGE, DELETE mailbox, COPY
    then expunge the source) by ANY user, interleaved anywhere with stores:
    the blob table, the bucket and the part rows — hence every read of every
    user — are those of the history with the removals and copies left out.
    (raven never gives a blob reference back on expunge.) *)
Theorem c15_removals_invisible :
  forall (key : str -> str -> str) (okey : str -> str) (evs : list mevent),
  m_world (mrun key okey evs) = run key okey (stores_of evs).
Proof. exact removals_invisible. Qed.
Print Assumptions c15_removals_invisible.

Theorem c15_removal_anywhere_changes_no_read :
  forall (key : str -> str -> str) (okey : str -> str) (a b : list mevent) (x : mevent),
  (exists m, x = MRemove m \/ x = MCopy m) ->
  m_world (mrun key okey (a ++ x :: b)) = m_world (mrun key okey (a ++ b)).
Proof. exact removal_anywhere. Qed.
Print Assumptions c15_removal_anywhere_changes_no_read.

(** ... so (a)+(d) hold after arbitrary removals by other users *)
Theorem c15_read_own_octets_with_removals :
  forall (key : str -> str -> str) (okey : str -> str),
  (forall a b, okey a = okey b -> a = b) -> (forall a, okey a <> []) ->
  forall (evs : list mevent) (m k : nat) (row : partrow) (reader_s3 : bool) (o : oracle),
  row_of (m_world (mrun key okey evs)) m k = Some row ->
  spec_read (r_own row) (read_failed reader_s3 (m_world (mrun key okey evs)) row o)
            (rd (read_part reader_s3 (m_world (mrun key okey evs)) row o)).
Proof. exact read_own_octets_with_removals. Qed.
Print Assumptions c15_read_own_octets_with_removals.

(** blob rows are never removed or rewritten and reference counts never
    decrease, along every history (any faults) *)
Theorem c15_refs_only_grow :
  forall (key : str -> str -> str) (okey : str -> str), (forall a, okey a <> []) ->
  forall evs more id b,
  get_blob (w_blobs (run key okey evs)) id = Some b ->
  exists b', get_blob (w_blobs (run key okey (evs ++ more))) id = Some b' /\
             b_key b' = b_key b /\ b_form b' = b_form b /\ b_refs b <= b_refs b'.
Proof. exact run_persists. Qed.
Print Assumptions c15_refs_only_grow.

(** ---- concurrent sessions: a session's SELECT-by-hash may be stale when its
    write runs (other sessions stored in between: any table [bl] that the
    table of the lookup [bl0] persists into).  The write — UPDATE of the row
    found, else INSERT, which fails on UNIQUE(sha256_hash) if the hash arrived
    meanwhile — equals the sequential store_blob with SOME database outcome.
    Every interleaving of statement sequences is therefore a history with a
    database oracle, for which all theorems above hold (c15_read_own_octets,
    c15_refcount: every acknowledged part stays readable, counts are exact). *)
Theorem c15_interleaved_store_is_sequential :
  forall (key : str -> str -> str) f bl0 bl enc content,
  persists bl0 bl -> NoDup (map b_key bl) ->
  exists d0, write_stale key f bl enc content (looked_in key bl0 enc content) = store_blob key f bl enc content d0.
Proof. exact write_stale_sequential. Qed.
Print Assumptions c15_interleaved_store_is_sequential.

(** regression examples for the seeded changes C02-4 / C08-4 (wrong code only) *)
Example c15_wrong_id_release_frees_live_blob :
  let table := [Some (mkBlob (S_ "h1") (FLocal (S_ "attachment")) 1)] in
  let bobs_row := mkRow (Some 1) [] [] (S_ "attachment") in
  release table 1 = [None] /\ r_blob bobs_row = Some 1.
Proof. exact wrong_id_release_frees_live_blob. Qed.

(** ---- no finding class is left.  Regression examples: the former witnesses
    satisfy the spec, the old observables do not. *)
Example c15_empty_part_s3_blob_repaired :
  gown wit_empty 1 0 = Some [] /\
  gread true wit_empty 1 0 [] = Some (Some []) /\
  gread false wit_empty 1 0 [] = Some (Some []) /\
  violates true wit_empty 1 0 [] = false /\
  map b_refs (w_blobs (grun wit_empty)) = [1].
Proof. exact empty_part_s3_blob_repaired. Qed.

Example c15_old_empty_part_violates_spec : spec_read_ok [] false (Some crlf) = false.
Proof. exact old_empty_part_violates_spec. Qed.

(** the former witness of DedupEncoding (K-dedup) now satisfies the spec, and
    the old observable does not — regression examples *)
Example c15_dedup_encoding_repaired :
  gown wit_dedup 1 0 = Some (S_ "QUJDRA==") /\
  gread false wit_dedup 1 0 [] = Some (Some (S_ "QUJDRA==")) /\
  violates false wit_dedup 1 0 [] = false /\
  map b_refs (w_blobs (grun wit_dedup)) = [1].
Proof. exact dedup_encoding_repaired. Qed.

Example c15_old_dedup_violates_spec : spec_read_ok (S_ "QUJDRA==") false (Some (S_ "ABCD")) = false.
Proof. exact old_dedup_violates_spec. Qed.

(** the former witnesses of ConfigMismatch / ReadFault now satisfy the spec
    (the read is an error), and the old observable (empty string, no error)
    does not — regression examples *)
Example c15_config_mismatch_is_error :
  gfailed false wit_config 0 0 [] = true /\
  gread false wit_config 0 0 [] = Some None /\
  violates false wit_config 0 0 [] = false /\
  gread true wit_config 0 0 [] = Some (Some (S_ "hello world")).
Proof. exact config_mismatch_is_error. Qed.

Example c15_read_fault_is_error :
  gfailed true wit_config 0 0 [OFail] = true /\
  gread true wit_config 0 0 [OFail] = Some None /\
  violates true wit_config 0 0 [OFail] = false /\
  gfailed true wit_lost 0 0 [] = true /\
  gread true wit_lost 0 0 [] = Some None /\
  violates true wit_lost 0 0 [] = false.
Proof. exact read_fault_is_error. Qed.

Example c15_old_behaviour_violates_spec :
  spec_read_ok (S_ "hello world") true (Some []) = false.
Proof. exact old_behaviour_violates_spec. Qed.

(** the instance used by the witnesses and by the correspondence check meets
    the premises of the theorems *)
Theorem c15_instance_ok :
  (forall a b, go_okey a = go_okey b -> a = b) /\ (forall a, go_okey a <> []).
Proof. exact (conj go_okey_inj go_okey_ne). Qed.
Print Assumptions c15_instance_ok.

(** non-vacuity: stores under object-store and database faults, read back *)
Example c15_faults_example :
  gread true wit_faults 0 0 [] = Some (Some (S_ "part one")) /\
  gread false wit_faults 0 0 [] = Some (Some (S_ "part one")) /\
  gread false wit_faults 1 0 [] = Some (Some (S_ "part two")) /\
  gread true wit_faults 2 1 [] = Some (Some (S_ "part three")) /\
  map b_refs (w_blobs (grun wit_faults)) = [1; 2].
Proof. exact faults_example. Qed.
