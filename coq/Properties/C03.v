(** C03 — UIDs are unique, ascending and never reused; UIDNEXT tells the truth.
    Statements only; every proof is [exact <lemma>]. *)
From Coq Require Import String Ascii List Bool ZArith.
From Raven Require Import Base.GoStr Model.Store Model.Ops Spec.UidSpec Proof.UidSpecB
  Proof.StoreInv Proof.OpsInv Proof.UidHist Proof.UidAppend Model.UidView Model.AppendSched Proof.AppendSched Model.MoveSched Proof.MoveSched.
Import ListNotations.
Local Open Scope Z_scope.

(** ---- proved part ------------------------------------------------------------

    Histories: lists of [op] (deliver, append, copy, uidcopy, uidstore incl. the
    Junk/NonJunk move, expunge, close, create, delete, rename incl. RENAME INBOX;
    the clock reading is an argument of the creating operations), run by
    [Model.Ops.run] from the store of a new account [init5 t1..t5] (the five
    default mailboxes, each with its own clock reading).
    [clean s h = true]: every step of [h] is in scope ([flat_step]: hierarchy-
    free names; a plain RENAME only onto a name the renamed row did not carry
    before).  No finding class is left ([step_class] is constantly [None]); the
    clock readings in the history are ARBITRARY integers. *)

(** After every clean history: (name, UIDVALIDITY, UID) determines the message
    instance in the log of everything that was ever visible; every mailbox's
    UIDNEXT is above every UID ever visible under its current (name,
    UIDVALIDITY); everything visible is logged; UNIQUE(mailbox,uid) and
    UNIQUE(name) hold. *)
Theorem c03_invariants : forall t1 t2 t3 t4 t5 h,
  clean (init5 t1 t2 t3 t4 t5) h = true ->
  let s := run h (init5 t1 t2 t3 t4 t5) in
  uid_functional s /\ uidnext_truthful s /\ visible_logged s /\ store_unique s.
Proof. exact c03_invariants_l. Qed.
Print Assumptions c03_invariants.

(** the advertised UIDNEXT is greater than every existing UID *)
Theorem c03_uidnext_above_existing : forall t1 t2 t3 t4 t5 h,
  clean (init5 t1 t2 t3 t4 t5) h = true ->
  forall m l, In m (mboxes (run h (init5 t1 t2 t3 t4 t5))) ->
              In l (links (run h (init5 t1 t2 t3 t4 t5))) -> lk_mbox l = mb_id m ->
              lk_uid l < mb_next m.
Proof. exact c03_uidnext_above_existing_l. Qed.
Print Assumptions c03_uidnext_above_existing.

(** every (name, UIDVALIDITY, UID, instance) that becomes visible during [h2]
    has a UID greater than every UID that was visible under that (name,
    UIDVALIDITY) before [h2]: added messages get ascending UIDs *)
Theorem c03_added_uids_ascend : forall t1 t2 t3 t4 t5 h1 h2,
  clean (init5 t1 t2 t3 t4 t5) (h1 ++ h2) = true ->
  forall e', In e' (glog (run (h1 ++ h2) (init5 t1 t2 t3 t4 t5))) ->
             ~ In e' (glog (run h1 (init5 t1 t2 t3 t4 t5))) ->
  forall e, In e (glog (run h1 (init5 t1 t2 t3 t4 t5))) ->
            ge_name e = ge_name e' -> ge_validity e = ge_validity e' -> ge_uid e < ge_uid e'.
Proof. exact c03_added_uids_ascend_l. Qed.
Print Assumptions c03_added_uids_ascend.

(** no UID is ever given to a second message: what a client saw under (name,
    UIDVALIDITY, UID) at one point of a history is what it sees there later *)
Theorem c03_no_uid_reuse : forall t1 t2 t3 t4 t5 h1 h2 n v u g1 g2,
  clean (init5 t1 t2 t3 t4 t5) (h1 ++ h2) = true ->
  visible (run h1 (init5 t1 t2 t3 t4 t5)) n v u g1 ->
  visible (run (h1 ++ h2) (init5 t1 t2 t3 t4 t5)) n v u g2 -> g1 = g2.
Proof. exact c03_no_uid_reuse_l. Qed.
Print Assumptions c03_no_uid_reuse.

(** UIDNEXT never decreases for a (name, UIDVALIDITY) pair, over whole histories *)
Theorem c03_uidnext_never_decreases : forall t1 t2 t3 t4 t5 h1 h2 n v x1 x2,
  clean (init5 t1 t2 t3 t4 t5) (h1 ++ h2) = true ->
  advertises (run h1 (init5 t1 t2 t3 t4 t5)) n v x1 ->
  advertises (run (h1 ++ h2) (init5 t1 t2 t3 t4 t5)) n v x2 -> x1 <= x2.
Proof. exact c03_uidnext_never_decreases_l. Qed.
Print Assumptions c03_uidnext_never_decreases.

(** every UIDVALIDITY handed out to a new mailbox row (CREATE, implied creation by
    a delivery, the target of RENAME INBOX) is above every UIDVALIDITY this store
    has ever used with ANY name, and not below the clock reading [t] — for an
    ARBITRARY clock (constant, even decreasing) *)
Theorem c03_new_validity_above_all : forall s n t s' id n' v',
  create_mailbox_row s n t = Some (s', id) -> In (n', v') (gused s) ->
  exists m, In m (mboxes s') /\ mb_id m = id /\ mb_name m = n /\ v' < mb_validity m /\ t <= mb_validity m.
Proof. exact new_validity_above_all_l. Qed.
Print Assumptions c03_new_validity_above_all.

(** a (name, UIDVALIDITY) pair that stopped existing (DELETE, RENAME away)
    never exists again: when the name comes back it carries a new UIDVALIDITY.
    No premise about the clock is left: [clean] only restricts the scope
    (hierarchy-free; plain RENAME onto a name the same row did not carry before) *)
Theorem c03_validity_fresh : forall t1 t2 t3 t4 t5 h1 h2 h3 n v,
  clean (init5 t1 t2 t3 t4 t5) (h1 ++ h2 ++ h3) = true ->
  (exists x, advertises (run h1 (init5 t1 t2 t3 t4 t5)) n v x) ->
  ~ (exists x, advertises (run (h1 ++ h2) (init5 t1 t2 t3 t4 t5)) n v x) ->
  ~ (exists x, advertises (run (h1 ++ h2 ++ h3) (init5 t1 t2 t3 t4 t5)) n v x).
Proof. exact c03_validity_fresh_l. Qed.
Print Assumptions c03_validity_fresh.

(** APPENDUID tells the truth (sequential form): in a state satisfying the
    invariant, the UID (and UIDVALIDITY) announced by a successful APPEND is the
    UID under which the new message (the message row just stored, a fresh
    instance) is then found in that mailbox. *)
Theorem c03_appenduid_truthful : forall s f fl s' v u,
  Inv s ->
  step s (OAppend f fl) = (s', RAppendUid v u) ->
  exists m l, In m (mboxes s') /\ In l (links s') /\ mb_name m = f /\ mb_validity m = v /\
              lk_mbox l = mb_id m /\ lk_uid l = u /\ lk_msg l = next_msg s /\ lk_gid l = gser s.
Proof. exact appenduid_truthful_l. Qed.
Print Assumptions c03_appenduid_truthful.

(** ... and such an APPEND to an existing mailbox never fails (contrast with the
    class copy_stale_uidnext, where it answers NO) *)
Theorem c03_append_succeeds : forall s f fl m,
  Inv s -> find_name s f = Some m ->
  exists v u, snd (step s (OAppend f fl)) = RAppendUid v u.
Proof. exact append_succeeds_l. Qed.
Print Assumptions c03_append_succeeds.

(** the invariant used above is the one established for every clean history *)
Theorem c03_inv_reachable : forall t1 t2 t3 t4 t5 h,
  clean (init5 t1 t2 t3 t4 t5) h = true -> Inv (run h (init5 t1 t2 t3 t4 t5)).
Proof. exact inv_reachable_l. Qed.
Print Assumptions c03_inv_reachable.

(** ---- schedules: APPEND at statement level against other writers ----------------

    [append_sched_full s mb fl e1 e2 e3 e4] runs the statements of an APPEND to
    mailbox row [mb] in the tree's order — store the message; U: hand out uid_next
    (one UPDATE ... RETURNING); I: INSERT the link; R: read UIDVALIDITY; Q: read
    the UID of the row of THIS message — with the complete, committed commands
    [e1] [e2] [e3] [e4] of other sessions in between (before U, U-I, I-R, R-Q).
    [writer_ok mb]: delivery, APPEND, COPY, UID COPY into any mailbox (also [mb]),
    and UID STORE (with its Junk/NonJunk move, possibly INTO [mb]) issued with
    another mailbox selected. *)

(** For EVERY such interleaving: if the APPEND answers APPENDUID v u, then u is the
    UID handed out to it, and the row it inserted (same ghost instance [g], the
    message row stored by this APPEND) is in the final state under exactly that
    UID.  Premise: the store invariant [Inv] (which now includes "message ids of
    existing links are below the message counter"); it holds of the empty store
    and after every clean history ([c03_inv_reachable]). *)
Theorem c03_appenduid_all_schedules : forall s mb fl e1 e2 e3 e4 s' v u ins,
  Inv s ->
  Forall (fun o => writer_ok mb o = true) (e1 ++ e2 ++ e3 ++ e4) ->
  append_sched_full s mb fl e1 e2 e3 e4 = (s', RAppendUid v u, ins) ->
  exists uid g l, ins = Some (uid, g) /\ u = uid /\ In l (links s') /\
                  lk_msg l = next_msg s /\ lk_mbox l = mb /\ lk_uid l = u /\ lk_gid l = g.
Proof. exact appenduid_all_schedules_l. Qed.
Print Assumptions c03_appenduid_all_schedules.

(** the same from every state reached by a clean history of a new account *)
Theorem c03_appenduid_all_schedules_reachable : forall t1 t2 t3 t4 t5 h mb fl e1 e2 e3 e4 s' v u ins,
  clean (init5 t1 t2 t3 t4 t5) h = true ->
  Forall (fun o => writer_ok mb o = true) (e1 ++ e2 ++ e3 ++ e4) ->
  append_sched_full (run h (init5 t1 t2 t3 t4 t5)) mb fl e1 e2 e3 e4 = (s', RAppendUid v u, ins) ->
  exists uid g l, ins = Some (uid, g) /\ u = uid /\ In l (links s') /\
                  lk_msg l = next_msg (run h (init5 t1 t2 t3 t4 t5)) /\ lk_mbox l = mb /\ lk_uid l = u /\ lk_gid l = g.
Proof. exact appenduid_all_schedules_reachable_l. Qed.
Print Assumptions c03_appenduid_all_schedules_reachable.

(** non-vacuity: a reachable state with copies, an expunge and a DELETE + CREATE in
    the same second, and a schedule with four other writers *)
Example c03_reachable_schedule_example :
  clean (init 100) ex_hist = true /\
  exists s' v g,
    append_sched_full (run ex_hist (init 100)) 1 []
       [ODeliver INBOX 0] [OAppend INBOX []] [OUidCopy 4 [UOne 2] INBOX] [OUidStore 4 [UOne 1] SAdd [NONJUNK]]
    = (s', RAppendUid v 5, Some (5, g)) /\ length (links_in s' 1) = 7%nat.
Proof. exact reachable_schedule_example. Qed.

(** with no other writer the statement-level APPEND is the APPEND of the histories *)
Theorem c03_append_sched_sequential : forall s f fl m,
  find_name s f = Some m -> append_sched s (mb_id m) fl [] [] [] [] = op_append s f fl.
Proof. exact append_sched_sequential_l. Qed.
Print Assumptions c03_append_sched_sequential.

(** regression (seeded change C03-3): announcing "uid_next - 1" from the read R
    instead of reading the own row is refuted by ONE delivery between I and R *)
Example c03_announce_uidnext_refuted :
  let s := run sched_prep (init 100) in
  exists e3 s' v u uid g,
    Forall (fun o => writer_ok 1 o = true) e3 /\
    append_sched_gen announce_uidnext s 1 [] [] [] e3 [] = (s', RAppendUid v u, Some (uid, g)) /\ u <> uid.
Proof. exact announce_uidnext_refuted. Qed.

(** ---- schedules: the Junk/NonJunk move and UID COPY at statement level -------------

    [uidstore1_sched s sel mode new u e0 e1 busy]: one entry of UID STORE whose
    Junk/NonJunk flag triggers message.MoveMessageToMailbox, in the tree's
    statement order — L: look the destination up by name; BEGIN; R: read its
    uid_next INSIDE the transaction; INSERT; UPDATE uid_next; DELETE the source
    row; COMMIT — with the complete commands [e0] of other sessions before L and
    [e1] between L and the transaction (SQLite lets no other writer commit inside
    it); [busy = true]: the transaction is refused as a whole ("database is
    locked") and the flags are stored in place.  [uidcopy_sched] likewise for
    uid.handleUIDCopy (set resolved first).  The other sessions' commands are
    ARBITRARY clean histories (deliveries, APPEND, COPY, moves, STORE \Deleted +
    EXPUNGE, CREATE/DELETE/RENAME in scope). *)

(** For EVERY such interleaving no UID is reused (the log of everything ever
    visible stays functional; what a client saw under (name, validity, uid) before
    is what it sees after), UIDNEXT is above every UID ever visible and is not
    below its value before the command, for every (name, UIDVALIDITY). *)
Theorem c03_junk_move_all_schedules : forall s sel mode new u e0 e1 busy,
  Inv s -> clean s e0 = true -> clean (run e0 s) e1 = true ->
  let s' := uidstore1_sched s sel mode new u e0 e1 busy in
  uid_functional s' /\ uidnext_truthful s' /\
  (forall n v x1 x2, advertises s n v x1 -> advertises s' n v x2 -> x1 <= x2) /\
  (forall n v u' g1 g2, visible s n v u' g1 -> visible s' n v u' g2 -> g1 = g2).
Proof. exact junk_move_all_schedules_l. Qed.
Print Assumptions c03_junk_move_all_schedules.

Theorem c03_uidcopy_all_schedules : forall s sel set dest e0 e1 busy,
  Inv s -> clean s e0 = true -> clean (run e0 s) e1 = true ->
  let s' := fst (uidcopy_sched s sel set dest e0 e1 busy) in
  uid_functional s' /\ uidnext_truthful s' /\
  (forall n v x1 x2, advertises s n v x1 -> advertises s' n v x2 -> x1 <= x2) /\
  (forall n v u' g1 g2, visible s n v u' g1 -> visible s' n v u' g2 -> g1 = g2).
Proof. exact uidcopy_all_schedules_l. Qed.
Print Assumptions c03_uidcopy_all_schedules.

(** with no other session they are the operations of the histories *)
Theorem c03_move_sched_sequential : forall s msg src su dest fl,
  Inv s -> move_sched s msg src su dest fl [] [] false = move_message s msg src su dest fl.
Proof. exact move_sched_sequential_l. Qed.
Print Assumptions c03_move_sched_sequential.

Theorem c03_uidcopy_sched_sequential : forall s sel set dest,
  Inv s -> uidcopy_sched s sel set dest [] [] false = op_uidcopy s sel set dest.
Proof. exact uidcopy_sched_sequential_l. Qed.
Print Assumptions c03_uidcopy_sched_sequential.

(** regression (seeded change C03-4): reading uid_next together with the
    destination id BEFORE BEGIN and writing it back as an absolute value is
    refuted by the three-writer schedule (two deliveries to Spam, another
    session's STORE \Deleted + EXPUNGE of the first of them, between L and the
    transaction); the tree's order passes the same schedule *)
Example c03_stale_move_refuted :
  let s := run sched2_prep (init 100) in
  clean s c034_env = true /\
  spec_b (uidstore1_sched s 1 SAdd [JUNK] 1 [] c034_env false) = true /\
  spec_b (uidstore1_sched_stale s 1 SAdd [JUNK] 1 [] c034_env) = false.
Proof. exact stale_move_refuted. Qed.

(** regression (seeded change C08-5): RENAME INBOX x reading INBOX's uid_next up
    front and writing it into the target later is refuted by ONE delivery to INBOX
    between the creation of the target row and the transaction; the tree's order
    (counter copied by a sub-select inside the moving transaction) passes it *)
Example c03_stale_rename_inbox_refuted :
  let s := run sched2_prep (init 100) in
  clean s c085_env = true /\
  spec_b (fst (rename_inbox_sched s (S_ "R1") 200 c085_env)) = true /\
  spec_b (fst (rename_inbox_sched_stale s (S_ "R1") 200 c085_env)) = false.
Proof. exact stale_rename_inbox_refuted. Qed.

(** regression (before raven 8552cfb): RENAME INBOX x overwrote the target's counter
    with INBOX's; an APPEND to the just created target in the window (INBOX empty)
    left it with UID 1 and UIDNEXT 1.  With MAX the same schedule satisfies the spec. *)
Example c03_overwrite_rename_inbox_refuted :
  clean (init 100) [] = true /\
  spec_b (fst (rename_inbox_sched (init 100) (S_ "R1") 200 c03w_env)) = true /\
  spec_b (fst (rename_inbox_sched_overwrite (init 100) (S_ "R1") 200 c03w_env)) = false.
Proof. exact overwrite_rename_inbox_refuted. Qed.

(** OPEN FINDING rename_inbox_target_uid_reused_in_window: the all-schedules
    statement for RENAME INBOX is FALSE on the current tree.  The target row is
    created before the moving transaction; a message added to it AND expunged
    again inside that window leaves no row for UNIQUE to refuse, and INBOX's
    message takes the same UID under the target's (name, UIDVALIDITY). *)
Example c03_rename_inbox_window_refuted :
  let s := run [OAppend INBOX []] (init 100) in
  spec_b (fst (rename_inbox_sched s (S_ "R1") 200 [])) = true /\
  spec_b (fst (rename_inbox_sched s (S_ "R1") 200 c03w2_env)) = false.
Proof. exact window_expunged_uid_reused. Qed.

(** non-vacuity: a clean history that uses every kind of operation (UID COPY,
    COPY, a Junk move, RENAME INBOX with a message in it, DELETE + CREATE of the
    same name in different seconds), and the spec evaluated on it *)
Example c03_clean_example :
  let h := [OCreate A 101; OAppend A []; ODeliver INBOX 0; ORename INBOX (S_ "I2") 100;
            ORename A (S_ "B") 0; OAppend (S_ "B") [S_ "\Seen"]; OUidCopy 6 [UOne 1] TRASH;
            OUidCopy 6 [URange 1 2] TRASH; OCopy 6 [UOne 1] (S_ "B"); OUidStore 6 [UOne 2] SAdd [JUNK];
            OUidStore 6 [URange 1 5] SAdd [DELETED]; OExpunge 6; ODelete (S_ "B"); OCreate A 102;
            OAppend A []; ODeliver (S_ "D") 103; OClose 1; OAppend TRASH []; ODeliver SPAM 0] in
  clean (init 100) h = true /\ spec_b (run h (init 100)) = true /\
  length (glog (run h (init 100))) = 14%nat.
Proof. vm_compute. repeat split. Qed.

(** ---- formerly refuted parts ---------------------------------------------------- *)

(** No refuted part is left.  (The refutations of the first round — COPY/UID COPY/Junk move allocating
    MAX(uid)+1 without advancing uid_next, RENAME INBOX resetting uid_next — are
    gone: the defects are repaired (fixes/c03-*.patch), the model follows the
    repaired code, and those operations are covered by the theorems above.  Their
    witnesses are kept as a regression example; the last one, DELETE + CREATE
    within one clock second re-using the UIDVALIDITY, went with
    fixes/c03-uidvalidity-seq.patch: the witness has both CREATEs at second 101.) *)
Example c03_repaired_witnesses_fine :
  forallb (fun h => clean (init 100) h && spec_b (run h (init 100)))
          [w_copy_stale; w_copy_reuse; w_move; w_rename_inbox; w_same_second] = true.
Proof. exact repaired_witnesses_fine. Qed.


