(** C03 — UIDs are unique, ascending and never reused; UIDNEXT tells the truth.
    Statements only; every proof is [exact <lemma>]. *)
From Coq Require Import String Ascii List Bool ZArith.
From Raven Require Import Base.GoStr Model.Store Model.Ops Spec.UidSpec Proof.UidSpecB.
Import ListNotations.
Local Open Scope Z_scope.

(** ---- refuted parts: raven's current code violates the statement ---------- *)

(** UID COPY allocates MAX(uid)+1 and never advances uid_next: afterwards the
    advertised UIDNEXT is not above an existing UID. *)
Theorem c03_refuted_copy_then_append :
  exists h, classify (init 100) h = Some CCopyStale /\ ~ uidnext_truthful (run h (init 100)).
Proof. exact refuted_copy_stale. Qed.
Print Assumptions c03_refuted_copy_then_append.

(** after the top UID was expunged, MAX(uid)+1 hands a used UID to another message *)
Theorem c03_refuted_expunge_top_then_copy :
  exists h, classify (init 100) h = Some CCopyReuse /\ ~ uid_functional (run h (init 100)).
Proof. exact refuted_copy_reuse. Qed.
Print Assumptions c03_refuted_expunge_top_then_copy.

(** the Junk/NonJunk move allocates the same way *)
Theorem c03_refuted_junk_move :
  exists h, classify (init 100) h = Some CMoveMaxUid /\ ~ uidnext_truthful (run h (init 100)).
Proof. exact refuted_move. Qed.
Print Assumptions c03_refuted_junk_move.

(** RENAME INBOX x: x advertises UIDNEXT 1 while holding INBOX's messages *)
Theorem c03_refuted_rename_inbox :
  exists h, classify (init 100) h = Some CRenameInbox /\ ~ uidnext_truthful (run h (init 100)).
Proof. exact refuted_rename_inbox. Qed.
Print Assumptions c03_refuted_rename_inbox.

(** DELETE + CREATE within one clock second: same name, same UIDVALIDITY,
    UID 1 denotes a second message *)
Theorem c03_refuted_same_second :
  exists h, classify (init 100) h = Some CSameSecond /\ ~ uid_functional (run h (init 100)).
Proof. exact refuted_same_second. Qed.
Print Assumptions c03_refuted_same_second.
