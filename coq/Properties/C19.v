(** C19 — SEARCH returns exactly the messages that satisfy the criteria.
    Statements only; every proof is [exact <lemma>]. *)
From Coq Require Import String Ascii List Bool Arith ZArith.
From Raven Require Import Base.GoStr Model.Search Model.SearchText Spec.Search Model.SearchClass Proof.SearchHandler.
Import ListNotations.
Local Open Scope Z_scope.

(** An unsupported charset is answered with NO, whatever follows. *)
Theorem c19_badcharset :
  forall (T : text_ops) (tag cmd kwd cs : str) (rest : list str) (msgs : list msg),
    to_upper kwd = S_ "CHARSET" ->
    to_upper cs <> S_ "US-ASCII" -> to_upper cs <> S_ "UTF-8" ->
    handle_search T (tag :: cmd :: kwd :: cs :: rest) msgs = RNo.
Proof. exact badcharset_no. Qed.
Print Assumptions c19_badcharset.
