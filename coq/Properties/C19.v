(** C19 — SEARCH returns exactly the messages that satisfy the criteria.
    Statements only; every proof is [exact <lemma>].

    Model: Model/Search.v (evaluateTokens & co., HandleSearch, uid.handleUIDSearch),
    Model/SearchText.v (keys that read the text).  Spec: Spec/Search.v.
    [wf_prog]: the program is valid RFC 3501 syntax.  [mb_ok]: the flags of the
    client's view are non-empty words without white space.  [classify ks mb = None]:
    the program/mailbox is outside every listed class of Model/SearchClass.v;
    each class has a [c19_refuted_...] witness below. *)
From Coq Require Import String Ascii List Bool Arith ZArith Sorted.
From Raven Require Spec.SeqSet Model.CmdTokenizer.
From Raven Require Import Base.GoStr Model.Search Model.SearchText Spec.Search Model.SearchClass
  Proof.SearchHandler Proof.SearchTok Proof.SearchMain Proof.SearchUid Proof.SearchRefuted Proof.SearchTotal.
Import ListNotations.
Local Open Scope Z_scope.

(** SEARCH on the printed program returns, for EVERY well-formed program
    outside the listed classes and EVERY mailbox, exactly the sequence numbers
    of the messages that satisfy all keys (and the specification asks for a
    result, not an error). *)
Theorem c19_search_exact : forall (ks : list key) (mb : list smsg),
  wf_prog ks = true -> mb_ok mb = true -> classify ks mb = None ->
  search (to_msgs mb) (print_prog ks) = Some (spec_search_list ks mb)
  /\ spec_search ks mb = SOk (spec_search_list ks mb).
Proof. exact search_exact. Qed.
Print Assumptions c19_search_exact.

(** the same through HandleSearch, on the command line as connection.go splits it *)
Theorem c19_search_cmd_exact : forall (tag cmd : str) (ks : list key) (mb : list smsg),
  wf_prog ks = true -> mb_ok mb = true -> classify ks mb = None ->
  search_cmd (tag :: cmd :: Model.CmdTokenizer.split_command_line (print_prog ks)) (to_msgs mb) = ROk (spec_search_list ks mb).
Proof. exact search_cmd_exact. Qed.
Print Assumptions c19_search_cmd_exact.

(** UID SEARCH runs the same evaluator (fix "UID SEARCH runs the SEARCH
    evaluator"): for every well-formed program outside the classes and every
    mailbox it returns exactly the UIDs of the messages that satisfy all keys *)
Theorem c19_uid_search_exact : forall (ks : list key) (mb : list smsg),
  wf_prog ks = true -> mb_ok mb = true -> classify ks mb = None ->
  uid_search (to_msgs mb) (print_prog ks) = Some (spec_uid_search_list ks mb)
  /\ spec_uid_search ks mb = SOk (spec_uid_search_list ks mb).
Proof. exact uid_search_exact. Qed.
Print Assumptions c19_uid_search_exact.

Theorem c19_uid_search_cmd_exact : forall (tag uid cmd : str) (ks : list key) (mb : list smsg),
  wf_prog ks = true -> mb_ok mb = true -> classify ks mb = None ->
  uid_search_cmd (tag :: uid :: cmd :: Model.CmdTokenizer.split_command_line (print_prog ks)) (to_msgs mb) = ROk (spec_uid_search_list ks mb).
Proof. exact uid_search_cmd_exact. Qed.
Print Assumptions c19_uid_search_cmd_exact.

(** the tokenizer returns the tokens of a printed program unchanged *)
Theorem c19_tokenizer_roundtrip : forall toks : list str,
  forallb tok_ok toks = true -> parse_search_tokens (join toks [sp]) = toks.
Proof. exact parse_print. Qed.
Print Assumptions c19_tokenizer_roundtrip.

(** Ascending order, no duplicates, only messages of the mailbox: for EVERY
    command line, text semantics and message list with ascending numbers. *)
Theorem c19_ascending_nodup : forall (T : text_ops) (parts : list str) (msgs : list msg) (l : list Z),
  StronglySorted Z.lt (map m_seq msgs) -> handle_search T parts msgs = ROk l ->
  StronglySorted Z.lt l /\ NoDup l /\ incl l (map m_seq msgs).
Proof. exact search_ascending. Qed.
Print Assumptions c19_ascending_nodup.

Theorem c19_uid_ascending_nodup : forall (T : text_ops) (parts : list str) (msgs : list msg) (l : list Z),
  StronglySorted Z.lt (map m_uid msgs) -> handle_uid_search T parts msgs = ROk l ->
  StronglySorted Z.lt l /\ NoDup l /\ incl l (map m_uid msgs).
Proof. exact uid_search_ascending. Qed.
Print Assumptions c19_uid_ascending_nodup.

(** An unsupported charset is answered with NO, whatever follows. *)
Theorem c19_badcharset :
  forall (T : text_ops) (tag cmd kwd cs : str) (rest : list str) (msgs : list msg),
    to_upper kwd = S_ "CHARSET" ->
    to_upper cs <> S_ "US-ASCII" -> to_upper cs <> S_ "UTF-8" ->
    handle_search T (tag :: cmd :: kwd :: cs :: rest) msgs = RNo.
Proof. exact badcharset_no. Qed.
Print Assumptions c19_badcharset.

Theorem c19_uid_badcharset :
  forall (T : text_ops) (tag uid cmd kwd cs : str) (rest : list str) (msgs : list msg),
    to_upper kwd = S_ "CHARSET" ->
    to_upper cs <> S_ "US-ASCII" -> to_upper cs <> S_ "UTF-8" ->
    handle_uid_search T (tag :: uid :: cmd :: kwd :: cs :: rest) msgs = RNo.
Proof. exact uid_badcharset_no. Qed.
Print Assumptions c19_uid_badcharset.

(** a supported charset is accepted and dropped *)
Theorem c19_charset_dropped :
  forall (T : text_ops) (tag cmd kwd cs k : str) (rest : list str) (msgs : list msg),
    to_upper kwd = S_ "CHARSET" ->
    (to_upper cs = S_ "US-ASCII" \/ to_upper cs = S_ "UTF-8") ->
    to_upper k <> S_ "CHARSET" ->
    handle_search T (tag :: cmd :: kwd :: cs :: k :: rest) msgs = handle_search T (tag :: cmd :: k :: rest) msgs.
Proof. exact charset_dropped. Qed.
Print Assumptions c19_charset_dropped.

(** ... and NO command line, text semantics or mailbox makes the evaluator
    panic any more (the model has no run-time failure left): the reply is
    always a result or an error. *)
Theorem c19_never_panics : forall (T : text_ops) (parts : list str) (msgs : list msg),
  handle_search T parts msgs <> RPanic /\ handle_uid_search T parts msgs <> RPanic.
Proof. intros T parts msgs. split; [apply search_never_panics | apply uid_search_never_panics]. Qed.
Print Assumptions c19_never_panics.

(** ** where raven violates the property: one witness per class *)
(** repaired by 32751d9 (SEARCH sets follow RFC 3501): comma lists, "*", reversed ranges *)
Example c19_sets_repaired :
  search_line [KSeq [sone 1; sone 3]] wit_mb = ROk [1; 3]
  /\ search_line [KSeq [Spec.SeqSet.One Spec.SeqSet.Star]] wit_mb = ROk [3]
  /\ search_line [KSeq [srange 3 1]] wit_mb = ROk [1; 2; 3]
  /\ search_line [KUid [Spec.SeqSet.Range (Spec.SeqSet.Num 2) Spec.SeqSet.Star; sone 1]; KNot (KSeq [sone 2])] wit_mb = ROk [1; 3]
  /\ classify_line [KUid [Spec.SeqSet.Range (Spec.SeqSet.Num 2) Spec.SeqSet.Star; sone 1]; KNot (KSeq [sone 2])] wit_mb = None.
Proof. exact sets_repaired. Qed.

(** repaired by "NOT and OR take complete search keys": the former witnesses of
    paren_group / not_or_arity and a nested program meet the specification *)
Example c19_arity_repaired :
  search_line [KGroup [KHas FSeen]] wit_mb = ROk [1]
  /\ search_line [KNot (KHeader (S_ "Subject") (S_ "hello"))] wit_mb = ROk [2; 3]
  /\ wf_prog ex_nested = true /\ classify_line ex_nested wit_mb = None
  /\ print_prog ex_nested = S_ "OR (SEEN FROM ""alice"") NOT OR HEADER ""Subject"" ""other"" NOT ((TEXT ""three""))"
  /\ search_line ex_nested wit_mb = ROk [1; 3] /\ spec_search ex_nested wit_mb = SOk [1; 3].
Proof. exact arity_repaired. Qed.

Theorem c19_refuted_unknown_key : exists ks mb, refutes CUnknownKey ks mb.
Proof. exact refuted_unknown_key. Qed.
Print Assumptions c19_refuted_unknown_key.
(** repaired by 378938d (flags compared as whole words): the former
    substring_flag witness KEYWORD foo / flag foobar now meets the specification *)
Example c19_substring_flag_repaired :
  contains (S_ "\Seen foobar") (S_ "foo") = true /\ has_flag_go (S_ "\Seen foobar") (S_ "foo") = false
  /\ wf_prog [KKeyword (S_ "foo")] = true /\ classify_line [KKeyword (S_ "foo")] wit_mb = None
  /\ reply_ok (search_line [KKeyword (S_ "foo")] wit_mb) (spec_search [KKeyword (S_ "foo")] wit_mb) = true.
Proof. exact substring_flag_repaired. Qed.
(** repaired by the header-occurrence and RFC 5322 sent-date fixes: the former
    text_atom witnesses meet the specification; folded fields keep their white space *)
Example c19_text_keys_repaired :
  search_line [KHeader (S_ "X-A") (S_ "et")] wit_mb = ROk []
  /\ search_line [KHeader (S_ "X-A") (S_ "two")] wit_mb = ROk [1]
  /\ search_line [KDate true COn (S_ "3", 1, S_ "2006")] wit_mb = ROk [2]
  /\ classify_line [KHeader (S_ "X-A") (S_ "et"); KDate true COn (S_ "3", 1, S_ "2006")] wit_mb = None
  /\ field_values fold_msg (S_ "subject") = [S_ " first  second   line"]
  /\ sent_date fold_msg = Some (2006, 1, 3).
Proof. exact text_keys_repaired. Qed.

(** repaired by 2599345 (SplitCommandLine keeps quoted strings whole) and by "a Date:
    field folded with a tab": the former quoted_space / sent_date_htab witnesses *)
Example c19_line_repaired :
  search_line [KDate true COn (S_ "2", 1, S_ "2006")] tab_mb = ROk [1]
  /\ search_line [KHdr HSubject (S_ "Hello  World")] wit_mb = ROk [1]
  /\ search_line [KGroup [KHdr HSubject (S_ "Hello  World"); KNot (KText ([tab] ++ S_ " x"))]] wit_mb = ROk [1]
  /\ Model.CmdTokenizer.split_command_line (print_prog [KGroup [KHdr HSubject (S_ "a  b")]]) = [S_ "(SUBJECT"; S_ """a  b"")"].
Proof. exact line_repaired. Qed.
(** repaired by "UID SEARCH runs the SEARCH evaluator": the former witnesses of
    uid_search_ignores_keys / uid_search_single meet the specification *)
Example c19_uid_search_repaired :
  uid_search_line [KUn FSeen] wit_mb = ROk [2; 3]
  /\ reply_ok (uid_search_line [KUn FSeen] wit_mb) (spec_uid_search [KUn FSeen] wit_mb) = true
  /\ uid_search_line [KUid [sone 2]] wit_mb = ROk [2]
  /\ reply_ok (uid_search_line [KUid [sone 2]] wit_mb) (spec_uid_search [KUid [sone 2]] wit_mb) = true
  /\ uid_search_line [KNot (KHas FSeen); KHdr HFrom (S_ "bob")] wit_mb = ROk [2].
Proof. exact uid_search_repaired. Qed.

(** repaired by bb43d4f (guard before the second OR key): the former panic
    witness is answered "no match" ... *)
Example c19_or_panic_repaired :
  search (to_msgs wit_mb) (S_ "OR FROM x") = Some []
  /\ search_cmd (t_ :: S_ "SEARCH" :: Model.CmdTokenizer.split_command_line (S_ "OR FROM x")) (to_msgs wit_mb) = ROk [].
Proof. exact or_panic_repaired. Qed.

(** date keys disregard time and zone: the calendar date as written in the
    Date: field (zone offsets near midnight: the UTC day differs), alone and
    under NOT / OR, inside the fragment of c19_search_exact *)
Example c19_sent_date_as_written :
  map (fun m => sent_date (s_text m)) zone_mb = [Some (2024, 1, 1); Some (2024, 1, 3); Some (2024, 1, 2)]
  /\ classify_line [KNot (KDate true COn (d2024 "2"))] zone_mb = None
  /\ search_line [KDate true COn (d2024 "1")] zone_mb = ROk [1]
  /\ search_line [KNot (KDate true COn (d2024 "2"))] zone_mb = ROk [1; 2]
  /\ search_line [KOr (KDate true CBefore (d2024 "2")) (KDate true CSince (d2024 "3"))] zone_mb = ROk [1; 2].
Proof. exact sent_date_as_written. Qed.

(** a copied message (same text, byte-identical flags, listed twice): every
    entry is judged on its own sequence number, UID and internal date *)
Example c19_copied_entries_on_their_own :
  classify_line [KOr (one_ 2) (KHdr HFrom (S_ "carol"))] copy_mb = None
  /\ search_line [one_ 1] copy_mb = ROk [1] /\ search_line [one_ 2] copy_mb = ROk [2]
  /\ search_line [KNot (one_ 1)] copy_mb = ROk [2; 3]
  /\ search_line [KOr (one_ 2) (KHdr HFrom (S_ "carol"))] copy_mb = ROk [2; 3]
  /\ search_line [KUid [srange 2 3]] copy_mb = ROk [2; 3]
  /\ search_line [KDate false COn (S_ "1", 10, S_ "2026")] copy_mb = ROk [1].
Proof. exact copied_entries_on_their_own. Qed.

(** non-vacuity: a program of the fragment with NOT, OR, a range, a UID set,
    a keyword, a date, a size and a string key satisfies every hypothesis of
    c19_search_cmd_exact on the witness mailbox, and selects a proper subset *)
Definition ex_prog : list key :=
  [ KNot (KHas FSeen); KOr (KSeq [srange 2 3]) (KKeyword (S_ "work"));
    KUid [srange 1 9]; KDate false CSince (S_ "1", 1, S_ "2020");
    KLarger (S_ "10"); KText (S_ "body t") ].
Example c19_fragment_example :
  wf_prog ex_prog = true /\ mb_ok wit_mb = true /\ classify_line ex_prog wit_mb = None
  /\ str_eqb (to_upper (nth 0 (Model.CmdTokenizer.split_command_line (print_prog ex_prog)) [])) (S_ "CHARSET") = false
  /\ print_prog ex_prog = S_ "NOT SEEN OR 2:3 KEYWORD work UID 1:9 SINCE 1-Jan-2020 LARGER 10 TEXT ""body t"""
  /\ spec_search_list ex_prog wit_mb = [2; 3].
Proof. vm_compute. repeat split; reflexivity. Qed.
