// Command extract_c12 lists every `go` statement of raven (non-test files under
// <repo>/internal and <repo>/cmd) with the function it starts and whether that
// function recovers from panics.  Output: JSON on stdout.  stdlib only.
//
//	entry.conn      the started function has a parameter whose type is a
//	                *.Conn (net.Conn, *tls.Conn), or the go statement sits in a
//	                for loop that calls .Accept()
//	entry.resolved  the callee's body was found (func literal, or a function /
//	                method of that name in the same directory, or a unique one
//	                elsewhere)
//	entry.recovers  a TOP-LEVEL defer statement of the callee's body calls a
//	                func literal containing recover(), or a same-directory /
//	                unique function whose body contains recover()
package main

import (
	"encoding/json"
	"fmt"
	"go/ast"
	"go/parser"
	"go/token"
	"os"
	"path/filepath"
	"sort"
	"strings"
)

type Entry struct {
	Site     string `json:"site"`
	Callee   string `json:"callee"`
	Service  string `json:"service"`
	Conn     bool   `json:"conn"`
	Resolved bool   `json:"resolved"`
	Recovers bool   `json:"recovers"`
}

type fn struct {
	dir  string
	decl *ast.FuncDecl
}

var funcs = map[string][]fn{} // name -> declarations

// lookup resolves a callee name; wantMethod: 1 = method, 0 = plain function, -1 = either.
func lookup(dir, name string, wantMethod int) *ast.FuncDecl {
	var same, all []*ast.FuncDecl
	for _, f := range funcs[name] {
		if wantMethod == 1 && f.decl.Recv == nil || wantMethod == 0 && f.decl.Recv != nil {
			continue
		}
		all = append(all, f.decl)
		if f.dir == dir {
			same = append(same, f.decl)
		}
	}
	if len(same) == 1 {
		return same[0]
	}
	if len(same) == 0 && len(all) == 1 {
		return all[0]
	}
	return nil
}

func callsRecover(n ast.Node) bool {
	found := false
	ast.Inspect(n, func(x ast.Node) bool {
		if c, ok := x.(*ast.CallExpr); ok {
			if id, ok := c.Fun.(*ast.Ident); ok && id.Name == "recover" && len(c.Args) == 0 {
				found = true
			}
		}
		return !found
	})
	return found
}

func calleeName(e ast.Expr) string {
	switch t := e.(type) {
	case *ast.Ident:
		return t.Name
	case *ast.SelectorExpr:
		return t.Sel.Name
	case *ast.ParenExpr:
		return calleeName(t.X)
	}
	return ""
}

func bodyRecovers(dir string, body *ast.BlockStmt) bool {
	if body == nil {
		return false
	}
	for _, st := range body.List {
		d, ok := st.(*ast.DeferStmt)
		if !ok {
			continue
		}
		if lit, ok := d.Call.Fun.(*ast.FuncLit); ok {
			if callsRecover(lit.Body) {
				return true
			}
			continue
		}
		if name := calleeName(d.Call.Fun); name != "" {
			if fd := lookup(dir, name, -1); fd != nil && fd.Body != nil && callsRecover(fd.Body) {
				return true
			}
		}
	}
	return false
}

func isConnType(e ast.Expr) bool {
	switch t := e.(type) {
	case *ast.StarExpr:
		return isConnType(t.X)
	case *ast.SelectorExpr:
		return t.Sel.Name == "Conn"
	case *ast.Ident:
		return t.Name == "Conn"
	}
	return false
}

func hasConnParam(ft *ast.FuncType) bool {
	if ft == nil || ft.Params == nil {
		return false
	}
	for _, p := range ft.Params.List {
		if isConnType(p.Type) {
			return true
		}
	}
	return false
}

func callsAccept(n ast.Node) bool {
	found := false
	ast.Inspect(n, func(x ast.Node) bool {
		if c, ok := x.(*ast.CallExpr); ok {
			if s, ok := c.Fun.(*ast.SelectorExpr); ok && s.Sel.Name == "Accept" {
				found = true
			}
		}
		return !found
	})
	return found
}

func serviceOf(rel string) string {
	switch {
	case strings.HasPrefix(rel, "cmd/server/"), strings.HasPrefix(rel, "internal/server/"):
		return "imap"
	case strings.HasPrefix(rel, "cmd/delivery/"), strings.HasPrefix(rel, "internal/delivery/"):
		return "lmtp"
	case strings.HasPrefix(rel, "cmd/sasl/"), strings.HasPrefix(rel, "internal/sasl/"):
		return "sasl"
	}
	return "other"
}

func main() {
	if len(os.Args) < 2 {
		fmt.Fprintln(os.Stderr, "usage: extract_c12 <repo>")
		os.Exit(2)
	}
	repo := os.Args[1]
	fset := token.NewFileSet()
	type pf struct {
		rel  string
		dir  string
		file *ast.File
	}
	var files []pf
	for _, top := range []string{"internal", "cmd"} {
		_ = filepath.Walk(filepath.Join(repo, top), func(p string, info os.FileInfo, err error) error {
			if err != nil || info.IsDir() || !strings.HasSuffix(p, ".go") || strings.HasSuffix(p, "_test.go") {
				return nil
			}
			f, perr := parser.ParseFile(fset, p, nil, 0)
			if perr != nil {
				fmt.Fprintln(os.Stderr, "parse:", perr)
				os.Exit(1)
			}
			rel, _ := filepath.Rel(repo, p)
			files = append(files, pf{rel, filepath.Dir(rel), f})
			return nil
		})
	}
	sort.Slice(files, func(i, j int) bool { return files[i].rel < files[j].rel })
	for _, f := range files {
		for _, d := range f.file.Decls {
			if fd, ok := d.(*ast.FuncDecl); ok {
				funcs[fd.Name.Name] = append(funcs[fd.Name.Name], fn{f.dir, fd})
			}
		}
	}
	entries := []Entry{}
	for _, f := range files {
		imports := map[string]bool{}
		for _, im := range f.file.Imports {
			path := strings.Trim(im.Path.Value, "\"")
			name := path[strings.LastIndex(path, "/")+1:]
			if im.Name != nil {
				name = im.Name.Name
			}
			imports[name] = true
		}
		// walk with a stack to know the enclosing for loops
		var stack []ast.Node
		ast.Inspect(f.file, func(n ast.Node) bool {
			if n == nil {
				stack = stack[:len(stack)-1]
				return true
			}
			stack = append(stack, n)
			g, ok := n.(*ast.GoStmt)
			if !ok {
				return true
			}
			inAccept := false
			for _, s := range stack {
				if fs, ok := s.(*ast.ForStmt); ok && callsAccept(fs.Body) {
					inAccept = true
				}
			}
			pos := fset.Position(g.Pos())
			e := Entry{Site: fmt.Sprintf("%s:%d", f.rel, pos.Line), Service: serviceOf(f.rel)}
			switch fun := g.Call.Fun.(type) {
			case *ast.FuncLit:
				e.Callee = "func literal"
				e.Resolved = true
				e.Conn = hasConnParam(fun.Type) || inAccept
				e.Recovers = bodyRecovers(f.dir, fun.Body)
			default:
				e.Callee = calleeName(fun)
				e.Conn = inAccept
				want := 0
				if sel, ok := fun.(*ast.SelectorExpr); ok {
					want = 1
					if id, ok := sel.X.(*ast.Ident); ok && imports[id.Name] {
						want = 0
					}
				}
				if fd := lookup(f.dir, e.Callee, want); fd != nil {
					e.Resolved = true
					e.Conn = e.Conn || hasConnParam(fd.Type)
					// the callee lives in fd's own directory
					dir := f.dir
					for _, c := range funcs[e.Callee] {
						if c.decl == fd {
							dir = c.dir
						}
					}
					e.Recovers = bodyRecovers(dir, fd.Body)
				}
			}
			entries = append(entries, e)
			return true
		})
	}
	out, _ := json.MarshalIndent(map[string]interface{}{"entries": entries}, "", " ")
	fmt.Println(string(out))
}
