// Command extract_c12 lists every `go` statement of raven (non-test files under
// <repo>/internal and <repo>/cmd) with the function it starts and whether that
// function recovers from panics.  Output: JSON on stdout.  stdlib only.
//
//	entry.conn      the started function has a parameter whose type is a
//	                *.Conn (net.Conn, *tls.Conn), or the go statement sits in a
//	                for loop that calls .Accept()
//	entry.resolved  the callee's body was found (func literal, or a function /
//	                method of that name in the same directory, or a unique one
//	                elsewhere)
//	entry.recovers  a TOP-LEVEL defer statement of the callee's body calls a
//	                func literal containing recover(), or a same-directory /
//	                unique function whose body contains recover()
package main

import (
	"encoding/json"
	"fmt"
	"go/ast"
	"go/parser"
	"go/token"
	"os"
	"path/filepath"
	"sort"
	"strings"
)

type Entry struct {
	Site     string `json:"site"`
	Callee   string `json:"callee"`
	Service  string `json:"service"`
	Conn     bool   `json:"conn"`
	Resolved bool   `json:"resolved"`
	Recovers bool   `json:"recovers"`
}

// Hold: a function that takes a mutex field of its receiver (x.<mutex>.Lock() / RLock()) and the functions of
// the same package it calls, directly or through other functions of the package, while it holds it
// (statements after the Lock call up to the matching explicit Unlock at the same level, or to the end of
// the function when the Unlock is deferred).
type Hold struct {
	Site    string   `json:"site"`
	Fn      string   `json:"fn"`
	Mutex   string   `json:"mutex"`
	Write   bool     `json:"write"`
	Callees []string `json:"callees"`
	Paths   []string `json:"paths"` // for each callee, one call path "a > b > c"
}

// Locker: a function whose own body takes that mutex
type Locker struct {
	Dir   string `json:"dir"`
	Fn    string `json:"fn"`
	Mutex string `json:"mutex"`
	Write bool   `json:"write"`
}

type fn struct {
	dir  string
	decl *ast.FuncDecl
}

var funcs = map[string][]fn{} // name -> declarations

// lookup resolves a callee name; wantMethod: 1 = method, 0 = plain function, -1 = either.
func lookup(dir, name string, wantMethod int) *ast.FuncDecl {
	var same, all []*ast.FuncDecl
	for _, f := range funcs[name] {
		if wantMethod == 1 && f.decl.Recv == nil || wantMethod == 0 && f.decl.Recv != nil {
			continue
		}
		all = append(all, f.decl)
		if f.dir == dir {
			same = append(same, f.decl)
		}
	}
	if len(same) == 1 {
		return same[0]
	}
	if len(same) == 0 && len(all) == 1 {
		return all[0]
	}
	return nil
}

func callsRecover(n ast.Node) bool {
	found := false
	ast.Inspect(n, func(x ast.Node) bool {
		if c, ok := x.(*ast.CallExpr); ok {
			if id, ok := c.Fun.(*ast.Ident); ok && id.Name == "recover" && len(c.Args) == 0 {
				found = true
			}
		}
		return !found
	})
	return found
}

func calleeName(e ast.Expr) string {
	switch t := e.(type) {
	case *ast.Ident:
		return t.Name
	case *ast.SelectorExpr:
		return t.Sel.Name
	case *ast.ParenExpr:
		return calleeName(t.X)
	}
	return ""
}

func bodyRecovers(dir string, body *ast.BlockStmt) bool {
	if body == nil {
		return false
	}
	for _, st := range body.List {
		d, ok := st.(*ast.DeferStmt)
		if !ok {
			continue
		}
		if lit, ok := d.Call.Fun.(*ast.FuncLit); ok {
			if callsRecover(lit.Body) {
				return true
			}
			continue
		}
		if name := calleeName(d.Call.Fun); name != "" {
			if fd := lookup(dir, name, -1); fd != nil && fd.Body != nil && callsRecover(fd.Body) {
				return true
			}
		}
	}
	return false
}

func isConnType(e ast.Expr) bool {
	switch t := e.(type) {
	case *ast.StarExpr:
		return isConnType(t.X)
	case *ast.SelectorExpr:
		return t.Sel.Name == "Conn"
	case *ast.Ident:
		return t.Name == "Conn"
	}
	return false
}

func hasConnParam(ft *ast.FuncType) bool {
	if ft == nil || ft.Params == nil {
		return false
	}
	for _, p := range ft.Params.List {
		if isConnType(p.Type) {
			return true
		}
	}
	return false
}

func callsAccept(n ast.Node) bool {
	found := false
	ast.Inspect(n, func(x ast.Node) bool {
		if c, ok := x.(*ast.CallExpr); ok {
			if s, ok := c.Fun.(*ast.SelectorExpr); ok && s.Sel.Name == "Accept" {
				found = true
			}
		}
		return !found
	})
	return found
}

func serviceOf(rel string) string {
	switch {
	case strings.HasPrefix(rel, "cmd/server/"), strings.HasPrefix(rel, "internal/server/"):
		return "imap"
	case strings.HasPrefix(rel, "cmd/delivery/"), strings.HasPrefix(rel, "internal/delivery/"):
		return "lmtp"
	case strings.HasPrefix(rel, "cmd/sasl/"), strings.HasPrefix(rel, "internal/sasl/"):
		return "sasl"
	}
	return "other"
}

type srcFile struct {
	rel, dir string
	file     *ast.File
}

// mutexCall recognises <recv>.<mutex>.Lock|RLock|Unlock|RUnlock() and returns (mutex field, method)
func mutexCall(e ast.Expr) (string, string) {
	c, ok := e.(*ast.CallExpr)
	if !ok || len(c.Args) != 0 {
		return "", ""
	}
	sel, ok := c.Fun.(*ast.SelectorExpr)
	if !ok {
		return "", ""
	}
	switch sel.Sel.Name {
	case "Lock", "RLock", "Unlock", "RUnlock":
	default:
		return "", ""
	}
	inner, ok := sel.X.(*ast.SelectorExpr)
	if !ok {
		return "", ""
	}
	if _, ok := inner.X.(*ast.Ident); !ok {
		return "", ""
	}
	return inner.Sel.Name, sel.Sel.Name
}

// funcID names a function of a package: "name" for a plain function, "Type.name" for a method
func funcID(fd *ast.FuncDecl) string {
	if fd.Recv == nil || len(fd.Recv.List) == 0 {
		return fd.Name.Name
	}
	t := fd.Recv.List[0].Type
	if st, ok := t.(*ast.StarExpr); ok {
		t = st.X
	}
	if id, ok := t.(*ast.Ident); ok {
		return id.Name + "." + fd.Name.Name
	}
	return fd.Name.Name
}

func recvName(fd *ast.FuncDecl) (string, string) {
	if fd.Recv == nil || len(fd.Recv.List) == 0 || len(fd.Recv.List[0].Names) == 0 {
		return "", ""
	}
	id := funcID(fd)
	typ := id[:strings.Index(id+".", ".")]
	return fd.Recv.List[0].Names[0].Name, typ
}

// callsIn lists the same-package functions called inside n, which is part of fd: plain calls f(...) of package
// functions, and method calls r.m(...) on fd's own receiver r (a method of the same type). Calls on other
// values (db.Close(), rows.Next()) are calls into other types and are not followed.
func callsIn(fd *ast.FuncDecl, n ast.Node, known map[string]*ast.FuncDecl) []string {
	seen := map[string]bool{}
	var out []string
	rname, rtype := recvName(fd)
	ast.Inspect(n, func(x ast.Node) bool {
		c, ok := x.(*ast.CallExpr)
		if !ok {
			return true
		}
		id := ""
		switch f := c.Fun.(type) {
		case *ast.Ident:
			id = f.Name
		case *ast.SelectorExpr:
			if xi, ok := f.X.(*ast.Ident); ok && rname != "" && xi.Name == rname {
				id = rtype + "." + f.Sel.Name
			}
		}
		if id != "" && known[id] != nil && !seen[id] {
			seen[id] = true
			out = append(out, id)
		}
		return true
	})
	return out
}

func lockFacts(fset *token.FileSet, files []srcFile) ([]Hold, []Locker) {
	holds := []Hold{}
	lockers := []Locker{}
	byDir := map[string][]srcFile{}
	for _, f := range files {
		byDir[f.dir] = append(byDir[f.dir], f)
	}
	dirs := []string{}
	for d := range byDir {
		dirs = append(dirs, d)
	}
	sort.Strings(dirs)
	for _, dir := range dirs {
		known := map[string]*ast.FuncDecl{}
		for _, f := range byDir[dir] {
			for _, d := range f.file.Decls {
				if fd, ok := d.(*ast.FuncDecl); ok && fd.Body != nil {
					known[funcID(fd)] = fd
				}
			}
		}
		// lockers: the function's own body takes the mutex
		for _, f := range byDir[dir] {
			for _, d := range f.file.Decls {
				fd, ok := d.(*ast.FuncDecl)
				if !ok || fd.Body == nil {
					continue
				}
				got := map[string]bool{}
				ast.Inspect(fd.Body, func(x ast.Node) bool {
					if es, ok := x.(*ast.ExprStmt); ok {
						if mu, m := mutexCall(es.X); m == "Lock" || m == "RLock" {
							key := mu + "/" + m
							if !got[key] {
								got[key] = true
								lockers = append(lockers, Locker{Dir: dir, Fn: funcID(fd), Mutex: mu, Write: m == "Lock"})
							}
						}
					}
					return true
				})
				// holds: for every Lock statement in a statement list, the region it covers
				var walk func(list []ast.Stmt)
				walk = func(list []ast.Stmt) {
					for i, st := range list {
						if es, ok := st.(*ast.ExprStmt); ok {
							if mu, m := mutexCall(es.X); m == "Lock" || m == "RLock" {
								un := "Unlock"
								if m == "RLock" {
									un = "RUnlock"
								}
								// region: the following statements of this list, up to an explicit matching unlock
								// statement at this level; with a deferred unlock (or none at this level) to the end
								end := len(list)
								for j := i + 1; j < len(list); j++ {
									if es2, ok := list[j].(*ast.ExprStmt); ok {
										if mu2, m2 := mutexCall(es2.X); mu2 == mu && m2 == un {
											end = j
											break
										}
									}
								}
								direct := []string{}
								seen := map[string]bool{}
								for _, r := range list[i+1 : end] {
									if ds, ok := r.(*ast.DeferStmt); ok {
										if mu2, m2 := mutexCall(ds.Call); mu2 == mu && m2 == un {
											continue
										}
									}
									for _, c := range callsIn(fd, r, known) {
										if !seen[c] {
											seen[c] = true
											direct = append(direct, c)
										}
									}
								}
								// transitive closure with one path per callee
								path := map[string]string{}
								queue := []string{}
								for _, c := range direct {
									path[c] = funcID(fd) + " > " + c
									queue = append(queue, c)
								}
								for len(queue) > 0 {
									c := queue[0]
									queue = queue[1:]
									for _, c2 := range callsIn(known[c], known[c].Body, known) {
										if _, ok := path[c2]; !ok {
											path[c2] = path[c] + " > " + c2
											queue = append(queue, c2)
										}
									}
								}
								callees := []string{}
								for c := range path {
									callees = append(callees, c)
								}
								sort.Strings(callees)
								paths := []string{}
								for _, c := range callees {
									paths = append(paths, path[c])
								}
								pos := fset.Position(st.Pos())
								holds = append(holds, Hold{Site: fmt.Sprintf("%s:%d", f.rel, pos.Line), Fn: funcID(fd), Mutex: mu, Write: m == "Lock", Callees: callees, Paths: paths})
							}
						}
						// descend into nested statement lists
						ast.Inspect(st, func(x ast.Node) bool {
							if b, ok := x.(*ast.BlockStmt); ok {
								walk(b.List)
								return false
							}
							if cc, ok := x.(*ast.CaseClause); ok {
								walk(cc.Body)
								return false
							}
							return true
						})
					}
				}
				walk(fd.Body.List)
			}
		}
	}
	return holds, lockers
}

func main() {
	if len(os.Args) < 2 {
		fmt.Fprintln(os.Stderr, "usage: extract_c12 <repo>")
		os.Exit(2)
	}
	repo := os.Args[1]
	fset := token.NewFileSet()
	type pf struct {
		rel  string
		dir  string
		file *ast.File
	}
	var files []pf
	for _, top := range []string{"internal", "cmd"} {
		_ = filepath.Walk(filepath.Join(repo, top), func(p string, info os.FileInfo, err error) error {
			if err != nil || info.IsDir() || !strings.HasSuffix(p, ".go") || strings.HasSuffix(p, "_test.go") {
				return nil
			}
			f, perr := parser.ParseFile(fset, p, nil, 0)
			if perr != nil {
				fmt.Fprintln(os.Stderr, "parse:", perr)
				os.Exit(1)
			}
			rel, _ := filepath.Rel(repo, p)
			files = append(files, pf{rel, filepath.Dir(rel), f})
			return nil
		})
	}
	sort.Slice(files, func(i, j int) bool { return files[i].rel < files[j].rel })
	files2 := func(in []pf) []srcFile {
		out := []srcFile{}
		for _, f := range in {
			out = append(out, srcFile{f.rel, f.dir, f.file})
		}
		return out
	}
	for _, f := range files {
		for _, d := range f.file.Decls {
			if fd, ok := d.(*ast.FuncDecl); ok {
				funcs[fd.Name.Name] = append(funcs[fd.Name.Name], fn{f.dir, fd})
			}
		}
	}
	entries := []Entry{}
	for _, f := range files {
		imports := map[string]bool{}
		for _, im := range f.file.Imports {
			path := strings.Trim(im.Path.Value, "\"")
			name := path[strings.LastIndex(path, "/")+1:]
			if im.Name != nil {
				name = im.Name.Name
			}
			imports[name] = true
		}
		// walk with a stack to know the enclosing for loops
		var stack []ast.Node
		ast.Inspect(f.file, func(n ast.Node) bool {
			if n == nil {
				stack = stack[:len(stack)-1]
				return true
			}
			stack = append(stack, n)
			g, ok := n.(*ast.GoStmt)
			if !ok {
				return true
			}
			inAccept := false
			for _, s := range stack {
				if fs, ok := s.(*ast.ForStmt); ok && callsAccept(fs.Body) {
					inAccept = true
				}
			}
			pos := fset.Position(g.Pos())
			e := Entry{Site: fmt.Sprintf("%s:%d", f.rel, pos.Line), Service: serviceOf(f.rel)}
			switch fun := g.Call.Fun.(type) {
			case *ast.FuncLit:
				e.Callee = "func literal"
				e.Resolved = true
				e.Conn = hasConnParam(fun.Type) || inAccept
				e.Recovers = bodyRecovers(f.dir, fun.Body)
			default:
				e.Callee = calleeName(fun)
				e.Conn = inAccept
				want := 0
				if sel, ok := fun.(*ast.SelectorExpr); ok {
					want = 1
					if id, ok := sel.X.(*ast.Ident); ok && imports[id.Name] {
						want = 0
					}
				}
				if fd := lookup(f.dir, e.Callee, want); fd != nil {
					e.Resolved = true
					e.Conn = e.Conn || hasConnParam(fd.Type)
					// the callee lives in fd's own directory
					dir := f.dir
					for _, c := range funcs[e.Callee] {
						if c.decl == fd {
							dir = c.dir
						}
					}
					e.Recovers = bodyRecovers(dir, fd.Body)
				}
			}
			entries = append(entries, e)
			return true
		})
	}
	holds, lockers := lockFacts(fset, files2(files))
	out, _ := json.MarshalIndent(map[string]interface{}{"entries": entries, "holds": holds, "lockers": lockers}, "", " ")
	fmt.Println(string(out))
}
