//go:build verif

package parser

type VerifHeader struct {
	Name, Value string
	Sequence    int
}

func VerifExtractAllHeaders(raw string) []VerifHeader {
	var out []VerifHeader
	for _, h := range extractAllHeaders(raw) {
		out = append(out, VerifHeader{h.Name, h.Value, h.Sequence})
	}
	return out
}
