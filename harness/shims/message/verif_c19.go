//go:build verif

package message

import "time"

// Thin exports for the C19 (SEARCH) correspondence suite; no logic.

func VerifMatchesDate(y, m, d int, dateStr, cmp string) bool {
	return matchesDate(time.Date(y, time.Month(m), d, 12, 0, 0, 0, time.UTC), dateStr, cmp)
}

func VerifEvalTokensDate(seq int, uid int64, flags string, y, m, d int, tokens []string) bool {
	return evaluateTokens(messageInfo{seqNum: seq, uid: uid, flags: flags,
		internalDate: time.Date(y, time.Month(m), d, 12, 0, 0, 0, time.UTC)}, tokens, "US-ASCII", 0, nil)
}

// zoned variants: the time.Time is built in a fixed zone `off` seconds east of
// UTC at hh:mi local time, so that its calendar day may differ from its UTC day.

func VerifMatchesDateZone(y, m, d, hh, mi, off int, dateStr, cmp string) bool {
	return matchesDate(time.Date(y, time.Month(m), d, hh, mi, 0, 0, time.FixedZone("", off)), dateStr, cmp)
}

func VerifEvalTokensZone(seq int, uid int64, maxSeq int, maxUID int64, flags string, y, m, d, hh, mi, off int, tokens []string) bool {
	return evaluateTokens(messageInfo{seqNum: seq, uid: uid, flags: flags, maxSeqNum: maxSeq, maxUID: maxUID,
		internalDate: time.Date(y, time.Month(m), d, hh, mi, 0, 0, time.FixedZone("", off))}, tokens, "US-ASCII", 0, nil)
}
