//go:build verif

package message

import "time"

// Thin exports for the C19 (SEARCH) correspondence suite; no logic.

func VerifMatchesDate(y, m, d int, dateStr, cmp string) bool {
	return matchesDate(time.Date(y, time.Month(m), d, 12, 0, 0, 0, time.UTC), dateStr, cmp)
}

func VerifEvalTokensDate(seq int, uid int64, flags string, y, m, d int, tokens []string) bool {
	return evaluateTokens(messageInfo{seqNum: seq, uid: uid, flags: flags,
		internalDate: time.Date(y, time.Month(m), d, 12, 0, 0, 0, time.UTC)}, tokens, "US-ASCII", 0, nil)
}

// zoned variants: the time.Time is built in a fixed zone `off` seconds east of
// UTC at hh:mi local time, so that its calendar day may differ from its UTC day.

func VerifMatchesDateZone(y, m, d, hh, mi, off int, dateStr, cmp string) bool {
	return matchesDate(time.Date(y, time.Month(m), d, hh, mi, 0, 0, time.FixedZone("", off)), dateStr, cmp)
}

func VerifEvalTokensZone(seq int, uid int64, flags string, y, m, d, hh, mi, off int, tokens []string) bool {
	return evaluateTokens(messageInfo{seqNum: seq, uid: uid, flags: flags,
		internalDate: time.Date(y, time.Month(m), d, hh, mi, 0, 0, time.FixedZone("", off))}, tokens, "US-ASCII", 0, nil)
}

// VerifEvaluateSearchCriteria calls evaluateSearchCriteria on a listing given by
// parallel slices (entry k: stored message ids[k], uid uids[k], flag string
// flags[k], internal date dates[k] at 12:00 UTC, sequence number k+1). Several
// entries may share a stored message id (a copied message). No db: text keys
// answer false and are not used through this entry point.
func VerifEvaluateSearchCriteria(ids []int64, uids []int64, flags []string, dates [][3]int, criteria string) []int {
	msgs := make([]messageInfo, len(ids))
	for k := range ids {
		msgs[k] = messageInfo{messageID: ids[k], uid: uids[k], flags: flags[k], seqNum: k + 1,
			internalDate: time.Date(dates[k][0], time.Month(dates[k][1]), dates[k][2], 12, 0, 0, 0, time.UTC)}
	}
	return evaluateSearchCriteria(msgs, criteria, "US-ASCII", 0, nil)
}
