//go:build verif

package message

// Thin exports of unexported functions for the /verif driver (overlay only).

func VerifParseSearchTokens(c string) []string        { return parseSearchTokens(c) }
func VerifIsSequenceSet(t string) bool                { return isSequenceSet(t) }
// matchesSequenceSet takes the largest number in use ("*") since the SEARCH sequence-set fix
func VerifMatchesSequenceSet(n int, s string, largest int) bool {
	return matchesSequenceSet(n, s, largest)
}
func VerifExtractSinglePart(m string, n int) string   { return extractSinglePart(m, n) }
func VerifExtractBodySectionByPath(m string, p []int) string {
	return extractBodySectionByPath(m, p)
}
func VerifParsePartNumberPath(s string) ([]int, error) { return parsePartNumberPath(s) }
func VerifUnquote(s string) string                     { return unquote(s) }
func VerifRequiresArgument(s string) bool              { return requiresArgument(s) }
func VerifHeaderContains(raw, field, search string) bool {
	return headerContains(raw, field, search)
}
func VerifHasHeader(raw, field string) bool { return hasHeader(raw, field) }

// VerifEvalFlagsOnly evaluates search tokens against a message described only
// by sequence number, uid and flag string (keys that need the message text
// are not exercised through this entry point).
func VerifEvalTokens(seq int, uid int64, flags string, tokens []string) bool {
	return evaluateTokens(messageInfo{seqNum: seq, uid: uid, flags: flags}, tokens, "US-ASCII", 0, nil)
}

// VerifEvalTokensIn is VerifEvalTokens for a message of a mailbox whose highest
// sequence number / UID ("*" in sequence sets / UID sets) are given.
func VerifEvalTokensIn(seq int, uid int64, maxSeq int, maxUID int64, flags string, tokens []string) bool {
	return evaluateTokens(messageInfo{seqNum: seq, uid: uid, maxSeqNum: maxSeq, maxUID: maxUID, flags: flags}, tokens, "US-ASCII", 0, nil)
}
