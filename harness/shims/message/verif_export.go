//go:build verif

package message

// Thin exports of unexported functions for the /verif driver (overlay only).

func VerifParseSearchTokens(c string) []string        { return parseSearchTokens(c) }
func VerifIsSequenceSet(t string) bool                { return isSequenceSet(t) }
func VerifMatchesSequenceSet(n int, s string) bool    { return matchesSequenceSet(n, s) }
func VerifExtractSinglePart(m string, n int) string   { return extractSinglePart(m, n) }
func VerifExtractBodySectionByPath(m string, p []int) string {
	return extractBodySectionByPath(m, p)
}
func VerifParsePartNumberPath(s string) ([]int, error) { return parsePartNumberPath(s) }
func VerifUnquote(s string) string                     { return unquote(s) }
func VerifRequiresArgument(s string) bool              { return requiresArgument(s) }
func VerifHeaderContains(raw, field, search string) bool {
	return headerContains(raw, field, search)
}
func VerifHasHeader(raw, field string) bool { return hasHeader(raw, field) }

// VerifEvalFlagsOnly evaluates search tokens against a message described only
// by sequence number, uid and flag string (keys that need the message text
// are not exercised through this entry point).
func VerifEvalTokens(seq int, uid int64, flags string, tokens []string) bool {
	return evaluateTokens(messageInfo{seqNum: seq, uid: uid, flags: flags}, tokens, "US-ASCII", 0, nil)
}
