//go:build verif

package message

// Thin export for the C14 check (overlay only, no logic).

func VerifMapIMAPPartPath(parts []map[string]interface{}, path []int) map[string]interface{} {
	return mapIMAPPartPathToDBPart(parts, path)
}
