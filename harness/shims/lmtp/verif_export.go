//go:build verif

package lmtp

func VerifParseMailFrom(args string) (string, error) { return (&Session{}).parseMailFrom(args) }
func VerifParseRcptTo(args string) (string, error)   { return (&Session{}).parseRcptTo(args) }
