//go:build verif

package db

// VerifDecodeContentForHashing exports decodeContentForHashing (C15).
func VerifDecodeContentForHashing(content, encoding string) ([]byte, error) {
	return decodeContentForHashing(content, encoding)
}
