//go:build verif

// Statement trace for property C07 (add-only; injected by `go build -overlay`
// into the EXISTING directory internal/db because cgo needs a real directory).
//
// init() registers a SQLite auto-extension: every connection this process
// opens (raven opens them through database/sql + go-sqlite3, untouched) gets
// sqlite3_trace_v2(SQLITE_TRACE_STMT).  The callback appends
// "<basename of the main database file>\t<sql text>\0" to a process-wide
// buffer.  No logic of raven is replaced; nothing is recorded until the
// driver calls VerifTraceEnable(true).
package db

/*
#cgo CFLAGS: -I/root/go/pkg/mod/github.com/mattn/go-sqlite3@v1.14.32
#include <sqlite3-binding.h>
#include <stdlib.h>
#include <string.h>
#include <pthread.h>
#include <unistd.h>
#include <signal.h>

static pthread_mutex_t verif_mu = PTHREAD_MUTEX_INITIALIZER;
static char *verif_buf = 0;
static size_t verif_len = 0, verif_cap = 0;
static int verif_on = 0;

static void verif_put(const char *s, size_t n) {
	if (verif_len + n + 1 > verif_cap) {
		size_t nc = verif_cap ? verif_cap * 2 : 65536;
		while (nc < verif_len + n + 1) nc *= 2;
		verif_buf = (char *)realloc(verif_buf, nc);
		verif_cap = nc;
	}
	memcpy(verif_buf + verif_len, s, n);
	verif_len += n;
}

static int verif_trace_cb(unsigned t, void *ctx, void *p, void *x) {
	sqlite3_stmt *st = (sqlite3_stmt *)p;
	const char *sql = (const char *)x;
	const char *fn;
	const char *base;
	if (!verif_on || t != SQLITE_TRACE_STMT) return 0;
	// for a trigger/nested statement x is a "-- comment"; for a top-level
	// statement it is the unexpanded SQL text
	if (sql == 0) sql = sqlite3_sql(st);
	if (sql == 0) sql = "";
	fn = sqlite3_db_filename(sqlite3_db_handle(st), "main");
	if (fn == 0) fn = "";
	base = strrchr(fn, '/');
	base = base ? base + 1 : fn;
	pthread_mutex_lock(&verif_mu);
	verif_put(base, strlen(base));
	verif_put("\t", 1);
	verif_put(sql, strlen(sql));
	verif_put("", 1);
	pthread_mutex_unlock(&verif_mu);
	return 0;
}

static int verif_auto_ext(sqlite3 *db, char **err, const void *api) {
	sqlite3_trace_v2(db, SQLITE_TRACE_STMT, verif_trace_cb, 0);
	return SQLITE_OK;
}

static void verif_install(void) { sqlite3_auto_extension((void (*)(void))verif_auto_ext); }
static void verif_enable(int on) { pthread_mutex_lock(&verif_mu); verif_on = on; pthread_mutex_unlock(&verif_mu); }

// ---- I/O counter and crash injector ---------------------------------------
// A wrapper around the default VFS that counts the storage-engine I/O calls
// the property quantifies over (xWrite, xSync, xTruncate on any file, xDelete)
// with one process-wide counter and, when armed with crash_at = K > 0, kills
// the process with SIGKILL immediately BEFORE the K-th such call is executed
// (= a crash between I/O call K-1 and K).  Everything else is forwarded
// unchanged to the real VFS.  io methods version 1: no WAL/mmap (raven uses
// neither: default rollback journal).

typedef struct VerifFile { sqlite3_file base; sqlite3_file *real; } VerifFile;
static sqlite3_vfs *verif_orig = 0;
static sqlite3_vfs verif_vfs;
static sqlite3_io_methods verif_io;
static volatile long verif_io_count = 0;
static volatile long verif_crash_at = 0;
static volatile int verif_armed = 0;

static void verif_tick(void) {
	long c;
	if (!verif_armed) return;
	c = __sync_add_and_fetch(&verif_io_count, 1);
	if (verif_crash_at > 0 && c == verif_crash_at) {
		kill(getpid(), SIGKILL);
		for (;;) pause();
	}
}
#define VREAL(f) (((VerifFile *)(f))->real)
static int vClose(sqlite3_file *f) { return VREAL(f)->pMethods->xClose(VREAL(f)); }
static int vRead(sqlite3_file *f, void *b, int n, sqlite3_int64 o) { return VREAL(f)->pMethods->xRead(VREAL(f), b, n, o); }
static int vWrite(sqlite3_file *f, const void *b, int n, sqlite3_int64 o) { verif_tick(); return VREAL(f)->pMethods->xWrite(VREAL(f), b, n, o); }
static int vTruncate(sqlite3_file *f, sqlite3_int64 s) { verif_tick(); return VREAL(f)->pMethods->xTruncate(VREAL(f), s); }
static int vSync(sqlite3_file *f, int fl) { verif_tick(); return VREAL(f)->pMethods->xSync(VREAL(f), fl); }
static int vFileSize(sqlite3_file *f, sqlite3_int64 *p) { return VREAL(f)->pMethods->xFileSize(VREAL(f), p); }
static int vLock(sqlite3_file *f, int l) { return VREAL(f)->pMethods->xLock(VREAL(f), l); }
static int vUnlock(sqlite3_file *f, int l) { return VREAL(f)->pMethods->xUnlock(VREAL(f), l); }
static int vCheckReservedLock(sqlite3_file *f, int *p) { return VREAL(f)->pMethods->xCheckReservedLock(VREAL(f), p); }
static int vFileControl(sqlite3_file *f, int op, void *p) { return VREAL(f)->pMethods->xFileControl(VREAL(f), op, p); }
static int vSectorSize(sqlite3_file *f) { return VREAL(f)->pMethods->xSectorSize(VREAL(f)); }
static int vDeviceCharacteristics(sqlite3_file *f) { return VREAL(f)->pMethods->xDeviceCharacteristics(VREAL(f)); }

static int vOpen(sqlite3_vfs *v, const char *name, sqlite3_file *f, int flags, int *out) {
	VerifFile *p = (VerifFile *)f;
	int rc;
	p->real = (sqlite3_file *)(p + 1);
	p->real->pMethods = 0;
	rc = verif_orig->xOpen(verif_orig, name, p->real, flags, out);
	p->base.pMethods = p->real->pMethods ? &verif_io : 0;
	return rc;
}
static int vDelete(sqlite3_vfs *v, const char *name, int syncDir) { verif_tick(); return verif_orig->xDelete(verif_orig, name, syncDir); }
static int vAccess(sqlite3_vfs *v, const char *name, int flags, int *res) { return verif_orig->xAccess(verif_orig, name, flags, res); }
static int vFullPathname(sqlite3_vfs *v, const char *name, int n, char *out) { return verif_orig->xFullPathname(verif_orig, name, n, out); }

static void verif_vfs_install(void) {
	verif_orig = sqlite3_vfs_find(0);
	if (verif_orig == 0) return;
	verif_vfs = *verif_orig;
	verif_vfs.zName = "verifcount";
	verif_vfs.pNext = 0;
	verif_vfs.szOsFile = (int)sizeof(VerifFile) + verif_orig->szOsFile;
	verif_vfs.xOpen = vOpen;
	verif_vfs.xDelete = vDelete;
	verif_vfs.xAccess = vAccess;
	verif_vfs.xFullPathname = vFullPathname;
	memset(&verif_io, 0, sizeof(verif_io));
	verif_io.iVersion = 1;
	verif_io.xClose = vClose; verif_io.xRead = vRead; verif_io.xWrite = vWrite;
	verif_io.xTruncate = vTruncate; verif_io.xSync = vSync; verif_io.xFileSize = vFileSize;
	verif_io.xLock = vLock; verif_io.xUnlock = vUnlock; verif_io.xCheckReservedLock = vCheckReservedLock;
	verif_io.xFileControl = vFileControl; verif_io.xSectorSize = vSectorSize;
	verif_io.xDeviceCharacteristics = vDeviceCharacteristics;
	sqlite3_vfs_register(&verif_vfs, 1);
}
static void verif_arm(long at) { verif_io_count = 0; verif_crash_at = at; verif_armed = 1; }
static void verif_disarm(void) { verif_armed = 0; }
static long verif_count(void) { return verif_io_count; }

// hands the buffer over (caller frees) and starts a new one
static char *verif_take(size_t *n) {
	char *b;
	pthread_mutex_lock(&verif_mu);
	b = verif_buf; *n = verif_len;
	verif_buf = 0; verif_len = 0; verif_cap = 0;
	pthread_mutex_unlock(&verif_mu);
	return b;
}
*/
import "C"

import (
	"strings"
	"unsafe"
)

func init() { C.verif_install(); C.verif_vfs_install() }

// VerifCrashArm resets the I/O counter and arms the injector: the process is
// killed before its at-th storage I/O call from now (at = 0: count only).
func VerifCrashArm(at int) { C.verif_arm(C.long(at)) }

// VerifCrashDisarm stops counting.
func VerifCrashDisarm() { C.verif_disarm() }

// VerifIOCount is the number of storage I/O calls since the last arm.
func VerifIOCount() int { return int(C.verif_count()) }

// VerifTraceEnable switches recording on/off.
func VerifTraceEnable(on bool) {
	if on {
		C.verif_enable(1)
	} else {
		C.verif_enable(0)
	}
}

// VerifTraceTake returns the statements recorded since the last call, in
// execution order, as (database file base name, SQL text) pairs.
func VerifTraceTake() [][2]string {
	var n C.size_t
	b := C.verif_take(&n)
	if b == nil {
		return nil
	}
	defer C.free(unsafe.Pointer(b))
	raw := C.GoBytes(unsafe.Pointer(b), C.int(n))
	var out [][2]string
	for _, rec := range strings.Split(string(raw), "\x00") {
		if rec == "" {
			continue
		}
		i := strings.IndexByte(rec, '\t')
		if i < 0 {
			continue
		}
		out = append(out, [2]string{rec[:i], rec[i+1:]})
	}
	return out
}
