//go:build verif

// Statement trace for property C07 (add-only; injected by `go build -overlay`
// into the EXISTING directory internal/db because cgo needs a real directory).
//
// init() registers a SQLite auto-extension: every connection this process
// opens (raven opens them through database/sql + go-sqlite3, untouched) gets
// sqlite3_trace_v2(SQLITE_TRACE_STMT).  The callback appends
// "<basename of the main database file>\t<sql text>\0" to a process-wide
// buffer.  No logic of raven is replaced; nothing is recorded until the
// driver calls VerifTraceEnable(true).
package db

/*
#cgo CFLAGS: -I/root/go/pkg/mod/github.com/mattn/go-sqlite3@v1.14.32
#include <sqlite3-binding.h>
#include <stdlib.h>
#include <string.h>
#include <pthread.h>

static pthread_mutex_t verif_mu = PTHREAD_MUTEX_INITIALIZER;
static char *verif_buf = 0;
static size_t verif_len = 0, verif_cap = 0;
static int verif_on = 0;

static void verif_put(const char *s, size_t n) {
	if (verif_len + n + 1 > verif_cap) {
		size_t nc = verif_cap ? verif_cap * 2 : 65536;
		while (nc < verif_len + n + 1) nc *= 2;
		verif_buf = (char *)realloc(verif_buf, nc);
		verif_cap = nc;
	}
	memcpy(verif_buf + verif_len, s, n);
	verif_len += n;
}

static int verif_trace_cb(unsigned t, void *ctx, void *p, void *x) {
	sqlite3_stmt *st = (sqlite3_stmt *)p;
	const char *sql = (const char *)x;
	const char *fn;
	const char *base;
	if (!verif_on || t != SQLITE_TRACE_STMT) return 0;
	// for a trigger/nested statement x is a "-- comment"; for a top-level
	// statement it is the unexpanded SQL text
	if (sql == 0) sql = sqlite3_sql(st);
	if (sql == 0) sql = "";
	fn = sqlite3_db_filename(sqlite3_db_handle(st), "main");
	if (fn == 0) fn = "";
	base = strrchr(fn, '/');
	base = base ? base + 1 : fn;
	pthread_mutex_lock(&verif_mu);
	verif_put(base, strlen(base));
	verif_put("\t", 1);
	verif_put(sql, strlen(sql));
	verif_put("", 1);
	pthread_mutex_unlock(&verif_mu);
	return 0;
}

static int verif_auto_ext(sqlite3 *db, char **err, const void *api) {
	sqlite3_trace_v2(db, SQLITE_TRACE_STMT, verif_trace_cb, 0);
	return SQLITE_OK;
}

static void verif_install(void) { sqlite3_auto_extension((void (*)(void))verif_auto_ext); }
static void verif_enable(int on) { pthread_mutex_lock(&verif_mu); verif_on = on; pthread_mutex_unlock(&verif_mu); }

// hands the buffer over (caller frees) and starts a new one
static char *verif_take(size_t *n) {
	char *b;
	pthread_mutex_lock(&verif_mu);
	b = verif_buf; *n = verif_len;
	verif_buf = 0; verif_len = 0; verif_cap = 0;
	pthread_mutex_unlock(&verif_mu);
	return b;
}
*/
import "C"

import (
	"strings"
	"unsafe"
)

func init() { C.verif_install() }

// VerifTraceEnable switches recording on/off.
func VerifTraceEnable(on bool) {
	if on {
		C.verif_enable(1)
	} else {
		C.verif_enable(0)
	}
}

// VerifTraceTake returns the statements recorded since the last call, in
// execution order, as (database file base name, SQL text) pairs.
func VerifTraceTake() [][2]string {
	var n C.size_t
	b := C.verif_take(&n)
	if b == nil {
		return nil
	}
	defer C.free(unsafe.Pointer(b))
	raw := C.GoBytes(unsafe.Pointer(b), C.int(n))
	var out [][2]string
	for _, rec := range strings.Split(string(raw), "\x00") {
		if rec == "" {
			continue
		}
		i := strings.IndexByte(rec, '\t')
		if i < 0 {
			continue
		}
		out = append(out, [2]string{rec[:i], rec[i+1:]})
	}
	return out
}
