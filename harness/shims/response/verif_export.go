//go:build verif

package response

func VerifParseAddressList(a string) string        { return parseAddressList(a) }
func VerifExtractHeader(raw, name string) string   { return extractHeader(raw, name) }
func VerifBuildParamList(p map[string]string) string { return buildParamList(p) }
