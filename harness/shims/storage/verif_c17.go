//go:build verif

package storage

// Thin exports for the C17 check (no logic).

func VerifIsSpamByHeaders(h map[string]string) bool { return isSpamByHeaders(h) }
func VerifDetermineTargetFolder(h map[string]string, def string) string {
	return determineTargetFolder(h, def)
}
