//go:build verif

package sasl

import "net"

// VerifHandleConnection runs the real connection entry point (the function
// started by `go s.handleConnection(conn)`) on conn; the Add mirrors what the
// accept loop does before the go statement.
func (s *Server) VerifHandleConnection(c net.Conn) { s.wg.Add(1); s.handleConnection(c) }
