//go:build verif

package sasl

func (s *Server) VerifAuthenticate(u, p string) bool { return s.authenticate(u, p) }
