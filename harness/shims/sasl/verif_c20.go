//go:build verif

package sasl

import "net"

// VerifC20Handle runs the per-connection handler exactly as acceptConnections
// does (wg.Add(1); handleConnection(conn)), synchronously.
func (s *Server) VerifC20Handle(conn net.Conn) {
	s.wg.Add(1)
	s.handleConnection(conn)
}
