//go:build verif

package auth

import (
	"net"

	"raven/internal/models"
)

// VerifAuthenticateUser exports authenticateUser (no logic).
func VerifAuthenticateUser(deps ServerDeps, conn net.Conn, tag, username, password string, state *models.ClientState) {
	authenticateUser(deps, conn, tag, username, password, state)
}
