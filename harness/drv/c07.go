//go:build verif

// Driver ops of property C07 (crash safety): SQL statement trace and running
// against a given, persistent data directory.
package main

import (
	"database/sql"
	"encoding/json"
	"os"
	"path/filepath"
	"sort"
	"strings"

	"raven/internal/db"
)

func init() {
	// trace_on / trace_off: switch the statement recorder (harness/shims/db/verif_trace.go)
	register("trace_on", func(w *World, op Op) Obs { db.VerifTraceTake(); db.VerifTraceEnable(true); return Obs{"ok": true} })
	register("trace_off", func(w *World, op Op) Obs { db.VerifTraceEnable(false); return Obs{"ok": true} })
	// trace_take: statements since the last take: [[dbfile, sql], ...]
	register("trace_take", func(w *World, op Op) Obs {
		t := db.VerifTraceTake()
		out := make([][]string, len(t))
		for i, r := range t {
			out[i] = []string{r[0], b2s([]byte(r[1]))}
		}
		return Obs{"stmts": out}
	})
	// use_datadir: close the managers of the private temp data directory and
	// continue on the given directory, which is NOT removed at exit (cleanup
	// only removes the temp root).  Used for crash replay: a child works on the
	// directory and is killed, a fresh process audits the same directory.
	register("use_datadir", func(w *World, op Op) Obs {
		for k, c := range w.conns {
			c.close()
			delete(w.conns, k)
		}
		if w.mgr != nil {
			_ = w.mgr.Close()
		}
		if w.mgr2 != nil {
			_ = w.mgr2.Close()
			w.mgr2 = nil
		}
		w.dataDir = op.str("dir")
		if err := os.MkdirAll(w.dataDir, 0750); err != nil {
			return Obs{"error": err.Error()}
		}
		w.openManagers()
		return Obs{"ok": true}
	})
	// crash_arm {"at":K}: reset the storage-I/O counter (xWrite/xSync/xTruncate/
	// xDelete of the SQLite VFS) and kill the process before the K-th call (0: count only)
	register("crash_arm", func(w *World, op Op) Obs { db.VerifCrashArm(op.num("at", 0)); return Obs{"ok": true} })
	register("crash_disarm", func(w *World, op Op) Obs { db.VerifCrashDisarm(); return Obs{"count": db.VerifIOCount()} })
	register("io_count", func(w *World, op Op) Obs { return Obs{"count": db.VerifIOCount()} })
	// sendl: like send, and appends {"id":..., "recv":...} as one line to the file
	// "log" AFTER the reply was received (the acknowledgements a client saw
	// before a crash survive in that file)
	register("sendl", func(w *World, op Op) Obs {
		obs := opSend(w, op)
		if f, err := os.OpenFile(op.str("log"), os.O_APPEND|os.O_CREATE|os.O_WRONLY, 0600); err == nil {
			b, _ := json.Marshal(map[string]interface{}{"id": op.str("id"), "recv": obs["recv"], "how": obs["how"], "io": db.VerifIOCount()})
			_, _ = f.Write(append(b, '\n'))
			_ = f.Close()
		}
		return obs
	})
	// dump7: like dump for every per-user / role store, plus the number of
	// schema objects (tables + named indexes) each file holds; a file that
	// cannot be read at all is reported with "unreadable"
	register("dump7", func(w *World, op Op) Obs {
		stores := map[string]interface{}{}
		files, _ := filepath.Glob(filepath.Join(w.dataDir, "*.db"))
		sort.Strings(files)
		for _, f := range files {
			base := strings.TrimSuffix(filepath.Base(f), ".db")
			// a file left with a hot rollback journal can only be read after a
			// connection that may write has rolled the journal back (what
			// raven's own read-write connection does at its first statement);
			// the read-only dump connections cannot do that
			recovered := ""
			if d, err := sql.Open("sqlite3", "file:"+f+"?mode=rw&_busy_timeout=5000"); err == nil {
				var n int
				if err := d.QueryRow("SELECT COUNT(*) FROM sqlite_master").Scan(&n); err != nil {
					recovered = err.Error()
				}
				_ = d.Close()
			}
			if base == "shared" {
				continue
			}
			st := dumpStore(f)
			if recovered != "" {
				st["unreadable"] = recovered
			}
			if d, err := openRO(f); err == nil {
				rows, err := queryRows(d, "SELECT COUNT(*) FROM sqlite_master WHERE type IN ('table','index') AND name NOT LIKE 'sqlite_%'")
				if err == nil && len(rows) == 1 {
					st["schema"] = rows[0][0]
				} else if err != nil {
					st["unreadable"] = err.Error()
				}
				_ = d.Close()
			} else {
				st["unreadable"] = err.Error()
			}
			stores[base] = st
		}
		res := Obs{"stores": stores}
		if d, err := openRO(filepath.Join(w.dataDir, "shared.db")); err == nil {
			us, err := queryRows(d, "SELECT u.id, u.username, d.domain FROM users u JOIN domains d ON d.id = u.domain_id ORDER BY u.id")
			if err != nil {
				res["shared_error"] = err.Error()
			}
			res["users"] = us
			_ = d.Close()
		} else {
			res["shared_error"] = err.Error()
		}
		return res
	})
}
