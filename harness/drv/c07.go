//go:build verif

// Driver ops of property C07 (crash safety): SQL statement trace and running
// against a given, persistent data directory.
package main

import (
	"os"

	"raven/internal/db"
)

func init() {
	// trace_on / trace_off: switch the statement recorder (harness/shims/db/verif_trace.go)
	register("trace_on", func(w *World, op Op) Obs { db.VerifTraceTake(); db.VerifTraceEnable(true); return Obs{"ok": true} })
	register("trace_off", func(w *World, op Op) Obs { db.VerifTraceEnable(false); return Obs{"ok": true} })
	// trace_take: statements since the last take: [[dbfile, sql], ...]
	register("trace_take", func(w *World, op Op) Obs {
		t := db.VerifTraceTake()
		out := make([][]string, len(t))
		for i, r := range t {
			out[i] = []string{r[0], b2s([]byte(r[1]))}
		}
		return Obs{"stmts": out}
	})
	// use_datadir: close the managers of the private temp data directory and
	// continue on the given directory, which is NOT removed at exit (cleanup
	// only removes the temp root).  Used for crash replay: a child works on the
	// directory and is killed, a fresh process audits the same directory.
	register("use_datadir", func(w *World, op Op) Obs {
		for k, c := range w.conns {
			c.close()
			delete(w.conns, k)
		}
		if w.mgr != nil {
			_ = w.mgr.Close()
		}
		if w.mgr2 != nil {
			_ = w.mgr2.Close()
			w.mgr2 = nil
		}
		w.dataDir = op.str("dir")
		if err := os.MkdirAll(w.dataDir, 0750); err != nil {
			return Obs{"error": err.Error()}
		}
		w.openManagers()
		return Obs{"ok": true}
	})
}
