//go:build verif

package main

import (
	"bytes"
	"path/filepath"
	"sort"
	"strings"
	"time"

	"raven/internal/db"
	dconfig "raven/internal/delivery/config"
	"raven/internal/delivery/parser"
	"raven/internal/delivery/storage"
)

// C17 — driver entries: direct calls of the pure policy functions, set-up ops
// (create / disable a user through raven's own db functions) and a compact
// view of "who exists and which folder of which store holds how many messages".

func init() {
	// isSpamByHeaders on an explicit map: a = [hasAction("1"/"0"), action, hasStatus, status, (extraKey, extraValue)*]
	calls["c17_isSpam"] = func(a []string, n []int) interface{} {
		h := map[string]string{}
		if a[0] == "1" {
			h["X-Rspamd-Action"] = a[1]
		}
		if a[2] == "1" {
			h["X-Spam-Status"] = a[3]
		}
		for i := 4; i+1 < len(a); i += 2 {
			h[a[i]] = a[i+1]
		}
		return storage.VerifIsSpamByHeaders(h)
	}
	// raw message -> parser.ParseMessage -> determineTargetFolder(msg.Headers, a[1])
	calls["c17_folderOfRaw"] = func(a []string, n []int) interface{} {
		msg, err := parser.ParseMessage(bytes.NewReader([]byte(a[0])))
		if err != nil {
			return map[string]interface{}{"err": true}
		}
		act, hasA := msg.Headers["X-Rspamd-Action"]
		st, hasS := msg.Headers["X-Spam-Status"]
		return map[string]interface{}{"err": false, "folder": bs(storage.VerifDetermineTargetFolder(msg.Headers, a[1])),
			"hasA": hasA, "A": bs(act), "hasS": hasS, "S": bs(st), "size": msg.Size}
	}
	// config.Validate: a = [unix_socket, tcp_address, db_path, default_folder, level, format]
	//                  n = [max_size, timeout, max_recipients, quota_enabled(0/1), quota_limit]
	calls["c17_validate"] = func(a []string, n []int) interface{} {
		c := dconfig.DefaultConfig()
		c.LMTP.UnixSocket, c.LMTP.TCPAddress = a[0], a[1]
		c.Database.Path = a[2]
		c.Delivery.DefaultFolder = a[3]
		c.Logging.Level, c.Logging.Format = a[4], a[5]
		c.LMTP.MaxSize = int64(n[0])
		c.LMTP.Timeout = n[1]
		c.LMTP.MaxRecipients = n[2]
		c.Delivery.QuotaEnabled = n[3] != 0
		c.Delivery.QuotaLimit = int64(n[4])
		return c.Validate() == nil
	}

	register("c17_user_create", func(w *World, op Op) Obs {
		shared := w.mgr.GetSharedDB()
		did, err := db.GetOrCreateDomain(shared, op.str("domain"))
		if err != nil {
			return Obs{"error": err.Error()}
		}
		uid, err := db.GetOrCreateUserInitialized(shared, op.str("name"), did)
		if err != nil {
			return Obs{"error": err.Error()}
		}
		if _, err := w.mgr.GetUserDB(uid); err != nil {
			return Obs{"error": err.Error()}
		}
		return Obs{"id": uid}
	})
	register("c17_user_disable", func(w *World, op Op) Obs {
		shared := w.mgr.GetSharedDB()
		_, err := shared.Exec("UPDATE users SET enabled = 0 WHERE username = ? AND domain_id = (SELECT id FROM domains WHERE domain = ?)",
			op.str("name"), op.str("domain"))
		if err != nil {
			return Obs{"error": err.Error()}
		}
		return Obs{"ok": true}
	})
	register("c17_role_disable", func(w *World, op Op) Obs {
		_, err := w.mgr.GetSharedDB().Exec("UPDATE role_mailboxes SET enabled = 0 WHERE email = ?", op.str("email"))
		if err != nil {
			return Obs{"error": err.Error()}
		}
		return Obs{"ok": true}
	})
	register("c17_view", opC17View)
	// c17_send_marker: write data, read until a reply line equal to "marker" has arrived
	// (used with a trailing NOOP: "250 OK" delimits the replies of a DATA in mid-session)
	register("c17_send_marker", func(w *World, op Op) Obs {
		cl, ok := w.conns[op.str("conn")]
		if !ok {
			return Obs{"error": "no conn"}
		}
		_ = cl.conn.SetWriteDeadline(time.Now().Add(10 * time.Second))
		if _, err := cl.conn.Write([]byte(op.str("data"))); err != nil {
			b, _ := cl.readUntil(func([]byte, bool) bool { return true }, 0)
			return Obs{"recv": b2s(b), "how": "write-error"}
		}
		marker := []byte(op.str("marker") + "\r\n")
		pred := func(b []byte, eof bool) bool {
			return bytes.HasSuffix(b, marker) && (len(b) == len(marker) || b[len(b)-len(marker)-1] == '\n')
		}
		b, how := cl.readUntil(pred, time.Duration(op.num("timeout_ms", 5000))*time.Millisecond)
		return Obs{"recv": b2s(b), "how": how}
	})
}

// c17_view: {"users":[[name,domain,enabled,storeKey]], "roles":[[email,enabled,storeKey]],
//            "stores":{storeKey:{"folders":[[name,count]],"usage":bytes}}}
// Stores are opened read-only by file name (creates nothing).
func opC17View(w *World, op Op) Obs {
	res := Obs{}
	stores := map[string]interface{}{}
	files, _ := filepath.Glob(filepath.Join(w.dataDir, "*.db"))
	sort.Strings(files)
	for _, f := range files {
		base := strings.TrimSuffix(filepath.Base(f), ".db")
		d, err := openRO(f)
		if err != nil {
			continue
		}
		if base == "shared" {
			res["users"], _ = queryRows(d, "SELECT u.username, d.domain, u.enabled, 'user_db_' || u.id FROM users u JOIN domains d ON d.id = u.domain_id ORDER BY u.id")
			res["roles"], _ = queryRows(d, "SELECT email, enabled, 'role_db_' || id FROM role_mailboxes ORDER BY id")
			res["domains"], _ = queryRows(d, "SELECT domain FROM domains ORDER BY id")
			d.Close()
			continue
		}
		st := map[string]interface{}{}
		st["folders"], _ = queryRows(d, "SELECT mb.name, COUNT(mm.id) FROM mailboxes mb LEFT JOIN message_mailbox mm ON mm.mailbox_id = mb.id GROUP BY mb.id ORDER BY mb.id")
		us, _ := queryRows(d, "SELECT COALESCE(SUM(m.size_bytes),0) FROM messages m JOIN message_mailbox mm ON m.id = mm.message_id")
		if len(us) == 1 {
			st["usage"] = us[0][0]
		}
		d.Close()
		stores[base] = st
	}
	res["stores"] = stores
	return res
}
