//go:build verif

package main

import (
	"bytes"
	"fmt"
	"log"
	"net"
	"strings"
	"sync"
	"time"

	"raven/internal/delivery/lmtp"
	"raven/internal/sasl"
)

// C12: connections served by the REAL goroutine entry points of the LMTP and
// SASL services (lmtp.Server.handleConnection, sasl.Server.handleConnection),
// so that a recover() added there is honoured.  A panic that escapes the entry
// point is what kills the real process; the driver records it as a line
// starting with \x00PANIC (same convention as opOpen).

func c12Serve(w *World, name string, run func(net.Conn)) *Client {
	cside, sside := net.Pipe()
	cl := newClient(cside)
	w.conns[name] = cl
	go func() {
		defer close(cl.done)
		defer func() {
			if r := recover(); r != nil {
				cl.mu.Lock()
				cl.buf.WriteString("\x00PANIC " + fmt.Sprint(r) + "\r\n")
				cl.eof = true
				cl.mu.Unlock()
				_ = sside.Close()
				select {
				case cl.notify <- struct{}{}:
				default:
				}
			}
		}()
		run(sside)
	}()
	return cl
}

// lockedBuf collects what raven writes through the standard logger, so that
// a panic that a connection goroutine recovered from (and logged) is still
// an observation of the scenario.
type lockedBuf struct {
	mu sync.Mutex
	b  bytes.Buffer
}

func (l *lockedBuf) Write(p []byte) (int, error) {
	l.mu.Lock()
	defer l.mu.Unlock()
	return l.b.Write(p)
}

var c12Log lockedBuf

func init() {
	// log_capture: route the standard logger into a buffer (main() discards it otherwise)
	register("log_capture", func(w *World, op Op) Obs {
		log.SetOutput(&c12Log)
		return Obs{"ok": true}
	})
	// log_panics: the captured log lines that mention a panic; clears the buffer
	register("log_panics", func(w *World, op Op) Obs {
		c12Log.mu.Lock()
		txt := c12Log.b.String()
		c12Log.b.Reset()
		c12Log.mu.Unlock()
		out := []string{}
		for _, l := range strings.Split(txt, "\n") {
			if strings.Contains(strings.ToLower(l), "panic") {
				out = append(out, b2s([]byte(l)))
			}
		}
		return Obs{"lines": out}
	})
	// sasl_open: {"op":"sasl_open","conn":"s1"} (the SASL protocol has no greeting)
	register("sasl_open", func(w *World, op Op) Obs {
		srv := sasl.NewServer("", "", w.auth.url(), "example.com")
		c12Serve(w, op.str("conn"), srv.VerifHandleConnection)
		return Obs{"ok": true}
	})
	// lmtp_open_entry: like lmtp_open but through lmtp.Server.handleConnection
	register("lmtp_open_entry", func(w *World, op Op) Obs {
		cfg := lmtpConfig(op)
		srv := lmtp.NewServer(w.deliveryMgr(op.boolean("separate_mgr")), cfg)
		cl := c12Serve(w, op.str("conn"), srv.VerifHandleConnection)
		b, how := cl.readUntil(lmtpFinal(1), 5*time.Second)
		return Obs{"recv": b2s(b), "how": how}
	})
}
