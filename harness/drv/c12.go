//go:build verif

package main

import (
	"bytes"
	"fmt"
	"log"
	"mime"
	"net"
	"net/mail"
	"os"
	"path/filepath"
	"runtime"
	"runtime/debug"
	"strconv"
	"strings"
	"sync"
	"time"

	"raven/internal/db"
	"raven/internal/delivery/lmtp"
	"raven/internal/sasl"
	"raven/internal/server/utils"
)

// C12: connections served by the REAL goroutine entry points of the LMTP and
// SASL services (lmtp.Server.handleConnection, sasl.Server.handleConnection),
// so that a recover() added there is honoured.  A panic that escapes the entry
// point is what kills the real process; the driver records it as a line
// starting with \x00PANIC (same convention as opOpen).

func c12Serve(w *World, name string, run func(net.Conn)) *Client {
	cside, sside := net.Pipe()
	cl := newClient(cside)
	w.conns[name] = cl
	go func() {
		defer close(cl.done)
		defer func() {
			if r := recover(); r != nil {
				cl.mu.Lock()
				cl.buf.WriteString("\x00PANIC " + fmt.Sprint(r) + "\r\n")
				cl.eof = true
				cl.mu.Unlock()
				_ = sside.Close()
				select {
				case cl.notify <- struct{}{}:
				default:
				}
			}
		}()
		run(sside)
	}()
	return cl
}

// lockedBuf collects what raven writes through the standard logger, so that
// a panic that a connection goroutine recovered from (and logged) is still
// an observation of the scenario.
type lockedBuf struct {
	mu sync.Mutex
	b  bytes.Buffer
}

func (l *lockedBuf) Write(p []byte) (int, error) {
	l.mu.Lock()
	defer l.mu.Unlock()
	return l.b.Write(p)
}

var c12Log lockedBuf

func init() {
	// log_capture: route the standard logger into a buffer (main() discards it otherwise)
	register("log_capture", func(w *World, op Op) Obs {
		log.SetOutput(&c12Log)
		return Obs{"ok": true}
	})
	// log_panics: the captured log lines that mention a panic; clears the buffer
	register("log_panics", func(w *World, op Op) Obs {
		c12Log.mu.Lock()
		txt := c12Log.b.String()
		c12Log.b.Reset()
		c12Log.mu.Unlock()
		out := []string{}
		for _, l := range strings.Split(txt, "\n") {
			if strings.Contains(strings.ToLower(l), "panic") {
				out = append(out, b2s([]byte(l)))
			}
		}
		return Obs{"lines": out}
	})
	// sql_exec: {"op":"sql_exec","q":"UPDATE users SET enabled = 0 WHERE username = ?","args":["bob"]}
	// a write to the SHARED database of this scenario — used to put rows into states that no protocol command
	// produces (a disabled account, a password that was never initialised, a disabled domain / role mailbox)
	register("sql_exec", func(w *World, op Op) Obs {
		if op.str("store") != "" {
			// the same op name is used by C06/C08 for a write to ONE store file: {"store": "user_db_1", "q": ...}
			return opSQLExec(w, op)
		}
		args := []interface{}{}
		for _, a := range op.strs("args") {
			args = append(args, a)
		}
		res, err := w.mgr.GetSharedDB().Exec(op.str("q"), args...)
		if err != nil {
			return Obs{"error": err.Error()}
		}
		n, _ := res.RowsAffected()
		return Obs{"rows": n}
	})
	// max_stack: {"op":"max_stack","mb":64} — runtime/debug.SetMaxStack: an unbounded recursion ends in the
	// runtime's fatal "stack overflow" (which no recover() catches) after 64 MB instead of after 1 GB
	register("max_stack", func(w *World, op Op) Obs {
		old := debug.SetMaxStack(op.num("mb", 64) << 20)
		return Obs{"old": old}
	})
	// damage_store: {"op":"damage_store","store":"user_db_1","how":"garbage"|"truncate"|"dir"|"header"}
	// damages one store FILE of the data directory (its -wal/-shm companions are removed). To be followed by
	// "restart" so that no manager has the store cached: the next command that needs it must open it.
	register("damage_store", func(w *World, op Op) Obs {
		path := filepath.Join(w.dataDir, op.str("store")+".db")
		if _, err := os.Stat(path); err != nil {
			return Obs{"error": "no such store file: " + err.Error()}
		}
		_ = os.Remove(path + "-wal")
		_ = os.Remove(path + "-shm")
		var err error
		switch op.str("how") {
		case "garbage":
			err = os.WriteFile(path, bytes.Repeat([]byte("this is not a database\n"), 400), 0600)
		case "truncate":
			err = os.Truncate(path, 1000)
		case "header":
			// keep the size, destroy the first page
			var f *os.File
			if f, err = os.OpenFile(path, os.O_WRONLY, 0600); err == nil {
				_, err = f.WriteAt(bytes.Repeat([]byte{0xAB}, 4096), 0)
				_ = f.Close()
			}
		case "dir":
			if err = os.Remove(path); err == nil {
				err = os.Mkdir(path, 0700)
			}
		default:
			return Obs{"error": "unknown how"}
		}
		if err != nil {
			return Obs{"error": err.Error()}
		}
		return Obs{"ok": true}
	})
	// exit_in: {"op":"exit_in","ms":3000} — last op of a scenario whose clean-up may hang (a wedged DBManager
	// never lets Close() in): the observations are written as usual, and if the process has not exited by itself
	// after ms it exits then (status 0), instead of sitting in the clean-up until the wall-clock limit
	register("exit_in", func(w *World, op Op) Obs {
		time.AfterFunc(time.Duration(op.num("ms", 3000))*time.Millisecond, func() { os.Exit(0) })
		return Obs{"ok": true}
	})
	// mailParse: what net/mail.ParseAddressList + the encoded-word encoding of the display names answer for
	// a header value (the [mail_parse] parameter of Model/Slicers.v): null = error or empty list
	calls["c12MailParse"] = func(a []string, n []int) interface{} {
		list, err := mail.ParseAddressList(a[0])
		if err != nil || len(list) == 0 {
			return nil
		}
		out := [][]string{}
		for _, x := range list {
			out = append(out, []string{bs(mime.QEncoding.Encode("utf-8", x.Name)), bs(x.Address)})
		}
		return out
	}
	// seqset_calls: {"op":"seqset_calls","user":"u@example.com","mailbox":"INBOX","sets":[...],"uid":bool}
	// direct calls of utils.ParseSequenceSetWithDB / ParseUIDSequenceSetWithDB against the store of
	// this scenario, each under recover and timed -> {"rs":[{"n":len,"ms":..}|{"panic":..}]}
	register("seqset_calls", func(w *World, op Op) Obs {
		uid, err := lookupUser(w, op.str("user"))
		if err != nil {
			return Obs{"error": err.Error()}
		}
		udb, err := w.mgr.GetUserDB(uid)
		if err != nil {
			return Obs{"error": err.Error()}
		}
		mbx, err := db.GetMailboxByNamePerUser(udb, uid, op.str("mailbox"))
		if err != nil {
			return Obs{"error": err.Error()}
		}
		rs := []interface{}{}
		for _, set := range op.strs("sets") {
			rs = append(rs, func() (r interface{}) {
				defer func() {
					if e := recover(); e != nil {
						r = map[string]interface{}{"panic": fmt.Sprint(e)}
					}
				}()
				t0 := time.Now()
				var out []int
				if op.boolean("uid") {
					out = utils.ParseUIDSequenceSetWithDB(set, mbx, udb)
				} else {
					out = utils.ParseSequenceSetWithDB(set, mbx, udb)
				}
				return map[string]interface{}{"n": len(out), "cap": cap(out), "ms": time.Since(t0).Milliseconds()}
			}())
		}
		return Obs{"rs": rs}
	})
	// mem_peak: peak resident set (VmHWM, KiB) of the driver process and the bytes the Go runtime
	// obtained from the OS; a handler that reserves gigabytes shows up here even if it never touches them
	register("mem_peak", func(w *World, op Op) Obs {
		var ms runtime.MemStats
		runtime.ReadMemStats(&ms)
		hwm := 0
		if b, err := os.ReadFile("/proc/self/status"); err == nil {
			for _, l := range strings.Split(string(b), "\n") {
				if strings.HasPrefix(l, "VmHWM:") {
					f := strings.Fields(l)
					if len(f) >= 2 {
						hwm, _ = strconv.Atoi(f[1])
					}
				}
			}
		}
		return Obs{"hwm_kb": hwm, "go_sys_mb": int(ms.Sys >> 20), "heap_sys_mb": int(ms.HeapSys >> 20)}
	})
	// sasl_open: {"op":"sasl_open","conn":"s1"} (the SASL protocol has no greeting)
	register("sasl_open", func(w *World, op Op) Obs {
		srv := sasl.NewServer("", "", w.auth.url(), "example.com")
		c12Serve(w, op.str("conn"), srv.VerifHandleConnection)
		return Obs{"ok": true}
	})
	// lmtp_open_entry: like lmtp_open but through lmtp.Server.handleConnection
	register("lmtp_open_entry", func(w *World, op Op) Obs {
		cfg := lmtpConfig(op)
		srv := lmtp.NewServer(w.deliveryMgr(op.boolean("separate_mgr")), cfg)
		cl := c12Serve(w, op.str("conn"), srv.VerifHandleConnection)
		b, how := cl.readUntil(lmtpFinal(1), 5*time.Second)
		return Obs{"recv": b2s(b), "how": how}
	})
}
