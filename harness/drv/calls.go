//go:build verif

package main

import (
	"bufio"
	"bytes"
	"fmt"
	"io"
	"sort"
	"strings"

	"raven/internal/delivery/lmtp"
	"raven/internal/delivery/parser"
	"raven/internal/server/message"
	"raven/internal/server/response"
	"raven/internal/server/utils"
)

// call: {"op":"call","fn":"<name>","a":[byte strings],"n":[ints]} -> {"r": ...}
// Direct calls of (mostly pure) functions of the implementation, each under
// recover (see safe in main.go).

type callFn func(a []string, n []int) interface{}

var calls = map[string]callFn{}

func bs(s string) string { return b2s([]byte(s)) }
func bss(l []string) []string {
	out := make([]string, len(l))
	for i, s := range l {
		out[i] = bs(s)
	}
	return out
}

func init() {
	register("call", func(w *World, op Op) Obs {
		f, ok := calls[op.str("fn")]
		if !ok {
			return Obs{"error": "unknown fn " + op.str("fn")}
		}
		return Obs{"r": f(op.strs("a"), op.ints("n"))}
	})
	// batch: {"op":"batch","fn":..., "cases":[{"a":[..],"n":[..]},...]} -> {"rs":[...]}
	register("batch", func(w *World, op Op) Obs {
		f, ok := calls[op.str("fn")]
		if !ok {
			return Obs{"error": "unknown fn " + op.str("fn")}
		}
		cs, _ := op["cases"].([]interface{})
		rs := make([]interface{}, 0, len(cs))
		for _, c := range cs {
			m, _ := c.(map[string]interface{})
			co := Op(m)
			rs = append(rs, func() (r interface{}) {
				defer func() {
					if e := recover(); e != nil {
						r = map[string]interface{}{"panic": fmt.Sprint(e)}
					}
				}()
				return f(co.strs("a"), co.ints("n"))
			}())
		}
		return Obs{"rs": rs}
	})

	// --- C18
	calls["MatchWildcard"] = func(a []string, n []int) interface{} { return utils.MatchWildcard(a[0], a[1], "/") }
	calls["BuildCanonicalPattern"] = func(a []string, n []int) interface{} {
		return bs(utils.BuildCanonicalPattern(a[0], a[1], "/"))
	}
	calls["FilterMailboxes"] = func(a []string, n []int) interface{} {
		return bss(utils.FilterMailboxes(a[2:], a[0], a[1]))
	}
	// --- C10
	calls["CalculateNewFlags"] = func(a []string, n []int) interface{} {
		r := message.CalculateNewFlags(a[0], strings.Fields(a[1]), a[2])
		f := strings.Fields(r)
		sort.Strings(f)
		return bss(f)
	}
	calls["CalculateNewFlagsUtils"] = func(a []string, n []int) interface{} {
		r := utils.CalculateNewFlags(a[0], strings.Fields(a[1]), a[2])
		f := strings.Fields(r)
		sort.Strings(f)
		return bss(f)
	}
	// --- C19 / C09
	calls["parseSearchTokens"] = func(a []string, n []int) interface{} { return bss(message.VerifParseSearchTokens(a[0])) }
	calls["isSequenceSet"] = func(a []string, n []int) interface{} { return message.VerifIsSequenceSet(a[0]) }
	// n = [number, largest number in use ("*")]; largest defaults to 0
	calls["matchesSequenceSet"] = func(a []string, n []int) interface{} {
		largest := 0
		if len(n) > 1 {
			largest = n[1]
		}
		return message.VerifMatchesSequenceSet(n[0], a[0], largest)
	}
	// n = [seq, uid, highest seq, highest uid]; a = [flags, criteria]
	calls["evalCriteriaIn"] = func(a []string, n []int) interface{} {
		return message.VerifEvalTokensIn(n[0], int64(n[1]), n[2], int64(n[3]), a[0], message.VerifParseSearchTokens(a[1]))
	}
	calls["evalTokens"] = func(a []string, n []int) interface{} {
		return message.VerifEvalTokens(n[0], int64(n[1]), a[0], a[1:])
	}
	calls["evalCriteria"] = func(a []string, n []int) interface{} {
		return message.VerifEvalTokens(n[0], int64(n[1]), a[0], message.VerifParseSearchTokens(a[1]))
	}
	// --- C12 / C13 / C14
	calls["parseAddressList"] = func(a []string, n []int) interface{} { return bs(response.VerifParseAddressList(a[0])) }
	calls["parseAddressListUtils"] = func(a []string, n []int) interface{} { return bs(utils.ParseAddressList(a[0])) }
	calls["extractHeader"] = func(a []string, n []int) interface{} { return bs(response.VerifExtractHeader(a[0], a[1])) }
	calls["QuoteOrNIL"] = func(a []string, n []int) interface{} { return bs(response.QuoteOrNIL(a[0])) }
	calls["BuildEnvelope"] = func(a []string, n []int) interface{} { return bs(response.BuildEnvelope(a[0])) }
	calls["BuildBodyStructure"] = func(a []string, n []int) interface{} { return bs(response.BuildBodyStructure(a[0])) }
	calls["extractSinglePart"] = func(a []string, n []int) interface{} { return bs(message.VerifExtractSinglePart(a[0], n[0])) }
	calls["extractBodySectionByPath"] = func(a []string, n []int) interface{} {
		return bs(message.VerifExtractBodySectionByPath(a[0], n))
	}
	calls["ParseQuotedString"] = func(a []string, n []int) interface{} { return bs(utils.ParseQuotedString(a[0])) }
	// --- C16
	calls["ReadDataCommand"] = func(a []string, n []int) interface{} {
		r := bufio.NewReader(bytes.NewReader([]byte(a[0])))
		data, err := parser.ReadDataCommand(r, int64(n[0]))
		rest, _ := io.ReadAll(r)
		if err != nil {
			return map[string]interface{}{"err": true, "rest": bs(string(rest))}
		}
		return map[string]interface{}{"err": false, "data": bs(string(data)), "rest": bs(string(rest))}
	}
	calls["parseMailFrom"] = func(a []string, n []int) interface{} {
		r, err := lmtp.VerifParseMailFrom(a[0])
		return map[string]interface{}{"err": err != nil, "r": bs(r)}
	}
	calls["parseRcptTo"] = func(a []string, n []int) interface{} {
		r, err := lmtp.VerifParseRcptTo(a[0])
		return map[string]interface{}{"err": err != nil, "r": bs(r)}
	}
	calls["extractAllHeaders"] = func(a []string, n []int) interface{} {
		var out [][]string
		for _, h := range parser.VerifExtractAllHeaders(a[0]) {
			out = append(out, []string{bs(h.Name), bs(h.Value)})
		}
		return out
	}
	calls["ExtractLocalPart"] = func(a []string, n []int) interface{} {
		r, err := parser.ExtractLocalPart(a[0])
		return map[string]interface{}{"err": err != nil, "r": bs(r)}
	}
	calls["ExtractDomain"] = func(a []string, n []int) interface{} {
		r, err := parser.ExtractDomain(a[0])
		return map[string]interface{}{"err": err != nil, "r": bs(r)}
	}
}
