//go:build verif

package main

// C08 — concurrency driver ops.
//
//   conc          run several scripted sessions (already opened with open /
//                 lmtp_open) concurrently, one goroutine per session, after a
//                 common start barrier; every reply is collected.
//   gate_install  put an SQLite authorizer on every pooled connection of one
//                 user's store handle (the *sql.DB cached by the DBManager the
//                 server under test uses).  The authorizer is called by SQLite
//                 when a statement is PREPARED, i.e. before it runs and while
//                 the connection holds no lock; it can therefore hold a
//                 session at the four statements of the uid window
//                   C  INSERT INTO mailboxes            (CreateMailboxPerUser)
//                   R  SELECT uid_next FROM mailboxes   (IncrementUIDNextPerUser)
//                   U  UPDATE mailboxes SET uid_next    (IncrementUIDNextPerUser)
//                   I  INSERT INTO message_mailbox      (AddMessageToMailboxPerUser)
//                 without any change to the code under test.
//   gated         run sessions under a deterministic schedule: a schedule is a
//                 list of thread indices; a grant to thread i lets it run to
//                 its next gate (or to its reply), everything else stands
//                 still.  Exactly one thread runs at a time, so an arrival at
//                 a gate is attributed to the thread that was granted.
//   writer_lock   hold / release a competing write transaction on a store file
//                 (BEGIN IMMEDIATE from a private connection).

import (
	"context"
	"database/sql"
	"fmt"
	"path/filepath"
	"strings"
	"sync"
	"time"

	sqlite3 "github.com/mattn/go-sqlite3"

	"raven/internal/db"
)

const (
	sqliteCreateIndex = 1
	sqliteCreateTable = 2
	sqliteTransaction = 22
	sqliteInsert      = 18
	sqliteRead   = 20
	sqliteSelect = 21
	sqliteUpdate = 23
)

type gateArrival struct {
	point   string
	release chan struct{}
}

type gateCtl struct {
	mu       sync.Mutex
	active   bool
	arrivals chan *gateArrival
	points   map[string]bool
	// barrier mode: the first [need] arrivals at [bpoint] wait for each other
	// (or for [bwait]), later arrivals pass
	bpoint  string
	need    int
	arrived int
	bwait   time.Duration
	open    chan struct{}
}

var gate = &gateCtl{arrivals: make(chan *gateArrival, 64), points: map[string]bool{}}

func (g *gateCtl) isActive(p string) bool {
	g.mu.Lock()
	defer g.mu.Unlock()
	return g.active && g.points[p]
}

func (g *gateCtl) arrive(p string) {
	g.mu.Lock()
	if g.bpoint != "" && g.bpoint == p && g.arrived < g.need {
		g.arrived++
		ch, wait := g.open, g.bwait
		if g.arrived == g.need {
			close(g.open)
		}
		g.mu.Unlock()
		select {
		case <-ch:
		case <-time.After(wait):
		}
		return
	}
	g.mu.Unlock()
	if !g.isActive(p) {
		return
	}
	a := &gateArrival{point: p, release: make(chan struct{})}
	g.arrivals <- a
	select {
	case <-a.release:
	case <-time.After(20 * time.Second):
	}
}

// authorizerFor returns the callback of one connection (callbacks of one
// connection are sequential, so the statement kind can be kept in a local).
func authorizerFor() func(int, string, string, string) int {
	kind := 0
	return func(op int, a1, a2, a3 string) int {
		switch op {
		case sqliteCreateIndex, sqliteCreateTable:
			kind = op
			gate.arrive("T") // schema statement that really creates something
		case sqliteTransaction:
			kind = op
			switch a1 {
			case "BEGIN":
				gate.arrive("B")
			case "COMMIT":
				gate.arrive("X")
			case "ROLLBACK":
				gate.arrive("Y")
			}
		case sqliteSelect:
			kind = sqliteSelect
		case sqliteUpdate:
			kind = sqliteUpdate
			if a1 == "mailboxes" && a2 == "uid_next" {
				gate.arrive("U")
			}
		case sqliteInsert:
			kind = sqliteInsert
			if a1 == "message_mailbox" {
				gate.arrive("I")
			} else if a1 == "mailboxes" {
				gate.arrive("C")
			} else if a1 == "domains" {
				gate.arrive("D") // CreateDomain (shared database)
			} else if a1 == "uid_validity_seq" {
				gate.arrive("V") // nextUIDValidityPerUser (UIDVALIDITY allocator)
			}
		case sqliteRead:
			if kind == sqliteSelect && a1 == "mailboxes" && a2 == "uid_next" {
				kind = 0 // one arrival per statement
				gate.arrive("R")
			} else if kind == sqliteSelect && a1 == "mailboxes" && a2 == "" {
				// SELECT COUNT(*) FROM mailboxes (createDefaultMailboxes): a table
				// referenced without any column
				kind = 0
				gate.arrive("N")
			}
		}
		return 0
	}
}

func opGateInstall(w *World, op Op) Obs {
	uid, err := lookupUser(w, op.str("user"))
	if err != nil {
		return Obs{"error": err.Error()}
	}
	mgr := w.deliveryMgr(op.boolean("separate_mgr"))
	udb, err := mgr.GetUserDB(uid)
	if err != nil {
		return Obs{"error": err.Error()}
	}
	n := op.num("conns", 8)
	if err := installOn(udb, n); err != nil {
		return Obs{"error": err.Error()}
	}
	return Obs{"ok": true, "conns": n}
}

// installOn pins the pool of [d] to n connections and registers the
// authorizer on every one of them.
func installOn(d *sql.DB, n int) error {
	d.SetMaxOpenConns(n)
	d.SetMaxIdleConns(n)
	ctx := context.Background()
	var held []*sql.Conn
	defer func() {
		for _, c := range held {
			_ = c.Close()
		}
	}()
	for i := 0; i < n; i++ {
		c, err := d.Conn(ctx)
		if err != nil {
			return err
		}
		held = append(held, c)
		err = c.Raw(func(dc interface{}) error {
			sc, ok := dc.(*sqlite3.SQLiteConn)
			if !ok {
				return fmt.Errorf("not a sqlite3 connection: %T", dc)
			}
			sc.RegisterAuthorizer(authorizerFor())
			return nil
		})
		if err != nil {
			return err
		}
	}
	return nil
}

// gate_install_shared: the same for the shared database handle of a manager
// (domains, users): {"op":"gate_install_shared","separate_mgr":bool}
func opGateInstallShared(w *World, op Op) Obs {
	mgr := w.deliveryMgr(op.boolean("separate_mgr"))
	n := op.num("conns", 8)
	if err := installOn(mgr.GetSharedDB(), n); err != nil {
		return Obs{"error": err.Error()}
	}
	return Obs{"ok": true, "conns": n}
}

type stepRes struct {
	Recv string `json:"recv"`
	How  string `json:"how"`
}

func runStep(w *World, conn string, st map[string]interface{}) stepRes {
	o := Op{"op": "send", "conn": conn}
	for k, v := range st {
		o[k] = v
	}
	r := opSend(w, o)
	s, _ := r["recv"].(string)
	h, _ := r["how"].(string)
	if e, ok := r["error"].(string); ok {
		h = "error:" + e
	}
	return stepRes{s, h}
}

func threadSpecs(op Op) []map[string]interface{} {
	var out []map[string]interface{}
	if l, ok := op["threads"].([]interface{}); ok {
		for _, e := range l {
			if m, ok := e.(map[string]interface{}); ok {
				out = append(out, m)
			}
		}
	}
	return out
}

func stepsOf(t map[string]interface{}) []map[string]interface{} {
	var out []map[string]interface{}
	if l, ok := t["steps"].([]interface{}); ok {
		for _, e := range l {
			if m, ok := e.(map[string]interface{}); ok {
				out = append(out, m)
			}
		}
	}
	return out
}

// conc: {"op":"conc","threads":[{"conn":"l1","steps":[{"data":..,"until":..,"timeout_ms":..},..]},..]}
func opConc(w *World, op Op) Obs {
	ths := threadSpecs(op)
	res := make([][]stepRes, len(ths))
	var wg sync.WaitGroup
	startCh := make(chan struct{})
	for i, t := range ths {
		wg.Add(1)
		go func(i int, t map[string]interface{}) {
			defer wg.Done()
			conn, _ := t["conn"].(string)
			<-startCh
			for _, st := range stepsOf(t) {
				res[i] = append(res[i], runStep(w, conn, st))
			}
		}(i, t)
	}
	close(startCh)
	wg.Wait()
	return Obs{"threads": res}
}

type gthread struct {
	conn     string
	steps    []map[string]interface{}
	started  bool
	finished bool
	pending  *gateArrival
	passedI  bool
	done     chan []stepRes
	res      []stepRes
}

// gated: {"op":"gated","points":["C","R","U","I"],"threads":[{"conn":..,"steps":[..]}],"schedule":[0,1,..],"timeout_ms":8000}
func opGated(w *World, op Op) Obs {
	ths := threadSpecs(op)
	sched := op.ints("schedule")
	timeout := time.Duration(op.num("timeout_ms", 8000)) * time.Millisecond
	pts := op.strs("points")
	if len(pts) == 0 {
		pts = []string{"C", "R", "U", "I"}
	}
	gate.mu.Lock()
	gate.active = true
	gate.points = map[string]bool{}
	for _, p := range pts {
		gate.points[p] = true
	}
	gate.mu.Unlock()
	// drain stale arrivals
	for {
		select {
		case a := <-gate.arrivals:
			close(a.release)
			continue
		default:
		}
		break
	}
	gts := make([]*gthread, len(ths))
	for i, t := range ths {
		c, _ := t["conn"].(string)
		gts[i] = &gthread{conn: c, steps: stepsOf(t), done: make(chan []stepRes, 1)}
	}
	var trace [][]interface{}
	errText := ""
	runOne := func(idx int) bool {
		t := gts[idx]
		if t.finished {
			trace = append(trace, []interface{}{idx, "noop"})
			return true
		}
		if !t.started {
			t.started = true
			go func() {
				var rs []stepRes
				for _, st := range t.steps {
					rs = append(rs, runStep(w, t.conn, st))
				}
				t.done <- rs
			}()
		} else if t.pending != nil {
			if t.pending.point == "I" {
				t.passedI = true
			}
			close(t.pending.release)
			t.pending = nil
		}
		deadline := time.After(timeout)
		for {
			select {
			case a := <-gate.arrivals:
				if t.passedI {
					close(a.release)
					continue
				}
				t.pending = a
				trace = append(trace, []interface{}{idx, a.point})
				return true
			case rs := <-t.done:
				t.finished = true
				t.res = rs
				trace = append(trace, []interface{}{idx, "done"})
				return true
			case <-deadline:
				errText = fmt.Sprintf("thread %d neither reached a gate nor replied within %v", idx, timeout)
				return false
			}
		}
	}
	for _, idx := range sched {
		if idx < 0 || idx >= len(gts) {
			continue
		}
		if !runOne(idx) {
			break
		}
	}
	// end of schedule: open the gates, let everything finish
	gate.mu.Lock()
	gate.active = false
	gate.mu.Unlock()
	for _, t := range gts {
		if t.pending != nil {
			close(t.pending.release)
			t.pending = nil
		}
	}
	leftover := 0
	for i, t := range gts {
		if t.started && !t.finished {
			leftover++
			deadline := time.After(timeout)
		wait:
			for {
				select {
				case a := <-gate.arrivals:
					close(a.release)
				case rs := <-t.done:
					t.finished = true
					t.res = rs
					break wait
				case <-deadline:
					if errText == "" {
						errText = fmt.Sprintf("thread %d did not finish after the gates were opened", i)
					}
					break wait
				}
			}
		}
	}
	out := make([][]stepRes, len(gts))
	for i, t := range gts {
		out[i] = t.res
	}
	o := Obs{"threads": out, "trace": trace, "unfinished_at_end_of_schedule": leftover}
	if errText != "" {
		o["error"] = errText
	}
	return o
}

var heldWriters = map[string]*sql.Conn{}

// writer_lock: {"op":"writer_lock","store":"user_db_1","action":"hold"|"release"}
func opWriterLock(w *World, op Op) Obs {
	name := op.str("store")
	ctx := context.Background()
	if op.str("action") == "release" {
		c := heldWriters[name]
		if c == nil {
			return Obs{"error": "not held"}
		}
		_, err := c.ExecContext(ctx, "ROLLBACK")
		_ = c.Close()
		delete(heldWriters, name)
		if err != nil {
			return Obs{"error": err.Error()}
		}
		return Obs{"ok": true}
	}
	d, err := sql.Open("sqlite3", "file:"+filepath.Join(w.dataDir, name+".db")+"?_busy_timeout=5000&_txlock=immediate")
	if err != nil {
		return Obs{"error": err.Error()}
	}
	c, err := d.Conn(ctx)
	if err != nil {
		return Obs{"error": err.Error()}
	}
	if _, err := c.ExecContext(ctx, "BEGIN IMMEDIATE"); err != nil {
		_ = c.Close()
		return Obs{"error": err.Error()}
	}
	heldWriters[name] = c
	return Obs{"ok": true}
}

// hook_all: every SQLite connection opened from now on to a per-user / role
// store (by ANY DBManager of this process) gets the authorizer at connect
// time, through the ConnectHook of the registered "sqlite3" driver object.
// This reaches the statements of the FIRST open of a store (schema
// initialisation, default mailboxes), which gate_install cannot.
func opHookAll(w *World, op Op) Obs {
	drv, ok := w.mgr.GetSharedDB().Driver().(*sqlite3.SQLiteDriver)
	if !ok {
		return Obs{"error": "registered driver is not *sqlite3.SQLiteDriver"}
	}
	drv.ConnectHook = func(c *sqlite3.SQLiteConn) error {
		base := filepath.Base(c.GetFilename("main"))
		if strings.HasPrefix(base, "user_db_") || strings.HasPrefix(base, "role_db_") {
			c.RegisterAuthorizer(authorizerFor())
		}
		return nil
	}
	return Obs{"ok": true}
}

// barrier: like conc, but the first [need] sessions that reach statement
// [point] wait there for each other (at most wait_ms), so that they overlap
// inside the window that starts with it.
// {"op":"barrier","point":"N","need":2,"wait_ms":1500,"threads":[...]}
func opBarrier(w *World, op Op) Obs {
	gate.mu.Lock()
	gate.bpoint = op.str("point")
	gate.need = op.num("need", 2)
	gate.arrived = 0
	gate.bwait = time.Duration(op.num("wait_ms", 1500)) * time.Millisecond
	gate.open = make(chan struct{})
	gate.mu.Unlock()
	res := opConc(w, op)
	gate.mu.Lock()
	res["arrived"] = gate.arrived
	gate.bpoint = ""
	gate.mu.Unlock()
	return res
}

// role_create_cold: a role mailbox row in the shared database WITHOUT opening
// its store (role_create of dump.go opens it), so that the first open of
// role_db_<id>.db is left to the sessions under test.
func opRoleCreateCold(w *World, op Op) Obs {
	shared := w.mgr.GetSharedDB()
	email := op.str("email")
	dom := email
	if i := strings.LastIndex(email, "@"); i >= 0 {
		dom = email[i+1:]
	}
	did, err := db.GetOrCreateDomain(shared, dom)
	if err != nil {
		return Obs{"error": err.Error()}
	}
	id, err := db.CreateRoleMailbox(shared, email, did, "verif")
	if err != nil {
		return Obs{"error": err.Error()}
	}
	return Obs{"id": id}
}

// hold_run: statement-level "peer in the middle" schedules.
//   1. the HOLDER session runs alone; its arrivals at the gate points are
//      counted and released until the hold_at-th one, where it is held (its
//      connection keeps whatever SQLite lock it has at that statement);
//   2. the gates are switched off and the PEER session runs: it finishes, or
//      it is blocked by the holder's lock (peer_wait_ms);
//   3. the holder is released; both run to their replies.
// {"op":"hold_run","points":[..],"hold_at":k,"peer_wait_ms":600,"holder":{conn,steps},"peer":{conn,steps}}
func opHoldRun(w *World, op Op) Obs {
	spec := func(k string) (string, []map[string]interface{}) {
		m, _ := op[k].(map[string]interface{})
		c, _ := m["conn"].(string)
		return c, stepsOf(m)
	}
	hconn, hsteps := spec("holder")
	pconn, psteps := spec("peer")
	holdAt := op.num("hold_at", 0)
	// alternatively: hold before the (offset+1)-th gated statement counted from
	// the first one of kind from_point
	fromPoint, offset := op.str("from_point"), op.num("offset", 0)
	timeout := time.Duration(op.num("timeout_ms", 20000)) * time.Millisecond
	gate.mu.Lock()
	gate.active = true
	gate.points = map[string]bool{}
	for _, p := range op.strs("points") {
		gate.points[p] = true
	}
	gate.mu.Unlock()
	run := func(conn string, steps []map[string]interface{}) chan []stepRes {
		ch := make(chan []stepRes, 1)
		go func() {
			var rs []stepRes
			for _, st := range steps {
				rs = append(rs, runStep(w, conn, st))
			}
			ch <- rs
		}()
		return ch
	}
	var trace []string
	var held *gateArrival
	var hres, pres []stepRes
	errText := ""
	hdone := run(hconn, hsteps)
	deadline := time.After(timeout)
phase1:
	for {
		select {
		case a := <-gate.arrivals:
			trace = append(trace, a.point)
			if fromPoint != "" && holdAt == 0 && a.point == fromPoint {
				holdAt = len(trace) + offset
			}
			if len(trace) == holdAt {
				held = a
				break phase1
			}
			close(a.release)
		case hres = <-hdone:
			hdone = nil
			break phase1
		case <-deadline:
			errText = "holder neither reached the hold point nor replied"
			break phase1
		}
	}
	gate.mu.Lock()
	gate.active = false
	gate.mu.Unlock()
	peerEarly := false
	var pdone chan []stepRes
	if errText == "" {
		pdone = run(pconn, psteps)
		select {
		case pres = <-pdone:
			pdone = nil
			peerEarly = true
		case <-time.After(time.Duration(op.num("peer_wait_ms", 600)) * time.Millisecond):
		}
	}
	if held != nil {
		close(held.release)
	}
	end := time.After(timeout)
	for (hdone != nil || pdone != nil) && errText == "" {
		select {
		case a := <-gate.arrivals:
			close(a.release)
		case hres = <-hdone:
			hdone = nil
		case pres = <-pdone:
			pdone = nil
		case <-end:
			errText = "a session did not reply after the holder was released"
		}
	}
	o := Obs{"holder": hres, "peer": pres, "trace": trace, "held": held != nil, "peer_done_before_release": peerEarly}
	if errText != "" {
		o["error"] = errText
	}
	return o
}

// sql_exec: preparation of a scenario only (never part of what is judged):
// run one writing statement on a store file through a private connection.
func opSQLExec(w *World, op Op) Obs {
	d, err := sql.Open("sqlite3", "file:"+filepath.Join(w.dataDir, op.str("store")+".db")+"?_busy_timeout=5000")
	if err != nil {
		return Obs{"error": err.Error()}
	}
	defer d.Close()
	if _, err := d.Exec(op.str("q")); err != nil {
		return Obs{"error": err.Error()}
	}
	return Obs{"ok": true}
}

func init() {
	// "sql_exec" is registered once, in c12.go: with a "store" field it is opSQLExec (this file), without it a write to the shared database
	register("role_create_cold", opRoleCreateCold)
	register("hold_run", opHoldRun)
	register("hook_all", opHookAll)
	register("gate_install_shared", opGateInstallShared)
	register("barrier", opBarrier)
	register("conc", opConc)
	register("gate_install", opGateInstall)
	register("gated", opGated)
	register("writer_lock", opWriterLock)
}
