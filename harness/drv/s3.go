//go:build verif

package main

import (
	"fmt"
	"io"
	"net"
	"net/http"
	"os"
	"strings"
	"sync"

	"raven/internal/blobstorage"
)

// fakeS3 is a path-style S3 endpoint good enough for the AWS SDK calls raven
// makes (CreateBucket, HeadObject, PutObject, GetObject), with a scripted
// fault schedule consumed one entry per object request:
//   "ok" | "500" | "404" | "drop" (close the connection)
type fakeS3 struct {
	ln      net.Listener
	srv     *http.Server
	mu      sync.Mutex
	objects map[string][]byte
	script  []string
	log     []string
}

func newFakeS3() *fakeS3 {
	f := &fakeS3{objects: map[string][]byte{}}
	ln, err := net.Listen("tcp", "127.0.0.1:0")
	if err != nil {
		fmt.Fprintln(realStderr, "s3 listen:", err)
		os.Exit(2)
	}
	f.ln = ln
	f.srv = &http.Server{Handler: http.HandlerFunc(f.serve)}
	go func() { _ = f.srv.Serve(ln) }()
	return f
}

func (f *fakeS3) close() { _ = f.srv.Close() }

func (f *fakeS3) serve(rw http.ResponseWriter, r *http.Request) {
	body, _ := io.ReadAll(r.Body)
	path := strings.TrimPrefix(r.URL.Path, "/")
	isObject := strings.Contains(path, "/")
	f.mu.Lock()
	beh := "ok"
	if isObject {
		if len(f.script) > 0 {
			beh = f.script[0]
			f.script = f.script[1:]
		}
		f.log = append(f.log, r.Method+" "+path+" "+beh)
	}
	f.mu.Unlock()
	switch beh {
	case "500":
		rw.WriteHeader(500)
		_, _ = rw.Write([]byte(`<?xml version="1.0"?><Error><Code>InternalError</Code><Message>x</Message></Error>`))
		return
	case "404":
		rw.WriteHeader(404)
		_, _ = rw.Write([]byte(`<?xml version="1.0"?><Error><Code>NoSuchKey</Code><Message>x</Message></Error>`))
		return
	case "drop":
		if hj, ok := rw.(http.Hijacker); ok {
			c, _, _ := hj.Hijack()
			_ = c.Close()
		}
		return
	}
	if !isObject {
		rw.WriteHeader(200)
		return
	}
	f.mu.Lock()
	defer f.mu.Unlock()
	switch r.Method {
	case "PUT":
		f.objects[path] = body
		rw.Header().Set("ETag", `"x"`)
		rw.WriteHeader(200)
	case "HEAD":
		if o, ok := f.objects[path]; ok {
			rw.Header().Set("Content-Length", fmt.Sprint(len(o)))
			rw.WriteHeader(200)
		} else {
			rw.WriteHeader(404)
		}
	case "GET":
		if o, ok := f.objects[path]; ok {
			rw.Header().Set("Content-Length", fmt.Sprint(len(o)))
			rw.WriteHeader(200)
			_, _ = rw.Write(o)
		} else {
			rw.WriteHeader(404)
			_, _ = rw.Write([]byte(`<?xml version="1.0"?><Error><Code>NoSuchKey</Code><Message>x</Message></Error>`))
		}
	case "DELETE":
		delete(f.objects, path)
		rw.WriteHeader(204)
	default:
		rw.WriteHeader(405)
	}
}

func init() {
	// s3_enable: {"imap":bool,"lmtp":bool} — start the fake and attach S3 storage to either side
	register("s3_enable", func(w *World, op Op) Obs {
		if w.s3 == nil {
			w.s3 = newFakeS3()
		}
		mk := func() (*blobstorage.S3BlobStorage, error) {
			return blobstorage.NewS3BlobStorage(blobstorage.Config{Enabled: true,
				Endpoint: "http://" + w.s3.ln.Addr().String(), Region: "us-east-1", Bucket: "b",
				AccessKey: "k", SecretKey: "s", Timeout: op.num("timeout", 2)})
		}
		os.Setenv("AWS_MAX_ATTEMPTS", "1")
		os.Setenv("AWS_EC2_METADATA_DISABLED", "true")
		var err error
		if op.boolean("imap") {
			if w.imapS3, err = mk(); err != nil {
				return Obs{"error": err.Error()}
			}
		} else {
			w.imapS3 = nil
		}
		w.imap.SetS3Storage(w.imapS3)
		if op.boolean("lmtp") {
			if w.lmtpS3, err = mk(); err != nil {
				return Obs{"error": err.Error()}
			}
		} else {
			w.lmtpS3 = nil
		}
		return Obs{"ok": true}
	})
	register("s3_script", func(w *World, op Op) Obs {
		if w.s3 == nil {
			return Obs{"error": "no s3"}
		}
		w.s3.mu.Lock()
		w.s3.script = op.strs("script")
		w.s3.mu.Unlock()
		return Obs{"ok": true}
	})
	register("s3_state", func(w *World, op Op) Obs {
		if w.s3 == nil {
			return Obs{"error": "no s3"}
		}
		w.s3.mu.Lock()
		defer w.s3.mu.Unlock()
		keys := []string{}
		for k, v := range w.s3.objects {
			keys = append(keys, fmt.Sprintf("%s:%d", k, len(v)))
		}
		lg := append([]string(nil), w.s3.log...)
		w.s3.log = nil
		return Obs{"objects": keys, "log": lg}
	})
	register("s3_delete_all", func(w *World, op Op) Obs {
		if w.s3 == nil {
			return Obs{"error": "no s3"}
		}
		w.s3.mu.Lock()
		w.s3.objects = map[string][]byte{}
		w.s3.mu.Unlock()
		return Obs{"ok": true}
	})
}
