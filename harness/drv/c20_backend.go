//go:build verif

package main

// C20: a misbehaving authentication backend (raw TCP, speaks just enough HTTP).
//
//   c20_backend mode=<m>   start one; every later IMAP LOGIN/AUTHENTICATE (raven.yaml is rewritten)
//                          and every later c20_sasl_open uses it. Modes:
//        never_accepts    the listener never calls Accept (connections sit in the backlog)
//        accept_silent    accepts, reads the request, never answers
//        headers_stall    "HTTP/1.1 200 OK" + headers + the first bytes of the body, then nothing, connection kept open
//        trickle          headers, then one byte of an endless (chunked) body per second
//        close_midbody    headers (Content-Length: 100) + 10 bytes, then closes
//        ok               a complete 200 answer (control)
//   c20_backend_hooks      what the backend saw: connections accepted, requests read

import (
	"bufio"
	"fmt"
	"net"
	"os"
	"path/filepath"
	"strings"
	"sync"
	"time"
)

type c20Backend struct {
	ln       net.Listener
	mode     string
	mu       sync.Mutex
	accepted int
	requests int
	conns    []net.Conn
}

var c20Back *c20Backend

func (b *c20Backend) url() string { return "http://" + b.ln.Addr().String() + "/auth" }

func (b *c20Backend) serve(c net.Conn) {
	b.mu.Lock()
	b.accepted++
	b.conns = append(b.conns, c)
	b.mu.Unlock()
	r := bufio.NewReader(c)
	// read the request head and body (Content-Length)
	n := 0
	for {
		line, err := r.ReadString('\n')
		if err != nil {
			return
		}
		if strings.HasPrefix(strings.ToLower(line), "content-length:") {
			_, _ = fmt.Sscanf(strings.TrimSpace(line[15:]), "%d", &n)
		}
		if line == "\r\n" {
			break
		}
	}
	if n > 0 {
		buf := make([]byte, n)
		_, _ = r.Read(buf)
	}
	b.mu.Lock()
	b.requests++
	b.mu.Unlock()
	switch b.mode {
	case "accept_silent":
		select {}
	case "headers_stall":
		_, _ = c.Write([]byte("HTTP/1.1 200 OK\r\nContent-Type: application/json\r\nContent-Length: 100\r\n\r\n{\"ok\":true"))
		select {}
	case "trickle":
		_, _ = c.Write([]byte("HTTP/1.1 200 OK\r\nContent-Type: text/plain\r\nTransfer-Encoding: chunked\r\n\r\n"))
		for {
			if _, err := c.Write([]byte("1\r\nx\r\n")); err != nil {
				return
			}
			time.Sleep(time.Second)
		}
	case "close_midbody":
		_, _ = c.Write([]byte("HTTP/1.1 200 OK\r\nContent-Type: application/json\r\nContent-Length: 100\r\n\r\n{\"ok\":true"))
		_ = c.Close()
	default:
		_, _ = c.Write([]byte("HTTP/1.1 200 OK\r\nContent-Type: application/json\r\nContent-Length: 11\r\nConnection: close\r\n\r\n{\"ok\":true}"))
		_ = c.Close()
	}
}

func init() {
	register("c20_backend", func(w *World, op Op) Obs {
		ln, err := net.Listen("tcp", "127.0.0.1:0")
		if err != nil {
			return Obs{"error": err.Error()}
		}
		b := &c20Backend{ln: ln, mode: op.str("mode")}
		c20Back = b
		if b.mode != "never_accepts" {
			go func() {
				for {
					c, err := ln.Accept()
					if err != nil {
						return
					}
					go b.serve(c)
				}
			}()
		}
		cfg := fmt.Sprintf("domain: %s\nauth_server_url: %s\n", "example.com", b.url())
		_ = os.WriteFile(filepath.Join(w.root, "raven.yaml"), []byte(cfg), 0600)
		return Obs{"url": b.url()}
	})
	register("c20_backend_hooks", func(w *World, op Op) Obs {
		if c20Back == nil {
			return Obs{"error": "no backend"}
		}
		c20Back.mu.Lock()
		defer c20Back.mu.Unlock()
		return Obs{"mode": c20Back.mode, "accepted": c20Back.accepted, "requests": c20Back.requests}
	})
}
