//go:build verif

package main

import (
	"strings"

	"raven/internal/db"
)

func init() {
	// user_provision: {"email": "..."} — an administrator provisions an account
	// with db.CreateUser (password_initialized = false); its store is created.
	register("user_provision", func(w *World, op Op) Obs {
		email := op.str("email")
		local, dom := email, "example.com"
		if i := strings.LastIndex(email, "@"); i >= 0 {
			local, dom = email[:i], email[i+1:]
		}
		shared := w.mgr.GetSharedDB()
		did, err := db.GetOrCreateDomain(shared, dom)
		if err != nil {
			return Obs{"error": err.Error()}
		}
		uid, err := db.CreateUser(shared, local, did)
		if err != nil {
			return Obs{"error": err.Error()}
		}
		if _, err := w.mgr.GetUserDB(uid); err != nil {
			return Obs{"error": err.Error()}
		}
		return Obs{"id": uid}
	})
}
