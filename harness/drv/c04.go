//go:build verif

package main

// C04 — driver ops for the authentication front ends (IMAP LOGIN /
// AUTHENTICATE PLAIN / authenticateUser, SASL service) against a recording
// authentication backend with scripted behaviour.

import (
	"bytes"
	"encoding/json"
	"fmt"
	"io"
	"net"
	"net/http"
	"net/http/httptest"
	"os"
	"path/filepath"
	"runtime"
	"strconv"
	"strings"
	"sync"
	"syscall"
	"time"

	"raven/internal/conf"
	"raven/internal/db"
	"raven/internal/delivery/parser"
	"raven/internal/delivery/storage"
	"raven/internal/models"
	"raven/internal/sasl"
	"raven/internal/server/auth"
)

type c04Req struct {
	body, method, ctype string
}

type c04Backend struct {
	ln   net.Listener
	srv  *http.Server
	mu   sync.Mutex
	reqs []c04Req
	beh  string
}

var c04b *c04Backend
var c04dead string
var c04seq int

func c04Get() *c04Backend {
	if c04b != nil {
		return c04b
	}
	a := &c04Backend{beh: "200"}
	ln, err := net.Listen("tcp", "127.0.0.1:0")
	if err != nil {
		fmt.Fprintln(realStderr, "c04 listen:", err)
		os.Exit(2)
	}
	a.ln = ln
	mux := http.NewServeMux()
	mux.HandleFunc("/", func(rw http.ResponseWriter, r *http.Request) {
		body, _ := io.ReadAll(r.Body)
		a.mu.Lock()
		a.reqs = append(a.reqs, c04Req{string(body), r.Method, r.Header.Get("Content-Type")})
		beh := a.beh
		a.mu.Unlock()
		hijackClose := func(pre string) {
			if hj, ok := rw.(http.Hijacker); ok {
				c, _, _ := hj.Hijack()
				if pre != "" {
					_, _ = c.Write([]byte(pre))
				}
				_ = c.Close()
			}
		}
		switch {
		case beh == "garbage":
			hijackClose("\x00\x01garbage not http\r\n\r\n")
		case beh == "close":
			hijackClose("")
		case strings.HasPrefix(beh, "hang:"):
			ms, _ := strconv.Atoi(beh[5:])
			time.Sleep(time.Duration(ms) * time.Millisecond)
			hijackClose("")
		case strings.HasPrefix(beh, "slow200:"):
			ms, _ := strconv.Atoi(beh[8:])
			time.Sleep(time.Duration(ms) * time.Millisecond)
			rw.WriteHeader(200)
			_, _ = rw.Write([]byte(`{"ok":true}`))
		default:
			code, err := strconv.Atoi(beh)
			if err != nil || code < 200 || code > 599 {
				code = 500
			}
			rw.WriteHeader(code)
			if code != 204 && code != 304 {
				_, _ = rw.Write([]byte(`{"ok":true}`))
			}
		}
	})
	a.srv = &http.Server{Handler: mux}
	go func() { _ = a.srv.Serve(ln) }()
	// a port nobody listens on: a socket that is bound (so no other process
	// can be given the port) but never listens -> connection refused
	if fd, err := syscall.Socket(syscall.AF_INET, syscall.SOCK_STREAM, 0); err == nil {
		sa := &syscall.SockaddrInet4{Port: 0, Addr: [4]byte{127, 0, 0, 1}}
		if err := syscall.Bind(fd, sa); err == nil {
			if got, err := syscall.Getsockname(fd); err == nil {
				if in4, ok := got.(*syscall.SockaddrInet4); ok {
					c04dead = fmt.Sprintf("http://127.0.0.1:%d/auth", in4.Port)
				}
			}
		}
	}
	c04b = a
	return a
}

func (a *c04Backend) url() string { return "http://" + a.ln.Addr().String() + "/auth" }
func (a *c04Backend) set(beh string) {
	a.mu.Lock()
	a.beh = beh
	a.reqs = nil
	a.mu.Unlock()
}
func (a *c04Backend) take() []interface{} {
	a.mu.Lock()
	defer a.mu.Unlock()
	out := make([]interface{}, 0, len(a.reqs))
	for _, r := range a.reqs {
		out = append(out, map[string]interface{}{"body": bs(r.body), "method": r.method, "ctype": r.ctype})
	}
	a.reqs = nil
	return out
}

func c04YamlQ(s string) string {
	var b strings.Builder
	b.WriteByte('"')
	for _, c := range []byte(s) {
		switch {
		case c == '"':
			b.WriteString(`\"`)
		case c == '\\':
			b.WriteString(`\\`)
		case c < 0x20 || c >= 0x7f:
			fmt.Fprintf(&b, "\\x%02x", c)
		default:
			b.WriteByte(c)
		}
	}
	b.WriteByte('"')
	return b.String()
}

// c04Cfg writes ./raven.yaml and returns the domain raven reads back from it.
func c04Cfg(w *World, domain string, dead bool) string {
	a := c04Get()
	url := a.url()
	if dead {
		url = c04dead
	}
	cfg := "domain: " + c04YamlQ(domain) + "\nauth_server_url: " + c04YamlQ(url) + "\n"
	_ = os.WriteFile(filepath.Join(w.root, "raven.yaml"), []byte(cfg), 0600)
	c, err := conf.LoadConfig()
	if err != nil {
		return "\x00error"
	}
	return c.Domain
}

// bufConn: a net.Conn that records what is written to it and reports TLS.
type bufConn struct {
	mu  sync.Mutex
	buf bytes.Buffer
}

func (c *bufConn) Read(b []byte) (int, error) { return 0, io.EOF }
func (c *bufConn) Write(b []byte) (int, error) {
	c.mu.Lock()
	defer c.mu.Unlock()
	return c.buf.Write(b)
}
func (c *bufConn) Close() error                       { return nil }
func (c *bufConn) LocalAddr() net.Addr                { return &net.UnixAddr{Name: "verif", Net: "unix"} }
func (c *bufConn) RemoteAddr() net.Addr               { return &net.UnixAddr{Name: "verif", Net: "unix"} }
func (c *bufConn) SetDeadline(t time.Time) error      { return nil }
func (c *bufConn) SetReadDeadline(t time.Time) error  { return nil }
func (c *bufConn) SetWriteDeadline(t time.Time) error { return nil }
func (c *bufConn) IsTLS() bool                        { return true }

func c04UserRow(w *World, id int64) interface{} {
	var u, d string
	err := w.mgr.GetSharedDB().QueryRow("SELECT u.username, d.domain FROM users u JOIN domains d ON d.id = u.domain_id WHERE u.id = ?", id).Scan(&u, &d)
	if err != nil {
		return nil
	}
	return []string{bs(u), bs(d)}
}

// c04Provision creates a user row before the attempt: "uninit" =
// admin-provisioned (password_initialized = false), "disabled" = enabled = 0.
// c04Deliver delivers one message to rcpt through the delivery service's
// storage layer (creates the account the way LMTP does on first delivery).
var c04msgSeq int

func c04Deliver(w *World, rcpt string) error {
	c04msgSeq++
	raw := fmt.Sprintf("From: sender@x.test\r\nTo: %s\r\nSubject: c04\r\nMessage-ID: <c04-%d-%d@x.test>\r\n\r\nhello %d\r\n",
		rcpt, os.Getpid(), c04msgSeq, c04msgSeq)
	msg, err := parser.ParseMessage(strings.NewReader(raw))
	if err != nil {
		return err
	}
	return storage.NewStorage(w.mgr).DeliverMessage(rcpt, msg, "INBOX")
}

// c04Provision puts an account into a given state before the attempt:
//
//	uninit        admin-provisioned (db.CreateUser: password_initialized = false)
//	disabled      admin-provisioned, then enabled = 0
//	existing      logged in / created before (initialised, enabled, store exists)
//	disabled_init an existing, initialised account the operator disabled (enabled = 0)
//	lmtp          created earlier by a mail delivery
//	reenabled     disabled and enabled again
func c04Provision(w *World, mode, local, domain string) string {
	if mode == "" || mode == "none" {
		return ""
	}
	sh := w.mgr.GetSharedDB()
	if mode == "lmtp" {
		if err := c04Deliver(w, local+"@"+domain); err != nil {
			return err.Error()
		}
		return ""
	}
	did, err := db.GetOrCreateDomain(sh, domain)
	if err != nil {
		return err.Error()
	}
	var uid int64
	switch mode {
	case "uninit", "disabled":
		uid, err = db.CreateUser(sh, local, did)
	default:
		uid, err = db.GetOrCreateUserInitialized(sh, local, did)
		if err == nil {
			_, err = w.mgr.GetUserDB(uid)
		}
	}
	if err != nil {
		return err.Error()
	}
	switch mode {
	case "disabled", "disabled_init":
		_, err = sh.Exec("UPDATE users SET enabled = 0 WHERE id = ?", uid)
	case "reenabled":
		_, _ = sh.Exec("UPDATE users SET enabled = 0 WHERE id = ?", uid)
		_, err = sh.Exec("UPDATE users SET enabled = 1 WHERE id = ?", uid)
	}
	if err != nil {
		return err.Error()
	}
	return ""
}

func c04Cases(op Op) []Op {
	cs, _ := op["cases"].([]interface{})
	out := make([]Op, 0, len(cs))
	for _, c := range cs {
		m, _ := c.(map[string]interface{})
		out = append(out, Op(m))
	}
	return out
}

// markerStore finds the user store that holds mailbox `marker`.
func c04MarkerStore(w *World, marker string) interface{} {
	files, _ := filepath.Glob(filepath.Join(w.dataDir, "user_db_*.db"))
	var found []interface{}
	for _, f := range files {
		d, err := openRO(f)
		if err != nil {
			continue
		}
		var n int
		err = d.QueryRow("SELECT COUNT(*) FROM mailboxes WHERE name = ?", marker).Scan(&n)
		_ = d.Close()
		if err == nil && n > 0 {
			base := strings.TrimSuffix(strings.TrimPrefix(filepath.Base(f), "user_db_"), ".db")
			id, _ := strconv.ParseInt(base, 10, 64)
			found = append(found, c04UserRow(w, id))
		}
	}
	return found
}

func init() {
	// direct calls of authenticateUser
	register("c04_direct", func(w *World, op Op) Obs {
		a := c04Get()
		var rs []interface{}
		// the world is prepared first, so that the logins of other accounts lie
		// between an account's creation and its own login
		var setupErrs []string
		if l, ok := op["setup"].([]interface{}); ok {
			for _, e := range l {
				m, _ := e.(map[string]interface{})
				so := Op(m)
				if msg := c04Provision(w, so.str("prov"), so.str("prov_local"), so.str("prov_domain")); msg != "" {
					setupErrs = append(setupErrs, so.str("prov")+" "+so.str("prov_local")+": "+msg)
				}
			}
		}
		for _, c := range c04Cases(op) {
			dom := c04Cfg(w, c.str("domain"), c.boolean("dead"))
			a.set(c.str("beh"))
			conn := &bufConn{}
			st := &models.ClientState{}
			r := func() (r map[string]interface{}) {
				defer func() {
					if e := recover(); e != nil {
						r = map[string]interface{}{"panic": fmt.Sprint(e)}
					}
				}()
				auth.VerifAuthenticateUser(w.imap, conn, "T", c.str("u"), c.str("p"), st)
				return map[string]interface{}{}
			}()
			r["cfg_domain"] = bs(dom)
			r["wrote"] = bs(conn.buf.String())
			r["reqs"] = a.take()
			r["authed"] = st.Authenticated
			r["username"] = bs(st.Username)
			if st.Authenticated {
				r["row"] = c04UserRow(w, st.UserID)
			}
			rs = append(rs, r)
		}
		return Obs{"rs": rs, "setup_errors": setupErrs}
	})

	// concurrent first logins of one brand-new account on k sessions (and,
	// with "lmtp", racing the first delivery to it), repeated for "rounds"
	// accounts; "warm" accounts are created before so that every pooled
	// connection of shared.db has inserted other users' rows
	register("c04_race", func(w *World, op Op) Obs {
		a := c04Get()
		dom := c04Cfg(w, op.str("domain"), false)
		a.set("200")
		k := op.num("k", 3)
		login := func(u string) map[string]interface{} {
			conn := &bufConn{}
			st := &models.ClientState{}
			r := map[string]interface{}{}
			func() {
				defer func() {
					if e := recover(); e != nil {
						r["panic"] = fmt.Sprint(e)
					}
				}()
				auth.VerifAuthenticateUser(w.imap, conn, "T", u, "pw", st)
			}()
			r["wrote"] = bs(conn.buf.String())
			r["authed"] = st.Authenticated
			r["username"] = bs(st.Username)
			if st.Authenticated {
				r["row"] = c04UserRow(w, st.UserID)
			}
			return r
		}
		// warm-up: concurrent logins of distinct accounts (opens several pooled connections)
		for i := 0; i < op.num("warm", 2); i++ {
			var wg sync.WaitGroup
			for j := 0; j < k; j++ {
				wg.Add(1)
				go func(i, j int) {
					defer wg.Done()
					login(fmt.Sprintf("warm%d_%d_%s", i, j, op.str("prefix")))
				}(i, j)
			}
			wg.Wait()
		}
		var rounds []interface{}
		for r := 0; r < op.num("rounds", 10); r++ {
			u := fmt.Sprintf("%s%d", op.str("prefix"), r)
			if op.boolean("full_address") {
				u += "@" + dom
			}
			start := make(chan struct{})
			res := make([]map[string]interface{}, k)
			var wg sync.WaitGroup
			for j := 0; j < k; j++ {
				wg.Add(1)
				go func(j int) {
					defer wg.Done()
					<-start
					res[j] = login(u)
				}(j)
			}
			deliverErr := ""
			if op.boolean("lmtp") {
				wg.Add(1)
				go func() {
					defer wg.Done()
					<-start
					rcpt := u
					if !strings.Contains(rcpt, "@") {
						rcpt += "@" + dom
					}
					if err := c04Deliver(w, rcpt); err != nil {
						deliverErr = err.Error()
					}
				}()
			}
			close(start)
			wg.Wait()
			out := make([]interface{}, k)
			for j := range res {
				out[j] = res[j]
			}
			rounds = append(rounds, map[string]interface{}{"u": bs(u), "sessions": out, "deliver_error": deliverErr})
		}
		a.take()
		return Obs{"cfg_domain": bs(dom), "rounds": rounds}
	})

	// pure identity split
	register("c04_ident", func(w *World, op Op) Obs {
		dom := c04Cfg(w, op.str("domain"), false)
		var rs []interface{}
		for _, u := range op.strs("users") {
			rs = append(rs, []string{bs(w.imap.ExtractUsername(u)), bs(w.imap.GetUserDomain(u))})
		}
		return Obs{"cfg_domain": bs(dom), "rs": rs}
	})

	// LOGIN / AUTHENTICATE PLAIN over a connection, then the store addressed
	register("c04_wire", func(w *World, op Op) Obs {
		a := c04Get()
		var rs []interface{}
		for _, c := range c04Cases(op) {
			dom := c04Cfg(w, c.str("domain"), c.boolean("dead"))
			a.set(c.str("beh"))
			c04seq++
			name := fmt.Sprintf("c04w%d", c04seq)
			kind := "tls"
			if !c.boolean("tls") {
				kind = "plain"
			}
			opOpen(w, Op{"conn": name, "kind": kind})
			tag := c.str("tag")
			tmo := float64(c.num("timeout_ms", 3000))
			r := map[string]interface{}{"cfg_domain": bs(dom)}
			var o Obs
			if c.str("kind") == "authplain" {
				o = opSend(w, Op{"conn": name, "data": b2s([]byte(tag + " AUTHENTICATE PLAIN\r\n")), "until": "cont:" + tag, "timeout_ms": tmo})
				first, _ := o["recv"].(string)
				r["first"] = first
				if strings.HasPrefix(first, "+") {
					o = opSend(w, Op{"conn": name, "data": b2s([]byte(c.str("blob"))), "until": "tag:" + tag, "timeout_ms": tmo})
				}
			} else {
				o = opSend(w, Op{"conn": name, "data": b2s([]byte(c.str("line"))), "until": "tag:" + tag, "timeout_ms": tmo})
			}
			r["recv"] = o["recv"]
			r["how"] = o["how"]
			recv, _ := o["recv"].(string)
			r["reqs"] = a.take()
			if strings.HasPrefix(recv, tag+" OK") {
				marker := fmt.Sprintf("c04mk%d", c04seq)
				o2 := opSend(w, Op{"conn": name, "data": "m1 CREATE " + marker + "\r\n", "until": "tag:m1", "timeout_ms": tmo})
				r["create"] = o2["recv"]
				r["stores"] = c04MarkerStore(w, marker)
			}
			if cl, ok := w.conns[name]; ok {
				cl.close()
				delete(w.conns, name)
			}
			rs = append(rs, r)
		}
		return Obs{"rs": rs}
	})

	// SASL service on a unix socket in the scenario's directory
	register("c04_sasl", func(w *World, op Op) Obs {
		a := c04Get()
		url := a.url()
		if op.boolean("dead") {
			url = c04dead
		}
		sock := filepath.Join(w.root, fmt.Sprintf("sasl%d.sock", time.Now().UnixNano()%100000))
		srv := sasl.NewServer(sock, "", url, op.str("domain"))
		go func() { _ = srv.Start() }()
		defer func() { _ = srv.Shutdown() }()
		up := false
		for i := 0; i < 200; i++ {
			if c, err := net.Dial("unix", sock); err == nil {
				_ = c.Close()
				up = true
				break
			}
			time.Sleep(10 * time.Millisecond)
		}
		if !up {
			return Obs{"error": "sasl server did not start"}
		}
		var rs []interface{}
		for _, c := range c04Cases(op) {
			a.set(c.str("beh"))
			r := map[string]interface{}{}
			conn, err := net.Dial("unix", sock)
			if err != nil {
				r["error"] = err.Error()
				rs = append(rs, r)
				continue
			}
			// one request line, then half-close: the service answers, sees EOF
			// and closes, so everything it wrote is read up to EOF
			_, _ = conn.Write([]byte(c.str("line") + "\n"))
			if uc, ok := conn.(*net.UnixConn); ok {
				_ = uc.CloseWrite()
			}
			deadline := time.Now().Add(time.Duration(c.num("timeout_ms", 4000)) * time.Millisecond)
			var got []byte
			tmp := make([]byte, 65536)
			how := "eof"
			for {
				_ = conn.SetReadDeadline(deadline)
				n, err := conn.Read(tmp)
				got = append(got, tmp[:n]...)
				if err != nil {
					if err != io.EOF {
						how = "timeout-or-error"
					}
					break
				}
			}
			_ = conn.Close()
			r["wrote"] = b2s(got)
			r["how"] = how
			r["reqs"] = a.take()
			rs = append(rs, r)
		}
		return Obs{"rs": rs}
	})
}

// ---------------------------------------------------------------------------
// concurrent logins against a gated TLS backend (suite "conc")

// heldConn delays the first Read (the TLS ClientHello) until its gate is open:
// the client's request stays unsent inside the handshake meanwhile.
type c04HeldConn struct {
	net.Conn
	gate <-chan struct{}
}

func (c *c04HeldConn) Read(b []byte) (int, error) {
	<-c.gate
	return c.Conn.Read(b)
}

type c04Gated struct {
	srv      *httptest.Server
	mu       sync.Mutex
	gate     chan struct{}
	accepted chan struct{}
	accept   map[[2]string]bool
	recs     []map[string]interface{}
}

type c04GateListener struct {
	net.Listener
	g *c04Gated
}

func (l *c04GateListener) Accept() (net.Conn, error) {
	conn, err := l.Listener.Accept()
	if err != nil {
		return nil, err
	}
	l.g.mu.Lock()
	gate := l.g.gate
	l.g.mu.Unlock()
	select {
	case l.g.accepted <- struct{}{}:
	default:
	}
	return &c04HeldConn{Conn: conn, gate: gate}, nil
}

var c04g *c04Gated

// the backend is a function of the body it receives: it accepts exactly the
// listed (email, password) pairs, read from the body with encoding/json
func c04GatedGet() *c04Gated {
	if c04g != nil {
		return c04g
	}
	g := &c04Gated{accepted: make(chan struct{}, 256), gate: make(chan struct{}), accept: map[[2]string]bool{}}
	g.srv = httptest.NewUnstartedServer(http.HandlerFunc(func(rw http.ResponseWriter, r *http.Request) {
		body, _ := io.ReadAll(r.Body)
		var c struct {
			Email    string `json:"email"`
			Password string `json:"password"`
		}
		ok := false
		if err := json.Unmarshal(body, &c); err == nil {
			g.mu.Lock()
			ok = g.accept[[2]string{c.Email, c.Password}]
			g.mu.Unlock()
		}
		g.mu.Lock()
		g.recs = append(g.recs, map[string]interface{}{"body": bs(string(body)), "accepted": ok})
		g.mu.Unlock()
		if ok {
			rw.WriteHeader(200)
		} else {
			rw.WriteHeader(401)
		}
	}))
	g.srv.Listener = &c04GateListener{Listener: g.srv.Listener, g: g}
	g.srv.Config.ErrorLog = nil
	g.srv.StartTLS()
	c04g = g
	return g
}

func (g *c04Gated) newRound(pairs [][2]string) {
	g.mu.Lock()
	g.gate = make(chan struct{})
	g.accept = map[[2]string]bool{}
	for _, p := range pairs {
		g.accept[p] = true
	}
	g.recs = nil
	g.mu.Unlock()
	for {
		select {
		case <-g.accepted:
			continue
		default:
		}
		break
	}
}

func (g *c04Gated) release() {
	g.mu.Lock()
	close(g.gate)
	g.mu.Unlock()
}

func init() {
	// c04_conc: rounds of sessions that are started one after the other, each
	// held inside the handshake to the backend, and released together.
	// {"op":"c04_conc","procs":1,"domain":..,"hold_ms":..,"rounds":[{"accept":[[email,pw]..],
	//   "sessions":[{"kind":"direct"|"login"|"authplain"|"sasl","u","p","tag","line","blob"}]}]}
	register("c04_conc", func(w *World, op Op) Obs {
		if p := op.num("procs", 0); p > 0 {
			defer runtime.GOMAXPROCS(runtime.GOMAXPROCS(p))
		}
		g := c04GatedGet()
		url := g.srv.URL + "/auth"
		domain := op.str("domain")
		cfg := "domain: " + c04YamlQ(domain) + "\nauth_server_url: " + c04YamlQ(url) + "\n"
		_ = os.WriteFile(filepath.Join(w.root, "raven.yaml"), []byte(cfg), 0600)
		hold := time.Duration(op.num("hold_ms", 1500)) * time.Millisecond

		var saslSock string
		var saslSrv *sasl.Server
		defer func() {
			if saslSrv != nil {
				_ = saslSrv.Shutdown()
			}
		}()
		needSasl := func() string {
			if saslSrv != nil {
				return saslSock
			}
			saslSock = filepath.Join(w.root, fmt.Sprintf("saslc%d.sock", time.Now().UnixNano()%100000))
			saslSrv = sasl.NewServer(saslSock, "", url, domain)
			go func() { _ = saslSrv.Start() }()
			for i := 0; i < 200; i++ {
				if c, err := net.Dial("unix", saslSock); err == nil {
					_ = c.Close()
					break
				}
				time.Sleep(10 * time.Millisecond)
			}
			return saslSock
		}

		rounds, _ := op["rounds"].([]interface{})
		var out []interface{}
		for _, rr := range rounds {
			rm, _ := rr.(map[string]interface{})
			ro := Op(rm)
			var pairs [][2]string
			if l, ok := ro["accept"].([]interface{}); ok {
				for _, e := range l {
					if pr, ok := e.([]interface{}); ok && len(pr) == 2 {
						a, _ := pr[0].(string)
						b, _ := pr[1].(string)
						pairs = append(pairs, [2]string{string(s2b(a)), string(s2b(b))})
					}
				}
			}
			g.newRound(pairs)
			sessions := c04Cases(Op{"cases": ro["sessions"]})
			type live struct {
				kind   string
				tag    string
				name   string
				conn   net.Conn
				done   chan struct{}
				st     *models.ClientState
				bc     *bufConn
				res    map[string]interface{}
				id     string // SASL request id
				owner  *live  // SASL: the session whose connection this one shares
				shared bool   // SASL: other sessions share this connection
				out    []byte
			}
			lives := make([]*live, len(sessions))
			for i, se := range sessions {
				lv := &live{kind: se.str("kind"), tag: se.str("tag"), res: map[string]interface{}{}}
				lives[i] = lv
				switch lv.kind {
				case "direct":
					lv.done = make(chan struct{})
					lv.st = &models.ClientState{}
					lv.bc = &bufConn{}
					go func(lv *live, u, p string) {
						defer close(lv.done)
						defer func() {
							if e := recover(); e != nil {
								lv.res["panic"] = fmt.Sprint(e)
							}
						}()
						auth.VerifAuthenticateUser(w.imap, lv.bc, "T", u, p, lv.st)
					}(lv, se.str("u"), se.str("p"))
				case "login", "authplain":
					c04seq++
					lv.name = fmt.Sprintf("c04c%d", c04seq)
					opOpen(w, Op{"conn": lv.name, "kind": "tls"})
					cl := w.conns[lv.name]
					if lv.kind == "authplain" {
						o := opSend(w, Op{"conn": lv.name, "data": b2s([]byte(lv.tag + " AUTHENTICATE PLAIN\r\n")), "until": "cont:" + lv.tag, "timeout_ms": float64(3000)})
						lv.res["first"] = o["recv"]
						_ = cl.conn.SetWriteDeadline(time.Now().Add(3 * time.Second))
						_, _ = cl.conn.Write([]byte(se.str("blob")))
					} else {
						_ = cl.conn.SetWriteDeadline(time.Now().Add(3 * time.Second))
						_, _ = cl.conn.Write([]byte(se.str("line")))
					}
				case "sasl":
					lv.id = se.str("id")
					if se.boolean("same_conn") && i > 0 && lives[i-1].kind == "sasl" && (lives[i-1].conn != nil || lives[i-1].owner != nil) {
						// back-to-back on the previous session's connection: the service
						// handles it after the previous request, so it is not awaited here
						owner := lives[i-1]
						if owner.owner != nil {
							owner = owner.owner
						}
						lv.owner = owner
						owner.shared = true
						_, _ = owner.conn.Write([]byte(se.str("line") + "\n"))
						continue
					}
					c, err := net.Dial("unix", needSasl())
					if err != nil {
						lv.res["error"] = err.Error()
						continue
					}
					lv.conn = c
					_, _ = c.Write([]byte(se.str("line") + "\n"))
				}
				// wait until this session's connection to the backend is accepted
				// (its request is now held, unsent, inside the handshake)
				select {
				case <-g.accepted:
				case <-time.After(hold):
					lv.res["not_accepted"] = true
				}
			}
			g.release()
			for i, lv := range lives {
				_ = i
				switch lv.kind {
				case "direct":
					select {
					case <-lv.done:
					case <-time.After(15 * time.Second):
						lv.res["timeout"] = true
						continue
					}
					lv.res["wrote"] = bs(lv.bc.buf.String())
					lv.res["authed"] = lv.st.Authenticated
					if lv.st.Authenticated {
						lv.res["row"] = c04UserRow(w, lv.st.UserID)
					}
				case "login", "authplain":
					cl := w.conns[lv.name]
					b, how := cl.readUntil(taggedDone(lv.tag), 15*time.Second)
					lv.res["recv"] = b2s(b)
					lv.res["how"] = how
					if strings.HasPrefix(string(b), lv.tag+" OK") {
						marker := "c04mk" + lv.name
						o2 := opSend(w, Op{"conn": lv.name, "data": "m1 CREATE " + marker + "\r\n", "until": "tag:m1", "timeout_ms": float64(5000)})
						lv.res["create"] = o2["recv"]
						lv.res["stores"] = c04MarkerStore(w, marker)
					}
					cl.close()
					delete(w.conns, lv.name)
				case "sasl":
					if lv.owner != nil {
						continue // answered on the owner's connection, see below
					}
					if lv.conn == nil {
						continue
					}
					if uc, ok := lv.conn.(*net.UnixConn); ok {
						_ = uc.CloseWrite()
					}
					var got []byte
					tmp := make([]byte, 65536)
					how := "eof"
					deadline := time.Now().Add(15 * time.Second)
					for {
						_ = lv.conn.SetReadDeadline(deadline)
						n, err := lv.conn.Read(tmp)
						got = append(got, tmp[:n]...)
						if err != nil {
							if err != io.EOF {
								how = "timeout-or-error"
							}
							break
						}
					}
					_ = lv.conn.Close()
					lv.out = got
					lv.res["wrote"] = b2s(got)
					lv.res["how"] = how
				}
			}
			// sessions that shared a SASL connection: each gets the answer lines carrying its id
			for _, lv := range lives {
				if lv.kind != "sasl" || (lv.owner == nil && !lv.shared) {
					continue
				}
				src := lv
				if lv.owner != nil {
					src = lv.owner
				}
				var mine []byte
				for _, l := range bytes.SplitAfter(src.out, []byte("\n")) {
					f := bytes.Split(bytes.TrimRight(l, "\n"), []byte("\t"))
					if len(f) >= 2 && string(f[1]) == lv.id {
						mine = append(mine, l...)
					}
				}
				lv.res["wrote"] = b2s(mine)
				lv.res["how"] = src.res["how"]
				lv.res["shared_conn"] = true
			}
			// give late requests (none on a correct tree) a moment, then read the record
			time.Sleep(20 * time.Millisecond)
			g.mu.Lock()
			recs := make([]interface{}, len(g.recs))
			for i, r := range g.recs {
				recs[i] = r
			}
			g.mu.Unlock()
			ss := make([]interface{}, len(lives))
			for i, lv := range lives {
				ss[i] = lv.res
			}
			out = append(out, map[string]interface{}{"sessions": ss, "backend": recs})
		}
		return Obs{"rounds": out}
	})
}
