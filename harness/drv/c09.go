//go:build verif

package main

import (
	"fmt"
	"time"

	"raven/internal/db"
	"raven/internal/server/utils"
)

// C09 — direct calls of the two database-backed set parsers
// (utils.ParseSequenceSetWithDB, utils.ParseUIDSequenceSetWithDB).
//
// c09_sets: {"op":"c09_sets","boxes":[{"uids":[..],"cases":[["seq"|"uid","<set>"],...]},...]}
//   -> {"rs":[[ [ints] | {"panic":..}, ... ], ...]}
// For every box a fresh mailbox is created in the per-user store of user 900
// and one message_mailbox row per uid is inserted (all rows reference one
// message row); the parsers are then called with that mailbox id.
func init() {
	register("c09_sets", func(w *World, op Op) Obs {
		udb, err := w.mgr.GetUserDB(900)
		if err != nil {
			return Obs{"error": err.Error()}
		}
		mid, err := db.CreateMessage(udb, "s", "", "", time.Unix(1000, 0), 1)
		if err != nil {
			return Obs{"error": err.Error()}
		}
		boxes, _ := op["boxes"].([]interface{})
		out := make([]interface{}, 0, len(boxes))
		for bi, b := range boxes {
			bm, _ := b.(map[string]interface{})
			bo := Op(bm)
			mb, err := db.CreateMailboxPerUser(udb, 900, fmt.Sprintf("c09box%d", bi), "")
			if err != nil {
				return Obs{"error": err.Error()}
			}
			for _, u := range bo.ints("uids") {
				if _, err := udb.Exec(`INSERT INTO message_mailbox (message_id, mailbox_id, uid, flags, internal_date) VALUES (?, ?, ?, '', ?)`,
					mid, mb, u, time.Unix(1000, 0)); err != nil {
					return Obs{"error": err.Error()}
				}
			}
			cs, _ := bo["cases"].([]interface{})
			rs := make([]interface{}, 0, len(cs))
			for _, c := range cs {
				cl, _ := c.([]interface{})
				kind, _ := cl[0].(string)
				set, _ := cl[1].(string)
				set = string(s2b(set))
				rs = append(rs, func() (r interface{}) {
					defer func() {
						if e := recover(); e != nil {
							r = map[string]interface{}{"panic": fmt.Sprint(e)}
						}
					}()
					var l []int
					if kind == "seq" {
						l = utils.ParseSequenceSetWithDB(set, mb, udb)
					} else {
						l = utils.ParseUIDSequenceSetWithDB(set, mb, udb)
					}
					if l == nil {
						l = []int{}
					}
					return l
				}())
			}
			out = append(out, rs)
		}
		return Obs{"rs": out}
	})
}
