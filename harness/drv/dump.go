//go:build verif

package main

import (
	"database/sql"
	"fmt"
	"os"
	"path/filepath"
	"sort"
	"strings"

	"raven/internal/db"
)

func init() {
	register("dump", opDump)
	register("role_create", opRoleCreate)
	register("role_assign", opRoleAssign)
	register("role_unassign", opRoleUnassign)
	register("user_id", opUserID)
	register("sql", opSQL)
}

func openRO(path string) (*sql.DB, error) {
	return sql.Open("sqlite3", "file:"+path+"?mode=ro&_busy_timeout=5000")
}

func queryRows(d *sql.DB, q string, args ...interface{}) ([][]interface{}, error) {
	rows, err := d.Query(q, args...)
	if err != nil {
		return nil, err
	}
	defer rows.Close()
	cols, _ := rows.Columns()
	var out [][]interface{}
	for rows.Next() {
		vals := make([]interface{}, len(cols))
		ptrs := make([]interface{}, len(cols))
		for i := range vals {
			ptrs[i] = &vals[i]
		}
		if err := rows.Scan(ptrs...); err != nil {
			return out, err
		}
		for i, v := range vals {
			switch t := v.(type) {
			case []byte:
				vals[i] = b2s(t)
			case string:
				vals[i] = b2s([]byte(t))
			default:
				_ = t
			}
		}
		out = append(out, vals)
	}
	return out, rows.Err()
}

func dumpStore(path string) map[string]interface{} {
	out := map[string]interface{}{}
	d, err := openRO(path)
	if err != nil {
		out["error"] = err.Error()
		return out
	}
	defer d.Close()
	mb, err := queryRows(d, "SELECT id, user_id, name, uid_validity, uid_next FROM mailboxes ORDER BY id")
	if err != nil {
		out["error"] = err.Error()
		return out
	}
	out["mailboxes"] = mb
	lk, err := queryRows(d, "SELECT id, message_id, mailbox_id, uid, COALESCE(flags,'') FROM message_mailbox ORDER BY mailbox_id, uid, id")
	if err != nil {
		out["error"] = err.Error()
		return out
	}
	out["links"] = lk
	ms, _ := queryRows(d, `SELECT m.id,
	    (SELECT COUNT(*) FROM message_headers h WHERE h.message_id = m.id),
	    (SELECT COUNT(*) FROM message_parts p WHERE p.message_id = m.id)
	  FROM messages m ORDER BY m.id`)
	out["messages"] = ms
	sb, _ := queryRows(d, "SELECT user_id, mailbox_name FROM subscriptions ORDER BY mailbox_name")
	out["subs"] = sb
	return out
}

// dump: canonical content of every store in the data directory, opened
// read-only by file name (never through DBManager, so it creates nothing).
func opDump(w *World, op Op) Obs {
	res := Obs{}
	stores := map[string]interface{}{}
	files, _ := filepath.Glob(filepath.Join(w.dataDir, "*.db"))
	sort.Strings(files)
	for _, f := range files {
		base := strings.TrimSuffix(filepath.Base(f), ".db")
		if base == "shared" {
			d, err := openRO(f)
			if err != nil {
				continue
			}
			sh := map[string]interface{}{}
			sh["users"], _ = queryRows(d, "SELECT u.id, u.username, d.domain, u.enabled FROM users u JOIN domains d ON d.id = u.domain_id ORDER BY u.id")
			sh["domains"], _ = queryRows(d, "SELECT id, domain FROM domains ORDER BY id")
			sh["roles"], _ = queryRows(d, "SELECT id, email FROM role_mailboxes ORDER BY id")
			sh["assign"], _ = queryRows(d, "SELECT user_id, role_mailbox_id, is_active FROM user_role_assignments ORDER BY user_id, role_mailbox_id")
			if op.boolean("blobs") {
				sh["blobs"], _ = queryRows(d, "SELECT id, sha256_hash, storage_type, reference_count, COALESCE(length(content),0), COALESCE(s3_blob_id,'') FROM blobs ORDER BY id")
			}
			d.Close()
			stores["shared"] = sh
			continue
		}
		stores[base] = dumpStore(f)
	}
	res["stores"] = stores
	return res
}

func opRoleCreate(w *World, op Op) Obs {
	shared := w.mgr.GetSharedDB()
	email := op.str("email")
	dom := email
	if i := strings.LastIndex(email, "@"); i >= 0 {
		dom = email[i+1:]
	}
	did, err := db.GetOrCreateDomain(shared, dom)
	if err != nil {
		return Obs{"error": err.Error()}
	}
	id, err := db.CreateRoleMailbox(shared, email, did, "verif")
	if err != nil {
		return Obs{"error": err.Error()}
	}
	// touch the store so that the file exists with default mailboxes
	if _, err := w.mgr.GetRoleMailboxDB(id); err != nil {
		return Obs{"error": err.Error()}
	}
	return Obs{"id": id}
}

func lookupUser(w *World, email string) (int64, error) {
	return db.GetUserByEmail(w.mgr.GetSharedDB(), email)
}

func opUserID(w *World, op Op) Obs {
	id, err := lookupUser(w, op.str("email"))
	if err != nil {
		return Obs{"error": err.Error()}
	}
	return Obs{"id": id}
}

func opRoleAssign(w *World, op Op) Obs {
	uid, err := lookupUser(w, op.str("user"))
	if err != nil {
		return Obs{"error": err.Error()}
	}
	err = db.AssignUserToRoleMailbox(w.mgr.GetSharedDB(), uid, int64(op.num("role", 0)), uid)
	if err != nil {
		return Obs{"error": err.Error()}
	}
	return Obs{"ok": true}
}

func opRoleUnassign(w *World, op Op) Obs {
	uid, err := lookupUser(w, op.str("user"))
	if err != nil {
		return Obs{"error": err.Error()}
	}
	err = db.UnassignUserFromRoleMailbox(w.mgr.GetSharedDB(), uid, int64(op.num("role", 0)))
	if err != nil {
		return Obs{"error": err.Error()}
	}
	return Obs{"ok": true}
}

// sql: read-only query against one store file, for audits the dump does not cover.
func opSQL(w *World, op Op) Obs {
	path := filepath.Join(w.dataDir, op.str("store")+".db")
	if _, err := os.Stat(path); err != nil {
		return Obs{"error": "no such store"}
	}
	d, err := openRO(path)
	if err != nil {
		return Obs{"error": err.Error()}
	}
	defer d.Close()
	rows, err := queryRows(d, op.str("q"))
	if err != nil {
		return Obs{"error": fmt.Sprint(err)}
	}
	return Obs{"rows": rows}
}
