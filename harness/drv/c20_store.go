//go:build verif

package main

// C20: faults of the per-user stores while a session is in a long-lived state.
//
//   c20_store_fault kind=rename   ALTER TABLE message_mailbox RENAME TO mm_gone in every user_db_*.db:
//                                 every query on the mailbox's messages fails at once ("no such table")
//                   kind=restore  rename it back
//                   kind=lock     hold BEGIN EXCLUSIVE on every user_db_*.db from connections of the driver:
//                                 queries fail with "database is locked" after the busy timeout
//                   kind=unlock   release
//   returns the stores touched

import (
	"context"
	"database/sql"
	"path/filepath"
)

var c20Locks []*sql.Conn
var c20LockDBs []*sql.DB

func init() {
	register("c20_store_fault", func(w *World, op Op) Obs {
		files, _ := filepath.Glob(filepath.Join(w.dataDir, "user_db_*.db"))
		kind := op.str("kind")
		if kind == "unlock" {
			for _, c := range c20Locks {
				_, _ = c.ExecContext(context.Background(), "ROLLBACK")
				_ = c.Close()
			}
			for _, d := range c20LockDBs {
				_ = d.Close()
			}
			c20Locks, c20LockDBs = nil, nil
			return Obs{"ok": true}
		}
		touched := []string{}
		for _, f := range files {
			d, err := sql.Open("sqlite3", "file:"+f+"?_busy_timeout=5000")
			if err != nil {
				return Obs{"error": err.Error()}
			}
			switch kind {
			case "rename":
				_, err = d.Exec("ALTER TABLE message_mailbox RENAME TO mm_gone")
				_ = d.Close()
			case "restore":
				_, err = d.Exec("ALTER TABLE mm_gone RENAME TO message_mailbox")
				_ = d.Close()
			case "lock":
				var c *sql.Conn
				c, err = d.Conn(context.Background())
				if err == nil {
					_, err = c.ExecContext(context.Background(), "BEGIN EXCLUSIVE")
					c20Locks = append(c20Locks, c)
					c20LockDBs = append(c20LockDBs, d)
				}
			default:
				_ = d.Close()
				return Obs{"error": "kind"}
			}
			if err != nil {
				return Obs{"error": err.Error(), "store": filepath.Base(f)}
			}
			touched = append(touched, filepath.Base(f))
		}
		return Obs{"ok": len(touched) > 0, "stores": touched}
	})
}
