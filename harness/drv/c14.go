//go:build verif

package main

import (
	"mime"
	"net/mail"

	"raven/internal/server/message"
)

// C14 direct calls.
//
// mapPath: a = content_type of each row, n = [k, (id, part_number, parent|-1) * k, path...]
// -> id of the row mapIMAPPartPathToDBPart returns, -1 for nil.
// Rows are built exactly as db.GetMessageParts builds them (int64 values,
// parent_part_id present only when the column is not NULL).
func init() {
	// mailParse: the library reading of an address-list header that the model of
	// response.parseAddressList takes as its parameter mail_parse:
	// net/mail.ParseAddressList, each display name passed through
	// mime.QEncoding.Encode("utf-8", .).  -> [name1, addr1, name2, addr2, ...],
	// or {"err": ...} when the header does not parse (or parses to nothing).
	calls["mailParse"] = func(a []string, n []int) interface{} {
		list, err := mail.ParseAddressList(a[0])
		if err != nil || len(list) == 0 {
			return map[string]interface{}{"err": true}
		}
		out := []string{}
		for _, x := range list {
			out = append(out, bs(mime.QEncoding.Encode("utf-8", x.Name)), bs(x.Address))
		}
		return out
	}
	calls["mapPath"] = func(a []string, n []int) interface{} {
		k := n[0]
		parts := make([]map[string]interface{}, 0, k)
		for i := 0; i < k; i++ {
			p := map[string]interface{}{
				"id":           int64(n[1+3*i]),
				"part_number":  int64(n[2+3*i]),
				"content_type": a[i],
			}
			if n[3+3*i] >= 0 {
				p["parent_part_id"] = int64(n[3+3*i])
			}
			parts = append(parts, p)
		}
		path := n[1+3*k:]
		r := message.VerifMapIMAPPartPath(parts, path)
		if r == nil {
			return -1
		}
		return int(r["id"].(int64))
	}
}
