//go:build verif

package main

// Driver ops of property C20 (session lifecycle, service shutdown).
//
//   c20_census                     goroutine census: how many goroutines are inside
//                                  raven's connection handlers / loops, open descriptors
//   c20_lmtp_open  conn timeout_s  LMTP session over a pipe with a configurable timeout
//   c20_sasl_open  conn            SASL connection handler over a pipe
//   c20_srv_start  srv svc         real lmtp.Server / sasl.Server on a unix socket (+TCP for lmtp)
//   c20_srv_dial   srv conn net    connect to it (greeting for lmtp)
//   c20_srv_shutdown srv timeout_ms   call Shutdown() (under recover) and wait for its return
//   c20_srv_shutdown_wait srv timeout_ms   wait for a Shutdown() that had not returned
//   c20_srv_start_returned srv timeout_ms  did Start() return?

import (
	"fmt"
	"math"
	"net"
	"sync"
	"os"
	"path/filepath"
	"runtime"
	"strings"
	"time"

	"raven/internal/delivery/lmtp"
	"raven/internal/delivery/storage"
	"raven/internal/sasl"
	"raven/internal/server/extension"
)

// c20Conn is the server side of a pipe whose deadlines are (a) recorded as the
// duration the handler asked for and (b) compressed, so that "the client stays
// silent for 30 minutes" can be observed in seconds:
//   >= 20 min -> 3 s;  1 min .. 20 min -> 1.5 s;  10 s .. 1 min -> 1 s;  below: unchanged.
type c20Conn struct {
	net.Conn
	tlsFlag bool
	mu      sync.Mutex
	log     []int // requested read deadlines (SetReadDeadline, SetDeadline), ms
	wlog    []int // requested write deadlines (SetWriteDeadline, SetDeadline), ms
}

func (c *c20Conn) IsTLS() bool { return c.tlsFlag }

func c20Compress(d time.Duration) time.Duration {
	switch {
	case d >= 20*time.Minute:
		return 3 * time.Second
	case d >= time.Minute:
		return 1500 * time.Millisecond
	case d >= 10*time.Second:
		return time.Second
	}
	return d
}

func (c *c20Conn) note(t time.Time, rd, wr bool) time.Time {
	ms := 0
	out := t
	if !t.IsZero() {
		d := time.Until(t)
		ms = int(math.Round(float64(d) / float64(time.Millisecond)))
		out = time.Now().Add(c20Compress(d))
	}
	c.mu.Lock()
	if rd && len(c.log) < 5000 { // a handler spinning on a dead connection must not fill the memory
		c.log = append(c.log, ms)
	}
	if wr && len(c.wlog) < 5000 {
		c.wlog = append(c.wlog, ms)
	}
	c.mu.Unlock()
	return out
}
func (c *c20Conn) SetReadDeadline(t time.Time) error {
	return c.Conn.SetReadDeadline(c.note(t, true, false))
}
func (c *c20Conn) SetWriteDeadline(t time.Time) error {
	return c.Conn.SetWriteDeadline(c.note(t, false, true))
}
func (c *c20Conn) SetDeadline(t time.Time) error { return c.Conn.SetDeadline(c.note(t, true, true)) }

var c20Conns = map[string]*c20Conn{}

type c20Server struct {
	svc      string
	lm       *lmtp.Server
	sa       *sasl.Server
	unixPath string
	startRet chan struct{}
	startErr string
	shutRet  chan struct{} // of the most recent Shutdown call
	shutPan  string
	shutErr  string
}

var c20Servers = map[string]*c20Server{}

var c20Marks = []string{
	"extension.HandleIdle",
	"server.handleClient",
	"server.(*IMAPServer).HandleConnection",
	"auth.HandleAuthenticate",
	"message.HandleAppendWithReader",
	"lmtp.(*Session).Handle",
	"lmtp.(*Server).handleConnection",
	"lmtp.(*Server).acceptConnections",
	"sasl.(*Server).handleConnection",
	"sasl.(*Server).acceptConnections",
}

func c20Census() Obs {
	buf := make([]byte, 1<<20)
	for {
		n := runtime.Stack(buf, true)
		if n < len(buf) {
			buf = buf[:n]
			break
		}
		buf = make([]byte, 2*len(buf))
	}
	in := map[string]int{}
	for _, g := range strings.Split(string(buf), "\n\n") {
		for _, m := range c20Marks {
			if strings.Contains(g, m+"(") {
				in[m]++
			}
		}
		// a SASL handler that is back in scanner.Scan(): past the shutdown check of its last command
		if strings.Contains(g, "sasl.(*Server).handleConnection(") && strings.Contains(g, "bufio.(*Scanner).Scan(") {
			in["sasl.inScan"]++
		}
	}
	fds := -1
	if ents, err := os.ReadDir("/proc/self/fd"); err == nil {
		fds = len(ents)
	}
	return Obs{"goroutines": runtime.NumGoroutine(), "in": in, "fds": fds}
}

func init() {
	register("c20_census", func(w *World, op Op) Obs { return c20Census() })

	// c20_wait_census: poll the census until in[key] == eq (or the deadline): waits for the
	// observable instead of sleeping a fixed time
	register("c20_wait_census", func(w *World, op Op) Obs {
		key, want := op.str("key"), op.num("eq", 0)
		deadline := time.Now().Add(time.Duration(op.num("timeout_ms", 10000)) * time.Millisecond)
		for {
			c := c20Census()
			v := c["in"].(map[string]int)[key]
			if v == want {
				return Obs{"ok": true, "value": v}
			}
			if time.Now().After(deadline) {
				return Obs{"ok": false, "value": v, "in": c["in"]}
			}
			time.Sleep(20 * time.Millisecond)
		}
	})

	// c20_open: IMAP connection whose server side records + compresses deadlines
	register("c20_open", func(w *World, op Op) Obs {
		name := op.str("conn")
		cside, pside := net.Pipe()
		sside := &c20Conn{Conn: pside, tlsFlag: op.str("kind") != "plain" && op.str("kind") != "ssl"}
		if !sside.tlsFlag {
			w.ensureCert()
		}
		c20Conns[name] = sside
		cl := newClient(cside)
		w.conns[name] = cl
		if op.str("kind") == "ssl" {
			// the implicit-TLS port: the server starts with the TLS handshake (certificate set
			// through SetTLSCertificates); the client side decides whether it ever handshakes
			go func() {
				defer close(cl.done)
				w.imap.HandleSSLConnection(sside)
			}()
			return Obs{"ok": true}
		}
		go func() {
			defer close(cl.done)
			w.imap.HandleConnection(sside)
		}()
		b, how := cl.readUntil(nLines(1), 5*time.Second)
		return Obs{"recv": b2s(b), "how": how}
	})
	register("c20_deadline_log", func(w *World, op Op) Obs {
		c, ok := c20Conns[op.str("conn")]
		if !ok {
			return Obs{"error": "no conn"}
		}
		c.mu.Lock()
		defer c.mu.Unlock()
		return Obs{"log": append([]int(nil), c.log...), "wlog": append([]int(nil), c.wlog...)}
	})

	// c20_stop_reading: the client keeps its connection open but does not read any more
	register("c20_stop_reading", func(w *World, op Op) Obs {
		cl, ok := w.conns[op.str("conn")]
		if !ok {
			return Obs{"error": "no conn"}
		}
		cl.mu.Lock()
		cl.paused = true
		cl.mu.Unlock()
		_ = cl.conn.SetReadDeadline(time.Now())
		cl.pumpWG.Wait()
		_ = cl.conn.SetReadDeadline(time.Time{})
		return Obs{"ok": true}
	})

	// c20_idle_timeout: shorten the IDLE inactivity limit (extension.idleTimeout, a
	// wall-clock limit the recording pipe cannot compress); "supported": false on a
	// tree that has no such limit
	register("c20_idle_timeout", func(w *World, op Op) Obs {
		ok := extension.VerifC20SetIdleTimeout(time.Duration(op.num("ms", 3000)) * time.Millisecond)
		return Obs{"supported": ok}
	})

	register("c20_lmtp_open", func(w *World, op Op) Obs {
		name := op.str("conn")
		cfg := lmtpConfig(op)
		cfg.LMTP.Timeout = op.num("timeout_s", 30)
		cside, pside := net.Pipe()
		sside := &c20Conn{Conn: pside}
		c20Conns[name] = sside
		cl := newClient(cside)
		w.conns[name] = cl
		stor := storage.NewStorage(w.deliveryMgr(false))
		go func() {
			defer close(cl.done)
			defer func() { _ = sside.Close() }()
			_ = lmtp.NewSession(sside, stor, cfg).Handle()
		}()
		b, how := cl.readUntil(lmtpFinal(1), 5*time.Second)
		return Obs{"recv": b2s(b), "how": how}
	})

	register("c20_sasl_open", func(w *World, op Op) Obs {
		name := op.str("conn")
		cside, pside := net.Pipe()
		sside := &c20Conn{Conn: pside}
		c20Conns[name] = sside
		cl := newClient(cside)
		w.conns[name] = cl
		authURL := w.auth.url()
		if c20Back != nil {
			authURL = c20Back.url()
		}
		srv := sasl.NewServer("", "", authURL, "example.com")
		// the Server object of this piped connection can be shut down like a listening one
		// (c20_srv_shutdown with srv = the connection's name): Shutdown waits for the handler
		started := make(chan struct{})
		close(started)
		c20Servers[name] = &c20Server{svc: "sasl", sa: srv, startRet: started}
		go func() {
			defer close(cl.done)
			srv.VerifC20Handle(sside)
		}()
		return Obs{"ok": true}
	})

	// c20_keep_sending: the client goes on sending `data` every `every_ms`, `count` times, in the
	// background (a client that is alive and keeps talking while the service shuts down)
	register("c20_keep_sending", func(w *World, op Op) Obs {
		cl, ok := w.conns[op.str("conn")]
		if !ok {
			return Obs{"error": "no conn"}
		}
		data := []byte(op.str("data"))
		every := time.Duration(op.num("every_ms", 250)) * time.Millisecond
		n := op.num("count", 20)
		go func() {
			for i := 0; i < n; i++ {
				_ = cl.conn.SetWriteDeadline(time.Now().Add(every))
				if _, err := cl.conn.Write(data); err != nil {
					if ne, ok := err.(net.Error); !ok || !ne.Timeout() {
						return
					}
				}
				time.Sleep(every)
			}
		}()
		return Obs{"ok": true}
	})

	register("c20_srv_start", func(w *World, op Op) Obs {
		name := op.str("srv")
		s := &c20Server{svc: op.str("svc"), startRet: make(chan struct{})}
		s.unixPath = filepath.Join(w.root, name+".sock")
		c20Servers[name] = s
		switch s.svc {
		case "lmtp":
			cfg := lmtpConfig(op)
			cfg.LMTP.Timeout = op.num("timeout_s", 30)
			cfg.LMTP.UnixSocket = s.unixPath
			cfg.LMTP.TCPAddress = ""
			s.lm = lmtp.NewServer(w.deliveryMgr(false), cfg)
			go func() {
				defer close(s.startRet)
				if err := s.lm.Start(); err != nil {
					s.startErr = err.Error()
				}
			}()
		case "sasl":
			s.sa = sasl.NewServer(s.unixPath, "", w.auth.url(), "example.com")
			go func() {
				defer close(s.startRet)
				if err := s.sa.Start(); err != nil {
					s.startErr = err.Error()
				}
			}()
		default:
			return Obs{"error": "svc"}
		}
		// wait until the socket accepts
		deadline := time.Now().Add(5 * time.Second)
		for time.Now().Before(deadline) {
			if _, err := os.Stat(s.unixPath); err == nil {
				return Obs{"ok": true}
			}
			time.Sleep(5 * time.Millisecond)
		}
		return Obs{"error": "listener did not come up: " + s.startErr}
	})

	register("c20_srv_dial", func(w *World, op Op) Obs {
		s, ok := c20Servers[op.str("srv")]
		if !ok {
			return Obs{"error": "no srv"}
		}
		c, err := net.DialTimeout("unix", s.unixPath, 2*time.Second)
		if err != nil {
			return Obs{"refused": true, "err": err.Error()}
		}
		cl := newClient(c)
		w.conns[op.str("conn")] = cl
		if s.svc == "lmtp" {
			b, how := cl.readUntil(lmtpFinal(1), time.Duration(op.num("timeout_ms", 3000))*time.Millisecond)
			return Obs{"refused": false, "recv": b2s(b), "how": how}
		}
		return Obs{"refused": false}
	})

	register("c20_srv_shutdown", func(w *World, op Op) Obs {
		s, ok := c20Servers[op.str("srv")]
		if !ok {
			return Obs{"error": "no srv"}
		}
		ret := make(chan struct{})
		s.shutRet = ret
		s.shutPan, s.shutErr = "", ""
		go func() {
			defer close(ret)
			defer func() {
				if r := recover(); r != nil {
					s.shutPan = fmt.Sprint(r)
				}
			}()
			var err error
			if s.svc == "lmtp" {
				err = s.lm.Shutdown()
			} else {
				err = s.sa.Shutdown()
			}
			if err != nil {
				s.shutErr = err.Error()
			}
		}()
		return c20WaitShut(s, op)
	})
	register("c20_srv_shutdown_wait", func(w *World, op Op) Obs {
		s, ok := c20Servers[op.str("srv")]
		if !ok || s.shutRet == nil {
			return Obs{"error": "no srv / no shutdown"}
		}
		return c20WaitShut(s, op)
	})
	register("c20_srv_start_returned", func(w *World, op Op) Obs {
		s, ok := c20Servers[op.str("srv")]
		if !ok {
			return Obs{"error": "no srv"}
		}
		select {
		case <-s.startRet:
			return Obs{"returned": true, "err": s.startErr}
		case <-time.After(time.Duration(op.num("timeout_ms", 1000)) * time.Millisecond):
			return Obs{"returned": false}
		}
	})
}

func c20WaitShut(s *c20Server, op Op) Obs {
	t0 := time.Now()
	select {
	case <-s.shutRet:
		return Obs{"returned": true, "panic": s.shutPan, "err": s.shutErr, "ms": int(time.Since(t0) / time.Millisecond)}
	case <-time.After(time.Duration(op.num("timeout_ms", 2000)) * time.Millisecond):
		// not returned (yet): before anything else happens make sure the call has at least closed its
		// listener (the socket file is removed right after), so that a later dial does not race it
		closed := false
		if s.unixPath != "" && s.startErr == "" {
			deadline := time.Now().Add(10 * time.Second)
			for time.Now().Before(deadline) {
				if _, err := os.Stat(s.unixPath); err != nil {
					closed = true
					break
				}
				time.Sleep(10 * time.Millisecond)
			}
		}
		return Obs{"returned": false, "listener_closed": closed}
	}
}
