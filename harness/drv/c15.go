//go:build verif

package main

import (
	"strings"

	"raven/internal/db"
)

// C15: direct call of the hashing decoder, and "objects vanish" on the fake
// object store.
func init() {
	calls["decodeContentForHashing"] = func(a []string, n []int) interface{} {
		r, err := db.VerifDecodeContentForHashing(a[0], a[1])
		return map[string]interface{}{"err": err != nil, "r": bs(string(r))}
	}
	// s3_lose: {"keys":[hex object ids]} — remove blobs/<id> from the bucket
	// (no "keys" field: remove everything)
	register("s3_lose", func(w *World, op Op) Obs {
		if w.s3 == nil {
			return Obs{"error": "no s3"}
		}
		w.s3.mu.Lock()
		defer w.s3.mu.Unlock()
		if !op.has("keys") {
			w.s3.objects = map[string][]byte{}
			return Obs{"ok": true}
		}
		n := 0
		for _, k := range op.strs("keys") {
			for name := range w.s3.objects {
				if strings.HasSuffix(name, "/blobs/"+k) {
					delete(w.s3.objects, name)
					n++
				}
			}
		}
		return Obs{"ok": true, "removed": n}
	})
}
