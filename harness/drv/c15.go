//go:build verif

package main

import (
	"context"
	"database/sql"
	"path/filepath"
	"strings"

	"raven/internal/db"
	"raven/internal/delivery/parser"
)

var (
	dbLockDB   *sql.DB
	dbLockConn *sql.Conn
)

// C15: direct call of the hashing decoder, and "objects vanish" on the fake
// object store.
func init() {
	calls["decodeContentForHashing"] = func(a []string, n []int) interface{} {
		r, err := db.VerifDecodeContentForHashing(a[0], a[1])
		return map[string]interface{}{"err": err != nil, "r": bs(string(r))}
	}
	// parseMIMEParts: the element list the store loop will see for this raw
	// message (real parser), each with the octets the blob functions hash
	calls["parseMIMEParts"] = func(a []string, n []int) interface{} {
		parsed, err := parser.ParseMIMEMessage(a[0])
		if err != nil {
			return map[string]interface{}{"err": true}
		}
		out := []interface{}{}
		for _, p := range parsed.Parts {
			dec, derr := db.VerifDecodeContentForHashing(p.TextContent, p.ContentTransferEncoding)
			if derr != nil {
				dec = []byte(p.TextContent)
			}
			out = append(out, map[string]interface{}{"enc": bs(p.ContentTransferEncoding), "content": bs(p.TextContent),
				"filename": bs(p.Filename), "ctype": bs(p.ContentType), "hashed": bs(string(dec))})
		}
		return map[string]interface{}{"err": false, "parts": out}
	}
	// db_lock / db_unlock: hold (release) the write lock of the shared database
	// from a connection of the driver's own, so that every write raven attempts
	// there fails with "database is locked" after its busy timeout while reads
	// still succeed (the S3-ok / DB-error => inline branch of the store loop)
	register("db_lock", func(w *World, op Op) Obs {
		if dbLockConn != nil {
			return Obs{"error": "already locked"}
		}
		d, err := sql.Open("sqlite3", "file:"+filepath.Join(w.dataDir, "shared.db")+"?_busy_timeout=5000")
		if err != nil {
			return Obs{"error": err.Error()}
		}
		c, err := d.Conn(context.Background())
		if err != nil {
			return Obs{"error": err.Error()}
		}
		if _, err := c.ExecContext(context.Background(), "BEGIN IMMEDIATE"); err != nil {
			return Obs{"error": err.Error()}
		}
		dbLockDB, dbLockConn = d, c
		return Obs{"ok": true}
	})
	register("db_unlock", func(w *World, op Op) Obs {
		if dbLockConn == nil {
			return Obs{"error": "not locked"}
		}
		_, err := dbLockConn.ExecContext(context.Background(), "ROLLBACK")
		_ = dbLockConn.Close()
		_ = dbLockDB.Close()
		dbLockDB, dbLockConn = nil, nil
		if err != nil {
			return Obs{"error": err.Error()}
		}
		return Obs{"ok": true}
	})
	// s3_lose: {"keys":[hex object ids]} — remove blobs/<id> from the bucket
	// (no "keys" field: remove everything)
	register("s3_lose", func(w *World, op Op) Obs {
		if w.s3 == nil {
			return Obs{"error": "no s3"}
		}
		w.s3.mu.Lock()
		defer w.s3.mu.Unlock()
		if !op.has("keys") {
			w.s3.objects = map[string][]byte{}
			return Obs{"ok": true}
		}
		n := 0
		for _, k := range op.strs("keys") {
			for name := range w.s3.objects {
				if strings.HasSuffix(name, "/blobs/"+k) {
					delete(w.s3.objects, name)
					n++
				}
			}
		}
		return Obs{"ok": true, "removed": n}
	})
}
