//go:build verif

package main

import (
	"bytes"
	"crypto/ecdsa"
	"crypto/elliptic"
	"crypto/rand"
	"crypto/tls"
	"crypto/x509"
	"crypto/x509/pkix"
	"encoding/pem"
	"fmt"
	"io"
	"math/big"
	"net"
	"net/http"
	"os"
	"path/filepath"
	"strconv"
	"strings"
	"sync"
	"time"

	"raven/internal/blobstorage"
	"raven/internal/db"
	dconfig "raven/internal/delivery/config"
	"raven/internal/delivery/lmtp"
	"raven/internal/delivery/storage"
	"raven/internal/server"
)

// World is everything one scenario runs against: a private data directory
// with its DBManager(s), an IMAP server object, an LMTP storage, a recording
// auth backend and the open client connections.
type World struct {
	root    string // temp dir; cwd of the process (holds raven.yaml)
	dataDir string
	mgr     *db.DBManager // manager used by the IMAP server
	mgr2    *db.DBManager // second manager on the same dir (delivery service), lazily
	imap    *server.IMAPServer
	conns   map[string]*Client
	auth    *authBackend
	s3      *fakeS3
	imapS3  *blobstorage.S3BlobStorage
	lmtpS3  *blobstorage.S3BlobStorage
	certPEM string
	keyPEM  string
	mu      sync.Mutex
}

func newWorld() *World {
	base := os.Getenv("VERIF_TMP")
	if base == "" {
		base = "/var/tmp"
	}
	root, err := os.MkdirTemp(base, "ravendrv-")
	if err != nil {
		fmt.Fprintln(realStderr, "tmp:", err)
		os.Exit(2)
	}
	w := &World{root: root, dataDir: filepath.Join(root, "data"), conns: map[string]*Client{}}
	w.auth = newAuthBackend()
	cfg := fmt.Sprintf("domain: %s\nauth_server_url: %s\n", "example.com", w.auth.url())
	_ = os.WriteFile(filepath.Join(root, "raven.yaml"), []byte(cfg), 0600)
	_ = os.Chdir(root)
	w.openManagers()
	return w
}

func (w *World) setDomain(domain string) {
	cfg := fmt.Sprintf("domain: %s\nauth_server_url: %s\n", domain, w.auth.url())
	_ = os.WriteFile(filepath.Join(w.root, "raven.yaml"), []byte(cfg), 0600)
}

func (w *World) openManagers() {
	mgr, err := db.NewDBManager(w.dataDir)
	if err != nil {
		fmt.Fprintln(realStderr, "dbmanager:", err)
		os.Exit(2)
	}
	w.mgr = mgr
	w.imap = server.NewIMAPServerWithS3(mgr, w.imapS3)
	if w.certPEM != "" {
		w.imap.SetTLSCertificates(w.certPEM, w.keyPEM)
	}
}

func (w *World) deliveryMgr(separate bool) *db.DBManager {
	if !separate {
		return w.mgr
	}
	if w.mgr2 == nil {
		m, err := db.NewDBManager(w.dataDir)
		if err != nil {
			return w.mgr
		}
		w.mgr2 = m
	}
	return w.mgr2
}

func (w *World) cleanup() {
	for _, c := range w.conns {
		c.close()
	}
	if w.mgr != nil {
		_ = w.mgr.Close()
	}
	if w.mgr2 != nil {
		_ = w.mgr2.Close()
	}
	if w.auth != nil {
		w.auth.close()
	}
	if w.s3 != nil {
		w.s3.close()
	}
	_ = os.Chdir("/")
	_ = os.RemoveAll(w.root)
}

// ensureCert writes a self-signed certificate for STARTTLS handshakes.
func (w *World) ensureCert() {
	if w.certPEM != "" {
		return
	}
	key, _ := ecdsa.GenerateKey(elliptic.P256(), rand.Reader)
	tmpl := &x509.Certificate{SerialNumber: big.NewInt(1), Subject: pkix.Name{CommonName: "localhost"},
		NotBefore: time.Now().Add(-time.Hour), NotAfter: time.Now().Add(24 * time.Hour),
		KeyUsage: x509.KeyUsageDigitalSignature, ExtKeyUsage: []x509.ExtKeyUsage{x509.ExtKeyUsageServerAuth},
		DNSNames: []string{"localhost"}}
	der, _ := x509.CreateCertificate(rand.Reader, tmpl, tmpl, &key.PublicKey, key)
	kb, _ := x509.MarshalECPrivateKey(key)
	w.certPEM = filepath.Join(w.root, "cert.pem")
	w.keyPEM = filepath.Join(w.root, "key.pem")
	_ = os.WriteFile(w.certPEM, pem.EncodeToMemory(&pem.Block{Type: "CERTIFICATE", Bytes: der}), 0600)
	_ = os.WriteFile(w.keyPEM, pem.EncodeToMemory(&pem.Block{Type: "EC PRIVATE KEY", Bytes: kb}), 0600)
	w.imap.SetTLSCertificates(w.certPEM, w.keyPEM)
}

// ---------------------------------------------------------------------------
// auth backend

type authBackend struct {
	ln     net.Listener
	srv    *http.Server
	mu     sync.Mutex
	bodies []string
	script []string // per request behaviour: "200","401","500","garbage","close","slow"; default "200"
	deny   map[string]bool
}

func newAuthBackend() *authBackend {
	a := &authBackend{deny: map[string]bool{}}
	ln, err := net.Listen("tcp", "127.0.0.1:0")
	if err != nil {
		fmt.Fprintln(realStderr, "auth listen:", err)
		os.Exit(2)
	}
	a.ln = ln
	mux := http.NewServeMux()
	mux.HandleFunc("/", func(rw http.ResponseWriter, r *http.Request) {
		body, _ := io.ReadAll(r.Body)
		a.mu.Lock()
		a.bodies = append(a.bodies, string(body))
		beh := "200"
		if len(a.script) > 0 {
			beh = a.script[0]
			a.script = a.script[1:]
		}
		a.mu.Unlock()
		switch beh {
		case "200":
			rw.WriteHeader(200)
			_, _ = rw.Write([]byte(`{"ok":true}`))
		case "garbage":
			hj, ok := rw.(http.Hijacker)
			if ok {
				c, _, _ := hj.Hijack()
				_, _ = c.Write([]byte("\x00\x01garbage not http\r\n\r\n"))
				_ = c.Close()
			}
		case "close":
			hj, ok := rw.(http.Hijacker)
			if ok {
				c, _, _ := hj.Hijack()
				_ = c.Close()
			}
		case "slow":
			time.Sleep(300 * time.Millisecond)
			rw.WriteHeader(401)
		default:
			code, err := strconv.Atoi(beh)
			if err != nil {
				code = 500
			}
			rw.WriteHeader(code)
		}
	})
	a.srv = &http.Server{Handler: mux}
	go func() { _ = a.srv.Serve(ln) }()
	return a
}

func (a *authBackend) url() string { return "http://" + a.ln.Addr().String() + "/auth" }
func (a *authBackend) close()      { _ = a.srv.Close() }
func (a *authBackend) take() []string {
	a.mu.Lock()
	defer a.mu.Unlock()
	b := a.bodies
	a.bodies = nil
	return b
}

// ---------------------------------------------------------------------------
// client connections

// tlsFlagConn wraps the server side of a pipe and reports IsTLS()=true, the
// hook raven itself provides for tests to stand for a TLS-terminated socket.
type tlsFlagConn struct{ net.Conn }

func (tlsFlagConn) IsTLS() bool { return true }

type Client struct {
	lastCont bool // the last response contained a continuation request
	lastOK   bool // the last response contained a tagged OK
	conn   net.Conn // client side
	paused bool
	pumpWG sync.WaitGroup
	mu     sync.Mutex
	buf    bytes.Buffer
	eof    bool
	done   chan struct{} // closed when the server-side handler returned
	notify chan struct{}
}

func newClient(c net.Conn) *Client {
	cl := &Client{conn: c, done: make(chan struct{}), notify: make(chan struct{}, 1)}
	cl.pumpWG.Add(1)
	go cl.pump()
	return cl
}

// startTLS performs the client side of a real TLS handshake on this
// connection (after the server answered OK to STARTTLS).
func (c *Client) startTLS() error {
	c.mu.Lock()
	c.paused = true
	c.mu.Unlock()
	_ = c.conn.SetReadDeadline(time.Now())
	c.pumpWG.Wait()
	_ = c.conn.SetReadDeadline(time.Time{})
	tc := tls.Client(c.conn, &tls.Config{InsecureSkipVerify: true})
	_ = tc.SetDeadline(time.Now().Add(5 * time.Second))
	if err := tc.Handshake(); err != nil {
		return err
	}
	_ = tc.SetDeadline(time.Time{})
	c.mu.Lock()
	c.conn = tc
	c.paused = false
	c.eof = false
	c.mu.Unlock()
	c.pumpWG.Add(1)
	go c.pump()
	return nil
}

func (c *Client) pump() {
	defer c.pumpWG.Done()
	tmp := make([]byte, 65536)
	c.mu.Lock()
	conn := c.conn
	c.mu.Unlock()
	for {
		n, err := conn.Read(tmp)
		c.mu.Lock()
		if n > 0 {
			c.buf.Write(tmp[:n])
		}
		if err != nil && c.paused {
			c.mu.Unlock()
			return
		}
		if err != nil {
			c.eof = true
		}
		c.mu.Unlock()
		select {
		case c.notify <- struct{}{}:
		default:
		}
		if err != nil {
			return
		}
	}
}

func (c *Client) close() { _ = c.conn.Close() }

// readUntil waits until pred(bufferSoFar) is true, the peer closed, or the
// timeout elapsed; it then removes and returns the consumed prefix (all of
// the buffer) and how it ended.
func (c *Client) readUntil(pred func([]byte, bool) bool, timeout time.Duration) ([]byte, string) {
	deadline := time.Now().Add(timeout)
	for {
		c.mu.Lock()
		b := append([]byte(nil), c.buf.Bytes()...)
		eof := c.eof
		c.mu.Unlock()
		if pred(b, eof) {
			c.mu.Lock()
			c.buf.Next(len(b))
			c.mu.Unlock()
			how := "ok"
			if eof {
				how = "eof"
			}
			return b, how
		}
		if eof {
			c.mu.Lock()
			c.buf.Next(len(b))
			c.mu.Unlock()
			return b, "eof"
		}
		rem := time.Until(deadline)
		if rem <= 0 {
			c.mu.Lock()
			c.buf.Next(len(b))
			c.mu.Unlock()
			return b, "timeout"
		}
		select {
		case <-c.notify:
		case <-time.After(rem):
		}
	}
}

// imapLines splits an IMAP server byte stream into logical lines, following
// {n} literals. It returns the complete logical lines and whether the stream
// ends in the middle of a line/literal.
func imapLines(b []byte) (lines [][]byte, partial bool) {
	i := 0
	start := 0
	for i < len(b) {
		j := bytes.Index(b[i:], []byte("\r\n"))
		if j < 0 {
			return lines, true
		}
		end := i + j // index of CR
		// literal announcement at end of physical line?
		if end > start && b[end-1] == '}' {
			k := bytes.LastIndexByte(b[start:end], '{')
			if k >= 0 {
				numStr := string(b[start+k+1 : end-1])
				if n, err := strconv.Atoi(numStr); err == nil && n >= 0 {
					if end+2+n > len(b) {
						return lines, true
					}
					i = end + 2 + n
					continue
				}
			}
		}
		lines = append(lines, b[start:end+2])
		i = end + 2
		start = i
	}
	return lines, start < len(b)
}

func taggedDone(tag string) func([]byte, bool) bool {
	return func(b []byte, eof bool) bool {
		lines, _ := imapLines(b)
		for _, l := range lines {
			if bytes.HasPrefix(l, []byte(tag+" ")) {
				return true
			}
		}
		return false
	}
}

func contDone(tag string) func([]byte, bool) bool {
	td := taggedDone(tag)
	return func(b []byte, eof bool) bool {
		if td(b, eof) {
			return true
		}
		lines, _ := imapLines(b)
		for _, l := range lines {
			if bytes.HasPrefix(l, []byte("+ ")) || bytes.Equal(l, []byte("+\r\n")) {
				return true
			}
		}
		return false
	}
}

func nLines(n int) func([]byte, bool) bool {
	return func(b []byte, eof bool) bool { return bytes.Count(b, []byte("\n")) >= n }
}

// lmtpDone: the last complete line is a final reply line "ddd " (not "ddd-").
func lmtpFinal(n int) func([]byte, bool) bool {
	return func(b []byte, eof bool) bool {
		cnt := 0
		for _, l := range bytes.Split(b, []byte("\n")) {
			if len(l) >= 4 && l[3] == ' ' {
				cnt++
			}
		}
		return cnt >= n && bytes.HasSuffix(b, []byte("\n"))
	}
}

func init() {
	register("open", opOpen)
	register("send", opSend)
	register("close", opClose)
	register("wait_done", opWaitDone)
	register("auth_script", func(w *World, op Op) Obs {
		w.auth.mu.Lock()
		w.auth.script = op.strs("script")
		w.auth.mu.Unlock()
		return Obs{"ok": true}
	})
	register("auth_take", func(w *World, op Op) Obs {
		b := w.auth.take()
		out := make([]string, len(b))
		for i, s := range b {
			out[i] = b2s([]byte(s))
		}
		return Obs{"bodies": out}
	})
	register("set_domain", func(w *World, op Op) Obs { w.setDomain(op.str("domain")); return Obs{"ok": true} })
	register("restart", func(w *World, op Op) Obs {
		for k, c := range w.conns {
			c.close()
			delete(w.conns, k)
		}
		if w.mgr != nil {
			_ = w.mgr.Close()
		}
		if w.mgr2 != nil {
			_ = w.mgr2.Close()
			w.mgr2 = nil
		}
		w.openManagers()
		return Obs{"ok": true}
	})
	register("lmtp_open", opLmtpOpen)
	register("starttls", func(w *World, op Op) Obs {
		cl, ok := w.conns[op.str("conn")]
		if !ok {
			return Obs{"error": "no conn"}
		}
		if op.boolean("only_if_ok") && !cl.lastOK {
			return Obs{"skipped": true}
		}
		if err := cl.startTLS(); err != nil {
			return Obs{"error": err.Error()}
		}
		return Obs{"ok": true}
	})
	register("sleep", func(w *World, op Op) Obs {
		time.Sleep(time.Duration(op.num("ms", 10)) * time.Millisecond)
		return Obs{"ok": true}
	})
}

// open: {"op":"open","conn":"c1","kind":"tls"|"plain"} -> greeting
func opOpen(w *World, op Op) Obs {
	name := op.str("conn")
	kind := op.str("kind")
	cside, sside := net.Pipe()
	var sconn net.Conn = sside
	if kind == "tls" || kind == "" {
		sconn = tlsFlagConn{sside}
	} else {
		w.ensureCert()
	}
	cl := newClient(cside)
	w.conns[name] = cl
	go func() {
		defer close(cl.done)
		defer func() {
			if r := recover(); r != nil {
				// a panic in a connection goroutine kills the real process;
				// record it so the scenario can observe "process died".
				cl.mu.Lock()
				cl.buf.WriteString("\x00PANIC " + fmt.Sprint(r) + "\r\n")
				cl.eof = true
				cl.mu.Unlock()
				_ = sside.Close()
				select {
				case cl.notify <- struct{}{}:
				default:
				}
			}
		}()
		w.imap.HandleConnection(sconn)
	}()
	b, how := cl.readUntil(nLines(1), 5*time.Second)
	return Obs{"recv": b2s(b), "how": how}
}

// send: {"op":"send","conn":"c1","data":"...","until":"tag:<t>"|"cont:<t>"|"lines:<n>"|"lmtp:<n>"|"quiet:<ms>"|"eof", "timeout_ms":..}
func opSend(w *World, op Op) Obs {
	cl, ok := w.conns[op.str("conn")]
	if !ok {
		return Obs{"error": "no conn"}
	}
	// only_if_cont: skip this send unless the previous response on this
	// connection contained a continuation request ("+ ..."): a client must not
	// send a synchronising literal / SASL response after a refusal.
	if op.boolean("only_if_cont") && !cl.lastCont {
		return Obs{"skipped": true}
	}
	if op.boolean("only_if_ok") && !cl.lastOK {
		return Obs{"skipped": true}
	}
	data := op.str("data")
	if data != "" {
		_ = cl.conn.SetWriteDeadline(time.Now().Add(3 * time.Second))
		if _, err := cl.conn.Write([]byte(data)); err != nil {
			b, _ := cl.readUntil(func([]byte, bool) bool { return true }, 0)
			return Obs{"recv": b2s(b), "how": "write-error"}
		}
	}
	until := op.str("until")
	timeout := time.Duration(op.num("timeout_ms", 5000)) * time.Millisecond
	var pred func([]byte, bool) bool
	switch {
	case strings.HasPrefix(until, "tag:"):
		pred = taggedDone(until[4:])
	case strings.HasPrefix(until, "cont:"):
		pred = contDone(until[5:])
	case strings.HasPrefix(until, "lines:"):
		n, _ := strconv.Atoi(until[6:])
		pred = nLines(n)
	case strings.HasPrefix(until, "lmtp:"):
		n, _ := strconv.Atoi(until[5:])
		pred = lmtpFinal(n)
	case strings.HasPrefix(until, "quiet:"):
		ms, _ := strconv.Atoi(until[6:])
		time.Sleep(time.Duration(ms) * time.Millisecond)
		pred = func([]byte, bool) bool { return true }
	case until == "eof":
		pred = func(b []byte, eof bool) bool { return eof }
	default:
		pred = func([]byte, bool) bool { return true }
	}
	b, how := cl.readUntil(pred, timeout)
	cl.lastCont, cl.lastOK = false, false
	lines, _ := imapLines(b)
	for _, l := range lines {
		if bytes.HasPrefix(l, []byte("+ ")) || bytes.Equal(l, []byte("+\r\n")) {
			cl.lastCont = true
		}
		if f := bytes.Fields(l); len(f) >= 2 && string(f[0]) != "*" && string(f[0]) != "+" && string(f[1]) == "OK" {
			cl.lastOK = true
		}
	}
	return Obs{"recv": b2s(b), "how": how}
}

func opClose(w *World, op Op) Obs {
	cl, ok := w.conns[op.str("conn")]
	if !ok {
		return Obs{"error": "no conn"}
	}
	cl.close()
	return Obs{"ok": true}
}

// wait_done: did the server-side handler goroutine return within timeout?
func opWaitDone(w *World, op Op) Obs {
	cl, ok := w.conns[op.str("conn")]
	if !ok {
		return Obs{"error": "no conn"}
	}
	select {
	case <-cl.done:
		return Obs{"done": true}
	case <-time.After(time.Duration(op.num("timeout_ms", 2000)) * time.Millisecond):
		return Obs{"done": false}
	}
}

// ---------------------------------------------------------------------------
// LMTP

func lmtpConfig(op Op) *dconfig.Config {
	cfg := dconfig.DefaultConfig()
	cfg.LMTP.Hostname = "lmtp.test"
	cfg.LMTP.Timeout = 30
	if op.has("max_size") {
		cfg.LMTP.MaxSize = int64(op.num("max_size", 0))
	}
	if op.has("max_recipients") {
		cfg.LMTP.MaxRecipients = op.num("max_recipients", 100)
	}
	if op.has("default_folder") {
		cfg.Delivery.DefaultFolder = op.str("default_folder")
	}
	if op.has("allowed_domains") {
		cfg.Delivery.AllowedDomains = op.strs("allowed_domains")
	}
	cfg.Delivery.RejectUnknownUser = op.boolean("reject_unknown_user")
	cfg.Delivery.QuotaEnabled = op.boolean("quota_enabled")
	if op.has("quota_limit") {
		cfg.Delivery.QuotaLimit = int64(op.num("quota_limit", 0))
	}
	return cfg
}

// lmtp_open: {"op":"lmtp_open","conn":"l1", cfg fields..., "separate_mgr":bool}
func opLmtpOpen(w *World, op Op) Obs {
	name := op.str("conn")
	cfg := lmtpConfig(op)
	cside, sside := net.Pipe()
	cl := newClient(cside)
	w.conns[name] = cl
	mgr := w.deliveryMgr(op.boolean("separate_mgr"))
	var stor *storage.Storage
	if w.lmtpS3 != nil {
		stor = storage.NewStorageWithS3(mgr, w.lmtpS3)
	} else {
		stor = storage.NewStorage(mgr)
	}
	go func() {
		defer close(cl.done)
		defer func() {
			if r := recover(); r != nil {
				cl.mu.Lock()
				cl.buf.WriteString("\x00PANIC " + fmt.Sprint(r) + "\r\n")
				cl.eof = true
				cl.mu.Unlock()
				_ = sside.Close()
				select {
				case cl.notify <- struct{}{}:
				default:
				}
			}
		}()
		defer func() { _ = sside.Close() }()
		_ = lmtp.NewSession(sside, stor, cfg).Handle()
	}()
	b, how := cl.readUntil(lmtpFinal(1), 5*time.Second)
	return Obs{"recv": b2s(b), "how": how}
}
