//go:build verif

package main

import (
	"raven/internal/server/message"
)

// C19: direct calls used by checks/c19.py (see harness/shims/message/verif_c19.go)
func init() {
	calls["unquote"] = func(a []string, n []int) interface{} { return bs(message.VerifUnquote(a[0])) }
	calls["requiresArgument"] = func(a []string, n []int) interface{} { return message.VerifRequiresArgument(a[0]) }
	calls["headerContains"] = func(a []string, n []int) interface{} { return message.VerifHeaderContains(a[0], a[1], a[2]) }
	calls["hasHeader"] = func(a []string, n []int) interface{} { return message.VerifHasHeader(a[0], a[1]) }
	// n = [y, m, d], a = [dateStr, BEFORE|ON|SINCE]
	calls["matchesDate"] = func(a []string, n []int) interface{} {
		return message.VerifMatchesDate(n[0], n[1], n[2], a[0], a[1])
	}
	// n = [seq, uid, y, m, d], a = [flags, criteria]; tokens by parseSearchTokens
	calls["evalCriteriaDate"] = func(a []string, n []int) interface{} {
		return message.VerifEvalTokensDate(n[0], int64(n[1]), a[0], n[2], n[3], n[4], message.VerifParseSearchTokens(a[1]))
	}
	// n = [seq, uid, y, m, d], a = flags :: tokens
	calls["evalTokensDate"] = func(a []string, n []int) interface{} {
		return message.VerifEvalTokensDate(n[0], int64(n[1]), a[0], n[2], n[3], n[4], a[1:])
	}
	// zoned: n = [y, m, d, hh, mi, offsetSeconds], a = [dateStr, BEFORE|ON|SINCE]
	calls["matchesDateZone"] = func(a []string, n []int) interface{} {
		return message.VerifMatchesDateZone(n[0], n[1], n[2], n[3], n[4], n[5], a[0], a[1])
	}
	// n = [seq, uid, y, m, d, hh, mi, offsetSeconds, maxSeq, maxUID], a = [flags, criteria]
	calls["evalCriteriaZone"] = func(a []string, n []int) interface{} {
		return message.VerifEvalTokensZone(n[0], int64(n[1]), n[8], int64(n[9]), a[0], n[2], n[3], n[4], n[5], n[6], n[7], message.VerifParseSearchTokens(a[1]))
	}
	// listing with shared stored messages: a = criteria :: one flag string per entry,
	// n = per entry (message id, uid, y, m, d); sequence numbers are the positions
	calls["searchListing"] = func(a []string, n []int) interface{} {
		k := len(a) - 1
		ids := make([]int64, k)
		uids := make([]int64, k)
		dates := make([][3]int, k)
		for j := 0; j < k; j++ {
			ids[j], uids[j] = int64(n[5*j]), int64(n[5*j+1])
			dates[j] = [3]int{n[5*j+2], n[5*j+3], n[5*j+4]}
		}
		r := message.VerifEvaluateSearchCriteria(ids, uids, a[1:], dates, a[0])
		if r == nil {
			r = []int{}
		}
		return r
	}
}
