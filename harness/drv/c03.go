//go:build verif

package main

// C03 — statement-level interleavings of one held command with complete
// commands of other writers.
//
//   c03_gate_install  put the C03 authorizer on every pooled connection of one
//                     user's store handle (the *sql.DB of the server's
//                     DBManager; LMTP deliveries of this driver use the same
//                     handle).  SQLite calls the authorizer when a statement
//                     is PREPARED: the connection holds no lock at that point
//                     (autocommit statements), so a session can be held there
//                     while other sessions run complete commands.
//                     Points (one arrival per statement):
//                       R  SELECT reading mailboxes.uid_next
//                          (IncrementUIDNextPerUser, GetMailboxInfoPerUser)
//                       U  UPDATE of mailboxes.uid_next
//                       I  INSERT INTO message_mailbox
//                       Q  SELECT reading message_mailbox.uid
//                       N  SELECT reading mailboxes.name and not (before it) uid_next: a lookup by name
//                       V  INSERT INTO uid_validity_seq (UIDVALIDITY allocator)
//                       M  INSERT INTO mailboxes
//                       P  UPDATE of message_mailbox.mailbox_id (re-parenting of RENAME INBOX)
//                       D  DELETE FROM message_mailbox
//                       B  BEGIN          C  COMMIT
//                     Up to and including the first statement after B a session
//                     holds no lock; from the second statement of a transaction on
//                     it holds SHARED/RESERVED and other writers cannot commit.
//   c03_hold          {"holder":{"conn":..,"steps":[..]},
//                      "others":[{"conn":..,"steps":[..]},..],
//                      "holds":[{"at":k,"run":[i,..]},..], "timeout_ms":..}
//                     start the holder; its k-th gate arrival (0-based, in
//                     arrival order) is held while the listed other threads
//                     run to completion one after the other (their own gate
//                     arrivals pass); then the holder continues.  Others not
//                     run by the time the holder has replied run afterwards.
//                     Returns the replies, the holder's arrival points and
//                     which holds were reached.

import (
	"context"
	"database/sql"
	"fmt"
	"sync"
	"time"

	sqlite3 "github.com/mattn/go-sqlite3"
)

type c03Arrival struct {
	point   string
	release chan struct{}
}

type c03Gate struct {
	mu       sync.Mutex
	active   bool
	arrivals chan *c03Arrival
}

var c03gate = &c03Gate{arrivals: make(chan *c03Arrival, 256)}

func (g *c03Gate) arrive(p string) {
	g.mu.Lock()
	on := g.active
	g.mu.Unlock()
	if !on {
		return
	}
	a := &c03Arrival{point: p, release: make(chan struct{})}
	g.arrivals <- a
	select {
	case <-a.release:
	case <-time.After(20 * time.Second):
	}
}

func c03Authorizer() func(int, string, string, string) int {
	const (
		aDelete = 9
		aInsert = 18
		aRead   = 20
		aSelect = 21
		aTx     = 22
		aUpdate = 23
	)
	kind := 0
	return func(op int, a1, a2, a3 string) int {
		switch op {
		case aSelect:
			kind = aSelect
		case aTx:
			if a1 == "BEGIN" {
				c03gate.arrive("B")
			} else if a1 == "COMMIT" {
				c03gate.arrive("C")
			}
		case aDelete:
			if a1 == "message_mailbox" {
				c03gate.arrive("D")
			}
		case aUpdate:
			kind = aUpdate
			if a1 == "mailboxes" && a2 == "uid_next" {
				c03gate.arrive("U")
			} else if a1 == "message_mailbox" && a2 == "mailbox_id" {
				c03gate.arrive("P")
			}
		case aInsert:
			kind = aInsert
			if a1 == "message_mailbox" {
				c03gate.arrive("I")
			} else if a1 == "mailboxes" {
				c03gate.arrive("M")
			} else if a1 == "uid_validity_seq" {
				c03gate.arrive("V")
			}
		case aRead:
			if kind == aSelect && a1 == "mailboxes" && a2 == "uid_next" {
				kind = 0
				c03gate.arrive("R")
			} else if kind == aSelect && a1 == "message_mailbox" && a2 == "uid" {
				kind = 0
				c03gate.arrive("Q")
			} else if kind == aSelect && a1 == "mailboxes" && a2 == "name" {
				// a SELECT that reads mailboxes.name before (or without) uid_next: lookup by name
				kind = 0
				c03gate.arrive("N")
			}
		}
		return 0
	}
}

func opC03GateInstall(w *World, op Op) Obs {
	uid, err := lookupUser(w, op.str("user"))
	if err != nil {
		return Obs{"error": err.Error()}
	}
	udb, err := w.mgr.GetUserDB(uid)
	if err != nil {
		return Obs{"error": err.Error()}
	}
	n := op.num("conns", 6)
	if err := c03InstallOn(udb, n); err != nil {
		return Obs{"error": err.Error()}
	}
	return Obs{"ok": true, "conns": n}
}

func c03InstallOn(d *sql.DB, n int) error {
	d.SetMaxOpenConns(n)
	d.SetMaxIdleConns(n)
	ctx := context.Background()
	var held []*sql.Conn
	defer func() {
		for _, c := range held {
			_ = c.Close()
		}
	}()
	for i := 0; i < n; i++ {
		c, err := d.Conn(ctx)
		if err != nil {
			return err
		}
		held = append(held, c)
		err = c.Raw(func(dc interface{}) error {
			sc, ok := dc.(*sqlite3.SQLiteConn)
			if !ok {
				return fmt.Errorf("not a sqlite3 connection: %T", dc)
			}
			sc.RegisterAuthorizer(c03Authorizer())
			return nil
		})
		if err != nil {
			return err
		}
	}
	return nil
}

type c03Step struct {
	Recv string `json:"recv"`
	How  string `json:"how"`
}

func c03RunSteps(w *World, t map[string]interface{}) []c03Step {
	conn, _ := t["conn"].(string)
	var out []c03Step
	if l, ok := t["steps"].([]interface{}); ok {
		for _, e := range l {
			st, ok := e.(map[string]interface{})
			if !ok {
				continue
			}
			o := Op{"op": "send", "conn": conn}
			for k, v := range st {
				o[k] = v
			}
			r := opSend(w, o)
			s, _ := r["recv"].(string)
			h, _ := r["how"].(string)
			if e, ok := r["error"].(string); ok {
				h = "error:" + e
			}
			out = append(out, c03Step{s, h})
		}
	}
	return out
}

func opC03Hold(w *World, op Op) Obs {
	holder, _ := op["holder"].(map[string]interface{})
	var others []map[string]interface{}
	if l, ok := op["others"].([]interface{}); ok {
		for _, e := range l {
			if m, ok := e.(map[string]interface{}); ok {
				others = append(others, m)
			}
		}
	}
	holds := map[int][]int{}
	if l, ok := op["holds"].([]interface{}); ok {
		for _, e := range l {
			m, ok := e.(map[string]interface{})
			if !ok {
				continue
			}
			at := Op(m).num("at", -1)
			holds[at] = append(holds[at], Op(m).ints("run")...)
		}
	}
	timeout := time.Duration(op.num("timeout_ms", 10000)) * time.Millisecond
	// drain stale arrivals, activate
	for {
		select {
		case a := <-c03gate.arrivals:
			close(a.release)
			continue
		default:
		}
		break
	}
	c03gate.mu.Lock()
	c03gate.active = true
	c03gate.mu.Unlock()
	defer func() {
		c03gate.mu.Lock()
		c03gate.active = false
		c03gate.mu.Unlock()
		for {
			select {
			case a := <-c03gate.arrivals:
				close(a.release)
				continue
			default:
			}
			break
		}
	}()

	otherRes := make([][]c03Step, len(others))
	ran := make([]bool, len(others))
	wantDumps := op.boolean("dumps")
	var dumps []interface{}
	var dumpAfter []int
	errText := ""
	// run one other thread to completion; every arrival while it runs is its own
	runOther := func(i int) {
		if i < 0 || i >= len(others) || ran[i] {
			return
		}
		ran[i] = true
		done := make(chan []c03Step, 1)
		go func() { done <- c03RunSteps(w, others[i]) }()
		deadline := time.After(timeout)
		for {
			select {
			case a := <-c03gate.arrivals:
				close(a.release)
			case rs := <-done:
				otherRes[i] = rs
				if wantDumps {
					dumps = append(dumps, opDump(w, Op{})["stores"])
					dumpAfter = append(dumpAfter, i)
				}
				return
			case <-deadline:
				if errText == "" {
					errText = fmt.Sprintf("other thread %d did not finish within %v", i, timeout)
				}
				return
			}
		}
	}

	hdone := make(chan []c03Step, 1)
	go func() { hdone <- c03RunSteps(w, holder) }()
	var points []string
	var reached []int
	var holderRes []c03Step
	k := 0
	deadline := time.After(timeout * 3)
loop:
	for {
		select {
		case a := <-c03gate.arrivals:
			points = append(points, a.point)
			if run, ok := holds[k]; ok {
				reached = append(reached, k)
				for _, i := range run {
					runOther(i)
				}
			}
			k++
			close(a.release)
		case rs := <-hdone:
			holderRes = rs
			break loop
		case <-deadline:
			errText = "the held session neither reached a gate nor replied"
			break loop
		}
	}
	c03gate.mu.Lock()
	c03gate.active = false
	c03gate.mu.Unlock()
	for i := range others {
		if !ran[i] {
			ran[i] = true
			otherRes[i] = c03RunSteps(w, others[i])
			if wantDumps {
				dumps = append(dumps, opDump(w, Op{})["stores"])
				dumpAfter = append(dumpAfter, i)
			}
		}
	}
	o := Obs{"holder": holderRes, "others": otherRes, "points": points, "reached": reached, "dumps": dumps, "dump_after": dumpAfter}
	if errText != "" {
		o["error"] = errText
	}
	return o
}

func init() {
	register("c03_gate_install", opC03GateInstall)
	register("c03_hold", opC03Hold)
}
