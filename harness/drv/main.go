//go:build verif

// Command verifdrv is the implementation-side driver of the /verif checks.
// It is compiled INTO module raven through `go build -overlay` (see
// /verif/lib/build.py), so it may import raven/internal/... packages.
//
// Protocol: one JSON document on stdin
//   {"ops":[{"op":"...", ...}, ...]}
// one JSON document on stdout
//   {"obs":[{...}, ...]}
// All byte strings travel as JSON strings under the Latin-1 mapping
// (byte b <-> code point U+00bb), see b2s / s2b.
package main

import (
	"encoding/json"
	"fmt"
	"io"
	"log"
	"os"
	"runtime/debug"
)

type Op map[string]interface{}
type Obs map[string]interface{}

// b2s maps raw bytes to a JSON-safe string (Latin-1 mapping).
func b2s(b []byte) string {
	r := make([]rune, len(b))
	for i, c := range b {
		r[i] = rune(c)
	}
	return string(r)
}

// s2b is the inverse of b2s; code points above 255 are truncated.
func s2b(s string) []byte {
	out := make([]byte, 0, len(s))
	for _, r := range s {
		out = append(out, byte(r))
	}
	return out
}

func (o Op) str(k string) string {
	if v, ok := o[k].(string); ok {
		return string(s2b(v))
	}
	return ""
}
func (o Op) has(k string) bool { _, ok := o[k]; return ok }
func (o Op) num(k string, def int) int {
	if v, ok := o[k].(float64); ok {
		return int(v)
	}
	return def
}
func (o Op) boolean(k string) bool {
	v, _ := o[k].(bool)
	return v
}
func (o Op) strs(k string) []string {
	var out []string
	if l, ok := o[k].([]interface{}); ok {
		for _, e := range l {
			if s, ok := e.(string); ok {
				out = append(out, string(s2b(s)))
			}
		}
	}
	return out
}
func (o Op) ints(k string) []int {
	var out []int
	if l, ok := o[k].([]interface{}); ok {
		for _, e := range l {
			if f, ok := e.(float64); ok {
				out = append(out, int(f))
			}
		}
	}
	return out
}

type handler func(w *World, op Op) Obs

var handlers = map[string]handler{}

func register(name string, h handler) {
	if _, dup := handlers[name]; dup {
		// two harness files claiming one op name would silently change the meaning of scenarios
		panic("verif driver: op " + name + " registered twice")
	}
	handlers[name] = h
}

// safe runs h under recover so that a Go panic in the code under test is an
// observation ("panic": message), not the end of the driver.
func safe(h handler, w *World, op Op) (obs Obs) {
	defer func() {
		if r := recover(); r != nil {
			obs = Obs{"panic": fmt.Sprint(r), "stack": string(debug.Stack())}
		}
	}()
	return h(w, op)
}

func main() {
	log.SetOutput(io.Discard)
	quiet()
	data, err := io.ReadAll(os.Stdin)
	if err != nil {
		fmt.Fprintln(realStderr, "read:", err)
		os.Exit(2)
	}
	var in struct {
		Ops []Op `json:"ops"`
	}
	if err := json.Unmarshal(data, &in); err != nil {
		fmt.Fprintln(realStderr, "json:", err)
		os.Exit(2)
	}
	w := newWorld()
	defer w.cleanup()
	out := make([]Obs, 0, len(in.Ops))
	for _, op := range in.Ops {
		name, _ := op["op"].(string)
		h, ok := handlers[name]
		if !ok {
			out = append(out, Obs{"error": "unknown op " + name})
			continue
		}
		out = append(out, safe(h, w, op))
	}
	enc := json.NewEncoder(realStdout)
	if err := enc.Encode(map[string]interface{}{"obs": out}); err != nil {
		fmt.Fprintln(realStderr, "encode:", err)
		w.cleanup()
		os.Exit(2)
	}
}

var realStdout, realStderr *os.File

// quiet redirects the process' stdout/stderr (raven prints debug output with
// fmt.Printf) to /dev/null and keeps the real descriptors for the driver.
func quiet() {
	realStdout = os.Stdout
	realStderr = os.Stderr
	if os.Getenv("VERIF_DRV_VERBOSE") != "" {
		os.Stdout = os.Stderr
		return
	}
	null, err := os.OpenFile(os.DevNull, os.O_WRONLY, 0)
	if err == nil {
		os.Stdout = null
		os.Stderr = null
	}
}
