//go:build verif

package main

import (
	"database/sql"
	"strconv"
	"time"
)

// C11 driver additions (no logic of the implementation here):
//   call "sqliteLike": a[0] LIKE a[1] evaluated by the linked SQLite (ties Base/Like.v)
//   op   "c11_append": APPEND with a synchronising literal: sends the command
//        line, waits for "+" or the tagged reply, sends the literal only after "+".
func init() {
	var likeDB *sql.DB
	calls["sqliteLike"] = func(a []string, n []int) interface{} {
		if likeDB == nil {
			d, err := sql.Open("sqlite3", ":memory:")
			if err != nil {
				return map[string]interface{}{"err": err.Error()}
			}
			likeDB = d
		}
		var r int
		if err := likeDB.QueryRow("SELECT ? LIKE ?", a[0], a[1]).Scan(&r); err != nil {
			return map[string]interface{}{"err": err.Error()}
		}
		return r != 0
	}
	// enum_like: {"alpha":"aB_%/","L":6} -> (name LIKE pattern) by the linked SQLite for all
	// (pattern, name) with |pattern|+|name| <= L, order of Base/Enum.v pairs_upto, 60 per word.
	register("enum_like", func(w *World, op Op) Obs {
		d, err := sql.Open("sqlite3", ":memory:")
		if err != nil {
			return Obs{"error": err.Error()}
		}
		defer d.Close()
		d.SetMaxOpenConns(1)
		stmt, err := d.Prepare("SELECT ? LIKE ?")
		if err != nil {
			return Obs{"error": err.Error()}
		}
		defer stmt.Close()
		alpha := []byte(op.str("alpha"))
		L := op.num("L", 5)
		var words []string
		var cur uint64
		pos := uint(0)
		count := 0
		for lp := 0; lp <= L; lp++ {
			ps := stringsOfLen(alpha, lp)
			for ln := 0; ln <= L-lp; ln++ {
				ns := stringsOfLen(alpha, ln)
				for _, p := range ps {
					for _, n := range ns {
						var r int
						if err := stmt.QueryRow(n, p).Scan(&r); err != nil {
							return Obs{"error": err.Error()}
						}
						if r != 0 {
							cur |= 1 << pos
						}
						pos++
						count++
						if pos == 60 {
							words = append(words, strconv.FormatUint(cur, 10))
							cur, pos = 0, 0
						}
					}
				}
			}
		}
		if pos > 0 {
			words = append(words, strconv.FormatUint(cur, 10))
		}
		return Obs{"words": words, "count": count}
	})
	register("c11_append", func(w *World, op Op) Obs {
		cl, ok := w.conns[op.str("conn")]
		if !ok {
			return Obs{"error": "no conn"}
		}
		tag := op.str("tag")
		wait := time.Duration(op.num("timeout_ms", 20000)) * time.Millisecond
		_ = cl.conn.SetWriteDeadline(time.Now().Add(3 * time.Second))
		if _, err := cl.conn.Write([]byte(op.str("line") + "\r\n")); err != nil {
			return Obs{"recv": "", "how": "write-error"}
		}
		b, how := cl.readUntil(contDone(tag), wait)
		if how != "ok" || taggedDone(tag)(b, false) {
			return Obs{"recv": b2s(b), "how": how}
		}
		_ = cl.conn.SetWriteDeadline(time.Now().Add(3 * time.Second))
		if _, err := cl.conn.Write([]byte(op.str("literal") + "\r\n")); err != nil {
			return Obs{"recv": b2s(b), "how": "write-error"}
		}
		b2, how2 := cl.readUntil(taggedDone(tag), wait)
		return Obs{"recv": b2s(append(b, b2...)), "how": how2}
	})
}
