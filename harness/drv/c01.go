//go:build verif

package main

import (
	"bytes"
	"path/filepath"
	"sort"
	"strings"
	"time"
)

// C01: one whole LMTP transaction on an open LMTP connection.
//
//	{"op":"c01_txn","conn":"l0","from":"a@example.com","rcpts":[...],"data":"<message, CRLF lines>"}
//
// RSET, MAIL FROM, one RCPT TO per entry, DATA, the message, the terminating dot
// and then HELP as a sentinel: everything the server sends between the end
// of data and the 214 reply are the transaction's final replies, however
// many there are (one per recipient, or a single 554).
func init() {
	// c01_usage: per store file, the total size_bytes of the messages linked in a
	// mailbox (what the quota check measures), read-only.
	register("c01_usage", func(w *World, op Op) Obs {
		out := map[string]interface{}{}
		files, _ := filepath.Glob(filepath.Join(w.dataDir, "*.db"))
		sort.Strings(files)
		for _, f := range files {
			base := strings.TrimSuffix(filepath.Base(f), ".db")
			if base == "shared" {
				continue
			}
			d, err := openRO(f)
			if err != nil {
				continue
			}
			rows, err := queryRows(d, `SELECT COALESCE(SUM(m.size_bytes), 0) FROM messages m
				JOIN message_mailbox mm ON m.id = mm.message_id JOIN mailboxes mb ON mm.mailbox_id = mb.id`)
			if err == nil && len(rows) == 1 {
				out[base] = rows[0][0]
			}
			d.Close()
		}
		return Obs{"usage": out}
	})
	// c01_parts: per store file and message: how many part rows are read from a blob
	// (blob_id set) and how many hold octets NOWHERE (no blob, empty text_content,
	// although the part had a size and is not a multipart container), read-only.
	register("c01_parts", func(w *World, op Op) Obs {
		out := map[string]interface{}{}
		files, _ := filepath.Glob(filepath.Join(w.dataDir, "*.db"))
		sort.Strings(files)
		for _, f := range files {
			base := strings.TrimSuffix(filepath.Base(f), ".db")
			if base == "shared" {
				continue
			}
			d, err := openRO(f)
			if err != nil {
				continue
			}
			rows, err := queryRows(d, `SELECT message_id,
				SUM(CASE WHEN blob_id IS NOT NULL THEN 1 ELSE 0 END),
				SUM(CASE WHEN blob_id IS NULL AND COALESCE(text_content,'') = '' AND size_bytes > 0
				          AND lower(content_type) NOT LIKE 'multipart/%' THEN 1 ELSE 0 END)
				FROM message_parts GROUP BY message_id ORDER BY message_id`)
			if err == nil {
				out[base] = rows
			}
			d.Close()
		}
		return Obs{"parts": out}
	})
	register("c01_txn", func(w *World, op Op) Obs {
		cl, ok := w.conns[op.str("conn")]
		if !ok {
			return Obs{"error": "no conn"}
		}
		say := func(line string, pred func([]byte, bool) bool) (string, string) {
			_ = cl.conn.SetWriteDeadline(time.Now().Add(3 * time.Second))
			if _, err := cl.conn.Write([]byte(line)); err != nil {
				return "", "write-error"
			}
			b, how := cl.readUntil(pred, time.Duration(op.num("timeout_ms", 8000))*time.Millisecond)
			return string(b), how
		}
		res := Obs{}
		// RSET first: after a 554 at end-of-data raven keeps MAIL FROM and the
		// recipient list (session-level behaviour, property C16); a transaction
		// of this suite always starts from a reset session.
		r, how := say("RSET\r\n", lmtpFinal(1))
		if how != "ok" {
			res["how"] = "rset:" + how
			return res
		}
		r, how = say("MAIL FROM:<"+op.str("from")+">\r\n", lmtpFinal(1))
		res["mail"] = b2s([]byte(r))
		if how != "ok" {
			res["how"] = "mail:" + how
			return res
		}
		var rc []string
		for _, a := range op.strs("rcpts") {
			r, how = say("RCPT TO:<"+a+">\r\n", lmtpFinal(1))
			rc = append(rc, b2s([]byte(r)))
			if how != "ok" {
				res["how"] = "rcpt:" + how
				return res
			}
		}
		res["rcpt"] = rc
		r, how = say("DATA\r\n", lmtpFinal(1))
		res["data"] = b2s([]byte(r))
		if how != "ok" {
			res["how"] = "data:" + how
			return res
		}
		if !strings.HasPrefix(r, "354") {
			// no recipient was accepted ("503 Please send RCPT TO first"): no message is sent
			res["final"] = []string{}
			res["how"] = "no-data"
			return res
		}
		sentinel := func(b []byte, eof bool) bool {
			if !bytes.HasSuffix(b, []byte("\n")) {
				return false
			}
			for _, l := range bytes.Split(b, []byte("\n")) {
				if bytes.HasPrefix(l, []byte("214 ")) {
					return true
				}
			}
			return false
		}
		r, how = say(op.str("data")+".\r\nHELP\r\n", sentinel)
		var final []string
		for _, l := range strings.Split(r, "\r\n") {
			if l == "" || strings.HasPrefix(l, "214 ") {
				continue
			}
			final = append(final, b2s([]byte(l)))
		}
		res["final"] = final
		res["how"] = how
		return res
	})
}
