//go:build verif

package main

import (
	"bytes"
	"strings"
	"time"
)

// C01: one whole LMTP transaction on an open LMTP connection.
//
//	{"op":"c01_txn","conn":"l0","from":"a@example.com","rcpts":[...],"data":"<message, CRLF lines>"}
//
// RSET, MAIL FROM, one RCPT TO per entry, DATA, the message, the terminating dot
// and then HELP as a sentinel: everything the server sends between the end
// of data and the 214 reply are the transaction's final replies, however
// many there are (one per recipient, or a single 554).
func init() {
	register("c01_txn", func(w *World, op Op) Obs {
		cl, ok := w.conns[op.str("conn")]
		if !ok {
			return Obs{"error": "no conn"}
		}
		say := func(line string, pred func([]byte, bool) bool) (string, string) {
			_ = cl.conn.SetWriteDeadline(time.Now().Add(3 * time.Second))
			if _, err := cl.conn.Write([]byte(line)); err != nil {
				return "", "write-error"
			}
			b, how := cl.readUntil(pred, 8*time.Second)
			return string(b), how
		}
		res := Obs{}
		// RSET first: after a 554 at end-of-data raven keeps MAIL FROM and the
		// recipient list (session-level behaviour, property C16); a transaction
		// of this suite always starts from a reset session.
		r, how := say("RSET\r\n", lmtpFinal(1))
		if how != "ok" {
			res["how"] = "rset:" + how
			return res
		}
		r, how = say("MAIL FROM:<"+op.str("from")+">\r\n", lmtpFinal(1))
		res["mail"] = b2s([]byte(r))
		if how != "ok" {
			res["how"] = "mail:" + how
			return res
		}
		var rc []string
		for _, a := range op.strs("rcpts") {
			r, how = say("RCPT TO:<"+a+">\r\n", lmtpFinal(1))
			rc = append(rc, b2s([]byte(r)))
			if how != "ok" {
				res["how"] = "rcpt:" + how
				return res
			}
		}
		res["rcpt"] = rc
		r, how = say("DATA\r\n", lmtpFinal(1))
		res["data"] = b2s([]byte(r))
		if how != "ok" {
			res["how"] = "data:" + how
			return res
		}
		if !strings.HasPrefix(r, "354") {
			// no recipient was accepted ("503 Please send RCPT TO first"): no message is sent
			res["final"] = []string{}
			res["how"] = "no-data"
			return res
		}
		sentinel := func(b []byte, eof bool) bool {
			if !bytes.HasSuffix(b, []byte("\n")) {
				return false
			}
			for _, l := range bytes.Split(b, []byte("\n")) {
				if bytes.HasPrefix(l, []byte("214 ")) {
					return true
				}
			}
			return false
		}
		r, how = say(op.str("data")+".\r\nHELP\r\n", sentinel)
		var final []string
		for _, l := range strings.Split(r, "\r\n") {
			if l == "" || strings.HasPrefix(l, "214 ") {
				continue
			}
			final = append(final, b2s([]byte(l)))
		}
		res["final"] = final
		res["how"] = how
		return res
	})
}
