//go:build verif

package main

import (
	"bytes"
	"fmt"
	"io"
	"net"
	"sync"
	"time"

	"raven/internal/db"
	"raven/internal/delivery/lmtp"
	"raven/internal/delivery/parser"
	"raven/internal/delivery/storage"
)

// C16: whole-stream LMTP sessions. The client's complete byte stream is served
// to lmtp.Session.Handle through a scripted net.Conn (Read hands out the
// stream in chunks of a chosen size and then reports io.EOF, Write collects
// the replies), so that the reply stream is a function of the input stream:
// no timing, no pipes. Handle returns when it reads EOF or after QUIT.

type scriptAddr struct{}

func (scriptAddr) Network() string { return "script" }
func (scriptAddr) String() string  { return "script:0" }

type scriptConn struct {
	mu    sync.Mutex
	in    *bytes.Reader
	chunk int
	out   bytes.Buffer
	// a client that writes in several pieces and, after each piece, waits for the
	// replies before it sends more: the next piece is handed out only when the server
	// asks for input it does not have; snaps[k] = how much of the reply stream had
	// reached the client at that moment (after piece k was consumed)
	segs  [][]byte
	snaps []int
}

func (c *scriptConn) Read(p []byte) (int, error) {
	c.mu.Lock()
	defer c.mu.Unlock()
	if c.in.Len() == 0 {
		c.snaps = append(c.snaps, c.out.Len())
		if len(c.segs) == 0 {
			return 0, io.EOF
		}
		c.in = bytes.NewReader(c.segs[0])
		c.segs = c.segs[1:]
		if c.in.Len() == 0 {
			return 0, io.EOF
		}
	}
	n := len(p)
	if c.chunk > 0 && n > c.chunk {
		n = c.chunk
	}
	return c.in.Read(p[:n])
}
func (c *scriptConn) Write(p []byte) (int, error) {
	c.mu.Lock()
	defer c.mu.Unlock()
	return c.out.Write(p)
}
func (c *scriptConn) Close() error                       { return nil }
func (c *scriptConn) LocalAddr() net.Addr                { return scriptAddr{} }
func (c *scriptConn) RemoteAddr() net.Addr               { return scriptAddr{} }
func (c *scriptConn) SetDeadline(t time.Time) error      { return nil }
func (c *scriptConn) SetReadDeadline(t time.Time) error  { return nil }
func (c *scriptConn) SetWriteDeadline(t time.Time) error { return nil }

func init() {
	// lmtp_script: {"op":"lmtp_script","programs":[{"input":bytes,"chunk":n}, ...],
	//               cfg fields as for lmtp_open}
	//  -> {"rs":[{"out":bytes,"returned":bool,"unread":n,"panic":..,"stored":{addr:[[size,text],..]}}, ...]}
	// Every program is a fresh Session on the same storage.  A program may name
	// mail addresses in "observe": after the session the messages in each of
	// these users' stores are reported in order of arrival as
	// [messages.size_bytes, text_content of the parts] (what delivery stored:
	// for a single-part message the octets after the header, and the size of
	// the whole message).
	register("lmtp_script", func(w *World, op Op) Obs {
		cfg := lmtpConfig(op)
		stor := storage.NewStorage(w.deliveryMgr(false))
		ps, _ := op["programs"].([]interface{})
		rs := make([]interface{}, 0, len(ps))
		for _, p := range ps {
			m, _ := p.(map[string]interface{})
			po := Op(m)
			conn := &scriptConn{in: bytes.NewReader([]byte(po.str("input"))), chunk: po.num("chunk", 0)}
			if segs := po.strs("segments"); len(segs) > 0 {
				// "segments": the client's writes; "input" is ignored
				conn.in = bytes.NewReader([]byte(segs[0]))
				for _, sg := range segs[1:] {
					conn.segs = append(conn.segs, []byte(sg))
				}
			}
			done := make(chan string, 1)
			go func() {
				defer func() {
					if r := recover(); r != nil {
						done <- fmt.Sprint(r)
					}
				}()
				_ = lmtp.NewSession(conn, stor, cfg).Handle()
				done <- ""
			}()
			res := map[string]interface{}{}
			select {
			case pn := <-done:
				res["returned"] = true
				if pn != "" {
					res["panic"] = pn
				}
			case <-time.After(time.Duration(op.num("timeout_ms", 20000)) * time.Millisecond):
				res["returned"] = false
			}
			conn.mu.Lock()
			res["out"] = b2s(conn.out.Bytes())
			res["unread"] = conn.in.Len()
			res["snaps"] = append([]int(nil), conn.snaps...)
			conn.mu.Unlock()
			if obs := po.strs("observe"); len(obs) > 0 && res["returned"] == true {
				stored := map[string]interface{}{}
				for _, addr := range obs {
					stored[b2s([]byte(addr))] = storedMessages(w, addr)
				}
				res["stored"] = stored
			}
			rs = append(rs, res)
		}
		return Obs{"rs": rs}
	})

	// msgVerdict: does the octet string pass ParseMessage + ValidateMessage
	// (the two checks handleDATA applies between reading and delivering)?
	calls["msgVerdict"] = func(a []string, n []int) interface{} {
		msg, err := parser.ParseMessage(bytes.NewReader([]byte(a[0])))
		if err != nil {
			return false
		}
		return parser.ValidateMessage(msg, int64(n[0])) == nil
	}
}

// storedMessages: [[size_bytes, text_content...], ...] of the messages in the
// store of the user with this address, oldest first; nil if there is no such user.
func storedMessages(w *World, addr string) interface{} {
	mgr := w.deliveryMgr(false)
	uid, err := db.GetUserByEmail(mgr.GetSharedDB(), addr)
	if err != nil {
		return []interface{}{}
	}
	udb, err := mgr.GetUserDB(uid)
	if err != nil {
		return map[string]interface{}{"error": err.Error()}
	}
	rows, err := queryRows(udb, `SELECT m.id, m.size_bytes, COALESCE(p.text_content, ''), p.blob_id IS NOT NULL
	    FROM messages m LEFT JOIN message_parts p ON p.message_id = m.id ORDER BY m.id, p.id`)
	if err != nil {
		return map[string]interface{}{"error": err.Error()}
	}
	out := []interface{}{}
	var cur []interface{}
	var curID interface{}
	for _, r := range rows {
		if cur == nil || r[0] != curID {
			if cur != nil {
				out = append(out, cur)
			}
			curID = r[0]
			cur = []interface{}{r[1], ""}
		}
		if t, ok := r[2].(string); ok {
			cur[1] = cur[1].(string) + t
		}
		if b, ok := r[3].(int64); ok && b != 0 {
			// the part's text lives in a blob of the shared store (parts above 1 KB)
			var bid int64
			if err := udb.QueryRow("SELECT blob_id FROM message_parts WHERE message_id = ? AND blob_id IS NOT NULL ORDER BY id LIMIT 1", r[0]).Scan(&bid); err == nil {
				brows, err := queryRows(mgr.GetSharedDB(), "SELECT COALESCE(content, '') FROM blobs WHERE id = ?", bid)
				if err == nil && len(brows) == 1 {
					if t, ok := brows[0][0].(string); ok {
						cur[1] = cur[1].(string) + t
						continue
					}
				}
			}
			cur = append(cur, "blob")
		}
	}
	if cur != nil {
		out = append(out, cur)
	}
	return out
}
