//go:build verif

package main

import (
	"bytes"
	"fmt"
	"io"
	"net"
	"sync"
	"time"

	"raven/internal/delivery/lmtp"
	"raven/internal/delivery/parser"
	"raven/internal/delivery/storage"
)

// C16: whole-stream LMTP sessions. The client's complete byte stream is served
// to lmtp.Session.Handle through a scripted net.Conn (Read hands out the
// stream in chunks of a chosen size and then reports io.EOF, Write collects
// the replies), so that the reply stream is a function of the input stream:
// no timing, no pipes. Handle returns when it reads EOF or after QUIT.

type scriptAddr struct{}

func (scriptAddr) Network() string { return "script" }
func (scriptAddr) String() string  { return "script:0" }

type scriptConn struct {
	mu    sync.Mutex
	in    *bytes.Reader
	chunk int
	out   bytes.Buffer
}

func (c *scriptConn) Read(p []byte) (int, error) {
	c.mu.Lock()
	defer c.mu.Unlock()
	if c.in.Len() == 0 {
		return 0, io.EOF
	}
	n := len(p)
	if c.chunk > 0 && n > c.chunk {
		n = c.chunk
	}
	return c.in.Read(p[:n])
}
func (c *scriptConn) Write(p []byte) (int, error) {
	c.mu.Lock()
	defer c.mu.Unlock()
	return c.out.Write(p)
}
func (c *scriptConn) Close() error                       { return nil }
func (c *scriptConn) LocalAddr() net.Addr                { return scriptAddr{} }
func (c *scriptConn) RemoteAddr() net.Addr               { return scriptAddr{} }
func (c *scriptConn) SetDeadline(t time.Time) error      { return nil }
func (c *scriptConn) SetReadDeadline(t time.Time) error  { return nil }
func (c *scriptConn) SetWriteDeadline(t time.Time) error { return nil }

func init() {
	// lmtp_script: {"op":"lmtp_script","programs":[{"input":bytes,"chunk":n}, ...],
	//               cfg fields as for lmtp_open}
	//  -> {"rs":[{"out":bytes,"returned":bool,"unread":n,"panic":..}, ...]}
	// Every program is a fresh Session on the same storage.
	register("lmtp_script", func(w *World, op Op) Obs {
		cfg := lmtpConfig(op)
		stor := storage.NewStorage(w.deliveryMgr(false))
		ps, _ := op["programs"].([]interface{})
		rs := make([]interface{}, 0, len(ps))
		for _, p := range ps {
			m, _ := p.(map[string]interface{})
			po := Op(m)
			conn := &scriptConn{in: bytes.NewReader([]byte(po.str("input"))), chunk: po.num("chunk", 0)}
			done := make(chan string, 1)
			go func() {
				defer func() {
					if r := recover(); r != nil {
						done <- fmt.Sprint(r)
					}
				}()
				_ = lmtp.NewSession(conn, stor, cfg).Handle()
				done <- ""
			}()
			res := map[string]interface{}{}
			select {
			case pn := <-done:
				res["returned"] = true
				if pn != "" {
					res["panic"] = pn
				}
			case <-time.After(time.Duration(op.num("timeout_ms", 20000)) * time.Millisecond):
				res["returned"] = false
			}
			conn.mu.Lock()
			res["out"] = b2s(conn.out.Bytes())
			res["unread"] = conn.in.Len()
			conn.mu.Unlock()
			rs = append(rs, res)
		}
		return Obs{"rs": rs}
	})

	// msgVerdict: does the octet string pass ParseMessage + ValidateMessage
	// (the two checks handleDATA applies between reading and delivering)?
	calls["msgVerdict"] = func(a []string, n []int) interface{} {
		msg, err := parser.ParseMessage(bytes.NewReader([]byte(a[0])))
		if err != nil {
			return false
		}
		return parser.ValidateMessage(msg, int64(n[0])) == nil
	}
}
