//go:build verif

package main

import (
	"strconv"
	"time"

	"raven/internal/server/utils"
)

func stringsOfLen(alpha []byte, k int) []string {
	if k == 0 {
		return []string{""}
	}
	sub := stringsOfLen(alpha, k-1)
	out := make([]string, 0, len(alpha)*len(sub))
	for _, c := range alpha {
		for _, s := range sub {
			out = append(out, string(c)+s)
		}
	}
	return out
}

func init() {
	// enum_match: {"alpha":"aB/*%","L":7} -> results of MatchWildcard(name, pattern, "/")
	// for all (pattern, name) with |pattern|+|name| <= L, in the order of
	// Base/Enum.v pairs_upto, packed 60 per word (first = least significant).
	register("enum_match", func(w *World, op Op) Obs {
		alpha := []byte(op.str("alpha"))
		L := op.num("L", 5)
		var words []string
		var cur uint64
		pos := uint(0)
		count := 0
		t0 := time.Now()
		for lp := 0; lp <= L; lp++ {
			ps := stringsOfLen(alpha, lp)
			for ln := 0; ln <= L-lp; ln++ {
				ns := stringsOfLen(alpha, ln)
				for _, p := range ps {
					for _, n := range ns {
						if utils.MatchWildcard(n, p, "/") {
							cur |= 1 << pos
						}
						pos++
						count++
						if pos == 60 {
							words = append(words, strconv.FormatUint(cur, 10))
							cur, pos = 0, 0
						}
					}
				}
			}
		}
		if pos > 0 {
			words = append(words, strconv.FormatUint(cur, 10))
		}
		return Obs{"words": words, "count": count, "ms": time.Since(t0).Milliseconds()}
	})
	// timed_match: {"text":..,"pattern":..} -> elapsed microseconds and result
	register("timed_match", func(w *World, op Op) Obs {
		t0 := time.Now()
		r := utils.MatchWildcard(op.str("text"), op.str("pattern"), "/")
		return Obs{"r": r, "us": time.Since(t0).Microseconds()}
	})
}
