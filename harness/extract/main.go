// Command extract is the translator of the /verif framework: it walks the Go
// AST of raven's IMAP server packages in the CURRENT working tree and prints
// coq/Gen/Facts.v — the structural facts the protocol / isolation theorems
// (C05, C06) are proved against:
//
//   dispatch   : command word -> handler function (switch in handleClient)
//   sites      : every store accessor call, backend call, Authenticated:=true
//                assignment, use of state.SelectedMailboxID as a query
//                argument and STARTTLS restart, reachable from a handler
//                (interprocedurally, across the server packages), each with
//                the facts established on EVERY path from the dispatcher to
//                it: authenticated / mailbox selected / TLS / backend said
//                200 / role assignment checked
//   replies    : per handler, min and max number of tagged completions over
//                all paths
//   select_clears_first : HandleSelect clears the selection before any
//                failure return that follows the argument checks
//
// Usage: extract <repo root>   (stdout: Coq source)
// Standard library only.
package main

import (
	"bytes"
	"fmt"
	"go/ast"
	"go/parser"
	"go/printer"
	"go/token"
	"os"
	"path/filepath"
	"sort"
	"strings"
)

var fset = token.NewFileSet()

type fn struct {
	pkg  string
	name string
	decl *ast.FuncDecl
	file string
}

var funcs = map[string]*fn{} // "pkg.Name"

var pkgDirs = map[string]string{
	"server":    "internal/server",
	"auth":      "internal/server/auth",
	"mailbox":   "internal/server/mailbox",
	"selection": "internal/server/selection",
	"message":   "internal/server/message",
	"uid":       "internal/server/uid",
	"extension": "internal/server/extension",
}

func src(n ast.Node) string {
	var b bytes.Buffer
	_ = printer.Fprint(&b, fset, n)
	return strings.Join(strings.Fields(b.String()), " ")
}

func load(root string) {
	for pkg, dir := range pkgDirs {
		files, _ := filepath.Glob(filepath.Join(root, dir, "*.go"))
		sort.Strings(files)
		for _, f := range files {
			if strings.HasSuffix(f, "_test.go") {
				continue
			}
			base := filepath.Base(f)
			if base == "testing_support.go" || base == "testing_interface.go" || strings.HasPrefix(base, "verif_") {
				continue
			}
			af, err := parser.ParseFile(fset, f, nil, 0)
			if err != nil {
				fmt.Fprintln(os.Stderr, "parse:", err)
				os.Exit(1)
			}
			for _, d := range af.Decls {
				if fd, ok := d.(*ast.FuncDecl); ok && fd.Body != nil {
					name := fd.Name.Name
					if fd.Recv != nil {
						name = "(m)." + name
					}
					funcs[pkg+"."+name] = &fn{pkg, name, fd, strings.TrimPrefix(f, root+"/")}
				}
			}
		}
	}
}

// ---------------------------------------------------------------------------
// facts (path conditions)

type ctx struct{ auth, sel, tls, ok200, assigned, unauth bool }

func (c ctx) key() string { return fmt.Sprintf("%v%v%v%v%v%v", c.auth, c.sel, c.tls, c.ok200, c.assigned, c.unauth) }
func (c ctx) or(d ctx) ctx {
	return ctx{c.auth || d.auth, c.sel || d.sel, c.tls || d.tls, c.ok200 || d.ok200, c.assigned || d.assigned, c.unauth || d.unauth}
}

// posFacts: facts that hold when cond is true (split on &&)
func posFacts(e ast.Expr, tlsOK bool) ctx {
	e = unparen(e)
	if b, ok := e.(*ast.BinaryExpr); ok && b.Op == token.LAND {
		return posFacts(b.X, tlsOK).or(posFacts(b.Y, tlsOK))
	}
	s := src(e)
	var c ctx
	switch s {
	case "state.Authenticated":
		c.auth = true
	case "!state.Authenticated":
		c.unauth = true
	case "state.SelectedMailboxID > 0", "state.SelectedMailboxID != 0":
		c.sel = true
	case "isTLS":
		c.tls = tlsOK
	case "resp.StatusCode == 200":
		c.ok200 = true
	case "isAssigned":
		c.assigned = true
	}
	return c
}

// negFacts: facts that hold when cond is false (split on ||)
func negFacts(e ast.Expr, tlsOK bool) ctx {
	e = unparen(e)
	if b, ok := e.(*ast.BinaryExpr); ok && b.Op == token.LOR {
		return negFacts(b.X, tlsOK).or(negFacts(b.Y, tlsOK))
	}
	s := src(e)
	var c ctx
	switch s {
	case "!state.Authenticated":
		c.auth = true
	case "state.Authenticated":
		c.unauth = true
	case "state.SelectedMailboxID == 0":
		c.sel = true
	case "!isTLS":
		c.tls = tlsOK
	case "resp.StatusCode != 200":
		c.ok200 = true
	case "!isAssigned":
		c.assigned = true
	}
	return c
}

func unparen(e ast.Expr) ast.Expr {
	for {
		p, ok := e.(*ast.ParenExpr)
		if !ok {
			return e
		}
		e = p.X
	}
}

// terminates: does the block always leave the function (last stmt return)?
func terminates(b *ast.BlockStmt) bool {
	if b == nil || len(b.List) == 0 {
		return false
	}
	switch s := b.List[len(b.List)-1].(type) {
	case *ast.ReturnStmt:
		return true
	case *ast.IfStmt:
		if s.Else == nil {
			return false
		}
		eb, ok := s.Else.(*ast.BlockStmt)
		return ok && terminates(s.Body) && terminates(eb)
	}
	return false
}

// tlsDetectionSound: in this function the local isTLS is only ever set to
// true under a test of the connection's dynamic type / IsTLS() method.
func tlsDetectionSound(fd *ast.FuncDecl) bool {
	sound := true
	var stack []ast.Node
	ast.Inspect(fd.Body, func(n ast.Node) bool {
		if n == nil {
			stack = stack[:len(stack)-1]
			return true
		}
		stack = append(stack, n)
		as, ok := n.(*ast.AssignStmt)
		if !ok {
			return true
		}
		for i, l := range as.Lhs {
			if id, ok := l.(*ast.Ident); ok && id.Name == "isTLS" && i < len(as.Rhs) {
				r := src(as.Rhs[i])
				if r == "false" {
					continue
				}
				if r != "true" {
					sound = false
					continue
				}
				under := false
				for _, anc := range stack {
					if is, ok := anc.(*ast.IfStmt); ok {
						t := src(is.Cond)
						if is.Init != nil {
							t += " " + src(is.Init)
						}
						if strings.Contains(t, "tls.Conn") || strings.Contains(t, "IsTLS()") {
							under = true
						}
					}
				}
				if !under {
					sound = false
				}
			}
		}
		return true
	})
	return sound
}

// ---------------------------------------------------------------------------
// sites

type site struct {
	cmd, fn, kind, arg, where string
	c                         ctx
}

var sites []site
var seenSite = map[string]bool{}

func addSite(cmd string, f *fn, kind, arg string, pos token.Pos, c ctx) {
	p := fset.Position(pos)
	s := site{cmd, f.pkg + "." + f.name, kind, arg, fmt.Sprintf("%s:%d", f.file, p.Line), c}
	k := fmt.Sprintf("%s|%s|%s|%s|%s|%s", s.cmd, s.fn, s.kind, s.arg, s.where, c.key())
	if !seenSite[k] {
		seenSite[k] = true
		sites = append(sites, s)
	}
}

type walker struct {
	ranged string // loop variable of an enclosing `range state.RoleMailboxIDs`
	cmd   string
	f     *fn
	tlsOK bool
	memo  map[string]bool
}

func (w *walker) enter(f *fn, c ctx) {
	k := f.pkg + "." + f.name + "|" + c.key()
	if w.memo[k] {
		return
	}
	w.memo[k] = true
	sub := &walker{cmd: w.cmd, f: f, tlsOK: tlsDetectionSound(f.decl), memo: w.memo}
	sub.block(f.decl.Body.List, c)
}

// block walks a statement list, threading the path facts.
func (w *walker) block(list []ast.Stmt, c ctx) ctx {
	for _, s := range list {
		c = w.stmt(s, c)
	}
	return c
}

func (w *walker) stmt(s ast.Stmt, c ctx) ctx {
	switch n := s.(type) {
	case *ast.IfStmt:
		if n.Init != nil {
			c = w.stmt(n.Init, c)
		}
		w.expr(n.Cond, c)
		w.block(n.Body.List, c.or(posFacts(n.Cond, w.tlsOK)))
		elseTerm := false
		if n.Else != nil {
			switch e := n.Else.(type) {
			case *ast.BlockStmt:
				w.block(e.List, c.or(negFacts(n.Cond, w.tlsOK)))
				elseTerm = terminates(e)
			case *ast.IfStmt:
				w.stmt(e, c.or(negFacts(n.Cond, w.tlsOK)))
			}
		}
		if terminates(n.Body) {
			c = c.or(negFacts(n.Cond, w.tlsOK))
		}
		if elseTerm {
			c = c.or(posFacts(n.Cond, w.tlsOK))
		}
		return c
	case *ast.BlockStmt:
		w.block(n.List, c)
		return c
	case *ast.ForStmt:
		if n.Init != nil {
			w.stmt(n.Init, c)
		}
		if n.Cond != nil {
			w.expr(n.Cond, c)
		}
		if n.Post != nil {
			w.stmt(n.Post, c)
		}
		w.block(n.Body.List, c)
		return c
	case *ast.RangeStmt:
		w.expr(n.X, c)
		if src(n.X) == "state.RoleMailboxIDs" && n.Value != nil {
			old := w.ranged
			w.ranged = src(n.Value)
			w.block(n.Body.List, c)
			w.ranged = old
			return c
		}
		w.block(n.Body.List, c)
		return c
	case *ast.SwitchStmt:
		if n.Init != nil {
			w.stmt(n.Init, c)
		}
		if n.Tag != nil {
			w.expr(n.Tag, c)
		}
		for _, cc := range n.Body.List {
			cl := cc.(*ast.CaseClause)
			for _, e := range cl.List {
				w.expr(e, c)
			}
			w.block(cl.Body, c)
		}
		return c
	case *ast.TypeSwitchStmt:
		for _, cc := range n.Body.List {
			w.block(cc.(*ast.CaseClause).Body, c)
		}
		return c
	case *ast.SelectStmt:
		for _, cc := range n.Body.List {
			w.block(cc.(*ast.CommClause).Body, c)
		}
		return c
	case *ast.LabeledStmt:
		return w.stmt(n.Stmt, c)
	case *ast.AssignStmt:
		for _, r := range n.Rhs {
			w.expr(r, c)
		}
		for i, l := range n.Lhs {
			if src(l) == "state.Authenticated" && i < len(n.Rhs) {
				if src(n.Rhs[i]) != "false" {
					addSite(w.cmd, w.f, "SetAuth", src(n.Rhs[i]), n.Pos(), c)
				}
				c.auth = src(n.Rhs[i]) == "true" // an assignment replaces what earlier tests established
				c.unauth = src(n.Rhs[i]) == "false"
			}
			if src(l) == "state.SelectedMailboxID" && i < len(n.Rhs) {
				if src(n.Rhs[i]) != "0" {
					addSite(w.cmd, w.f, "SetSel", src(n.Rhs[i]), n.Pos(), c)
				}
				c.sel = false
			}
			if (src(l) == "state.IsRoleMailbox" || src(l) == "state.SelectedRoleMailboxID" || src(l) == "state.UserID") && i < len(n.Rhs) {
				addSite(w.cmd, w.f, "SetField", src(l)+" = "+src(n.Rhs[i]), n.Pos(), c)
			}
		}
		return c
	case *ast.ExprStmt:
		w.expr(n.X, c)
	case *ast.ReturnStmt:
		for _, r := range n.Results {
			w.expr(r, c)
		}
	case *ast.DeferStmt:
		w.expr(n.Call, c)
	case *ast.GoStmt:
		w.expr(n.Call, c)
	case *ast.DeclStmt:
		if gd, ok := n.Decl.(*ast.GenDecl); ok {
			for _, sp := range gd.Specs {
				if vs, ok := sp.(*ast.ValueSpec); ok {
					for _, v := range vs.Values {
						w.expr(v, c)
					}
				}
			}
		}
	case *ast.IncDecStmt, *ast.BranchStmt, *ast.EmptyStmt, *ast.SendStmt:
	}
	return c
}

func (w *walker) expr(e ast.Expr, c ctx) {
	if e == nil {
		return
	}
	ast.Inspect(e, func(n ast.Node) bool {
		switch x := n.(type) {
		case *ast.FuncLit:
			w.block(x.Body.List, c)
			return false
		case *ast.CallExpr:
			w.call(x, c)
		}
		return true
	})
}

func (w *walker) call(x *ast.CallExpr, c ctx) {
	callee := src(x.Fun)
	args := make([]string, len(x.Args))
	for i, a := range x.Args {
		args[i] = src(a)
	}
	switch {
	case strings.HasSuffix(callee, ".GetUserDB") && len(args) == 1:
		if args[0] == "state.UserID" {
			addSite(w.cmd, w.f, "AccUserSelf", args[0], x.Pos(), c)
		} else {
			addSite(w.cmd, w.f, "AccUserOther", args[0], x.Pos(), c)
		}
	case strings.HasSuffix(callee, ".GetSelectedDB"):
		addSite(w.cmd, w.f, "AccSelected", strings.Join(args, ","), x.Pos(), c)
	case strings.HasSuffix(callee, ".GetRoleMailboxDB"):
		if len(args) == 1 && w.ranged != "" && args[0] == w.ranged {
			addSite(w.cmd, w.f, "AccRole", "range:state.RoleMailboxIDs", x.Pos(), c)
		} else {
			addSite(w.cmd, w.f, "AccRole", strings.Join(args, ","), x.Pos(), c)
		}
	case strings.HasSuffix(callee, ".GetSharedDB"):
		addSite(w.cmd, w.f, "AccShared", "", x.Pos(), c)
	case strings.HasSuffix(callee, ".EnsureUserAndMailboxes"):
		addSite(w.cmd, w.f, "AccShared", "EnsureUserAndMailboxes", x.Pos(), c)
	case callee == "http.NewRequest" || strings.HasSuffix(callee, "client.Do") || callee == "http.Post":
		addSite(w.cmd, w.f, "Backend", callee, x.Pos(), c)
	case callee == "clientHandler" && len(args) == 2:
		fresh := "stale"
		if args[1] == "&models.ClientState{}" {
			fresh = "fresh"
		}
		if _, isTLSConn := x.Args[0].(*ast.Ident); isTLSConn && args[0] == "tlsConn" {
			fresh += ",tlsConn"
		}
		addSite(w.cmd, w.f, "Restart", fresh, x.Pos(), c)
	}
	for _, a := range x.Args {
		if src(a) == "state.SelectedMailboxID" {
			addSite(w.cmd, w.f, "UseSel", callee, x.Pos(), c)
		}
	}
	// interprocedural step
	var target *fn
	if id, ok := x.Fun.(*ast.Ident); ok {
		target = funcs[w.f.pkg+"."+id.Name]
	} else if se, ok := x.Fun.(*ast.SelectorExpr); ok {
		if id, ok := se.X.(*ast.Ident); ok {
			if _, isPkg := pkgDirs[id.Name]; isPkg {
				target = funcs[id.Name+"."+se.Sel.Name]
			}
		}
	}
	if target != nil {
		w.enter(target, c)
	}
}

// ---------------------------------------------------------------------------
// dispatch table

type disp struct{ word, handler string }

func dispatchOf(f *fn, switchTag string) []disp {
	var out []disp
	ast.Inspect(f.decl.Body, func(n ast.Node) bool {
		sw, ok := n.(*ast.SwitchStmt)
		if !ok || sw.Tag == nil || src(sw.Tag) != switchTag {
			return true
		}
		for _, cc := range sw.Body.List {
			cl := cc.(*ast.CaseClause)
			h := ""
			for _, st := range cl.Body {
				ast.Inspect(st, func(m ast.Node) bool {
					if _, ok := m.(*ast.FuncLit); ok {
						return false
					}
					if ce, ok := m.(*ast.CallExpr); ok && h == "" {
						name := src(ce.Fun)
						if !strings.Contains(name, ".") {
							name = f.pkg + "." + name
						}
						if _, known := funcs[name]; known {
							h = name
						}
					}
					return true
				})
			}
			if cl.List == nil {
				out = append(out, disp{"<default>", h})
			}
			for _, e := range cl.List {
				out = append(out, disp{strings.Trim(src(e), "\""), h})
			}
		}
		return false
	})
	return out
}

// ---------------------------------------------------------------------------
// tagged-completion count per path

const inf = 99

type rng struct {
	ok       bool
	min, max int
}

func (a rng) union(b rng) rng {
	if !a.ok {
		return b
	}
	if !b.ok {
		return a
	}
	r := rng{true, a.min, a.max}
	if b.min < r.min {
		r.min = b.min
	}
	if b.max > r.max {
		r.max = b.max
	}
	return r
}
func (a rng) plus(b rng) rng {
	if !a.ok || !b.ok {
		return rng{}
	}
	m := a.max + b.max
	if m > inf {
		m = inf
	}
	return rng{true, a.min + b.min, m}
}

type flow struct{ fall, ret rng }

var replyMemo = map[string]rng{}
var replyBusy = map[string]bool{}

func isTaggedSend(x *ast.CallExpr) bool {
	if !strings.HasSuffix(src(x.Fun), "SendResponse") && !strings.HasSuffix(src(x.Fun), "sendResponse") {
		return false
	}
	if len(x.Args) != 2 {
		return false
	}
	ce, ok := x.Args[1].(*ast.CallExpr)
	if !ok || src(ce.Fun) != "fmt.Sprintf" || len(ce.Args) < 2 {
		return false
	}
	lit, ok := ce.Args[0].(*ast.BasicLit)
	return ok && strings.HasPrefix(lit.Value, "\"%s ") && src(ce.Args[1]) == "tag"
}

func repliesOfFunc(f *fn) rng {
	k := f.pkg + "." + f.name
	if r, ok := replyMemo[k]; ok {
		return r
	}
	if replyBusy[k] {
		return rng{true, 0, 0}
	}
	replyBusy[k] = true
	fl := repliesBlock(f, f.decl.Body.List)
	r := fl.fall.union(fl.ret)
	replyBusy[k] = false
	replyMemo[k] = r
	return r
}

func repliesExpr(f *fn, e ast.Node) rng {
	r := rng{true, 0, 0}
	if e == nil {
		return r
	}
	ast.Inspect(e, func(n ast.Node) bool {
		switch x := n.(type) {
		case *ast.FuncLit:
			return false
		case *ast.CallExpr:
			if isTaggedSend(x) {
				r = r.plus(rng{true, 1, 1})
				return true
			}
			passesTag := false
			for _, a := range x.Args {
				if src(a) == "tag" {
					passesTag = true
				}
			}
			if !passesTag {
				return true
			}
			var target *fn
			if id, ok := x.Fun.(*ast.Ident); ok {
				target = funcs[f.pkg+"."+id.Name]
			} else if se, ok := x.Fun.(*ast.SelectorExpr); ok {
				if id, ok := se.X.(*ast.Ident); ok {
					if _, isPkg := pkgDirs[id.Name]; isPkg {
						target = funcs[id.Name+"."+se.Sel.Name]
					}
				}
			}
			if target != nil {
				r = r.plus(repliesOfFunc(target))
			}
		}
		return true
	})
	return r
}

// A path is TERMINAL when the connection is known to be gone or is closed by
// the server on it: no tagged completion can or need follow. Two syntactic
// shapes are recognised: a return after `conn.Close()` in the same block, and
// a return under `if err != nil` where err was last assigned, in the same
// block, from a read on the connection (conn.Read / reader.Read* / io.ReadFull).
// Terminal paths are left out of the (min,max) count.
var terminalDepth = 0

func isConnClose(s ast.Stmt) bool {
	t := src(s)
	return strings.Contains(t, "conn.Close()")
}

func lastErrFromRead(list []ast.Stmt, upto int) bool {
	for i := upto - 1; i >= 0; i-- {
		as, ok := list[i].(*ast.AssignStmt)
		if !ok {
			continue
		}
		for _, l := range as.Lhs {
			if src(l) == "err" {
				r := src(as.Rhs[0])
				return strings.Contains(r, "conn.Read(") || strings.Contains(r, "reader.Read") || strings.Contains(r, "io.ReadFull(")
			}
		}
	}
	return false
}

func repliesBlock(f *fn, list []ast.Stmt) flow {
	cur := flow{fall: rng{true, 0, 0}}
	closed := false
	for i, s := range list {
		if !cur.fall.ok {
			break
		}
		if isConnClose(s) {
			if _, isIf := s.(*ast.IfStmt); !isIf {
				closed = true
			}
		}
		var fl flow
		if is, ok := s.(*ast.IfStmt); ok && src(is.Cond) == "err != nil" && is.Else == nil && lastErrFromRead(list, i) {
			terminalDepth++
			fl = repliesStmt(f, s)
			terminalDepth--
		} else if _, isRet := s.(*ast.ReturnStmt); isRet && closed {
			fl = flow{} // terminal: the server closed the connection on this path
		} else {
			fl = repliesStmt(f, s)
		}
		cur.ret = cur.ret.union(cur.fall.plus(fl.ret))
		cur.fall = cur.fall.plus(fl.fall)
	}
	return cur
}

func repliesStmt(f *fn, s ast.Stmt) flow {
	zero := rng{true, 0, 0}
	switch n := s.(type) {
	case *ast.ReturnStmt:
		r := zero
		for _, e := range n.Results {
			r = r.plus(repliesExpr(f, e))
		}
		if terminalDepth > 0 {
			return flow{} // connection gone: see repliesBlock
		}
		return flow{ret: r}
	case *ast.IfStmt:
		pre := zero
		if n.Init != nil {
			pre = repliesStmt(f, n.Init).fall
		}
		pre = pre.plus(repliesExpr(f, n.Cond))
		b := repliesBlock(f, n.Body.List)
		e := flow{fall: zero}
		if n.Else != nil {
			switch x := n.Else.(type) {
			case *ast.BlockStmt:
				e = repliesBlock(f, x.List)
			case *ast.IfStmt:
				e = repliesStmt(f, x)
			}
		}
		return flow{fall: pre.plus(b.fall.union(e.fall)), ret: pre.plus(b.ret.union(e.ret))}
	case *ast.BlockStmt:
		return repliesBlock(f, n.List)
	case *ast.ForStmt, *ast.RangeStmt:
		var body *ast.BlockStmt
		infinite := false
		if fs, ok := n.(*ast.ForStmt); ok {
			body = fs.Body
			infinite = fs.Cond == nil
		} else {
			body = n.(*ast.RangeStmt).Body
		}
		b := repliesBlock(f, body.List)
		hasBreak := false
		ast.Inspect(body, func(m ast.Node) bool {
			if br, ok := m.(*ast.BranchStmt); ok && br.Tok == token.BREAK {
				hasBreak = true
			}
			return true
		})
		fall := zero
		if b.fall.ok && b.fall.max > 0 {
			fall = rng{true, 0, inf}
		}
		out := flow{fall: fall, ret: fall.plus(b.ret)}
		if infinite && !hasBreak {
			out.fall = rng{}
		}
		return out
	case *ast.SwitchStmt:
		out := flow{}
		hasDefault := false
		for _, cc := range n.Body.List {
			cl := cc.(*ast.CaseClause)
			if cl.List == nil {
				hasDefault = true
			}
			b := repliesBlock(f, cl.Body)
			out.fall = out.fall.union(b.fall)
			out.ret = out.ret.union(b.ret)
		}
		if !hasDefault {
			out.fall = out.fall.union(zero)
		}
		return out
	case *ast.ExprStmt:
		return flow{fall: repliesExpr(f, n.X)}
	case *ast.AssignStmt:
		r := zero
		for _, e := range n.Rhs {
			r = r.plus(repliesExpr(f, e))
		}
		return flow{fall: r}
	case *ast.DeferStmt, *ast.GoStmt:
		return flow{fall: zero}
	case *ast.LabeledStmt:
		return repliesStmt(f, n.Stmt)
	}
	return flow{fall: zero}
}

// ---------------------------------------------------------------------------
// "authenticated means accepted": once a path has executed
// state.Authenticated = true (directly or through a helper), no tagged NO/BAD
// may follow on it. setsAuth(f): f contains such an assignment transitively.

var setsAuthMemo = map[string]int{} // 0 unknown, 1 busy, 2 no, 3 yes

func calleeOf(f *fn, x *ast.CallExpr) *fn {
	if id, ok := x.Fun.(*ast.Ident); ok {
		return funcs[f.pkg+"."+id.Name]
	}
	if se, ok := x.Fun.(*ast.SelectorExpr); ok {
		if id, ok := se.X.(*ast.Ident); ok {
			if _, isPkg := pkgDirs[id.Name]; isPkg {
				return funcs[id.Name+"."+se.Sel.Name]
			}
		}
	}
	return nil
}

func nodeSetsAuth(f *fn, n ast.Node) bool {
	found := false
	ast.Inspect(n, func(m ast.Node) bool {
		switch x := m.(type) {
		case *ast.FuncLit: // defining a closure executes nothing
			return false
		case *ast.AssignStmt:
			for i, l := range x.Lhs {
				if src(l) == "state.Authenticated" && i < len(x.Rhs) && src(x.Rhs[i]) != "false" {
					found = true
				}
			}
		case *ast.CallExpr:
			if t := calleeOf(f, x); t != nil && setsAuth(t) {
				found = true
			}
		}
		return !found
	})
	return found
}

func setsAuth(f *fn) bool {
	k := f.pkg + "." + f.name
	switch setsAuthMemo[k] {
	case 1, 2:
		return false
	case 3:
		return true
	}
	setsAuthMemo[k] = 1
	r := nodeSetsAuth(f, f.decl.Body)
	if r {
		setsAuthMemo[k] = 3
	} else {
		setsAuthMemo[k] = 2
	}
	return r
}

func isRefusal(x *ast.CallExpr) bool {
	if !isTaggedSend(x) {
		return false
	}
	lit := x.Args[1].(*ast.CallExpr).Args[0].(*ast.BasicLit).Value
	return strings.HasPrefix(lit, "\"%s NO") || strings.HasPrefix(lit, "\"%s BAD")
}

func nodeRefuses(f *fn, n ast.Node, seen map[string]bool) bool {
	found := false
	ast.Inspect(n, func(m ast.Node) bool {
		if x, ok := m.(*ast.CallExpr); ok {
			if isRefusal(x) {
				found = true
			} else if t := calleeOf(f, x); t != nil && !seen[t.pkg+"."+t.name] {
				seen[t.pkg+"."+t.name] = true
				if nodeRefuses(t, t.decl.Body, seen) {
					found = true
				}
			}
		}
		return !found
	})
	return found
}

// refusalAfterAuth: in some block of some function reachable from a handler, a
// statement that sets Authenticated is followed (later in the same block) by
// code that can send a tagged NO/BAD. Returns the offending positions.
func refusalAfterAuth() []string {
	var out []string
	for _, f := range funcs {
		var visit func(list []ast.Stmt)
		visit = func(list []ast.Stmt) {
			for i, s := range list {
				if nodeSetsAuth(f, s) {
					// the setting statement itself may be an if/for containing both: look inside first
					for _, later := range list[i+1:] {
						if nodeRefuses(f, later, map[string]bool{}) {
							out = append(out, fmt.Sprintf("%s:%d", f.file, fset.Position(later.Pos()).Line))
						}
					}
				}
				ast.Inspect(s, func(m ast.Node) bool {
					switch x := m.(type) {
					case *ast.SwitchStmt: // the clauses are alternatives, not a sequence
						for _, c := range x.Body.List {
							visit(c.(*ast.CaseClause).Body)
						}
						return false
					case *ast.TypeSwitchStmt:
						for _, c := range x.Body.List {
							visit(c.(*ast.CaseClause).Body)
						}
						return false
					case *ast.SelectStmt:
						for _, c := range x.Body.List {
							visit(c.(*ast.CommClause).Body)
						}
						return false
					case *ast.BlockStmt:
						visit(x.List)
						return false
					}
					return true
				})
			}
		}
		visit(f.decl.Body.List)
	}
	sort.Strings(out)
	return out
}

// ---------------------------------------------------------------------------
// HandleSelect: is the selection cleared before any post-argument failure?

func selectClearsFirst() bool {
	f := funcs["selection.HandleSelect"]
	if f == nil {
		return false
	}
	for _, s := range f.decl.Body.List {
		switch n := s.(type) {
		case *ast.IfStmt:
			c := src(n.Cond)
			if (c == "!state.Authenticated" || strings.HasPrefix(c, "len(parts) <")) && terminates(n.Body) && n.Else == nil {
				continue
			}
			return false
		case *ast.AssignStmt:
			if len(n.Lhs) == 1 && src(n.Lhs[0]) == "state.SelectedMailboxID" && src(n.Rhs[0]) == "0" {
				return true
			}
			// other plain assignments that cannot fail are allowed before the clearing
			call := false
			for _, r := range n.Rhs {
				ast.Inspect(r, func(m ast.Node) bool {
					if _, ok := m.(*ast.CallExpr); ok {
						call = true
					}
					return true
				})
			}
			if call {
				// pure string helpers are fine; anything touching deps is not
				if strings.Contains(src(n), "deps.") || strings.Contains(src(n), "db.") {
					return false
				}
			}
			continue
		case *ast.DeclStmt:
			continue
		default:
			return false
		}
	}
	return false
}

// ---------------------------------------------------------------------------

func q(s string) string { return "\"" + strings.ReplaceAll(s, "\"", "\"\"") + "\"" }
func b(v bool) string {
	if v {
		return "true"
	}
	return "false"
}

func main() {
	root := "/repo"
	if len(os.Args) > 1 {
		root = os.Args[1]
	}
	load(root)
	hc := funcs["server.handleClient"]
	if hc == nil {
		fmt.Fprintln(os.Stderr, "handleClient not found")
		os.Exit(1)
	}
	top := dispatchOf(hc, "cmd")
	var table []disp
	for _, d := range top {
		table = append(table, d)
	}
	if hu := funcs["uid.HandleUID"]; hu != nil {
		for _, d := range dispatchOf(hu, "subCmd") {
			table = append(table, disp{"UID " + d.word, d.handler})
		}
	}
	memoAll := map[string]map[string]bool{}
	for _, d := range top {
		if d.handler == "" {
			continue
		}
		f := funcs[d.handler]
		if memoAll[d.word] == nil {
			memoAll[d.word] = map[string]bool{}
		}
		w := &walker{cmd: d.word, memo: memoAll[d.word]}
		w.enter(f, ctx{})
	}
	sort.SliceStable(sites, func(i, j int) bool {
		if sites[i].cmd != sites[j].cmd {
			return sites[i].cmd < sites[j].cmd
		}
		return sites[i].where < sites[j].where
	})

	var o bytes.Buffer
	o.WriteString("(* GENERATED by /verif/harness/extract from the Go AST of the current /repo tree. Do not edit. *)\n")
	o.WriteString("From Coq Require Import String List Bool.\nFrom Raven Require Import Model.ProtoFacts.\nImport ListNotations.\nLocal Open Scope string_scope.\n\n")
	o.WriteString("Definition dispatch : list (string * string) := [\n")
	for i, d := range table {
		sep := ";"
		if i == len(table)-1 {
			sep = ""
		}
		fmt.Fprintf(&o, "  (%s, %s)%s\n", q(d.word), q(d.handler), sep)
	}
	o.WriteString("].\n\nDefinition sites : list site := [\n")
	for i, s := range sites {
		sep := ";"
		if i == len(sites)-1 {
			sep = ""
		}
		fmt.Fprintf(&o, "  mk_site %s %s %s %s %s %s %s %s %s %s %s%s\n", q(s.cmd), q(s.fn), s.kind, q(s.arg),
			b(s.c.auth), b(s.c.sel), b(s.c.tls), b(s.c.ok200), b(s.c.assigned), b(s.c.unauth), q(s.where), sep)
	}
	o.WriteString("].\n\nDefinition replies : list (string * string * (nat * nat)) := [\n")
	var rl []string
	for _, d := range table {
		f := funcs[d.handler]
		if f == nil {
			continue // default clauses: see default_replies_once
		}
		r := repliesOfFunc(f)
		rl = append(rl, fmt.Sprintf("  (%s, %s, (%d, %d))", q(d.word), q(d.handler), r.min, r.max))
	}
	o.WriteString(strings.Join(rl, ";\n") + "\n")
	o.WriteString("].\n\n")
	// the default clause of each switch sends one tagged BAD itself
	defTagged := func(f *fn, tag string) bool {
		ok := false
		ast.Inspect(f.decl.Body, func(n ast.Node) bool {
			sw, isSw := n.(*ast.SwitchStmt)
			if !isSw || sw.Tag == nil || src(sw.Tag) != tag {
				return true
			}
			for _, cc := range sw.Body.List {
				cl := cc.(*ast.CaseClause)
				if cl.List == nil {
					fl := repliesBlock(f, cl.Body)
					r := fl.fall.union(fl.ret)
					ok = r.ok && r.min == 1 && r.max == 1
				}
			}
			return false
		})
		return ok
	}
	fmt.Fprintf(&o, "Definition default_replies_once : bool := %s.\n", b(defTagged(hc, "cmd") && funcs["uid.HandleUID"] != nil && defTagged(funcs["uid.HandleUID"], "subCmd")))
	fmt.Fprintf(&o, "Definition select_clears_first : bool := %s.\n", b(selectClearsFirst()))
	// the `len(parts) < 2` branch of handleClient answers with a tagged reply built from parts[0]
	shortTagged := false
	ast.Inspect(hc.decl.Body, func(n ast.Node) bool {
		is, ok := n.(*ast.IfStmt)
		if !ok || src(is.Cond) != "len(parts) < 2" {
			return true
		}
		cnt := 0
		ast.Inspect(is.Body, func(m ast.Node) bool {
			if ce, ok := m.(*ast.CallExpr); ok && strings.HasSuffix(src(ce.Fun), "endResponse") && len(ce.Args) == 2 {
				if in, ok := ce.Args[1].(*ast.CallExpr); ok && src(in.Fun) == "fmt.Sprintf" && len(in.Args) >= 2 {
					if lit, ok := in.Args[0].(*ast.BasicLit); ok && strings.HasPrefix(lit.Value, "\"%s ") && src(in.Args[1]) == "parts[0]" {
						cnt++
					}
				}
			}
			return true
		})
		shortTagged = cnt == 1
		return false
	})
	fmt.Fprintf(&o, "Definition short_line_tagged : bool := %s.\n", b(shortTagged))
	raa := refusalAfterAuth()
	fmt.Fprintf(&o, "(* tagged NO/BAD reachable after state.Authenticated := true: %v *)\n", raa)
	fmt.Fprintf(&o, "Definition auth_is_final : bool := %s.\n", b(len(raa) == 0))
	fmt.Fprintf(&o, "Definition table : facts := mk_facts dispatch sites replies default_replies_once select_clears_first auth_is_final short_line_tagged.\n")
	os.Stdout.Write(o.Bytes())
}
