import json, sys
props = {json.loads(l)["id"]: json.loads(l) for l in open('/verif/properties.jsonl') if l.strip()}
for a in sys.argv[1:]:
    pid, n = a.split(":")
    d = props[pid]
    wt = "/tmp/seed-%s-%s" % (pid.lower(), n)
    out = "/tmp/seed-out/%s-%s" % (pid, n)
    prop = "TITLE: %s\nSTATEMENT: %s\nQUANTIFIER (%s): %s" % (d["title"], d["statement"], ",".join(d["quantifier"]["over"]), d["quantifier"]["text"])
    t = open("common.txt").read().replace("{WT}", wt).replace("{OUT}", out).replace("{PID}", pid).replace("{PROP}", prop)
    open("%s-%s.txt" % (pid, n), "w").write(t)
    print(pid, n)
