"""C19 — SEARCH / UID SEARCH return exactly the messages that satisfy the criteria.

Correspondence of Model/Search.v + Model/SearchText.v with
internal/server/message/message.go (parseSearchTokens, evaluateTokens, ...) and
internal/server/uid/uid.go (handleUIDSearch), and comparison of the
implementation with the executable specification Spec/Search.v, both evaluated
inside Coq (vm_compute) on the implementation's observed outputs."""
import json
import os
import re
import glob
import common as C

CLS = {1: "comma_set", 2: "star", 3: "reversed_range", 4: "paren_group", 5: "not_or_arity",
       6: "unknown_key", 8: "text_atom", 9: "uid_search_single",
       10: "uid_search_ignores_keys", 11: "quoted_space"}
MONTHS = ["Jan", "Feb", "Mar", "Apr", "May", "Jun", "Jul", "Aug", "Sep", "Oct", "Nov", "Dec"]
SYSFLAGS = ["Answered", "Deleted", "Draft", "Flagged", "Seen", "Recent"]
HAS_TOK = {"Answered": "ANSWERED", "Deleted": "DELETED", "Draft": "DRAFT", "Flagged": "FLAGGED", "Seen": "SEEN", "Recent": "RECENT"}
UN_TOK = {"Answered": "UNANSWERED", "Deleted": "UNDELETED", "Draft": "UNDRAFT", "Flagged": "UNFLAGGED", "Seen": "UNSEEN", "Recent": "OLD"}
HDRS = ["Bcc", "Cc", "From", "Subject", "To"]
KEYWORDS = ["Junk", "NonJunk", "foo", "foobar", "$Label1", "work"]

# ---------------------------------------------------------------- AST -> text / Coq


def p_item(it):
    return it[1] if it[0] == "one" else it[1] + ":" + it[2]


def p_set(s):
    return ",".join(p_item(i) for i in s)


def p_date(d):
    return "%s-%s-%s" % (d[0], MONTHS[d[1] - 1] if 1 <= d[1] <= 12 else "???", d[2])


def q(v):
    return '"' + v + '"'


def tokens(k):
    t = k[0]
    if t == "all":
        return ["ALL"]
    if t == "has":
        return [HAS_TOK[k[1]]]
    if t == "un":
        return [UN_TOK[k[1]]]
    if t == "new":
        return ["NEW"]
    if t == "keyword":
        return ["KEYWORD", k[1]]
    if t == "unkeyword":
        return ["UNKEYWORD", k[1]]
    if t == "seq":
        return [p_set(k[1])]
    if t == "uid":
        return ["UID", p_set(k[1])]
    if t == "hdr":
        return [k[1].upper(), q(k[2])]
    if t == "header":
        return ["HEADER", q(k[1]), q(k[2])]
    if t == "body":
        return ["BODY", q(k[1])]
    if t == "text":
        return ["TEXT", q(k[1])]
    if t == "larger":
        return ["LARGER", k[1]]
    if t == "smaller":
        return ["SMALLER", k[1]]
    if t == "date":
        return [("SENT" if k[1] else "") + k[2], p_date(k[3])]
    if t == "not":
        return ["NOT"] + tokens(k[1])
    if t == "or":
        return ["OR"] + tokens(k[1]) + tokens(k[2])
    if t == "group":
        return ["(" + " ".join(x for kk in k[1] for x in tokens(kk)) + ")"]
    if t == "unknown":
        return [k[1]]
    raise ValueError(k)


def print_prog(ks):
    return " ".join(x for k in ks for x in tokens(k))


def c_num(a):
    return "SStar" if a == "*" else "(SNum %s)" % C.coq_str(a)


def c_item(it):
    return "(SOne %s)" % c_num(it[1]) if it[0] == "one" else "(SRange %s %s)" % (c_num(it[1]), c_num(it[2]))


def c_key(k):
    t = k[0]
    if t == "all":
        return "KAll"
    if t == "has":
        return "(KHas F%s)" % k[1]
    if t == "un":
        return "(KUn F%s)" % k[1]
    if t == "new":
        return "KNew"
    if t == "keyword":
        return "(KKeyword %s)" % C.coq_str(k[1])
    if t == "unkeyword":
        return "(KUnkeyword %s)" % C.coq_str(k[1])
    if t == "seq":
        return "(KSeq %s)" % C.coq_list([c_item(i) for i in k[1]])
    if t == "uid":
        return "(KUid %s)" % C.coq_list([c_item(i) for i in k[1]])
    if t == "hdr":
        return "(KHdr H%s %s)" % (k[1], C.coq_str(k[2]))
    if t == "header":
        return "(KHeader %s %s)" % (C.coq_str(k[1]), C.coq_str(k[2]))
    if t == "body":
        return "(KBody %s)" % C.coq_str(k[1])
    if t == "text":
        return "(KText %s)" % C.coq_str(k[1])
    if t == "larger":
        return "(KLarger %s)" % C.coq_str(k[1])
    if t == "smaller":
        return "(KSmaller %s)" % C.coq_str(k[1])
    if t == "date":
        return "(KDate %s C%s (%s, %s, %s))" % (C.coq_bool(k[1]), k[2].capitalize(), C.coq_str(k[3][0]), C.coq_z(k[3][1]), C.coq_str(k[3][2]))
    if t == "not":
        return "(KNot %s)" % c_key(k[1])
    if t == "or":
        return "(KOr %s %s)" % (c_key(k[1]), c_key(k[2]))
    if t == "group":
        return "(KGroup %s)" % C.coq_list([c_key(x) for x in k[1]])
    if t == "unknown":
        return "(KUnknown %s)" % C.coq_str(k[1])
    raise ValueError(k)


def c_prog(ks):
    return C.coq_list([c_key(k) for k in ks])


def c_date(d):
    return "(%s, %s, %s)" % (C.coq_z(d[0]), C.coq_z(d[1]), C.coq_z(d[2]))


def c_smsg(m):
    return "(mk_smsg %s %s %s %s)" % (C.coq_z(m["uid"]), C.coq_list([C.coq_str(f) for f in m["flags"]]), C.coq_str(m["text"]), c_date(m["idate"]))


def c_reply(r):
    if r[0] == "ok":
        return "(ROk %s)" % C.coq_list([C.coq_z(x) for x in r[1]])
    return {"no": "RNo", "bad": "RBad", "panic": "RPanic"}[r[0]]


def c_obool(r):
    return "None" if r is None else "(Some %s)" % C.coq_bool(r)


# ---------------------------------------------------------------- generators

class Ctx:
    """what the generator knows about the mailbox: number of messages, uids,
    flags in use, words occurring in the texts, dates around the internal dates"""
    def __init__(self, n, uids, flags, words, hdr_names, dates, sizes, text_keys=True):
        self.n, self.uids, self.flags, self.words = n, uids, flags, words
        self.hdr_names, self.dates, self.sizes, self.text_keys = hdr_names, dates, sizes, text_keys


def g_num(rng, hi):
    r = rng.random()
    if r < 0.85:
        return str(rng.randint(1, max(1, hi + 1)))
    if r < 0.93:
        return str(rng.randint(0, 3))
    if r < 0.97:
        return "0" + str(rng.randint(1, 9))
    return str(rng.choice([4294967295, 999999, 1000000, 2 ** 31]))


def g_set(rng, hi, frag):
    """frag: single element, no star, ordered"""
    if frag:
        if rng.random() < 0.5:
            return [("one", g_num(rng, hi))]
        a, b = sorted([rng.randint(1, hi + 1), rng.randint(1, hi + 2)])
        return [("range", str(a), str(b))]
    items = []
    for _ in range(rng.choice([1, 1, 2, 2, 3])):
        r = rng.random()
        if r < 0.35:
            items.append(("one", g_num(rng, hi) if rng.random() < 0.8 else "*"))
        else:
            a = g_num(rng, hi) if rng.random() < 0.8 else "*"
            b = g_num(rng, hi) if rng.random() < 0.7 else "*"
            items.append(("range", a, b))
    return items


def g_date(rng, ctx):
    y, m, d = rng.choice(ctx.dates)
    r = rng.random()
    if r < 0.5:
        pass
    elif r < 0.8:
        d += rng.choice([-1, 1])
        if d < 1:
            d = 1
            m -= 1
            if m < 1:
                m, y = 12, y - 1
            d = 28
        if d > 28:
            d, m = 1, m + 1
            if m > 12:
                m, y = 1, y + 1
    else:
        y += rng.choice([-1, 1])
    dd = str(d) if rng.random() < 0.6 else "%02d" % d
    return (dd, m, "%04d" % y)


def g_string(rng, ctx):
    r = rng.random()
    w = rng.choice(ctx.words) if ctx.words else "x"
    if r < 0.55:
        s = w
    elif r < 0.7:
        s = w[: max(1, len(w) // 2)]
    elif r < 0.8:
        s = w.swapcase()
    elif r < 0.9:
        s = rng.choice(["zzz", "nomatch", "q q", "(x)", "a)b"])
    elif r < 0.95:
        s = w + " " + rng.choice(ctx.words)
    else:
        s = rng.choice(["", " " + w, w + " ", "a  b", "x\ty"])
    return s.replace('"', "").replace("\\", "")


def g_simple(rng, ctx, frag):
    """a key of one or two tokens"""
    kinds = ["all", "has", "has", "un", "un", "new", "keyword", "unkeyword", "seq", "seq", "uid", "uid", "date"]
    if ctx.text_keys:
        kinds += ["hdr", "hdr", "body", "text", "larger", "smaller", "sentdate", "sentdate"]
    t = rng.choice(kinds)
    if t == "all":
        return ("all",)
    if t in ("has", "un"):
        return (t, rng.choice(SYSFLAGS))
    if t == "new":
        return ("new",)
    if t in ("keyword", "unkeyword"):
        w = rng.choice(KEYWORDS + ctx.flags)
        return (t, w.swapcase() if rng.random() < 0.25 else w)
    if t == "seq":
        return ("seq", g_set(rng, ctx.n, frag or rng.random() < 0.6))
    if t == "uid":
        return ("uid", g_set(rng, max(ctx.uids + [1]), frag or rng.random() < 0.6))
    if t == "date":
        return ("date", False, rng.choice(["BEFORE", "ON", "SINCE"]), g_date(rng, ctx))
    if t == "sentdate":
        return ("date", True, rng.choice(["BEFORE", "ON", "SINCE"]), g_date(rng, ctx))
    if t == "hdr":
        return ("hdr", rng.choice(HDRS), g_string(rng, ctx))
    if t == "body":
        return ("body", g_string(rng, ctx))
    if t == "text":
        return ("text", g_string(rng, ctx))
    sz = rng.choice(ctx.sizes) if ctx.sizes else 100
    return (t, str(max(0, sz + rng.choice([-1, 0, 1, -50, 50]))))


def g_key(rng, ctx, depth, frag):
    r = rng.random()
    if depth <= 0 or r < 0.5:
        if ctx.text_keys and rng.random() < 0.08:
            return ("header", rng.choice(ctx.hdr_names), g_string(rng, ctx) if rng.random() < 0.85 else "")
        return g_simple(rng, ctx, frag)
    if frag:
        if r < 0.75:
            return ("not", g_simple(rng, ctx, True))
        return ("or", g_simple(rng, ctx, True), g_simple(rng, ctx, True))
    if r < 0.65:
        return ("not", g_key(rng, ctx, depth - 1, False))
    if r < 0.8:
        return ("or", g_key(rng, ctx, depth - 1, False), g_key(rng, ctx, depth - 1, False))
    if r < 0.93:
        return ("group", [g_key(rng, ctx, depth - 1, False) for _ in range(rng.randint(1, 3))])
    return ("unknown", rng.choice(["FOO", "XYZZY", "MODSEQ", "ANSWERD", "younger"]))


def g_prog(rng, ctx, depth=3):
    frag = rng.random() < 0.6
    return [g_key(rng, ctx, depth, frag) for _ in range(rng.choice([1, 1, 2, 2, 3]))]


SOUP = ["ALL", "SEEN", "UNSEEN", "NOT", "OR", "FROM", "UID", "KEYWORD", "1", "2:3", "1,2", "*", "1:*", "(", ")", "(SEEN)",
        '"a b"', '"', "foo", "LARGER", "x", "BEFORE", "1-Jan-2020", "HEADER", "DELETED", "new", "Or", "not", "\\Seen", "é"]


def g_soup(rng, text_free=True):
    toks = [rng.choice(SOUP) for _ in range(rng.randint(0, 6))]
    if text_free:
        # keys that read the text cannot be evaluated through the direct call
        toks = [t for t in toks if t.upper() not in ("FROM", "LARGER", "HEADER")]
    sep = rng.choice([" ", " ", " ", "  ", "\t"])
    return sep.join(toks)


# ---------------------------------------------------------------- direct suites

def coq_run(chk, pid, body, names):
    rc, log = C.coq_eval_cases(pid, body)
    if rc != 0:
        chk.broken_obligation("in-Coq evaluation of the %s cases failed:\n%s" % (pid, log[-2500:]))
        return None
    out = {}
    for n in names:
        txt = C.parse_coq_list_out(log, n)
        if txt is None:
            chk.broken_obligation("could not read %s from the Coq output of %s:\n%s" % (n, pid, log[-1500:]))
            return None
        txt = txt.strip()
        out[n] = [] if txt == "[]" else [int(x.replace("%N", "").replace("%nat", "").strip()) for x in txt.strip("[]").split(";") if x.strip()]
    return out


HEADER = C.COQ_CASE_HEADER + "From Raven Require Import Base.Enum Model.Search Model.SearchText Spec.Search Model.SearchClass Spec.SearchCheck.\nLocal Open Scope Z_scope.\n"


ZONES = [0, 0, -5 * 3600, 5 * 3600 + 1800, 14 * 3600, -12 * 3600, -7 * 3600, 3600, 9 * 3600, -(3 * 3600 + 1800), 12 * 3600 + 2700]


def zone_str(off):
    return "%s%02d%02d" % ("+" if off >= 0 else "-", abs(off) // 3600, (abs(off) % 3600) // 60)


def rand_zone_time(rng):
    """(hh, mi, offset seconds): mostly a local time whose UTC calendar day differs
    from the local one (within the offset's distance of midnight)"""
    off = rng.choice(ZONES)
    r = rng.random()
    if off > 0 and r < 0.7:
        mins = rng.randint(0, min(off // 60, 1440) - 1)               # local time < offset: UTC is the previous day
    elif off < 0 and r < 0.7:
        mins = 1440 - rng.randint(1, min(-off // 60, 1440))           # local time >= 24h - |offset|: UTC is the next day
    else:
        mins = rng.randint(0, 1439)
    return mins // 60, mins % 60, off


def rand_flags(rng):
    fl = ["\\" + f for f in SYSFLAGS if rng.random() < 0.3]
    fl += [k for k in KEYWORDS if rng.random() < 0.15]
    fl = [f.lower() if rng.random() < 0.15 else f for f in fl]      # flag names are case-insensitive (d007c6d)
    rng.shuffle(fl)
    return fl


def direct_suites(chk, n_eval, n_raw, n_tok):
    rng = chk.rng
    evs, raws = [], []
    for _ in range(n_eval):
        n = rng.randint(1, 8)
        uids = sorted(rng.sample(range(1, 20), n))
        i = rng.randint(1, n)
        fl = rand_flags(rng)
        d = (rng.choice([2019, 2020, 2024]), rng.randint(1, 12), rng.randint(1, 28))
        ctx = Ctx(n, uids, fl, [], [], [d, (2020, 2, 28)], [], text_keys=False)
        ks = g_prog(rng, ctx)
        m = {"uid": uids[i - 1], "flags": fl, "text": "", "idate": d, "zt": rand_zone_time(rng)}
        evs.append({"ks": ks, "text": print_prog(ks), "n": n, "maxuid": uids[-1], "i": i, "m": m})
    for _ in range(n_raw):
        fl = rand_flags(rng)
        m = {"uid": rng.randint(1, 9), "flags": fl, "text": "", "idate": (2020, rng.randint(1, 3), rng.randint(1, 28)), "zt": rand_zone_time(rng)}
        raws.append({"text": g_soup(rng), "i": rng.randint(1, 5), "m": m})
    toks = [g_soup(rng, False) + rng.choice(["", " ", '"', "(", ")"]) for _ in range(n_tok)]
    seqs = []
    for _ in range(n_tok):
        s = "".join(rng.choice("0123456789:*,1 x") for _ in range(rng.randint(0, 6))) if rng.random() < 0.5 else rng.choice(
            ["1", "*", "2:4", "4:2", "1:*", "*:3", "*:*", "1:2:3", ":", "1:", ":2", "99999999999999999999", "1:99999999999999999999", "+1", "-1", "0"])
        seqs.append((rng.randint(0, 6), s))
    hdrs = []
    for _ in range(n_tok // 2):
        raw = gen_text(rng, weird=True)
        f = rng.choice(["From", "subject", "X-A", "Received", "To", "Date", "x-a:", ""])
        hdrs.append((raw, f, g_string(rng, Ctx(0, [], [], words_of(raw), [], [], []))))
    dates = []
    for _ in range(n_tok // 2):
        y, mo, d = rng.choice([2019, 2020, 2021]), rng.randint(1, 12), rng.randint(1, 28)
        ds = rng.choice(["%d-%s-%d" % (rng.randint(0, 32), rng.choice(MONTHS + ["jan", "FEB", "Foo"]), rng.choice([2019, 2020, 2021, 20, 20200])),
                         "%02d-%s-%04d" % (d, MONTHS[mo - 1], y), "29-Feb-2020", "29-Feb-2019", "31-Apr-2020", "1-Jan-2020 ", "", "1-1-2020", '"1-Jan-2020"'])
        if rng.random() < 0.6:
            # target on the message's own day or an adjacent one: the zone must not move the day
            dd = d + rng.choice([-1, 0, 0, 1])
            if 1 <= dd <= 28:
                ds = "%d-%s-%d" % (dd, MONTHS[mo - 1], y)
        dates.append(((y, mo, d), ds, rng.choice(["BEFORE", "ON", "SINCE"]), rand_zone_time(rng)))

    def mcall(e):
        m = e["m"]
        return {"a": [" ".join(m["flags"]), C.latin(e["text"].encode("latin-1"))], "n": [e["i"], m["uid"]] + list(m["idate"]) + list(m["zt"])}
    ops = [
        {"op": "batch", "fn": "evalCriteriaZone", "cases": [mcall(e) for e in evs]},
        {"op": "batch", "fn": "evalCriteriaZone", "cases": [mcall(e) for e in raws]},
        {"op": "batch", "fn": "parseSearchTokens", "cases": [{"a": [C.latin(t.encode("latin-1"))]} for t in toks]},
        {"op": "batch", "fn": "isSequenceSet", "cases": [{"a": [s]} for (_, s) in seqs]},
        {"op": "batch", "fn": "matchesSequenceSet", "cases": [{"a": [s], "n": [n]} for (n, s) in seqs]},
        {"op": "batch", "fn": "headerContains", "cases": [{"a": [C.latin(r), f, s]} for (r, f, s) in hdrs]},
        {"op": "batch", "fn": "hasHeader", "cases": [{"a": [C.latin(r), f]} for (r, f, s) in hdrs]},
        {"op": "batch", "fn": "matchesDateZone", "cases": [{"a": [ds, c], "n": list(d) + list(zt)} for (d, ds, c, zt) in dates]},
        {"op": "batch", "fn": "unquote", "cases": [{"a": [C.latin(t.encode("latin-1"))]} for t in toks]},
    ]
    res = C.run_ops(ops, timeout=600)
    if res.get("crashed"):
        chk.broken_obligation("driver crashed on the C19 direct suites: %s" % res.get("stderr", "")[:500])
        return None
    obs = res["obs"]

    def ob(r):
        return None if isinstance(r, dict) else bool(r)
    for e, r in zip(evs, obs[0]["rs"]):
        e["impl"] = ob(r)
    for e, r in zip(raws, obs[1]["rs"]):
        e["impl"] = ob(r)
    r_tok = [[C.unlatin(x) for x in (l or [])] for l in obs[2]["rs"]]
    r_isseq, r_mseq, r_hc, r_hh, r_md = obs[3]["rs"], obs[4]["rs"], obs[5]["rs"], obs[6]["rs"], obs[7]["rs"]
    r_unq = [C.unlatin(x) for x in obs[8]["rs"]]

    body = HEADER
    body += "Definition evs : list ecase := [\n%s].\n" % ";\n".join(
        "(%s, %s, %s, %s, %s, %s, %s)" % (c_prog(e["ks"]), C.coq_str(e["text"]), C.coq_z(e["n"]), C.coq_z(e["maxuid"]), C.coq_z(e["i"]), c_smsg(e["m"]), c_obool(e["impl"]))
        for e in evs)
    body += "Definition ev_bad := Eval vm_compute in report (map eval_case_code evs).\nPrint ev_bad.\n"
    body += "Definition raws : list rcase := [\n%s].\n" % ";\n".join(
        "(%s, %s, %s, %s)" % (C.coq_str(e["text"].encode("latin-1")), C.coq_z(e["i"]), c_smsg(e["m"]), c_obool(e["impl"])) for e in raws)
    body += "Definition raw_bad := Eval vm_compute in report (map raw_case_code raws).\nPrint raw_bad.\n"
    body += "Definition toks : list (str * list str * str) := [\n%s].\n" % ";\n".join(
        "(%s, %s, %s)" % (C.coq_str(t.encode("latin-1")), C.coq_list([C.coq_str(x) for x in r]), C.coq_str(u)) for t, r, u in zip(toks, r_tok, r_unq))
    body += "Definition tok_bad := Eval vm_compute in diff_positions lstr_eqb 0 (map (fun '(t,r,u) => r) toks) (map (fun '(t,r,u) => parse_search_tokens t) toks).\nPrint tok_bad.\n"
    body += "Definition unq_bad := Eval vm_compute in diff_positions str_eqb 0 (map (fun '(t,r,u) => u) toks) (map (fun '(t,r,u) => unquote t) toks).\nPrint unq_bad.\n"
    body += "Definition seqs : list (Z * str * bool * bool) := [\n%s].\n" % ";\n".join(
        "(%s, %s, %s, %s)" % (C.coq_z(n), C.coq_str(s), C.coq_bool(a is True), C.coq_bool(b is True)) for (n, s), a, b in zip(seqs, r_isseq, r_mseq))
    body += "Definition isseq_bad := Eval vm_compute in diff_positions Bool.eqb 0 (map (fun '(n,s,a,b) => a) seqs) (map (fun '(n,s,a,b) => is_sequence_set s) seqs).\nPrint isseq_bad.\n"
    body += "Definition mseq_bad := Eval vm_compute in diff_positions Bool.eqb 0 (map (fun '(n,s,a,b) => b) seqs) (map (fun '(n,s,a,b) => matches_sequence_set n s) seqs).\nPrint mseq_bad.\n"
    body += "Definition hdrs : list (str * str * str * bool * bool) := [\n%s].\n" % ";\n".join(
        "(%s, %s, %s, %s, %s)" % (C.coq_str(r), C.coq_str(f), C.coq_str(s), C.coq_bool(a is True), C.coq_bool(b is True)) for (r, f, s), a, b in zip(hdrs, r_hc, r_hh))
    body += "Definition hc_bad := Eval vm_compute in diff_positions Bool.eqb 0 (map (fun '(r,f,s,a,b) => a) hdrs) (map (fun '(r,f,s,a,b) => header_contains r f s) hdrs).\nPrint hc_bad.\n"
    body += "Definition hh_bad := Eval vm_compute in diff_positions Bool.eqb 0 (map (fun '(r,f,s,a,b) => b) hdrs) (map (fun '(r,f,s,a,b) => has_header r f) hdrs).\nPrint hh_bad.\n"
    body += "Definition dates : list (date * str * dcmp * bool) := [\n%s].\n" % ";\n".join(
        "(%s, %s, C%s, %s)" % (c_date(d), C.coq_str(ds), c.capitalize(), C.coq_bool(r is True)) for (d, ds, c, zt), r in zip(dates, r_md))
    body += "Definition md_bad := Eval vm_compute in diff_positions Bool.eqb 0 (map (fun '(d,s,c,r) => r) dates) (map (fun '(d,s,c,r) => matches_date d s c) dates).\nPrint md_bad.\n"
    out = coq_run(chk, "C19d", body, ["ev_bad", "raw_bad", "tok_bad", "unq_bad", "isseq_bad", "mseq_bad", "hc_bad", "hh_bad", "md_bad"])
    if out is None:
        return None
    return {"evs": evs, "raws": raws, "toks": (toks, r_tok, r_unq), "seqs": (seqs, r_isseq, r_mseq), "hdrs": (hdrs, r_hc, r_hh), "dates": (dates, r_md), "out": out}


# ---------------------------------------------------------------- listings with copied messages (direct)

def listing_suite(chk, n_listings, n_progs):
    """evaluateSearchCriteria on listings in which one stored message (message id)
    occurs up to three times, with identical and with different flag strings and
    different internal dates; every entry is judged on its own seq / uid / flags / date"""
    rng = chk.rng
    pseudo = []
    cases = []
    flag_pool = [[], ["\\Recent"], ["\\Recent"], ["\\Seen"], ["\\Seen", "\\Recent"], ["Junk", "\\Recent"], ["\\Flagged"], ["\\recent"]]
    for _ in range(n_listings):
        n = rng.randint(2, 6)
        ids = [rng.randint(1, 3) for _ in range(n)]
        if len(set(ids)) == n:
            ids[-1] = ids[0]
        uids = sorted(rng.sample(range(1, 15), n))
        per_id_flags = {}
        mb = []
        for k in range(n):
            fl = per_id_flags[ids[k]] if ids[k] in per_id_flags and rng.random() < 0.6 else rng.choice(flag_pool)
            per_id_flags.setdefault(ids[k], fl)
            d = (2024, rng.choice([1, 1, 2]), rng.randint(1, 4))
            mb.append({"uid": uids[k], "flags": list(fl), "text": b"", "idate": d, "id": ids[k]})
        ctx = Ctx(n, uids, [], [], [], [m["idate"] for m in mb], [], text_keys=False)
        progs = []
        for j in range(n_progs):
            r = rng.random()
            i = rng.randint(1, n)
            u = rng.choice(uids)
            a, b = sorted([rng.randint(1, n), rng.randint(1, n)])
            if r < 0.15:
                ks = [("seq", [("one", str(i))])]
            elif r < 0.25:
                ks = [("seq", [("range", str(a), str(b))])]
            elif r < 0.35:
                ks = [("uid", [("range", str(u), str(u + rng.randint(0, 3)))])]
            elif r < 0.45:
                ks = [("not", ("seq", [("one", str(i))]))]
            elif r < 0.55:
                ks = [("or", ("seq", [("one", str(i))]), ("has", "Seen"))]
            elif r < 0.65:
                ks = [("seq", [("one", str(i))]), g_simple(rng, ctx, True)]
            elif r < 0.75:
                ks = [("date", False, rng.choice(["BEFORE", "ON", "SINCE"]), g_date(rng, ctx))]
            else:
                ks = g_prog(rng, ctx)
            progs.append({"ks": ks, "text": print_prog(ks), "uid": False})
            cases.append({"a": [progs[-1]["text"]] + [" ".join(m["flags"]) for m in mb],
                          "n": [x for m in mb for x in (m["id"], m["uid"]) + tuple(m["idate"])]})
        pseudo.append({"mb": mb, "progs": progs, "raws": []})
    res = C.run_ops([{"op": "batch", "fn": "searchListing", "cases": cases}], timeout=600)
    if res.get("crashed"):
        chk.broken_obligation("driver crashed on the C19 listing suite: %s" % res.get("stderr", "")[:500])
        return None
    rs = res["obs"][0]["rs"]
    k = 0
    for se in pseudo:
        for p in se["progs"]:
            r = rs[k]
            k += 1
            p["impl"] = ("panic",) if isinstance(r, dict) else ("ok", [int(x) for x in (r or [])])
    return pseudo


# ---------------------------------------------------------------- message texts

NAMES = ["Alice Adams <alice@example.com>", "bob@example.org", "Carol (x) <carol@test.net>", "dave@example.com, erin@example.com"]
SUBJ = ["Hello World", "Re: quarterly report", "meeting  notes", "lunch?", "URGENT: server down", "hello again"]
BODY = ["body text one", "The quick brown fox\r\njumps over the lazy dog", "see you at the meeting", "invoice attached\r\n\r\nregards,\r\nAlice", "x"]


def gen_date_header(rng):
    """Date: value and the calendar date AS WRITTEN (RFC 3501: time and zone are disregarded).
    Zones include +1400 / -1200; most times lie within the offset's distance of midnight,
    so that the UTC calendar day differs from the written one."""
    y, mo, d = rng.choice([2006, 2019, 2020, 2024]), rng.randint(1, 12), rng.randint(1, 28)
    wd = rng.choice(["Mon", "Tue", "Wed", "Thu", "Fri", "Sat", "Sun"])
    hh, mi, off = rand_zone_time(rng)
    hms = "%02d:%02d:%02d" % (hh, mi, rng.randint(0, 59))
    r = rng.random()
    if r < 0.65:
        return "%s, %02d %s %04d %s %s" % (wd, d, MONTHS[mo - 1], y, hms, zone_str(off)), (y, mo, d)
    if r < 0.75:
        return "%s, %02d %s %04d %s %s" % (wd, d, MONTHS[mo - 1], y, hms, rng.choice(["GMT", "UTC", "MST"])), (y, mo, d)
    if r < 0.88:
        return "%02d %s %04d %s %s" % (d, MONTHS[mo - 1], y, hms, zone_str(off)), (y, mo, d)        # no day of week
    return "%s, %d %s %04d %s +0000" % (wd, rng.randint(1, 9), MONTHS[mo - 1], y, hms), (y, mo, d)  # one-digit day


def gen_text(rng, weird=False):
    h = []
    h.append("From: " + rng.choice(NAMES))
    if rng.random() < 0.8:
        h.append("To: " + rng.choice(NAMES))
    if rng.random() < 0.3:
        h.append("Cc: " + rng.choice(NAMES))
    s = rng.choice(SUBJ)
    r = rng.random()
    if r < 0.15:
        h.append("Subject: " + s + "\r\n " + rng.choice(["continued line", "(folded)"]))
    elif r < 0.25:
        h.append("Subject:   " + s + "  ")
    elif r < 0.9:
        h.append("Subject: " + s)
    if rng.random() < 0.85:
        h.append("Date: " + gen_date_header(rng)[0])
    if rng.random() < 0.3:
        h.append("X-A: one")
        h.append("X-A: two")
    if rng.random() < 0.2:
        h.append("Received: from a by b")
        h.append("Received: from c by d")
    if weird:
        if rng.random() < 0.3:
            h.insert(rng.randint(0, len(h)), rng.choice([" leading continuation", "NoColonLine", "X-Empty:", "Subject : spaced", "\tTab cont"]))
        sep = rng.choice(["\r\n", "\r\n", "\n"])
        return (sep.join(h) + sep + sep + rng.choice(BODY) + sep).encode()
    rng.shuffle(h)
    return ("\r\n".join(h) + "\r\n\r\n" + rng.choice(BODY) + "\r\n").encode()


def words_of(raw):
    ws = re.findall(rb"[A-Za-z@.]{3,}", raw)
    return [w.decode() for w in ws] or ["x"]


# ---------------------------------------------------------------- sessions

def cmd(tag, s):
    return {"op": "send", "conn": "c", "data": C.latin(("%s %s\r\n" % (tag, s)).encode("latin-1")), "until": "tag:%s" % tag, "timeout_ms": 30000}


def history_ops(rng):
    ops = [{"op": "open", "conn": "c"}, cmd("a1", "LOGIN u1@example.com pw")]
    n = rng.randint(3, 7)
    for i in range(n):
        m = gen_text(rng)
        fl = ["\\" + f for f in SYSFLAGS[:5] if rng.random() < 0.25] + [k for k in KEYWORDS if rng.random() < 0.15]
        fl = [f.lower() if rng.random() < 0.15 else f for f in fl]
        t = "p%d" % i
        ops.append({"op": "send", "conn": "c", "data": "%s APPEND INBOX (%s) {%d}\r\n" % (t, " ".join(fl), len(m)), "until": "cont:%s" % t})
        ops.append({"op": "send", "conn": "c", "data": C.latin(m) + "\r\n", "until": "tag:%s" % t})
    ops.append(cmd("a2", "SELECT INBOX"))
    k = 0
    # copied messages: one stored message listed 2-3 times, in the selected mailbox
    # itself (COPY n INBOX) or in another mailbox (two copies into Archive, searched there)
    mode = rng.choice(["none", "same", "same", "other", "other"])
    if mode == "same":
        src = rng.randint(1, n)
        for _ in range(rng.randint(1, 2)):
            ops.append(cmd("h%d" % k, rng.choice(["COPY %d INBOX", "UID COPY %d INBOX"]) % src))
            k += 1
        if rng.random() < 0.5:
            ops.append(cmd("h%d" % k, "COPY %d INBOX" % rng.randint(1, n)))
            k += 1
        n += 2
    elif mode == "other":
        ops.append(cmd("h%d" % k, "CREATE Archive"))
        k += 1
        src = rng.randint(1, n)
        seqs = [src, rng.randint(1, n), src] + ([src] if rng.random() < 0.4 else []) + [rng.randint(1, n)]
        for q in seqs:
            ops.append(cmd("h%d" % k, rng.choice(["COPY %d Archive", "COPY %d Archive", "UID COPY %d Archive"]) % q))
            k += 1
        ops.append(cmd("h%d" % k, "SELECT Archive"))
        k += 1
        n = len(seqs)
        if rng.random() < 0.6:
            return ops          # keep the copies' flag strings byte-identical
    # C09/C10 history: flag changes, an expunge in the middle (uids get gaps)
    for _ in range(rng.randint(0, 2)):
        ops.append(cmd("h%d" % k, "STORE %d +FLAGS (\\Deleted)" % rng.randint(1, n)))
        k += 1
    if rng.random() < 0.7:
        ops.append(cmd("h%d" % k, "EXPUNGE"))
        k += 1
    for _ in range(rng.randint(0, 4)):
        fl = rng.choice(["\\Seen", "\\Deleted", "\\Flagged", "\\Answered", "\\Draft", "Junk", "NonJunk", "foo", "foobar", "\\Seen \\Flagged"])
        ops.append(cmd("h%d" % k, "STORE %s %sFLAGS (%s)" % (rng.choice(["1", "2", "1:2", "2:4", "1:*"]), rng.choice(["+", "-", "+", ""]), fl)))
        k += 1
    return ops


FETCH_RE = re.compile(rb'\* (\d+) FETCH \(UID (\d+) FLAGS \(([^)]*)\) INTERNALDATE "(\d+)-(\w+)-(\d+) [^"]*" BODY\[\] \{(\d+)\}\r\n')


def parse_fetch(b):
    mb = []
    pos = 0
    while True:
        m = FETCH_RE.search(b, pos)
        if not m:
            break
        n = int(m.group(7))
        text = b[m.end(): m.end() + n]
        pos = m.end() + n
        mb.append({"seq": int(m.group(1)), "uid": int(m.group(2)), "flags": m.group(3).decode("latin-1").split(),
                   "text": text, "idate": (int(m.group(6)), MONTHS.index(m.group(5).decode()) + 1, int(m.group(4)))})
    return mb


def parse_reply(b, tag):
    if b.startswith(b"\x00PANIC") or b"\x00PANIC" in b:
        return ("panic",)
    lines = b.split(b"\r\n")
    nums = None
    status = None
    for l in lines:
        if l.startswith(b"* SEARCH"):
            try:
                nums = [int(x) for x in l[8:].split()]
            except ValueError:
                nums = None
        elif l.startswith(tag.encode() + b" "):
            status = l[len(tag) + 1:].split(b" ")[0].upper()
    if status == b"OK" and nums is not None:
        return ("ok", nums)
    if status == b"NO":
        return ("no",)
    if status == b"BAD":
        return ("bad",)
    return ("other", b[:200].decode("latin-1"))


def run_sessions(chk, n_sessions, n_progs):
    """two passes: build the mailbox and read the client's view, then (same
    history, same seed) issue the programs generated from that view"""
    rng = chk.rng
    seeds = [rng.getrandbits(48) for _ in range(n_sessions)]
    import random
    hist = [history_ops(random.Random(s)) for s in seeds]
    view_ops = [h + [cmd("v1", "FETCH 1:* (UID FLAGS INTERNALDATE BODY.PEEK[])")] for h in hist]
    views = C.run_many(view_ops)
    sessions = []
    scen = []
    for s, h, v in zip(seeds, hist, views):
        if v.get("crashed"):
            chk.broken_obligation("driver crashed while building a C19 mailbox: %s" % v.get("stderr", "")[:300])
            return None
        mb = parse_fetch(C.unlatin(v["obs"][-1].get("recv", "")))
        if not mb:
            continue
        r2 = random.Random(s + 1)
        words = [w for m in mb for w in words_of(m["text"])]
        flags = sorted(set(f for m in mb for f in m["flags"] if not f.startswith("\\")))
        sent = []
        for m in mb:
            mm = re.search(rb"Date: (?:\w+, )?(\d+) (\w+) (\d+)", m["text"])
            if mm and mm.group(2).decode() in MONTHS:
                sent.append((int(mm.group(3)), MONTHS.index(mm.group(2).decode()) + 1, min(28, max(1, int(mm.group(1))))))
        ctx = Ctx(len(mb), [m["uid"] for m in mb], flags, words, ["X-A", "Received", "Subject", "from", "Date", "X-None"],
                  [m["idate"] for m in mb] + sent, [len(m["text"]) for m in mb])
        progs = []
        for j in range(n_progs):
            ks = g_prog(r2, ctx)
            uid_mode = r2.random() < 0.3
            if uid_mode and r2.random() < 0.5:
                a, b = sorted([r2.randint(1, max(ctx.uids) + 1), r2.randint(1, max(ctx.uids) + 1)])
                ks = r2.choice([[("all",)], [("uid", [("range", str(a), str(b))])], [("uid", [("one", str(a))])], [("uid", [("range", str(a), "*")])]])
            progs.append({"ks": ks, "text": print_prog(ks), "uid": uid_mode})
        texts = [m["text"] for m in mb]
        if len(set(texts)) < len(texts):
            # one stored message is listed several times: every entry is judged on its own
            n_ = len(mb)
            w = r2.choice(words)
            today = mb[0]["idate"]
            for _ in range(14):
                i = r2.randint(1, n_)
                u = r2.choice(ctx.uids)
                a, b = sorted([r2.randint(1, n_), r2.randint(1, n_)])
                one, rng_, uidk = ("seq", [("one", str(i))]), ("seq", [("range", str(a), str(b))]), ("uid", [("range", str(u), str(u + r2.randint(0, 2)))])
                ks = r2.choice([[one], [rng_], [uidk], [("not", one)], [("or", one, ("hdr", "From", w))], [("or", uidk, ("text", w))],
                                [one, ("text", w)], [uidk, ("body", w)], [rng_, ("hdr", "Subject", w)], [("not", uidk), ("text", w)],
                                [one, ("date", False, "ON", (str(today[2]), today[1], "%04d" % today[0]))],
                                [("not", one), ("date", False, "SINCE", (str(today[2]), today[1], "%04d" % today[0]))]])
                progs.append({"ks": ks, "text": print_prog(ks), "uid": r2.random() < 0.15 and ks == [uidk]})
        for (y, mo, d) in sent[:4]:
            dd = d + r2.choice([-1, 0, 0, 1])
            if not 1 <= dd <= 28:
                dd = d
            sd = (str(dd), mo, "%04d" % y)
            c = r2.choice(["BEFORE", "ON", "SINCE"])
            k = ("date", True, c, sd)
            for ks in ([k], [("not", k)], [("or", k, ("date", True, "ON", (str(d), mo, "%04d" % y)))]):
                progs.append({"ks": ks, "text": print_prog(ks), "uid": False})
        raws = [{"text": t, "uid": u} for (t, u) in [
            ("CHARSET UTF-8 ALL", False), ("CHARSET us-ascii SEEN", False), ("CHARSET KOI8-R ALL", False), ("CHARSET", False),
            ("CHARSET UTF-8", False), ("charset latin1 FROM a", False), ("", False), ("", True), ("all", True), ("uid 1:3 seen", True),
            ("FOOUID 1:2", True), ("UID", True), ("UID 1:2:3", True), ("NOT", False), ("OR SEEN", False), ("OR FROM x", False), ("OR BEFORE 1-Jan-2020", False), ("SEEN OR UID 1", False), (g_soup(r2, False), False), (g_soup(r2, False), r2.random() < 0.5)]]
        # (OR soups are allowed again: the OR panic is repaired by bb43d4f)
        ops = list(h)
        for j, p in enumerate(progs):
            ops.append(cmd("s%d" % j, ("UID SEARCH " if p["uid"] else "SEARCH ") + p["text"]))
        for j, p in enumerate(raws):
            ops.append(cmd("r%d" % j, (("UID SEARCH " if p["uid"] else "SEARCH ") + p["text"]).rstrip()))
        ops.append(cmd("v2", "FETCH 1:* (UID FLAGS INTERNALDATE BODY.PEEK[])"))
        scen.append(ops)
        sessions.append({"mb": mb, "progs": progs, "raws": raws, "nh": len(h)})
    results = C.run_many(scen)
    for se, r in zip(sessions, results):
        if r.get("crashed"):
            chk.broken_obligation("driver crashed in a C19 session: %s" % r.get("stderr", "")[:300])
            return None
        obs = r["obs"][se["nh"]:]
        # the view the programs are judged against is the one of THIS run
        mb2 = parse_fetch(C.unlatin(r["obs"][-1].get("recv", "")))
        if mb2:
            se["mb"] = mb2
        for j, p in enumerate(se["progs"]):
            p["impl"] = parse_reply(C.unlatin(obs[j].get("recv", "")), "s%d" % j)
        for j, p in enumerate(se["raws"]):
            p["impl"] = parse_reply(C.unlatin(obs[len(se["progs"]) + j].get("recv", "")), "r%d" % j)
    return sessions


def eval_sessions(chk, sessions, pid="C19s"):
    body = HEADER
    names = []
    for si, se in enumerate(sessions):
        body += "Definition mb%d : list smsg := %s.\n" % (si, C.coq_list([c_smsg(m) for m in se["mb"]]))
        ok = [p for p in se["progs"] if p["impl"][0] != "other"]
        se["progs_ok"] = ok
        body += "Definition sc%d : list scase := [\n%s].\n" % (si, ";\n".join(
            "(%s, %s, %s, %s)" % (c_prog(p["ks"]), C.coq_str(p["text"].encode("latin-1")), C.coq_bool(p["uid"]), c_reply(p["impl"])) for p in ok))
        body += "Definition s_bad%d := Eval vm_compute in report (map (session_case_code mb%d) sc%d).\nPrint s_bad%d.\n" % (si, si, si, si)
        okr = [p for p in se["raws"] if p["impl"][0] != "other"]
        se["raws_ok"] = okr
        body += "Definition rc%d : list rscase := [\n%s].\n" % (si, ";\n".join(
            "(%s, %s, %s)" % (C.coq_str(p["text"].encode("latin-1")), C.coq_bool(p["uid"]), c_reply(p["impl"])) for p in okr))
        body += "Definition r_bad%d := Eval vm_compute in report (map (raw_session_case_code mb%d) rc%d).\nPrint r_bad%d.\n" % (si, si, si, si)
        names += ["s_bad%d" % si, "r_bad%d" % si]
    return coq_run(chk, pid, body, names)


# ---------------------------------------------------------------- decision

def jsonable_mb(mb):
    return [{"uid": m["uid"], "flags": m["flags"], "text": m["text"].decode("latin-1") if isinstance(m["text"], bytes) else m["text"], "idate": list(m["idate"]), "zt": list(m.get("zt", (12, 0, 0)))} for m in mb]


def decide(chk, what, code, payload, stats):
    """code = [model<>impl] + 2[spec<>impl] + 4 class + 64 [print mismatch]"""
    model_diff, spec_diff, cls, pr = code & 1, code & 2, (code >> 2) & 15, code & 64
    if pr:
        chk.broken_obligation("C19 harness: the Python printer and Spec.print_prog disagree on %s" % what, payload)
        return
    cname = CLS.get(cls)
    if spec_diff:
        stats["spec_violations"] += 1
        if cname is not None and cname in chk.findings:
            stats["known"][cname] = stats["known"].get(cname, 0) + 1
            chk.violation("%s (e.g. %s)" % (chk.findings[cname], what), payload, cls=cname)
        else:
            chk.violation("SEARCH result differs from the specification on %s (class %s; theorem c19_search_exact covers this input: %s)" % (what, cname, "yes" if cls == 0 else "no"), payload, cls=cname)
    elif model_diff:
        stats["model_diffs"] += 1
        if cls == 0:
            # classify = None: the theorem gives model = spec, so impl <> model contradicts impl = spec
            chk.broken_obligation("C19: implementation differs from the model although the specification is met, on %s" % what, payload)
        else:
            # inside a listed class the model is the only reference: a changed
            # behaviour there means the model no longer describes the code
            stats["model_diffs_in_class"] += 1
            chk.broken_obligation("correspondence C19 no longer checks: implementation differs from the model on %s (inside class %s)" % (what, cname), payload)


def replay_witnesses(chk):
    """known-finding witnesses and regression scenarios: replayed on the implementation every run"""
    paths, scen, ws = [], [], []
    for path in sorted(glob.glob(os.path.join(C.VERIF, "corpus", "C19", "*.json"))):
        w = json.load(open(path))
        if w.get("kind") != "session":
            continue
        ops = [{"op": "open", "conn": "c"}, cmd("a1", "LOGIN u1@example.com pw")]
        for i, m in enumerate(w["messages"]):
            raw = m["text"].encode("latin-1")
            ops.append({"op": "send", "conn": "c", "data": "p%d APPEND INBOX (%s) {%d}\r\n" % (i, " ".join(m["flags"]), len(raw)), "until": "cont:p%d" % i})
            ops.append({"op": "send", "conn": "c", "data": C.latin(raw) + "\r\n", "until": "tag:p%d" % i})
        ops.append(cmd("a2", "SELECT INBOX"))
        for j, st in enumerate(w.get("setup", [])):
            ops.append(cmd("u%d" % j, st))
        ops.append(cmd("w1", w["command"]))
        paths.append(path)
        scen.append(ops)
        ws.append(w)
    for path, w, r in zip(paths, ws, C.run_many(scen)):
        if r.get("crashed"):
            chk.broken_obligation("driver crashed replaying %s" % path)
            continue
        got = parse_reply(C.unlatin(r["obs"][-1].get("recv", "")), "w1")
        exp = w["expected"]
        good = ((got[0] == "ok" and exp[0] == "ok" and list(got[1]) == list(exp[1])) or (exp[0] == "error" and got[0] in ("no", "bad"))
                or (exp[0] == "reply" and got[0] in ("ok", "no", "bad")))
        if not good:
            chk.violation("%s: %s answered %s, specification: %s" % (w["class"], w["command"], got, exp),
                          {"suite": "witness", "file": os.path.basename(path), "got": got}, cls=w["class"])


def run(chk):
    quick = chk.tier == "quick"
    stats = {"spec_violations": 0, "model_diffs": 0, "model_diffs_in_class": 0, "known": {}}
    replay_witnesses(chk)
    d = direct_suites(chk, 1200 if quick else 6000, 300 if quick else 1500, 300 if quick else 1500)
    if d is None:
        return
    out = d["out"]
    for v in out["ev_bad"]:
        i, code = v >> 8, v & 255
        e = d["evs"][i]
        decide(chk, "criteria %r on message seq=%d uid=%d flags=%r (mailbox of %d, max uid %d), internal date %s %02d:%02d %s: implementation says %r" % (e["text"], e["i"], e["m"]["uid"], e["m"]["flags"], e["n"], e["maxuid"], "-".join(map(str, e["m"]["idate"])), e["m"]["zt"][0], e["m"]["zt"][1], zone_str(e["m"]["zt"][2]), e["impl"]),
               code, {"suite": "eval", "case": {"text": e["text"], "i": e["i"], "n": e["n"], "maxuid": e["maxuid"], "m": jsonable_mb([e["m"]])[0]}, "impl": e["impl"]}, stats)
    for v in out["raw_bad"]:
        e = d["raws"][v >> 8]
        chk.broken_obligation("correspondence C19 (token soup) no longer checks: evaluateTokens on %r flags=%r gives %r, the model something else" % (e["text"], e["m"]["flags"], e["impl"]),
                              {"suite": "raw", "text": e["text"], "i": e["i"], "m": jsonable_mb([e["m"]])[0], "impl": e["impl"]})
    nd = len(out["ev_bad"]) + len(out["raw_bad"])
    for name, (cases, label) in {"tok_bad": (d["toks"][0], "parseSearchTokens"), "unq_bad": (d["toks"][0], "unquote"), "isseq_bad": (d["seqs"][0], "isSequenceSet"),
                                 "mseq_bad": (d["seqs"][0], "matchesSequenceSet"), "hc_bad": (d["hdrs"][0], "headerContains"),
                                 "hh_bad": (d["hdrs"][0], "hasHeader"), "md_bad": (d["dates"][0], "matchesDate")}.items():
        for i in out[name][:3]:
            nd += 1
            c = cases[i]
            if name == "md_bad":
                (dt, ds, cmpk, zt) = c
                chk.violation("matchesDate: internal date %04d-%02d-%02d %02d:%02d in zone %s against %s %r: implementation says %r, the calendar date as written (RFC 3501: time and zone are disregarded; c19_search_exact) says the opposite"
                              % (dt[0], dt[1], dt[2], zt[0], zt[1], zone_str(zt[2]), cmpk, ds, d["dates"][1][i]),
                              {"suite": "date", "date": list(dt), "zone_time": list(zt), "target": ds, "cmp": cmpk, "impl": d["dates"][1][i]})
                continue
            if name in ("hc_bad", "hh_bad", "unq_bad", "tok_bad") and any(ord(ch) > 127 for ch in str(c)):
                chk.notes.append("domain edge (non-ASCII bytes, outside the ASCII model of ToUpper/TrimSpace): %s %r" % (label, c))
                continue
            chk.broken_obligation("correspondence C19 no longer checks: %s differs from the model on %r" % (label, c), {"suite": name, "case": repr(c)})

    listings = listing_suite(chk, 60 if quick else 400, 5)
    if listings is None:
        return
    lout = eval_sessions(chk, listings, pid="C19m")
    if lout is None:
        return
    n_listing_cases = 0
    n_listing_reports = 0
    for si, se in enumerate(listings):
        n_listing_cases += len(se["progs_ok"])
        for v in lout["s_bad%d" % si][:2]:
            p = se["progs_ok"][v >> 8]
            nd += 1
            n_listing_reports += 1
            if n_listing_reports > 10:
                continue
            decide(chk, "evaluateSearchCriteria %r on a listing with stored message ids %s, uids %s, flags %s: implementation answers %r" % (
                       p["text"], [m["id"] for m in se["mb"]], [m["uid"] for m in se["mb"]], [" ".join(m["flags"]) for m in se["mb"]], p["impl"]),
                   v & 255, {"suite": "listing", "ids": [m["id"] for m in se["mb"]], "mailbox": jsonable_mb(se["mb"]), "criteria": p["text"], "impl": p["impl"]}, stats)
    chk.cov["listing_programs"] = n_listing_cases
    sessions = run_sessions(chk, 12 if quick else 60, 45 if quick else 70)
    if sessions is None:
        return
    sout = eval_sessions(chk, sessions)
    if sout is None:
        return
    n_sess_cases = 0
    nontriv = set()
    for si, se in enumerate(sessions):
        n_sess_cases += len(se["progs_ok"]) + len(se["raws_ok"])
        for p in se["progs"]:
            if p["impl"][0] == "other":
                chk.broken_obligation("C19: unreadable reply to %r: %r" % (p["text"], p["impl"]), {"suite": "session", "text": p["text"]})
            elif p["impl"][0] == "ok" and 0 < len(p["impl"][1]) < len(se["mb"]):
                nontriv.add((si, p["text"], p["uid"]))
        for v in sout["s_bad%d" % si]:
            p = se["progs_ok"][v >> 8]
            nd += 1
            decide(chk, "%s %s on a mailbox of %d messages (uids %s): implementation answers %r" % ("UID SEARCH" if p["uid"] else "SEARCH", p["text"], len(se["mb"]), [m["uid"] for m in se["mb"]], p["impl"]),
                   v & 255, {"suite": "session", "mailbox": jsonable_mb(se["mb"]), "command": ("UID SEARCH " if p["uid"] else "SEARCH ") + p["text"], "impl": p["impl"]}, stats)
        for v in sout["r_bad%d" % si]:
            p = se["raws_ok"][v >> 8]
            nd += 1
            chk.broken_obligation("correspondence C19 (raw command) no longer checks: %s %r answered %r, the model something else" % ("UID SEARCH" if p["uid"] else "SEARCH", p["text"], p["impl"]),
                                  {"suite": "rawsession", "mailbox": jsonable_mb(se["mb"]), "text": p["text"], "uid": p["uid"], "impl": p["impl"]})
        # unsupported charset must be refused (c19_badcharset), whatever follows
        for p in se["raws"]:
            if p["text"].upper().startswith("CHARSET KOI8") or p["text"].lower().startswith("charset latin1"):
                if p["impl"][0] != "no":
                    chk.violation("SEARCH %s (unsupported charset) answered %r instead of NO" % (p["text"], p["impl"]), {"suite": "charset", "text": p["text"], "impl": p["impl"]})
    ev_nontriv = set((e["text"], e["i"], tuple(e["m"]["flags"])) for e in d["evs"] if len(e["ks"]) > 1 or e["ks"][0][0] in ("not", "or", "group"))
    chk.cov["sessions_with_copied_message"] = sum(1 for se in sessions if len(set(m["text"] for m in se["mb"])) < len(se["mb"]))
    chk.cov["evaluations"] = n_listing_cases + len(d["evs"]) + len(d["raws"]) + 2 * len(d["toks"][0]) + 2 * len(d["seqs"][0]) + 2 * len(d["hdrs"][0]) + len(d["dates"][0]) + n_sess_cases
    chk.cov["distinct_nontrivial"] = len(nontriv) + len(ev_nontriv)
    chk.cov["rule"] = ("direct: evaluateTokens on programs printed from generated ASTs (depth<=3, 60% inside the proved fragment) against one message, "
                       "token soups, parseSearchTokens/unquote/isSequenceSet/matchesSequenceSet/headerContains/hasHeader/matchesDate on generated inputs; "
                       "sessions: APPEND 3-7 generated messages, STORE/EXPUNGE history, then SEARCH / UID SEARCH programs drawn from the mailbox's own words, flags, uids, dates, sizes; "
                       "implementation vs model (Model/Search*.v) and vs specification (Spec/Search.v) evaluated by vm_compute. "
                       "non-trivial = session program whose result is a non-empty proper subset of the mailbox, or direct program with >1 key or NOT/OR/group")
    chk.cov["sessions"] = len(sessions)
    chk.cov["session_programs"] = n_sess_cases
    chk.cov["direct_programs"] = len(d["evs"])
    chk.cov["spec_violations_seen"] = stats["spec_violations"]
    chk.cov["known_class_hits"] = stats["known"]
    chk.cov["traces_validated_against_impl"] = chk.cov["evaluations"]
    chk.cov["disagreements_checked"] = nd
    if d["evs"]:
        e = d["evs"][0]
        chk.sample({"criteria": e["text"], "seq": e["i"], "uid": e["m"]["uid"], "flags": e["m"]["flags"], "impl": e["impl"]})
    for se in sessions[:2]:
        for p in se["progs"][:2]:
            chk.sample({"command": ("UID SEARCH " if p["uid"] else "SEARCH ") + p["text"], "uids": [m["uid"] for m in se["mb"]], "impl": p["impl"]})


def replay(path):
    d = json.load(open(path))
    print(json.dumps({k: d[k] for k in d if k != "mailbox"}, indent=1)[:3000])
    if d.get("suite") == "session":
        ops = [{"op": "open", "conn": "c"}, cmd("a1", "LOGIN u1@example.com pw")]
        for i, m in enumerate(d["mailbox"]):
            raw = m["text"].encode("latin-1")
            ops.append({"op": "send", "conn": "c", "data": "p%d APPEND INBOX (%s) {%d}\r\n" % (i, " ".join(m["flags"]), len(raw)), "until": "cont:p%d" % i})
            ops.append({"op": "send", "conn": "c", "data": C.latin(raw) + "\r\n", "until": "tag:p%d" % i})
        ops += [cmd("a2", "SELECT INBOX"), cmd("w1", d["command"])]
        r = C.run_ops(ops)
        print("replayed on a fresh mailbox holding the same messages (uids renumbered from 1):", r["obs"][-1].get("recv"))
    elif d.get("suite") == "eval":
        c = d["case"]
        m = c["m"]
        print(C.run_ops([{"op": "call", "fn": "evalCriteriaZone", "a": [" ".join(m["flags"]), c["text"]], "n": [c["i"], m["uid"]] + m["idate"] + m.get("zt", [12, 0, 0])}]))
    elif d.get("suite") == "listing":
        mb = d["mailbox"]
        print(C.run_ops([{"op": "call", "fn": "searchListing", "a": [d["criteria"]] + [" ".join(m["flags"]) for m in mb],
                          "n": [x for i, m in zip(d["ids"], mb) for x in [i, m["uid"]] + m["idate"]]}]))
    elif d.get("suite") == "date":
        print(C.run_ops([{"op": "call", "fn": "matchesDateZone", "a": [d["target"], d["cmp"]], "n": d["date"] + d["zone_time"]}]))
    return 0
