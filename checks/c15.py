"""C15 — out-of-line blob storage and de-duplication are invisible to readers.

Correspondence of Model/BlobCodec.v + Model/Blobs.v with
internal/db/sqlite.go (decodeContentForHashing, StoreBlob*WithEncoding, GetBlob*),
internal/blobstorage/s3.go (Store/Retrieve), parser.StoreMessagePerUserWithSharedDBAndS3,
and the three read sites (fetch.go BODY[n], parser single-part, writePartContentWithS3).

Suites:
  decode  direct calls of decodeContentForHashing vs. decode_for_hashing (compared in Coq)
  blobs   end-to-end histories: messages through LMTP / IMAP APPEND with the fake S3
          endpoint enabled/disabled per side and a scripted fault schedule, objects
          vanishing; afterwards blobs table, message_parts rows, bucket, request log
          and FETCH BODY[n] / BODY[] of every stored part under both reader
          configurations and read faults, compared with the model inside Coq and
          judged by the executable spec.
"""
import base64
import glob
import hashlib
import json
import os
import re

import common as C

A = "alice@example.com"
CLASSES = {}   # no finding class is left
NO = "NO"   # FETCH answered with a tagged NO
BOUNDARY = "=_c15bnd"


# --------------------------------------------------------------------------
# small helpers

def sha(b):
    return hashlib.sha256(b).hexdigest()


def b64(b, wrap=0, eol=b"\r\n"):
    t = base64.b64encode(b)
    if wrap:
        t = eol.join(t[i:i + wrap] for i in range(0, len(t), wrap))
    return t


def qp(b, rng, soft=0):
    out = bytearray()
    col = 0
    for c in b:
        if c == 61 or c > 126 or (c < 32 and c not in (13, 10)) or rng.random() < 0.08:
            if c in (13, 10):
                out.append(c)
                col = 0
                continue
            out += b"=%02X" % c
            col += 3
        else:
            out.append(c)
            col = 0 if c == 10 else col + 1
        if soft and col >= soft:
            out += b"=\r\n"
            col = 0
    return bytes(out)


def text_of(rng, n):
    """n octets of printable text in CRLF lines; no '.', no '=', never ends in CR/LF/blank"""
    al = "abcdefghijklmnopqrstuvwxyzABCDEFGHIJKLMNOPQRSTUVWXYZ0123456789     "
    s = bytearray()
    col = 0
    while len(s) < n:
        if col >= 60 and n - len(s) > 3:
            s += b"\r\n"
            col = 0
            continue
        s += rng.choice(al).encode()
        col += 1
    s = s[:n]
    if s and s[-1] in (32, 13, 10):
        s[-1] = ord("x")
    return bytes(s)


def cstr(b):
    """Coq term of type str; printable runs as string literals, other octets as
    binary N numerals (C.coq_str uses unary nat numerals for the whole string)"""
    if isinstance(b, str):
        b = b.encode("latin-1")
    if not b:
        return "(@nil ascii)"
    runs = []
    i = 0
    while i < len(b):
        j = i
        if 32 <= b[i] < 127:
            while j < len(b) and 32 <= b[j] < 127:
                j += 1
            runs.append('S_ "%s"' % b[i:j].decode("ascii").replace('"', '""'))
        else:
            while j < len(b) and not (32 <= b[j] < 127):
                j += 1
            runs.append("bN [%s]%%N" % ";".join(str(c) for c in b[i:j]))
        i = j
    return "(" + " ++ ".join(runs) + ")%list"


class Interner:
    """distinct byte strings become Coq definitions t<i>"""
    def __init__(self):
        self.ix = {}
        self.defs = []

    def __call__(self, b):
        if isinstance(b, str):
            b = b.encode("latin-1")
        if b not in self.ix:
            name = "t%d" % len(self.ix)
            self.ix[b] = name
            self.defs.append("Definition %s : str := %s." % (name, cstr(b)))
        return self.ix[b]


def nat_list(log, name):
    txt = C.parse_coq_list_out(log, name)
    if txt is None:
        return None
    return [int(x) for x in re.findall(r"\d+", txt.replace("%nat", ""))]


# --------------------------------------------------------------------------
# decode suite

ENCS = ["base64", "BASE64", " Base64 ", "quoted-printable", "Quoted-Printable", "QUOTED-PRINTABLE\t",
        "7bit", "8bit", "binary", "", "x-uuencode", "base64x"]


def gen_decode_cases(rng, n):
    cases = []
    for _ in range(n):
        kind = rng.random()
        raw = bytes(rng.randrange(256) for _ in range(rng.choice([0, 1, 2, 3, 4, 5, 7, 10, 30, 57, 100])))
        if kind < 0.45:
            t = bytearray(b64(raw, rng.choice([0, 0, 4, 7, 16, 76]), rng.choice([b"\r\n", b"\n", b"\r"])))
            for _ in range(rng.choice([0, 0, 0, 1, 1, 2])):
                m = rng.random()
                pos = rng.randrange(len(t) + 1)
                if m < 0.25:
                    t[pos:pos] = rng.choice([b"\r\n", b"\n", b" ", b"=", b"-", b"\t", b"A", b"\x00", b"\xe9"])
                elif m < 0.5 and t:
                    del t[min(pos, len(t) - 1)]
                elif m < 0.7:
                    t += rng.choice([b"\r\n", b"=", b"==", b"\r\n\r\n", b" ", b"QQ==", b"x"])
                elif m < 0.85:
                    t = bytearray(bytes(t).rstrip(b"="))
                elif t:
                    i = min(pos, len(t) - 1)
                    t[i] = rng.choice(b"ABQRZaz09+/=-_")
            enc = rng.choice(ENCS[:3]) if rng.random() < 0.9 else rng.choice(ENCS)
            cases.append((bytes(t), enc))
        elif kind < 0.9:
            atoms = [b"a", b"Z", b" ", b"\t", b"=", b"=3D", b"=3d", b"=E9", b"=0A", b"=\r\n", b"=\n", b"= \r\n", b"=\t\n",
                     b"\r\n", b"\n", b"\r", b" \r\n", b"=G1", b"=4", b"=\r", b"\xe9", b"\x00", b"\x7f", b"~", b"==", b"=", b"hello", b"w or d"]
            t = b"".join(rng.choice(atoms) for _ in range(rng.randint(0, 14)))
            if rng.random() < 0.015:
                n0 = rng.choice([4090, 4094, 4095, 4096, 4097, 4100])
                t = b"x" * n0 + rng.choice([b"", b"\n", b"\r\n", b"\r\nab"]) + t
            enc = rng.choice(ENCS[3:6]) if rng.random() < 0.9 else rng.choice(ENCS)
            cases.append((t, enc))
        else:
            cases.append((raw, rng.choice(ENCS)))
    return cases


def run_decode(chk, ndec):
    cases = gen_decode_cases(chk.rng, ndec)
    res = C.run_ops([{"op": "batch", "fn": "decodeContentForHashing",
                      "cases": [{"a": [C.latin(t), C.latin(e)]} for (t, e) in cases]}], timeout=300)
    if res.get("crashed") or "rs" not in res["obs"][0]:
        chk.broken_obligation("driver failed on the C15 decode suite: %s" % str(res)[:400])
        return 0
    rs = res["obs"][0]["rs"]
    body = C.COQ_CASE_HEADER + "From Raven Require Import Base.Enum Model.BlobCodec Model.BlobsEq.\n"
    body += "Definition dcases : list (str * str * option str) := [\n%s].\n" % ";\n".join(
        "(%s, %s, %s)" % (cstr(t), cstr(e), "None" if r.get("err") or "panic" in r else "(Some %s)" % cstr(C.unlatin(r["r"])))
        for (t, e), r in zip(cases, rs))
    body += ("Definition ddiff := Eval vm_compute in diff_positions optstr_eqb 0 "
             "(map (fun '(t,e,r) => r) dcases) (map (fun '(t,e,r) => decode_for_hashing t e) dcases).\nPrint ddiff.\n")
    rc, log = C.coq_eval_cases("C15dec", body)
    d = nat_list(log, "ddiff") if rc == 0 else None
    if d is None:
        chk.broken_obligation("in-Coq evaluation of the C15 decode cases failed:\n" + log[-1500:])
        return 0
    chk.cov["decode_cases"] = len(cases)
    chk.cov["decode_errors_observed"] = sum(1 for r in rs if r.get("err"))
    chk.sample({"suite": "decode", "content": C.latin(cases[0][0]), "encoding": cases[0][1], "impl": rs[0]})
    for i in d[:3]:
        t, e = cases[i]
        chk.broken_obligation(
            "correspondence decode no longer checks: decodeContentForHashing(%r, %r) = %r differs from Model/BlobCodec.v "
            "(the dedup key of Model/Blobs.v is no longer the implementation's)" % (t[:80], e, rs[i]),
            {"suite": "decode", "content": C.latin(t), "encoding": e, "impl": rs[i]})
    return len(d)


# --------------------------------------------------------------------------
# blobs suite: scenario generation

def mk_message(parts, single, tag):
    """parts: [(enc, text bytes, filename)] -> raw RFC 822 text (bytes)"""
    h = ("From: s@example.com\r\nTo: %s\r\nSubject: %s\r\nMIME-Version: 1.0\r\n" % (A, tag)).encode()
    if single:
        enc, text, _ = parts[0]
        h += b"Content-Type: text/plain; charset=utf-8\r\n"
        if enc:
            h += b"Content-Transfer-Encoding: " + enc.encode() + b"\r\n"
        return h + b"\r\n" + text
    h += ('Content-Type: multipart/mixed; boundary="%s"\r\n\r\n' % BOUNDARY).encode()
    for (enc, text, fn) in parts:
        h += ("--%s\r\n" % BOUNDARY).encode()
        h += b"Content-Type: application/octet-stream\r\n"
        if enc:
            h += b"Content-Transfer-Encoding: " + enc.encode() + b"\r\n"
        if fn:
            h += ('Content-Disposition: attachment; filename="%s"\r\n' % fn).encode()
        h += b"\r\n" + text + b"\r\n"
    h += ("--%s--\r\n" % BOUNDARY).encode()
    return h


def variants(rng, b, small):
    """(enc, text) forms of the octets b"""
    v = [("", b), ("7bit", b), ("8bit", b), ("base64", b64(b)), ("base64", b64(b, 76)), ("BASE64", b64(b, 20)),
         ("base64", b64(b, 76) + b"\r\n"), ("x-custom", b)]
    v += [("base64", t) for t in twin_wraps(b)]
    return v


def twin_wraps(b, base=0):
    """two base64 wrappings of the octets b with DIFFERENT octets, the same decoded
    content (hence the same blob hash) and the SAME encoded length: only a comparison
    of the stored octets tells them apart (seeded change C15-5 compared lengths)"""
    t = len(base64.b64encode(b))
    n = -(-t // base) if base else 2
    if t < 4 or n < 2:
        return []
    lo, hi = -(-t // n), -(-t // (n - 1)) - 1      # the widths that give n lines
    ws = [w for w in range(lo, hi + 1)]
    if base and base in ws:
        others = [w for w in ws if w != base]
        return [b64(b, base), b64(b, others[len(others) // 2])] if others else []
    if len(ws) >= 2:
        return [b64(b, ws[0]), b64(b, ws[-1])]
    return []


def gen_scenario(rng, idx, thorough):
    pool = [text_of(rng, rng.choice([4, 9, 17, 33, 60])) for _ in range(4)]
    big = [text_of(rng, n) for n in rng.sample([1020, 1023, 1024, 1025, 1026, 1100, 1500], 3)]
    pool[1] = base64.b64decode(b64(pool[0]))  # identical octets: plain de-duplication
    cfg = {"imap": rng.random() < 0.5, "lmtp": rng.random() < 0.6}
    steps = [("config", dict(cfg))]
    nstore = rng.randint(5, 8) if not thorough else rng.randint(6, 10)
    fn_i = 0
    stored = []
    race_at = rng.randrange(nstore) if rng.random() < 0.25 else -1
    twin_at = rng.randrange(nstore) if idx % 2 == 0 else -1
    for i in range(nstore):
        if i > 0 and rng.random() < 0.25:
            cfg = {"imap": rng.random() < 0.5, "lmtp": rng.random() < 0.5}
            steps.append(("config", dict(cfg)))
        if stored and rng.random() < 0.15:
            steps.append(("lose", [rng.choice(stored)] if rng.random() < 0.7 else None))
        side = rng.choice(["lmtp", "lmtp", "imap"])
        single = rng.random() < 0.25
        parts = []
        if single:
            kind = rng.random()
            b = rng.choice(big)
            if kind < 0.4:
                parts = [(rng.choice(["", "7bit", "8bit"]), b + b"\r\n", "")]
            elif kind < 0.7:
                parts = [("base64", b64(b, rng.choice([76, 60])) + b"\r\n", "")]
            else:
                parts = [("quoted-printable", qp(b, rng, rng.choice([0, 70])) + b"\r\n", "")]
        else:
            for _ in range(rng.randint(1, 3)):
                if rng.random() < 0.3:
                    b = rng.choice(big)
                    enc, text = rng.choice([("", b), ("7bit", b), ("base64", b64(b, 76))])
                    named = rng.random() < 0.2
                else:
                    b = rng.choice(pool)
                    enc, text = rng.choice(variants(rng, b, True))
                    named = rng.random() < 0.85
                    if rng.random() < 0.06:
                        enc, text = "base64", b"not*base64*" + b
                fn = ""
                if named:
                    fn_i += 1
                    fn = "f%d.bin" % fn_i
                parts.append((enc, text, fn))
        if i == twin_at:
            # the same content in two wrappings of equal encoded length, one store after the
            # other, local blob store or S3 as the configuration says
            tb = rng.choice(big if rng.random() < 0.5 else pool[2:])
            tw = twin_wraps(tb, 76 if len(tb) > 100 else 0)
            if len(tw) == 2:
                if rng.random() < 0.7:
                    cfg = {"imap": False, "lmtp": False}
                    steps.append(("config", dict(cfg)))
                if rng.random() < 0.5:
                    tw.reverse()
                for t in tw:
                    fn_i += 1
                    tside = rng.choice(["lmtp", "imap"])
                    steps.append(("store", tside, [], [("", b"see attachment" + (b"\r\n" if rng.random() < 0.5 else b""), ""), ("base64", t, "t%d.bin" % fn_i)], False, ["alice"]))
                    stored.append(t)
                steps.append(("reads", "live"))
        writer_s3 = cfg[side]
        script = []
        if writer_s3 and rng.random() < 0.6:
            script = [rng.choice(["ok", "ok", "500", "404", "drop"]) for _ in range(rng.randint(1, 5))]
        rcpts = ["alice"]
        if side == "lmtp" and rng.random() < 0.4:
            # one LMTP transaction for 2-4 recipients (users and a role address, duplicates
            # allowed): every recipient gets its own copy through the same store loop
            rcpts = [rng.choice(["alice", "bob", "carol", "sales"]) for _ in range(rng.randint(2, 4))]
            script = []
        steps.append(("store", side, script, parts, single, rcpts))
        stored += [t for (_, t, _) in parts]
        if rng.random() < 0.22:
            # the IMAP side removes an entry (the part rows and blobs must not be affected),
            # then everything every user still has is read back
            for _ in range(rng.randint(1, 2)):
                steps.append(("remove", rng.choice(rcpts + ["alice", "bob"]),
                              rng.choice(["expunge", "expunge", "close", "uid_expunge", "copy_expunge", "delete_mailbox"]),
                              "newest" if rng.random() < 0.65 else "oldest"))
            steps.append(("reads", "live"))
        if race_at == i:
            users = ["alice", "bob", "carol"]
            pair = rng.sample(users, 2)
            fn_i += 3
            steps.append(("race", [("", b"raced " + text_of(rng, 24), "r%d.bin" % fn_i)], pair,
                          [(rng.choice(users + ["sales"]), [("", b"warm " + text_of(rng, 20), "w%d.bin" % (fn_i + k))]) for k in (1, 2)]))
            steps.append(("reads", "live"))
        if rng.random() < 0.35:
            steps.append(("reads", "last"))
    steps.append(("reads", "all"))
    return steps


# --------------------------------------------------------------------------
# blobs suite: compile a scenario to driver ops

ROLE = "sales@example.com"
# recipient key -> (address, store file, IMAP connection that reads it, mailbox path)
RCPT = {
    "alice": (A, "user_db_1", "c", "INBOX"),
    "bob": ("bob@example.com", "user_db_2", "cb", "INBOX"),
    "carol": ("carol@example.com", "user_db_3", "cc", "INBOX"),
    "sales": (ROLE, "role_db_1", "c", "Roles/%s/INBOX" % ROLE),
}
STORES = ["user_db_1", "user_db_2", "user_db_3", "role_db_1"]


def fetch_ops(conn, tag, seq, item, script):
    return [{"op": "s3_script", "script": script},
            {"op": "send", "conn": conn, "data": "%s FETCH %d %s\r\n" % (tag, seq, item), "until": "tag:" + tag},
            {"op": "s3_state"}]


def compile_scenario(steps, rng, parsed_of):
    """returns (ops, plan, copies) — plan entries describe how to read the observations
    back; copies[m] = where the m-th stored copy (= model message m) lives"""
    ops = []
    plan = []
    for conn, who in (("c", A), ("cb", RCPT["bob"][0]), ("cc", RCPT["carol"][0])):
        ops += [{"op": "open", "conn": conn, "kind": "tls"},
                {"op": "send", "conn": conn, "data": "a0 LOGIN %s pw\r\n" % who, "until": "tag:a0"}]
        plan += [None, ("login",)]
    ops += [{"op": "role_create", "email": ROLE}, {"op": "role_assign", "user": A, "role": 1},
            {"op": "user_id", "email": A}, {"op": "user_id", "email": RCPT["bob"][0]}, {"op": "user_id", "email": RCPT["carol"][0]},
            {"op": "s3_enable", "imap": False, "lmtp": False, "timeout": 2}]
    plan += [("ident", 1), None, ("ident", 1), ("ident", 2), ("ident", 3), None]
    cfg = {"imap": False, "lmtp": False}
    nmsg = 0
    ntx = 0
    msgs = []     # per stored copy: (single, nparts_rows)
    copies = []   # per stored copy: (store file, conn, mailbox, sequence number)
    count = {}    # (conn, mailbox) -> messages so far
    selected = {}  # conn -> mailbox selected since the last delivery
    tagc = [0]
    locked = False

    def tag():
        tagc[0] += 1
        return "x%d" % tagc[0]

    def add(o, p=None):
        ops.append(o)
        plan.append(p)

    live = {}     # (conn, mailbox) -> copies still filed there, in sequence-number order

    def new_copy(key):
        _, store, conn, mbox = RCPT[key]
        count[(conn, mbox)] = count.get((conn, mbox), 0) + 1
        live.setdefault((conn, mbox), []).append(len(copies))
        # ord = position among the messages of its store file (part rows are never deleted)
        copies.append((store, conn, mbox, count[(conn, mbox)]))

    def select(conn, mbox):
        if selected.get(conn) != mbox:
            t = tag()
            add({"op": "send", "conn": conn, "data": "%s SELECT %s\r\n" % (t, mbox), "until": "tag:" + t})
            selected[conn] = mbox

    def cmd(conn, text, what):
        t = tag()
        add({"op": "send", "conn": conn, "data": "%s %s\r\n" % (t, text), "until": "tag:" + t}, ("cmd", t, what))

    def lmtp_session(l, key_list, separate=False):
        add({"op": "lmtp_open", "conn": l, "separate_mgr": separate})
        add({"op": "send", "conn": l, "data": "LHLO x\r\n", "until": "lmtp:1"})
        add({"op": "send", "conn": l, "data": "MAIL FROM:<s@example.com>\r\n", "until": "lmtp:1"})
        for key in key_list:
            add({"op": "send", "conn": l, "data": "RCPT TO:<%s>\r\n" % RCPT[key][0], "until": "lmtp:1"}, ("rcpt",))
        add({"op": "send", "conn": l, "data": "DATA\r\n", "until": "lmtp:1"})

    def reads_for(m, reader, faulty):
        single, nrows = msgs[m]
        store, conn, mbox, _ = copies[m]
        if m not in live.get((conn, mbox), []):
            return   # expunged: no longer addressable
        seq = live[(conn, mbox)].index(m) + 1
        select(conn, mbox)
        ks = [1] if single else list(range(1, nrows))
        for k in ks:
            script = []
            if faulty and reader and rng.random() < 0.35:
                script = [rng.choice(["500", "404", "drop"])]
            t = tag()
            fo = fetch_ops(conn, t, seq, "BODY[%d]" % k, script)
            add(fo[0])
            add(fo[1], ("read", m, (0 if single else k), reader, script, t, "BODY[%d]" % k))
            add(fo[2], ("getlog",))
        script = []
        if faulty and reader and rng.random() < 0.3:
            # no "drop" here: two adjacent GETs of one object (rows sharing a blob) could not
            # be told from a transport-level re-send of a dropped GET (see effective())
            script = [rng.choice(["ok", "500", "404"]) for _ in range(rng.randint(1, 3))]
        t = tag()
        fo = fetch_ops(conn, t, seq, "BODY[]", script)
        add(fo[0])
        add(fo[1], ("readall", m, reader, script, t, single))
        add(fo[2], ("getlog",))

    for st in steps:
        if st[0] == "config":
            cfg = dict(st[1])
            add({"op": "s3_enable", "imap": cfg["imap"], "lmtp": cfg["lmtp"], "timeout": 2})
        elif st[0] == "lose":
            if st[1] is None:
                add({"op": "s3_lose"}, ("lose", None))
            else:
                add({"op": "s3_lose", "keys": [sha(x) for x in st[1]]}, ("lose", st[1]))
        elif st[0] == "dblock":
            locked = bool(st[1])
            add({"op": "db_lock" if locked else "db_unlock"})
        elif st[0] == "store":
            side, script, parts, single = st[1:5]
            rcpts = list(st[5]) if len(st) > 5 and st[5] else ["alice"]
            raw = mk_message(parts, single, "m%d" % nmsg)
            add({"op": "s3_script", "script": script})
            if side == "lmtp":
                l = "l%d" % ntx
                lmtp_session(l, rcpts)
                add({"op": "send", "conn": l, "data": C.latin(raw) + ".\r\n", "until": "lmtp:%d" % len(rcpts), "timeout_ms": 30000},
                    ("stored", nmsg, side, cfg[side], script, raw, "250", locked, len(rcpts), False))
                add({"op": "send", "conn": l, "data": "QUIT\r\n", "until": "lmtp:1"})
            else:
                rcpts = ["alice"]
                t = tag()
                add({"op": "send", "conn": "c", "data": "%s APPEND INBOX {%d}\r\n" % (t, len(raw)), "until": "cont:" + t})
                add({"op": "send", "conn": "c", "data": C.latin(raw) + "\r\n", "until": "tag:" + t, "timeout_ms": 20000, "only_if_cont": True},
                    ("stored", nmsg, side, cfg[side], script, raw, t + " OK", locked, 1, False))
            add({"op": "s3_script", "script": []})
            add({"op": "s3_state"}, ("storelog",))
            for key in rcpts:
                msgs.append((single, len(parsed_of(raw))))
                new_copy(key)
                nmsg += 1
            ntx += 1
            selected.clear()
        elif st[0] == "remove":
            # one entry leaves a mailbox through the IMAP side; the message's part rows and
            # blobs are not touched by raven (no model event)
            _, key, kind, which = st
            if key == "sales" and kind in ("copy_expunge", "delete_mailbox"):
                kind = "expunge"   # no second mailbox in the role store to copy into
            _, store, conn, mbox = RCPT[key]
            lst = live.get((conn, mbox), [])
            if not lst:
                continue
            selected.clear()
            select(conn, mbox)
            pos = len(lst) - 1 if which == "newest" else 0
            seq = pos + 1
            if kind == "delete_mailbox":
                box = "tmpbox%d" % len(ops)
                cmd(conn, "CREATE %s" % box, "CREATE")
                cmd(conn, "COPY %d %s" % (seq, box), "COPY")
                cmd(conn, "DELETE %s" % box, "DELETE")
            else:
                if kind == "copy_expunge":
                    cmd(conn, "COPY %d Trash" % seq, "COPY")
                cmd(conn, "STORE %d +FLAGS (\\Deleted)" % seq, "STORE")
                cmd(conn, {"expunge": "EXPUNGE", "copy_expunge": "EXPUNGE", "close": "CLOSE", "uid_expunge": "UID EXPUNGE 1:*"}[kind], kind)
                lst.pop(pos)
            selected.clear()
        elif st[0] == "race":
            # two sessions (two DBManagers = two connection pools) store the SAME new content for
            # two users while a third connection holds the write lock of shared.db: both hash
            # look-ups miss, both INSERTs queue. Before that each pool's connection inserts a
            # singly referenced blob of its own (warm-up deliveries).
            _, parts, pair, warm = st
            add({"op": "s3_enable", "imap": cfg["imap"], "lmtp": False, "timeout": 2})
            for wi, (wkey, wparts) in enumerate(warm):
                raw = mk_message(wparts, False, "m%d" % nmsg)
                add({"op": "s3_script", "script": []})
                l = "l%d" % ntx
                lmtp_session(l, [wkey], separate=(wi == 1))
                add({"op": "send", "conn": l, "data": C.latin(raw) + ".\r\n", "until": "lmtp:1", "timeout_ms": 30000},
                    ("stored", nmsg, "lmtp", False, [], raw, "250", False, 1, False))
                add({"op": "send", "conn": l, "data": "QUIT\r\n", "until": "lmtp:1"})
                add({"op": "s3_state"}, ("storelog",))
                msgs.append((False, len(parsed_of(raw))))
                new_copy(wkey)
                nmsg += 1
                ntx += 1
            raw = mk_message(parts, False, "m%d" % nmsg)
            la, lb = "l%d" % ntx, "l%d" % (ntx + 1)
            lmtp_session(la, [pair[0]], separate=False)
            lmtp_session(lb, [pair[1]], separate=True)
            add({"op": "db_lock"})
            add({"op": "send", "conn": la, "data": C.latin(raw) + ".\r\n", "until": ""})
            add({"op": "send", "conn": lb, "data": C.latin(raw) + ".\r\n", "until": ""})
            add({"op": "sleep", "ms": 1500})
            add({"op": "db_unlock"})
            add({"op": "send", "conn": la, "data": "", "until": "lmtp:1", "timeout_ms": 30000},
                ("stored", nmsg, "lmtp", False, [], raw, "250", False, 1, True))
            add({"op": "send", "conn": lb, "data": "", "until": "lmtp:1", "timeout_ms": 30000},
                ("stored", nmsg + 1, "lmtp", False, [], raw, "250", False, 1, True))
            add({"op": "send", "conn": la, "data": "QUIT\r\n", "until": "lmtp:1"})
            add({"op": "send", "conn": lb, "data": "QUIT\r\n", "until": "lmtp:1"})
            add({"op": "s3_state"}, ("storelog",))
            for key in pair:
                msgs.append((False, len(parsed_of(raw))))
                new_copy(key)
                nmsg += 1
            ntx += 2
            selected.clear()
            add({"op": "s3_enable", "imap": cfg["imap"], "lmtp": cfg["lmtp"], "timeout": 2})
        elif st[0] == "reads":
            selected.clear()
            if st[1] == "live":
                for m in range(nmsg):
                    reads_for(m, cfg["imap"], False)
            elif st[1] == "last":
                if msgs:
                    reads_for(nmsg - 1, cfg["imap"], True)
            else:
                for reader in (cfg["imap"], not cfg["imap"]):
                    add({"op": "s3_enable", "imap": reader, "lmtp": cfg["lmtp"], "timeout": 2})
                    for m in range(nmsg):
                        reads_for(m, reader, reader and st[1] != "all_clean")
                add({"op": "s3_enable", "imap": cfg["imap"], "lmtp": cfg["lmtp"], "timeout": 2})
    add({"op": "sql", "store": "shared", "q": "SELECT id, sha256_hash, storage_type, reference_count, COALESCE(content,''), COALESCE(s3_blob_id,''), content IS NULL FROM blobs ORDER BY id"}, ("blobs",))
    for store in STORES:
        add({"op": "sql", "store": store, "q": "SELECT message_id, id, blob_id, COALESCE(text_content,''), COALESCE(content_transfer_encoding,'') FROM message_parts ORDER BY message_id, id"}, ("rows", store))
    add({"op": "s3_state"}, ("bucket",))
    return ops, plan, copies


def parse_fetch(recv, item, tag):
    """payload of one FETCH item: bytes (b'' for NIL), NO when the command was answered
    with a tagged NO, None when the response is neither"""
    b = C.unlatin(recv)
    tagged = [l for l in b.split(b"\r\n") if l.startswith(tag.encode() + b" ")]
    if not tagged:
        return None
    if tagged[-1].startswith(tag.encode() + b" NO"):
        return NO
    if not tagged[-1].startswith(tag.encode() + b" OK"):
        return None
    m = re.search(re.escape(item.encode()) + rb" (\{(\d+)\}\r\n|NIL)", b)
    if not m:
        return None
    if m.group(1) == b"NIL":
        return b""
    n = int(m.group(2))
    return b[m.end():m.end() + n]


def split_multipart(msg):
    """leaf bodies of the reconstructed flat multipart message (list of bytes), None if not parseable"""
    m = re.search(rb'boundary="([^"]+)"', msg)
    if not m:
        return None
    bnd = b"--" + m.group(1)
    i = msg.find(b"\r\n\r\n")
    segs = msg[i + 4:].split(bnd + b"\r\n")
    if len(segs) < 2:
        return []
    out = []
    segs = segs[1:]
    last = segs[-1]
    j = last.rfind(bnd + b"--")
    if j < 0:
        return None
    segs[-1] = last[:j]
    for s in segs:
        k = s.find(b"\r\n\r\n")
        if k < 0:
            return None
        out.append(s[k + 4:])
    return out


def steps_json(steps):
    out = []
    for st in steps:
        if st[0] == "store":
            out.append(["store", st[1], list(st[2]), [[e, C.latin(t), fn] for (e, t, fn) in st[3]], st[4]] + ([list(st[5])] if len(st) > 5 else []))
        elif st[0] == "lose":
            out.append(["lose", None if st[1] is None else [C.latin(x) for x in st[1]]])
        elif st[0] == "race":
            out.append(["race", [[e, C.latin(t), fn] for (e, t, fn) in st[1]], list(st[2]),
                        [[k, [[e, C.latin(t), fn] for (e, t, fn) in ps]] for (k, ps) in st[3]]])
        else:
            out.append(list(st))
    return out


def steps_unjson(steps):
    out = []
    for st in steps:
        if st[0] == "store":
            st = ("store", st[1], st[2], [(e, C.unlatin(t), fn) for (e, t, fn) in st[3]], st[4]) + ((list(st[5]),) if len(st) > 5 else ())
        elif st[0] == "lose":
            st = ("lose", None if st[1] is None else [C.unlatin(x) for x in st[1]])
        elif st[0] == "race":
            st = ("race", [(e, C.unlatin(t), fn) for (e, t, fn) in st[1]], list(st[2]),
                  [(k, [(e, C.unlatin(t), fn) for (e, t, fn) in ps]) for (k, ps) in st[3]])
        out.append(tuple(st))
    return out


def effective(log):
    """Drop transport-level retries from a request log: net/http re-sends an
    idempotent request (HEAD/GET) once when a reused connection is closed under
    it, so a scripted "drop" may be followed by the same request again. What
    the caller of the SDK saw is the outcome of the last attempt."""
    out = []
    for i, ent in enumerate(log):
        meth, path, beh = ent.split(" ")
        if beh == "drop" and i + 1 < len(log) and log[i + 1].split(" ")[:2] == [meth, path]:
            continue
        out.append(ent)
    return out


def oracle_of(log):
    return C.coq_list(["OOk" if e.split(" ")[2] == "ok" else "OFail" for e in log])


OUTC = {"ok": "OOk"}


def coq_oracle(script):
    return C.coq_list([OUTC.get(x, "OFail") for x in script])


# --------------------------------------------------------------------------

def run_blobs(chk, nscen):
    rng = chk.rng
    thorough = chk.tier == "thorough"
    scen = [gen_scenario(rng, i, thorough) for i in range(nscen)]
    return judge_scenarios(chk, scen, rng)


def judge_scenarios(chk, scen, rng, corpus_expect=None):
    # pre-run: what the real MIME parser hands to the store loop for each raw message
    raws = []
    for steps in scen:
        for st in steps:
            if st[0] == "store":
                raws.append(mk_message(st[3], st[4], "m"))
            elif st[0] == "race":
                raws.append(mk_message(st[1], False, "m"))
                raws += [mk_message(ps, False, "m") for (_, ps) in st[3]]
    pre = C.run_ops([{"op": "batch", "fn": "parseMIMEParts", "cases": [{"a": [C.latin(r)]} for r in raws]}], timeout=300)
    if pre.get("crashed") or "rs" not in pre["obs"][0]:
        chk.broken_obligation("driver failed on the C15 parse pre-run: %s" % str(pre)[:400])
        return 0
    parsed = {}
    for r, p in zip(raws, pre["obs"][0]["rs"]):
        if p.get("err") or "panic" in p:
            parsed[hashlib.sha1(r).hexdigest()] = []
        else:
            parsed[hashlib.sha1(r).hexdigest()] = [(C.unlatin(x["enc"]), C.unlatin(x["content"]), C.unlatin(x["filename"]) != b"", C.unlatin(x["hashed"]))
                                                    for x in p["parts"]]

    def parsed_of(raw):
        # subject differs per message; parts do not depend on it
        key = re.sub(rb"Subject: m\d*\r\n", b"Subject: m\r\n", raw, count=1)
        return parsed[hashlib.sha1(key).hexdigest()]

    compiled = [compile_scenario(steps, rng, parsed_of) for steps in scen]
    results = C.run_many([ops for ops, _, _ in compiled], workers=12, timeout=900)

    T = Interner()
    body_defs = []
    layout = []     # per scenario: dict describing result positions
    for si, ((ops, plan, copies), res) in enumerate(zip(compiled, results)):
        if res.get("crashed") or len(res["obs"]) != len(ops):
            chk.broken_obligation("driver crashed in C15 blobs scenario %d: %s" % (si, res.get("stderr", "")[:300]), {"suite": "blobs", "steps": steps_json(scen[si])})
            layout.append(None)
            continue
        obs = res["obs"]
        H = {}          # sha256 hex -> octets
        evs = []        # Coq events
        storelog = []   # impl store requests
        reads = []      # (prefix_len, reader, m, k, script, impl bytes, descr)
        readalls = []
        sent = []       # per message: parsed parts
        anomalies = []
        rows_by_store = {}
        i = 0
        while i < len(ops):
            p = plan[i]
            o = obs[i]
            if p is None:
                if "error" in o or "panic" in o:
                    anomalies.append("op %s failed: %s" % (ops[i].get("op"), str(o)[:200]))
                i += 1
                continue
            if p[0] == "cmd":
                if ("%s OK" % p[1]) not in o.get("recv", ""):
                    anomalies.append("%s was not answered OK: %r" % (p[2], o.get("recv", "")[:120]))
            elif p[0] == "ident":
                if o.get("id") != p[1]:
                    anomalies.append("unexpected user / role id %r (expected %d)" % (o, p[1]))
            elif p[0] == "rcpt":
                if not o.get("recv", "").startswith("250"):
                    anomalies.append("RCPT was not accepted: %r" % o.get("recv", "")[:100])
            elif p[0] == "stored":
                _, m, side, writer_s3, script, raw, expect, dblocked, nrcpt, racing = p
                parts = parsed_of(raw)
                recv = o.get("recv", "")
                if o.get("skipped") or recv.count(expect) < nrcpt:
                    anomalies.append("store of message %d through %s (%d recipient(s)) was not accepted for every recipient: %r" % (m, side, nrcpt, recv[:200]))
                for (enc, content, named, hashed) in parts:
                    H[sha(content)] = content
                    H[sha(hashed)] = hashed
                j = i + 1
                while plan[j] is None or plan[j][0] != "storelog":
                    j += 1
                evlog = effective(obs[j].get("log") or [])
                for ri in range(nrcpt):
                    sent.append(parts)
                    # several recipients: only unscripted transactions (every outcome ok), so each
                    # recipient's store loop sees an all-ok oracle
                    orc = oracle_of(evlog) if nrcpt == 1 else "[]"
                    dorc = ("@DORC%d@" % (m + ri)) if racing else C.coq_list(["OFail"] * len(parts) if dblocked else [])
                    evs.append("EStore %s %s %s %s" % (C.coq_bool(writer_s3), orc, dorc, C.coq_list(
                        ["mkPart %s %s %s" % (T(enc), T(content), C.coq_bool(named)) for (enc, content, named, _) in parts])))
            elif p[0] == "lose":
                if p[1] is None:
                    evs.append("ELose (map fst (w_objs (crun %s)))" % C.coq_list(list(evs)))
                else:
                    evs.append("ELose %s" % C.coq_list(["(cokey %s)" % T(x) for x in p[1]]))
            elif p[0] == "storelog":
                storelog += effective(o.get("log") or [])
            elif p[0] in ("read", "readall"):
                glog = effective(obs[i + 1].get("log") or [])
                if p[0] == "read":
                    _, m, k, reader, script, t, item = p
                    reads.append((len(evs), reader, m, k, script, parse_fetch(o.get("recv", ""), item, t), glog, item))
                else:
                    _, m, reader, script, t, single = p
                    readalls.append((len(evs), reader, m, script, parse_fetch(o.get("recv", ""), "BODY[]", t), glog, single))
            elif p[0] == "blobs":
                blobs = o.get("rows") or []
            elif p[0] == "rows":
                rows_by_store[p[1]] = o.get("rows") or []
            elif p[0] == "bucket":
                bucket = o.get("objects") or []
            i += 1

        def req(s):
            meth, path, _ = s.split(" ")
            hx = path.rsplit("/", 1)[1]
            c = H.get(hx)
            con = {"HEAD": "RHead", "PUT": "RPut", "GET": "RGet"}.get(meth, "RGet")
            return "%s %s" % (con, ("(cokey %s)" % T(c)) if c is not None else T(b"?unresolved " + hx.encode()))

        # observed blobs table
        oblobs = []
        for (bid, hx, stype, refs, content, s3id, isnull) in blobs:
            keyb = H.get(hx)
            keyt = T(keyb) if keyb is not None else T(b"?unresolved " + hx.encode())
            if stype == "s3":
                c = H.get(s3id)
                form = "FS3 %s" % (("(cokey %s)" % T(c)) if c is not None else T(b"?unresolved " + s3id.encode()))
            else:
                form = "FLocal %s" % T(C.unlatin(content))
            oblobs.append("mkBlob %s (%s) %d" % (keyt, form, refs))
            if bid != len(oblobs):
                anomalies.append("blob ids are not 1..n: a blob row was deleted")
        # observed bucket
        oobjs = []
        for ent in bucket:
            name, ln = ent.rsplit(":", 1)
            c = H.get(name.rsplit("/", 1)[1])
            if c is None or len(c) != int(ln):
                oobjs.append(T(b"?unresolved " + name.encode()))
            else:
                oobjs.append(T(c))
        # observed rows grouped by message; model message m = m-th stored copy, which is
        # the j-th message of the store file it went to
        groups = {}
        for store, rws in rows_by_store.items():
            by_msg = {}
            for (mid, rid, blob, text, enc) in rws:
                by_msg.setdefault(mid, []).append((blob, C.unlatin(text), C.unlatin(enc)))
            groups[store] = [by_msg[mid] for mid in sorted(by_msg)]
        if sum(len(g) for g in groups.values()) != len(copies):
            anomalies.append("%d messages in the stores, %d copies were delivered" % (sum(len(g) for g in groups.values()), len(copies)))
        omsgs = []
        for mi, (store, conn, mbox, seq) in enumerate(copies):
            parts = sent[mi] if mi < len(sent) else []
            grp = groups.get(store, [])
            rws = grp[seq - 1] if seq - 1 < len(grp) else []
            l = []
            for ri, (blob, text, enc) in enumerate(rws):
                own = parts[ri][1] if ri < len(parts) else b"?no such part"
                penc = parts[ri][0] if ri < len(parts) else enc
                l.append("orow %s %s %s %s" % ("None" if blob is None else "(Some %d)" % blob, T(text), T(penc), T(own)))
            omsgs.append(C.coq_list(l))
        # a store that raced with another one for the same new hash: the loser's INSERT fails
        # on UNIQUE(sha256_hash) (database outcome OFail: part inline). Which session lost is the
        # scheduler's choice; it is read off the observed rows (c15_interleaved_store_is_sequential).
        for mi, (store, conn, mbox, seq) in enumerate(copies):
            grp = groups.get(store, [])
            rws = grp[seq - 1] if seq - 1 < len(grp) else []
            parts = sent[mi] if mi < len(sent) else []
            lost = any(blob is None and ri < len(parts) and (parts[ri][2] or len(parts[ri][1]) > 1024) for ri, (blob, text, enc) in enumerate(rws))
            evs = [e.replace("@DORC%d@" % mi, C.coq_list(["OFail"] * len(parts) if lost else [])) for e in evs]
        pfx = "s%d" % si
        d = ["Definition %s_evs : list event := %s." % (pfx, C.coq_list(evs)),
             "Definition %s_bl : list blobrow := %s." % (pfx, C.coq_list(oblobs)),
             "Definition %s_ms : list (list partrow) := %s." % (pfx, C.coq_list(omsgs))]
        stt = "[state_diff (wat ws %d) %s_bl %s %s_ms %s; if state_spec_ok %s_bl %s_ms then 0 else 1]" % (
            len(evs), pfx, C.coq_list(oobjs), pfx, C.coq_list([req(s) for s in storelog]), pfx, pfx)
        rc = []
        for (n, reader, m, k, script, impl, glog, item) in reads:
            impl_t = "None" if impl is NO else "(Some %s)" % T(impl if impl is not None else b"?no FETCH data")
            rc.append("read_code (wat ws %d) %s %d %d %s %s %s" % (n, C.coq_bool(reader), m, k, oracle_of(glog), impl_t, C.coq_list([req(s) for s in glog])))
        ra = []
        for (n, reader, m, script, impl, glog, single) in readalls:
            nrows = len(sent[m]) if m < len(sent) else 0
            if impl is None or impl is NO:
                obsl = None
            elif single:
                j = impl.find(b"\r\n\r\n")
                obsl = [impl[j + 4:]] if j >= 0 else None
            else:
                segs = split_multipart(impl)
                obsl = None if segs is None or len(segs) != nrows - 1 else [b""] + segs
            if impl is NO:
                ol = "None"
            elif obsl is None:
                ol = "(Some %s)" % C.coq_list(["Some %s" % T(b"?unparseable BODY[]")] * max(nrows, 1))
            else:
                items = []
                for ri, x in enumerate(obsl):
                    enc = sent[m][ri][0] if ri < nrows else b""
                    if (not single and ri == 0) or (not single and enc.strip().lower() == b"base64"):
                        items.append("None")
                    else:
                        items.append("Some %s" % T(x))
                ol = "(Some %s)" % C.coq_list(items)
            w = "(wat ws %d)" % n
            ra.append("(if read_all_ok %s %s %d %s %s %s %s then 0 else 1) + (if msg_class %s %d then 2 else 0) + (if %s then 0 else 4)" % (
                w, C.coq_bool(reader), m, oracle_of(glog), C.coq_bool(not single), ol, C.coq_list([req(s) for s in glog]),
                w, m,
                ("msg_failed %s %s %d %s" % (w, C.coq_bool(reader), m, oracle_of(glog))) if impl is NO else "true"))
        d.append("Definition %s_res := Eval vm_compute in let ws := worlds %s_evs in (%s ++ %s ++ %s)%%list." % (
            pfx, pfx, stt, C.coq_list(rc) if rc else "(@nil nat)", C.coq_list(ra) if ra else "(@nil nat)"))
        d.append("Print %s_res." % pfx)
        body_defs.append("\n".join(d))
        layout.append({"copies": copies, "reads": reads, "readalls": readalls, "anomalies": anomalies, "nev": len(evs), "sent": sent,
                       "nblobs": len(blobs), "nreq": len(storelog)})

    body = C.COQ_CASE_HEADER + "From Raven Require Import Base.Enum Model.BlobCodec Model.Blobs Model.BlobsEq.\n"
    body += "\n".join(T.defs) + "\n" + "\n".join(body_defs) + "\n"
    rc, log = C.coq_eval_cases("C15" if corpus_expect is None else "C15corpus", body, timeout=1500)
    if rc != 0:
        chk.broken_obligation("in-Coq evaluation of the C15 blobs cases failed:\n" + log[-2500:])
        return 0

    nd = 0
    stats = {"reads": 0, "readalls": 0, "events": 0, "parts": 0, "blobs": 0, "requests": 0, "by_class": {}, "faulted_reads": 0, "class_mismatch_info": 0}
    distinct = set()
    for si, lay in enumerate(layout):
        if lay is None:
            continue
        pfx = "s%d" % si
        allr = nat_list(log, pfx + "_res")
        st = rd = ra = None
        if allr is not None and len(allr) == 2 + len(lay["reads"]) + len(lay["readalls"]):
            st, rd, ra = allr[:2], allr[2:2 + len(lay["reads"])], allr[2 + len(lay["reads"]):]
        payload = {"suite": "blobs", "steps": steps_json(scen[si])}
        if st is None or rd is None or ra is None or len(rd) != len(lay["reads"]) or len(ra) != len(lay["readalls"]):
            chk.broken_obligation("could not read the C15 results of scenario %d from Coq output" % si, payload)
            continue
        stats["events"] += lay["nev"]
        stats["parts"] += sum(len(x) for x in lay["sent"])
        stats["blobs"] += lay["nblobs"]
        stats["requests"] += lay["nreq"]
        for a in lay["anomalies"][:2]:
            nd += 1
            chk.broken_obligation("C15 blobs scenario %d: %s (the model has no refused store / command and never deletes a blob row)" % (si, a), payload)
        if st[1] != 0:
            nd += 1
            chk.violation("the observed blobs table / part rows violate the state spec (reference count = number of part rows using the blob, "
                          "one blob per hash, every part inline or in a blob under its own hash) in scenario %d" % si, payload)
        elif st[0] != 0:
            nd += 1
            what = [n for b, n in ((1, "blobs table"), (2, "bucket"), (4, "message_parts rows"), (8, "object-store request log")) if st[0] & b]
            chk.broken_obligation("correspondence blobs no longer checks: %s differ(s) from Model/Blobs.v in scenario %d; the observed state "
                                  "satisfies the state spec and no read violated the property" % (", ".join(what), si), payload)
        for code, r in zip(rd, lay["reads"]):
            (n, reader, m, k, script, impl, glog, item) = r
            stats["reads"] += 1
            if script:
                stats["faulted_reads"] += 1
            distinct.add((si, n, reader, m, k, tuple(script)))
            disagree, viol, cls = code & 1, (code >> 1) & 1, code >> 2
            where = lay["copies"][m] if m < len(lay["copies"]) else ("?", "?", "?", m + 1)
            descr = "FETCH %d %s in %s of %s (copy %d of the history) by a reader with S3 %s after %d events (script %s) returned %r" % (
                where[3], item, where[2], where[0], m, "on" if reader else "off", n, script, None if impl is None else ("a tagged NO" if impl is NO else impl[:60]))
            pl = dict(payload, read={"events": n, "reader_s3": reader, "msg": m, "part": k, "script": script})
            if code >= 99 * 1 and cls > 3:
                nd += 1
                chk.broken_obligation("C15 blobs scenario %d: the model has no row for %s" % (si, descr), pl)
            elif viol and cls in CLASSES:
                stats["by_class"][CLASSES[cls]] = stats["by_class"].get(CLASSES[cls], 0) + 1
                if disagree:
                    stats["class_mismatch_info"] += 1
                chk.violation(descr + " instead of the part's own octets", pl, cls=CLASSES[cls])
            elif viol:
                nd += 1
                chk.violation(descr + (" although no backend failed for this read" if impl is NO else
                                       " instead of the part's own octets or an error (outside every listed class)"), pl)
            elif disagree:
                if cls in CLASSES:
                    stats["class_mismatch_info"] += 1
                else:
                    nd += 1
                    chk.broken_obligation("correspondence blobs no longer checks: " + descr + ", the model predicts something else", pl)
        for code, r in zip(ra, lay["readalls"]):
            stats["readalls"] += 1
            (n, reader, m, script, impl, glog, single) = r
            if code & 4:
                nd += 1
                where = lay["copies"][m] if m < len(lay["copies"]) else ("?", "?", "?", m + 1)
                chk.violation("FETCH BODY[] of copy %d of the history (%s of %s) by a reader with S3 %s after %d events (script %s) was answered NO although no backend failed for any part" % (
                    m, where[2], where[0], "on" if reader else "off", n, script), dict(payload, readall={"events": n, "reader_s3": reader, "msg": m, "script": script}))
            elif code & 1:
                if code & 2:
                    stats["class_mismatch_info"] += 1
                else:
                    nd += 1
                    chk.broken_obligation("correspondence blobs no longer checks: FETCH %d BODY[] by a reader with S3 %s after %d events (script %s): "
                                          "leaf bodies or GET requests differ from read_rows of Model/Blobs.v" % (m + 1, "on" if reader else "off", n, script),
                                          dict(payload, readall={"events": n, "reader_s3": reader, "msg": m, "script": script}))
    return nd, stats, len(distinct)


# --------------------------------------------------------------------------
# corpus

def load_corpus():
    out = []
    for f in sorted(glob.glob(os.path.join(C.VERIF, "corpus", "C15", "*.json"))):
        d = json.load(open(f))
        steps = steps_unjson(d["steps"])
        out.append((os.path.basename(f), d.get("class"), steps))
    return out


def run(chk):
    quick = chk.tier == "quick"
    # 1. corpus witnesses of the listed findings
    corpus = load_corpus()
    if corpus:
        r = judge_scenarios(chk, [s for (_, _, s) in corpus], chk.rng, corpus_expect=True)
        if isinstance(r, tuple):
            chk.cov["corpus_scenarios"] = len(corpus)
            chk.cov["corpus_reads_by_class"] = r[1]["by_class"]
    # 2. decode suite
    nd = run_decode(chk, 1200 if quick else 12000)
    # 3. histories
    r = run_blobs(chk, 20 if quick else 160)
    if not isinstance(r, tuple):
        return
    nd2, stats, distinct = r
    chk.cov["evaluations"] = chk.cov.get("decode_cases", 0) + stats["reads"] + stats["readalls"] + stats["events"]
    chk.cov["distinct_nontrivial"] = distinct
    chk.cov["rule"] = ("decode: direct calls of decodeContentForHashing on mutated base64 / quoted-printable texts and encoding-name variants, compared with "
                       "decode_for_hashing by vm_compute; blobs: seeded histories of 5-10 messages (flat multipart with 1-3 leaf parts or single part; "
                       "plain / 7bit / 8bit / base64 in several wrappings / quoted-printable / unknown and broken encodings; equal and unequal octets; "
                       "named small parts and unnamed parts of 1020..1500 octets around the 1024 threshold) stored through LMTP or IMAP APPEND with the "
                       "fake S3 enabled/disabled per side (re-drawn during the history), scripted faults ok/500/404/dropped connection on HEAD/PUT/GET, "
                       "objects vanishing; then blobs table, part rows, bucket, request log and FETCH BODY[n] and BODY[] of every message under both reader "
                       "configurations. distinct_nontrivial = distinct (scenario, history prefix, reader configuration, message, part, read script) BODY[n] reads "
                       "of out-of-line-eligible messages judged by the spec")
    chk.cov["blobs_stats"] = stats
    chk.cov["traces_validated_against_impl"] = stats["events"]
    chk.cov["disagreements_checked"] = nd + nd2
    chk.cov["timeouts_note"] = "object-store timeouts are not scripted (the fake answers 500 / 404 / drops the connection); every SDK error takes the same branch in s3.go"


def replay(path):
    d = json.load(open(path))
    print(json.dumps({k: d[k] for k in d if k != "steps"}, indent=1)[:3000])
    if d.get("suite") == "decode":
        print(C.run_ops([{"op": "call", "fn": "decodeContentForHashing", "a": [d["content"], d["encoding"]]}]))
        return 0
    if d.get("suite") == "blobs" and "steps" in d:
        chk = C.Check("C15", "quick", 1)
        steps = steps_unjson(d["steps"])
        r = judge_scenarios(chk, [steps], chk.rng, corpus_expect=True)
        print("result:", r)
        for v in chk.violations:
            print("  ", v[1][:400])
        print("known:", chk.known_seen)
    return 0
