"""C13 — every IMAP response is well-formed, whatever the stored data.

Correspondence of Model/Respond.v + Model/RespondFetch.v with
internal/server/response/{envelope,bodystructure}.go,
internal/server/message/fetch.go and internal/server/mailbox/mailbox.go:

  calls  direct calls of QuoteOrNIL / extractHeader / parseAddressList /
         BuildEnvelope on hostile strings, model evaluated inside Coq;
  wire   IMAP sessions over stored hostile messages and mailbox names; the RAW
         server byte stream is judged by the strict recogniser (Python twin of
         Spec/Grammar.v, cross-checked against the Coq recogniser on the same
         bytes in every run) and by the request-level oracle (each requested
         item once, with its own value); the model's predicted FETCH line is
         compared with the observed one inside Coq.
"""
import glob
import json
import os
import re

import common as C
import c13_twin as T

PID = "C13"


def cstr(b):
    """Coq term of type str: printable runs as string literals, other bytes as
    binary numerals (parses much faster than the unary nat form)."""
    if isinstance(b, str):
        b = b.encode("latin-1")
    if not b:
        return "(@nil Ascii.ascii)"
    chunks = []
    i = 0
    n = len(b)
    while i < n:
        j = i
        while j < n and 32 <= b[j] < 127:
            j += 1
        if j > i:
            chunks.append('S_ "%s"' % b[i:j].decode("ascii").replace('"', '""'))
            i = j
        j = i
        while j < n and not (32 <= b[j] < 127):
            j += 1
        if j > i:
            chunks.append("bsn [%s]%%N" % ";".join(str(c) for c in b[i:j]))
            i = j
    return "(" + " ++ ".join(chunks) + ")"

USER = "alice@example.com"
CLS_CODES = {0: None}

# ---------------------------------------------------------------------------
# generators

HOSTILE = [b'"', b'\\', b'(', b')', b'{5}', b'{', b'}', b'\xe9', b'\xc3\xa9', b'\xff', b'[', b']', b'%', b'*',
           b' ', b'  ', b'NIL', b'\\"', b'\\\\', b'a', b'Zed', b'0', b';', b'=', b"'"]
ADDR_NAMES = [b'', b'Bob', b'"Bob Q"', b'"Q \\"uo\\\\te"', b'B(o)b', b'{3}', b'\xe9ve', b'a"b', b'back\\slash', b'(c)']
LOCALS = [b'a', b'bob', b'"x y"', b'a(b', b'p{1}', b'q\\r', b'\xe9']
HOSTS = [b'b.c', b'example.com', b'h)', b'[1.2.3.4]', b'']
BODY_LINES = [b'* 1 FETCH (FLAGS ())', b'A1 OK done', b'{5}', b')', b'* 1 FETCH (BODY[] {3}', b'abc', b'"', b'\\',
              b'plain text line', b'\xe9t\xe9', b'(((', b'x4 OK FETCH completed', b'', b'--b1', b'.']


RAW_LINES = [b"nul \x00 inside", b"\x00", b"\x00lead", b"trail\x00", b"lone\rcr", b"\rstart", b"lone\nlf", b"\x80\x81\xfe\xff", b"\xc2\x85\xe2\x80\xa8",
             b"{5}", b")", b"* 1 FETCH (BODY[] {3}", b"A1 OK done", b"\x00\x00\x00", b"a\x00b\x00c", b"\x7f\x01\x1b[0m"]
EDGE_HEADS = [b"", b"", b"\x00", b")\r\n* 1 FETCH (FLAGS ())\r\n", b"{5}\r\n", b"\r\nA1 OK done\r\n", b"\n", b"\r", b"\xff"]
EDGE_TAILS = [b"", b"", b"\x00", b"\r\nA1 OK done", b")\r\n* 1 FETCH (BODY[] {5}", b"{5}", b"\r", b"\n", b"\x00\r\n", b")"]


def raw_body(rng):
    """body with NUL, lone CR, lone LF, 0x80-0xFF and response look-alikes, also at its first and last octets
    (the boundaries of the literal that carries it)"""
    lines = [rng.choice(RAW_LINES + BODY_LINES) for _ in range(rng.randint(0, 5))]
    return rng.choice(EDGE_HEADS) + rng.choice([b"\r\n", b"\r\n", b"\n"]).join(lines) + rng.choice(EDGE_TAILS)


def hostile_text(rng, n):
    return b"".join(rng.choice(HOSTILE) for _ in range(rng.randint(0, n))).strip()


def gen_addr(rng):
    name = rng.choice(ADDR_NAMES)
    local = rng.choice(LOCALS)
    host = rng.choice(HOSTS)
    email = local + (b"@" + host if host or rng.random() < 0.5 else b"")
    k = rng.random()
    if k < 0.5:
        return name + b" <" + email + b">"
    if k < 0.8:
        return email
    return b"(" + rng.choice([b"c", b"x y"]) + b") " + email


def gen_addrs(rng):
    return b", ".join(gen_addr(rng) for _ in range(rng.randint(1, 3)))


def fold(rng, v):
    if len(v) > 6 and rng.random() < 0.3:
        k = rng.randint(1, len(v) - 1)
        return v[:k] + b"\r\n" + rng.choice([b" ", b"\t"]) + v[k:]
    return v


def gen_message(rng, allow_cr=False):
    """-> dict(raw, multipart)"""
    h = []
    if rng.random() < 0.9:
        h.append(b"From: " + fold(rng, gen_addrs(rng)))
    if rng.random() < 0.8:
        h.append(b"To: " + gen_addrs(rng))
    if rng.random() < 0.3:
        h.append(b"Cc: " + gen_addrs(rng))
    if rng.random() < 0.2:
        h.append(b"Sender: " + gen_addr(rng))
    if rng.random() < 0.2:
        h.append(b"Reply-To: " + gen_addrs(rng))
    subj = hostile_text(rng, 10)
    if rng.random() < 0.15:
        subj = subj + b"L" * rng.randint(200, 700)
    if allow_cr and rng.random() < 0.5:
        subj = b"a\rb" + subj
    if rng.random() < 0.9:
        h.append(b"Subject: " + fold(rng, subj))
    if rng.random() < 0.7:
        h.append(b"Date: " + rng.choice([b"Mon, 1 Jan 2024 00:00:00 +0000", b'"quoted" date', b"(1)"]))
    if rng.random() < 0.7:
        h.append(b"Message-ID: " + rng.choice([b"<m1@x>", b'<"q"@x>', b"<a\\b@x>", b"{9}"]))
    if rng.random() < 0.3:
        h.append(b"In-Reply-To: " + hostile_text(rng, 4))
    if rng.random() < 0.3:
        h.append(b"X-Hostile: " + hostile_text(rng, 8))
    rng.shuffle(h)
    multipart = rng.random() < 0.35
    lines = [rng.choice(BODY_LINES) for _ in range(rng.randint(0, 5))]
    mime_mode = rng.random() < 0.5
    if mime_mode and multipart:
        hl, body = gen_entity(rng, 0, [0])
        h += hl
    elif mime_mode:
        h += mime_headers(rng)
        body = b"\r\n".join(lines) + (b"\r\n" if lines else b"")
    elif multipart:
        h.append(b'Content-Type: multipart/mixed; boundary="b1"')
        p1 = b"\r\n".join(rng.choice(BODY_LINES[:12]) for _ in range(rng.randint(1, 3)))
        p2 = b"\r\n".join(rng.choice(BODY_LINES[:12]) for _ in range(rng.randint(1, 3)))
        body = (b"--b1\r\nContent-Type: text/plain; charset=utf-8\r\n\r\n" + p1 +
                b"\r\n--b1\r\nContent-Type: text/x-h; name=\"a\\\"b.txt\"\r\nContent-Disposition: attachment; filename=\"f(1).txt\"\r\n\r\n" + p2 +
                b"\r\n--b1--\r\n")
    else:
        if rng.random() < 0.4:
            h.append(b"Content-Type: " + rng.choice([b"text/plain; charset=utf-8", b'text/html; charset="x\\"y"',
                                                    b"application/x-q; name=\"(n)\"", b"text/plain"]))
        body = b"\r\n".join(lines) + (b"\r\n" if lines else b"")
    raw_mode = rng.random() < 0.4
    if raw_mode:
        if rng.random() < 0.5:
            h.append(b"X-Raw: " + rng.choice([b"v\x00w", b"\x00", b"a\x80\xffb", b"nul\x00 {5} )", b"\x01\x7f"]))
        if not multipart:
            body = raw_body(rng)
    raw = b"\r\n".join(h) + b"\r\n\r\n" + body
    if len(raw) == 0:
        raw = b"\r\n"
    via = "append"
    if raw_mode and rng.random() < 0.4 and b"\r\nTo:" in b"\r\n" + raw and raw.endswith(b"\r\n"):
        via = "lmtp"
    return {"raw": raw, "multipart": multipart, "via": via}


MIME_HOSTILE = [b'"', b'\\', b'(', b')', b'{5}', b'{', b'}', b'[', b']', b'%', b'*', b';', b'=', b"'", b' ', b'a', b'Z9', b'NIL', b'\\"', b'x-dos\\path', b'"8bit"', b'8bit']
CTE_VALUES = [b'7bit', b'8bit', b'base64', b'quoted-printable', b'"8bit"', b'x-dos\\path', b'bin"ary', b'(7bit)', b'{3}', b'x y', b'', b'Q' * 300, b'a\\', b'""']


def mime_text(rng, n, eight=True):
    t = b"".join(rng.choice(MIME_HOSTILE + ([b"\xe9", b"\xc3\xa9"] if eight else [])) for _ in range(rng.randint(0, n))).strip()
    if rng.random() < 0.08:
        t += b"W" * rng.randint(200, 500)
    return t


def qparam(v):
    """a MIME quoted-string carrying v"""
    return b'"' + v.replace(b"\\", b"\\\\").replace(b'"', b'\\"') + b'"'


def mime_headers(rng, ctype=None):
    """header lines for the MIME fields that reach BODYSTRUCTURE"""
    h = []
    if ctype is None:
        base = rng.choice([b"text/plain", b"text/html", b"application/octet-stream", b"image/x-q", b"text/x-h", b"message/x-z"])
        params = []
        if rng.random() < 0.6:
            params.append(b"charset=" + rng.choice([b"utf-8", b"us-ascii", qparam(mime_text(rng, 3, False) or b"c"), b'"x\\"y"']))
        if rng.random() < 0.4:
            params.append(b"name=" + qparam(mime_text(rng, 4) or b"n"))
        if rng.random() < 0.3:
            params.append(rng.choice([b"x-unk", b"format", b"a1"]) + b"=" + rng.choice([b"flowed", qparam(mime_text(rng, 3) or b"v"), b"1"]))
        if rng.random() < 0.7:
            ctype = base + b"".join(b"; " + x for x in params)
    if ctype is not None:
        h.append(b"Content-Type: " + ctype)
    if rng.random() < 0.7:
        h.append(b"Content-Transfer-Encoding: " + (rng.choice(CTE_VALUES) if rng.random() < 0.7 else mime_text(rng, 3, False)))
    if rng.random() < 0.4:
        h.append(b"Content-ID: " + rng.choice([b"<id1@x>", b'<a"b\\c@x>', b"<(i)>", b"{9}", mime_text(rng, 4)]))
    if rng.random() < 0.4:
        h.append(b"Content-Description: " + mime_text(rng, 6))
    if rng.random() < 0.5:
        d = rng.choice([b"attachment", b"inline", b"x-odd", b'at"t'])
        ps = []
        if rng.random() < 0.7:
            ps.append(b"filename=" + qparam(mime_text(rng, 4) or b"f"))
        if rng.random() < 0.3:
            ps.append(rng.choice([b"size", b"x-p", b"creation-date"]) + b"=" + rng.choice([b"12", qparam(mime_text(rng, 3) or b"v")]))
        h.append(b"Content-Disposition: " + d + b"".join(b"; " + x for x in ps))
    if rng.random() < 0.2:
        h.append(b"Content-Language: " + mime_text(rng, 3))
    if rng.random() < 0.2:
        h.append(b"Content-Location: " + mime_text(rng, 3))
    if rng.random() < 0.2:
        h.append(b"Content-MD5: " + mime_text(rng, 3))
    rng.shuffle(h)
    return h


def gen_entity(rng, depth, bcount):
    """-> (header lines, body bytes) of a MIME entity: a leaf, or a multipart with 1-3 children down to depth 3"""
    if depth < 3 and (depth == 0 or rng.random() < 0.3):
        bcount[0] += 1
        b = rng.choice([b"b%d" % bcount[0], b"b(%d)" % bcount[0], b"b'%d=_x" % bcount[0], b"B%d+/" % bcount[0]])
        sub = rng.choice([b"mixed", b"alternative", b"related", b"x-odd"])
        hl = [b"Content-Type: multipart/" + sub + b"; boundary=" + qparam(b)]
        if depth > 0 and rng.random() < 0.3:
            hl += [x for x in mime_headers(rng, ctype=b"") if not x.startswith(b"Content-Type")]
        parts = []
        for _ in range(rng.randint(1, 3)):
            ch, cb = gen_entity(rng, depth + 1, bcount)
            parts.append(b"--" + b + b"\r\n" + b"".join(x + b"\r\n" for x in ch) + b"\r\n" + cb + b"\r\n")
        return hl, b"".join(parts) + b"--" + b + b"--\r\n"
    body = b"\r\n".join(rng.choice(BODY_LINES[:12]) for _ in range(rng.randint(1, 3)))
    return mime_headers(rng), body


NAME_BYTES = [b"a", b"B", b"box", b"/", b'"', b"\\", b"{", b"}", b"(", b")", b"%", b"*", b"\xe9", b"&", b"[", b"]", b"1", b"-"]


def gen_mailbox(rng, hostile):
    while True:
        parts = [rng.choice(NAME_BYTES if hostile else NAME_BYTES[:4] + NAME_BYTES[6:]) for _ in range(rng.randint(1, 5))]
        n = b"".join(parts).strip(b'"').rstrip(b"/")
        if n and n.upper() != b"INBOX" and not n.startswith(b"/") and b"//" not in n and not n.upper().startswith(b"ROLES"):
            return n


# ---- FETCH requests (AST)

SIMPLE = ["UID", "FLAGS", "INTERNALDATE", "RFC822.SIZE", "ENVELOPE", "BODYSTRUCTURE", "BODY", "RFC822", "RFC822.HEADER", "RFC822.TEXT"]
FIELD_NAMES = ["Subject", "FROM", "to", "Date", "X-Hostile", "Message-ID", "Cc", "Content-Type"]


def gen_item(rng, multipart):
    k = rng.random()
    if k < 0.55:
        return {"k": rng.choice(SIMPLE[:7] if rng.random() < 0.8 else SIMPLE)}
    peek = rng.random() < 0.4
    s = rng.random()
    if s < 0.25:
        sec = ("TEXT",)
    elif s < 0.45:
        sec = ("HEADER",)
    elif s < 0.6:
        sec = ("ALL",)
    elif s < 0.8:
        sec = ("FIELDS", rng.sample(FIELD_NAMES, rng.randint(1, 3)))
    else:
        sec = ("PART", rng.choice(["1", "2", "1", "3", "1.1"] if multipart else ["1", "1", "2"]), rng.random() < 0.2)
    partial = None
    if rng.random() < 0.12:
        partial = (rng.choice([0, 0, 3, 50]), rng.choice([1, 5, 2048]))
    return {"k": "SEC", "peek": peek, "sec": sec, "partial": partial}


def sec_text(sec):
    if sec[0] == "TEXT":
        return "TEXT"
    if sec[0] == "HEADER":
        return "HEADER"
    if sec[0] == "ALL":
        return ""
    if sec[0] == "FIELDS":
        return "HEADER.FIELDS (%s)" % " ".join(sec[1])
    return sec[1] + (".MIME" if sec[2] else "")


def render_item(it):
    if it["k"] != "SEC":
        return it["k"]
    s = ("BODY.PEEK[" if it["peek"] else "BODY[") + sec_text(it["sec"]) + "]"
    if it["partial"]:
        s += "<%d.%d>" % it["partial"]
    return s


def expected_name(it):
    if it["k"] != "SEC":
        return it["k"].upper()
    s = "BODY[" + sec_text(it["sec"]).upper() + "]"
    if it["partial"]:
        s += "<%d>" % it["partial"][0]
    return s


def gen_request(rng, multipart):
    n = rng.choice([1, 1, 2, 2, 3, 4, 5])
    items = []
    for _ in range(n):
        it = gen_item(rng, multipart)
        if expected_name(it) not in [expected_name(x) for x in items]:
            items.append(it)
    return items


def render_request(rng, items):
    txt = " ".join(render_item(i) for i in items)
    if rng is not None and rng.random() < 0.15:
        txt = txt.lower()
    if len(items) > 1 or (rng is not None and rng.random() < 0.5):
        txt = "(" + txt + ")"
    return txt


def shape_class(items, fail):
    """the one remaining 'requested item appears once under its own name' deviation:
    a requested RFC822 is answered as BODY[] (raven's own test suite asserts it)"""
    if not items or not fail or fail[1] is None:
        return None
    kind, j = fail
    if kind == "missing" and items[j]["k"] == "RFC822":
        return "rfc822_renamed"
    return None


# ---------------------------------------------------------------------------
# scenarios

def cmd(conn, tag, text):
    if isinstance(text, str):
        text = text.encode("latin-1")
    return {"op": "send", "conn": conn, "data": C.latin(tag.encode() + b" " + text + b"\r\n"), "until": "tag:" + tag}


def append_op(conn, tag, raw, flags=b""):
    d = tag.encode() + b" APPEND INBOX " + (b"(" + flags + b") " if flags else b"") + b"{%d+}\r\n" % len(raw) + raw + b"\r\n"
    return {"op": "send", "conn": conn, "data": C.latin(d), "until": "tag:" + tag}


PROBE_PARTS = ["1", "2", "3", "1.1", "1.MIME", "2.MIME", "3.MIME", "1.1.MIME"]


def build_scenario(sc):
    """sc: dict(messages=[{raw, flags}], mailboxes=[bytes], stores=[bytes cmd], requests=[(msgidx, text, uidmode)])
    -> (ops, index) where index maps op position -> meaning"""
    ops = [{"op": "open", "conn": "c", "kind": "tls"}]
    idx = [("open", None)]
    t = [0]

    def tag():
        t[0] += 1
        return "q%dz" % t[0]

    def add(kind, info, op):
        ops.append(op)
        idx.append((kind, info))

    add("cmd", None, cmd("c", tag(), "LOGIN %s pw" % USER))
    for mb in sc["mailboxes"]:
        add("cmd", None, cmd("c", tag(), b"CREATE " + mb))
        add("cmd", None, cmd("c", tag(), b"SUBSCRIBE " + mb))
    for m in sc["messages"]:
        if m.get("via") != "lmtp":
            add("append", None, append_op("c", tag(), m["raw"], m.get("flags", b"")))
    lm = [m for m in sc["messages"] if m.get("via") == "lmtp"]
    if lm:
        add("lmtp", None, {"op": "lmtp_open", "conn": "l"})
        add("lmtp", None, {"op": "send", "conn": "l", "data": "LHLO x\r\n", "until": "lmtp:1"})
        for m in lm:
            stuffed = b"\r\n".join((b"." + ln if ln.startswith(b".") else ln) for ln in m["raw"].split(b"\r\n"))
            add("lmtp", None, {"op": "send", "conn": "l", "data": "MAIL FROM:<sender@example.com>\r\n", "until": "lmtp:1"})
            add("lmtp", None, {"op": "send", "conn": "l", "data": "RCPT TO:<%s>\r\n" % USER, "until": "lmtp:1"})
            add("lmtp", None, {"op": "send", "conn": "l", "data": "DATA\r\n", "until": "lmtp:1"})
            add("deliver", None, {"op": "send", "conn": "l", "data": C.latin(stuffed + b".\r\n"), "until": "lmtp:1"})
    add("cmd", None, cmd("c", tag(), "SELECT INBOX"))
    for s in sc.get("stores", []):
        add("cmd", None, cmd("c", tag(), s))
    add("sql", None, {"op": "sql", "store": "user_db_1",
                      "q": "SELECT mm.uid, mm.flags FROM message_mailbox mm JOIN mailboxes mb ON mb.id = mm.mailbox_id WHERE mb.name = 'INBOX' ORDER BY mm.uid"})
    order = [i for i, m in enumerate(sc["messages"]) if m.get("via") != "lmtp"] + [i for i, m in enumerate(sc["messages"]) if m.get("via") == "lmtp"]
    seqno = {mi: k + 1 for k, mi in enumerate(order)}
    for i in range(len(sc["messages"])):
        n = seqno[i]
        add("probe_msg", i, cmd("c", tag(), "FETCH %d:%d BODY[]" % (n, n)))
        add("probe_date", i, cmd("c", tag(), "FETCH %d:%d INTERNALDATE" % (n, n)))
        add("probe_bs", i, cmd("c", tag(), "FETCH %d:%d BODYSTRUCTURE" % (n, n)))
        for p in PROBE_PARTS:
            add("probe_part", (i, p), cmd("c", tag(), "FETCH %d:%d BODY.PEEK[%s]" % (n, n, p)))
    for k, (mi, text, uidmode) in enumerate(sc["requests"]):
        if uidmode:
            add("fetch", k, cmd("c", tag(), "UID FETCH %d %s" % (seqno[mi], text)))
        else:
            add("fetch", k, cmd("c", tag(), "FETCH %d:%d %s" % (seqno[mi], seqno[mi], text)))
    add("list", "LIST", cmd("c", tag(), 'LIST "" "*"'))
    add("list", "LSUB", cmd("c", tag(), 'LSUB "" "*"'))
    for mb in sc["mailboxes"]:
        add("status", mb, cmd("c", tag(), b"STATUS " + mb + b" (MESSAGES UIDNEXT UNSEEN)"))
    add("cmd", None, cmd("c", tag(), "LOGOUT"))
    return ops, idx


BOUNDARY_RE = re.compile(rb"(=_Part_[A-Za-z0-9.+-]+_)(\d{19})")


def canon_piece(x):
    """replace the clock digits of every regenerated boundary in x by the rank of
    the stamp among the stamps of x (boundaries are stamped in message order, so
    the rank is the pre-order index of the multipart); same length as before"""
    stamps = sorted(set(m.group(2) for m in BOUNDARY_RE.finditer(x)))
    if not stamps:
        return x
    rank = {st: i for i, st in enumerate(stamps)}
    return BOUNDARY_RE.sub(lambda m: m.group(1) + b"%019d" % rank[m.group(2)], x)


def canon(recv):
    """raven regenerates MIME boundaries from the clock on every reconstruction
    (K-bound, property C02). Every FETCH data item value is canonicalised on its
    own (so that BODY[1] alone and BODY[1] next to BODYSTRUCTURE read the same);
    lengths do not change, literal counts stay right."""
    if not BOUNDARY_RE.search(recv):
        return recv
    out = []
    lines = T.split_responses(recv)
    if b"".join(lines) != recv:
        return canon_piece(recv)
    for l in lines:
        fp = T.fetch_pairs(l) if l.startswith(b"* ") else None
        if fp is None:
            out.append(canon_piece(l))
            continue
        out.append(b"* " + fp[0] + b" FETCH (" + b" ".join(n + b" " + canon_piece(v) for n, v in fp[1]) + b")\r\n")
    return b"".join(out)


def fetch_lines(recv):
    return [l for l in T.split_responses(recv) if re.match(rb"^\* \d+ FETCH ", l)]


def single_value(recv, name):
    """value of the single item of a one-item probe response, or None"""
    ls = fetch_lines(recv)
    if len(ls) != 1:
        return None
    fp = T.fetch_pairs(ls[0])
    if fp is None:
        return None
    want = name.upper().encode() if isinstance(name, str) else name.upper()
    for n, v in fp[1]:
        if n.upper() == want:
            return v
    return None


def analyse_scenario(sc, res):
    """-> dict(envs, fetch_cases, list_cases, status_cases, stream, anomalies)"""
    ops, idx = build_scenario(sc)
    obs = res.get("obs", [])
    out = {"envs": {}, "fetch": [], "lists": [], "status": [], "stream": b"", "anomalies": [], "others": []}
    order = [i for i, m in enumerate(sc["messages"]) if m.get("via") != "lmtp"] + [i for i, m in enumerate(sc["messages"]) if m.get("via") == "lmtp"]
    if res.get("crashed") or len(obs) != len(ops):
        out["anomalies"].append("driver crashed: %s" % res.get("stderr", "")[:300])
        return out
    nmsg = len(sc["messages"])
    envs = {i: {"parts": {}} for i in range(nmsg)}
    appended = []
    for (kind, info), o in zip(idx, obs):
        recv = canon(C.unlatin(o.get("recv", ""))) if "recv" in o else b""
        if b"\x00PANIC" in recv:
            out["anomalies"].append("panic in the connection goroutine (C12): %r" % recv[-200:])
            break
        if kind in ("cmd", "append", "fetch", "list", "status") or kind.startswith("probe"):
            if o.get("how") != "ok" and not (o.get("how") == "eof" and b"LOGOUT" in recv.upper()):
                out["anomalies"].append("no tagged completion (%s) for op %s" % (o.get("how"), kind))
            out["stream"] += recv
            if kind == "cmd" or kind.startswith("probe"):
                out["others"].append({"kind": kind, "info": info, "recv": recv})
        if kind == "append":
            appended.append(b" OK " in recv)
        elif kind == "deliver":
            appended.append(recv.startswith(b"250"))
        elif kind == "sql":
            rows = o.get("rows") or []
            for k, r in enumerate(rows):
                if k < len(order):
                    envs[order[k]]["uid"] = int(r[0])
                    envs[order[k]]["flags"] = C.unlatin(r[1] or "")
        elif kind == "probe_msg":
            v = single_value(recv, "BODY[]")
            envs[info]["msg"] = T.literal_payload(v) if v is not None else None
        elif kind == "probe_date":
            v = single_value(recv, "INTERNALDATE")
            envs[info]["idate"] = v[1:-1] if v else None
        elif kind == "probe_bs":
            envs[info]["bs"] = single_value(recv, "BODYSTRUCTURE")
        elif kind == "probe_part":
            i, p = info
            v = single_value(recv, "BODY[%s]" % p)
            if v is None:
                envs[i]["parts"][p] = None
            elif v == b"NIL":
                envs[i]["parts"][p] = b""
            else:
                envs[i]["parts"][p] = T.literal_payload(v)
        elif kind == "fetch":
            mi, text, uidmode = sc["requests"][info]
            out["fetch"].append({"k": info, "mi": mi, "text": text, "uid": uidmode, "recv": recv,
                                 "ast": sc.get("asts", {}).get(info)})
        elif kind == "list":
            out["lists"].append({"kw": info, "recv": recv})
        elif kind == "status":
            out["status"].append({"name": info, "recv": recv})
    if not all(appended) or len(appended) != nmsg:
        out["anomalies"].append("APPEND / LMTP delivery refused for some message: the FETCH cases of this scenario are judged by the recogniser only (message numbers shift)")
        for fc in out["fetch"]:
            fc["ast"] = None
        for e in envs.values():
            e.pop("msg", None)
    out["envs"] = envs
    return out


# ---------------------------------------------------------------------------
# request-level oracle (independent of the model)

def hdr_body(msg):
    i = msg.find(b"\r\n\r\n")
    if i < 0:
        return [msg], b""
    return [msg[:i + 2], msg[:i + 4]], msg[i + 4:]


def judge_fetch(case, env):
    """-> (ok, reason). ok=False: the response violates the property for this request.
    case["fail"] is set to ("lexical"|"pairs", None) or ("missing"|"value", index of the item)."""
    ok, why, fail = judge_fetch_(case, env)
    case["fail"] = fail
    return ok, why


def judge_fetch_(case, env):
    recv = case["recv"]
    if not T.wf_stream(recv):
        return False, "stream not well-formed (literal count / parentheses / quoted string / line structure)", ("lexical", None)
    ls = fetch_lines(recv)
    if len(ls) == 0 and case.get("lexical_only"):
        return True, "", None
    if len(ls) != 1:
        return False, "expected exactly one untagged FETCH response, got %d" % len(ls), ("pairs", None)
    fp = T.fetch_pairs(ls[0])
    if fp is None:
        return False, "FETCH response does not parse as (item value)* pairs", ("pairs", None)
    ast = case.get("ast")
    if ast is None:
        return True, "", None
    names = [n.upper() for n, _ in fp[1]]
    msg = env.get("msg")
    for j, it in enumerate(ast):
        en = expected_name(it).encode()
        if names.count(en) != 1:
            return False, "requested item %s appears %d times in %r" % (
                en.decode(), names.count(en), [n.decode("latin-1") for n in names]), ("missing", j)
        v = fp[1][names.index(en)][1]
        why = value_problem(it, en, v, env, msg)
        if why:
            return False, why, ("value", j)
    return True, "", None


def py_extract_header(raw, name):
    """response.extractHeader on ASCII header names (mirror used by the structure oracle)"""
    want = name.upper()
    val = b""
    inh = False
    for line in raw.split(b"\n"):
        line = line.rstrip(b"\r")
        if line == b"":
            break
        if line[:1] in (b" ", b"\t"):
            if inh:
                val += b" " + line.strip(b" \t\r\n\x0b\x0c")
            continue
        i = line.find(b":")
        if i != -1:
            if line[:i].strip(b" \t\r\n\x0b\x0c").upper() == want:
                inh = True
                val += line[i + 1:].strip(b" \t\r\n\x0b\x0c")
            else:
                inh = False
    return val


def parse_struct(v, depth=0):
    """parenthesised value -> nested python lists of leaf tokens; None when malformed"""
    if depth > 40:
        return None
    if not (v.startswith(b"(") and v.endswith(b")")) or v == b"()":
        return None
    tk = T.tokens(v[1:])
    if tk is None or tk[1] != b")":
        return None
    out = []
    for t in tk[0]:
        if t.startswith(b"("):
            sub = parse_struct(t, depth + 1)
            if sub is None:
                return None
            out.append(sub)
        else:
            out.append(t)
    return out


def nstring(t):
    """decoded nstring token: (True, None) for NIL, (True, bytes) for one strict quoted string, (False, None) otherwise"""
    if t == b"NIL":
        return True, None
    if isinstance(t, bytes) and T.is_quoted_strict(t):
        return True, T.unquote(t)
    if isinstance(t, bytes) and T.is_literal_strict(t):
        return True, T.literal_payload(t)
    return False, None


def split_entity(ent):
    """(header block incl. final CRLF, body) of a MIME entity text"""
    i = ent.find(b"\r\n\r\n")
    if i < 0:
        return ent, b""
    return ent[:i + 2], ent[i + 4:]


def entity_children(ent):
    """children entity texts of a multipart entity as raven reconstructs it (boundary="..." in its
    Content-Type), or None for a leaf"""
    hd, body = split_entity(ent)
    ct = py_extract_header(hd, b"Content-Type")
    if not ct.lower().startswith(b"multipart/"):
        return None
    m = re.search(rb'boundary="([^"]*)"', ct, re.I)
    if not m:
        return None
    delim = b"--" + m.group(1)
    segs = body.split(delim)
    kids = []
    for sg in segs[1:]:
        if sg.startswith(b"--"):
            break
        if sg.startswith(b"\r\n"):
            sg = sg[2:]
        if sg.endswith(b"\r\n"):
            sg = sg[:-2]
        kids.append(sg)
    return kids


def leaf_problem(fields, ent, top):
    """a body-type-1part list against the entity it describes: every string field is NIL or ONE
    strict quoted string; encoding / id / description decode to the header values"""
    if len(fields) < 7 or any(isinstance(f, list) for f in fields[:2]):
        return "leaf with %d fields" % len(fields)
    for k in (0, 1, 3, 4, 5):
        okq, _ = nstring(fields[k]) if not isinstance(fields[k], list) else (False, None)
        if not okq:
            return "field %d is not NIL or one quoted string: %r" % (k + 1, fields[k])
    if not (fields[2] == b"NIL" or (isinstance(fields[2], list) and len(fields[2]) % 2 == 0 and all(not isinstance(x, list) and nstring(x)[0] and x != b"NIL" for x in fields[2]))):
        return "parameter list is not NIL or (string string ...): %r" % (fields[2],)
    if isinstance(fields[6], list) or not fields[6].isdigit():
        return "size field %r" % (fields[6],)
    hd, _ = split_entity(ent)
    enc = py_extract_header(hd, b"Content-Transfer-Encoding")
    want = enc.upper() if enc else b"7BIT"
    got = nstring(fields[5])[1]
    if all(c < 0x80 for c in want) and got != want:
        return "encoding field decodes to %r, the header says %r" % (got, enc)
    cid = py_extract_header(hd, b"Content-ID")
    if nstring(fields[3])[1] != (cid if cid else None):
        return "id field decodes to %r, the header says %r" % (nstring(fields[3])[1], cid)
    if top:
        desc = py_extract_header(hd, b"Content-Description")
        if nstring(fields[4])[1] != (desc if desc else None):
            return "description field decodes to %r, the header says %r" % (nstring(fields[4])[1], desc)
    # extension data: md5 / disposition / language ... : NIL, strings, or (string (params))
    for x in fields[7:]:
        if isinstance(x, list):
            if len(x) != 2 or isinstance(x[0], list) or not nstring(x[0])[0] or x[0] == b"NIL":
                return "disposition %r" % (x,)
            if not (x[1] == b"NIL" or (isinstance(x[1], list) and len(x[1]) % 2 == 0 and all(not isinstance(y, list) and nstring(y)[0] and y != b"NIL" for y in x[1]))):
                return "disposition parameters %r" % (x[1],)
        elif not (x.isdigit() or nstring(x)[0]):
            return "extension field %r" % (x,)
    return None


def bs_problem(tree, ent, top=True, depth=0):
    if tree is None:
        return "not a parenthesised structure"
    if tree and isinstance(tree[0], list):
        # multipart: children, subtype, params, ...
        kids_t = [x for x in tree if isinstance(x, list) and x and (isinstance(x[0], list) or (len(x) >= 7))]
        n = 0
        while n < len(tree) and isinstance(tree[n], list):
            n += 1
        rest = tree[n:]
        if not rest or isinstance(rest[0], list) or not nstring(rest[0])[0] or rest[0] == b"NIL":
            return "multipart subtype %r" % (rest[:1],)
        for x in rest[1:]:
            if isinstance(x, list):
                if len(x) % 2 or any(isinstance(y, list) or not nstring(y)[0] or y == b"NIL" for y in x):
                    return "multipart parameter list %r" % (x,)
            elif not nstring(x)[0]:
                return "multipart extension field %r" % (x,)
        kids_e = entity_children(ent)
        if kids_e is None or len(kids_e) != n:
            return None     # structure of the stored text not recoverable here: lexical checks only
        for t, e in zip(tree[:n], kids_e):
            why = bs_problem(t, e, False, depth + 1)
            if why:
                return why
        return None
    return leaf_problem(tree, ent, top)


def struct_ok(v, depth=0):
    """ENVELOPE / BODYSTRUCTURE values: nested lists whose leaves are NIL,
    numbers or quoted strings (RFC 3501 nstring / number), nothing else"""
    if depth > 40:
        return False
    if v == b"NIL" or v.isdigit():
        return True
    if v.startswith(b'"'):
        return T.is_quoted_strict(v)
    if v.startswith(b"{"):
        return T.is_literal_strict(v)
    if v.startswith(b"(") and v.endswith(b")"):
        if v == b"()":
            return False
        tk = T.tokens(v[1:])
        if tk is None or tk[1] != b")":
            return False
        return all(struct_ok(t, depth + 1) for t in tk[0])
    return False


def value_problem(it, en, v, env, msg):
    k = it["k"]
    if k in ("ENVELOPE", "BODYSTRUCTURE", "BODY") and not struct_ok(v):
        return "%s value is not a list of NIL / number / quoted string / list: %r" % (k, v[:200])
    if k in ("BODYSTRUCTURE", "BODY") and msg is not None:
        why = bs_problem(parse_struct(v), msg)
        if why:
            return "%s does not describe the stored MIME fields: %s" % (k, why)
    if k == "UID" and v != b"%d" % env["uid"]:
        return "UID value %r" % v
    if k == "RFC822.SIZE" and msg is not None and v != b"%d" % len(msg):
        return "RFC822.SIZE value %r, message has %d octets" % (v, len(msg))
    if k in ("FLAGS", "ENVELOPE", "BODYSTRUCTURE", "BODY") and not (v.startswith(b"(") and v.endswith(b")")):
        return "%s value is not a parenthesised list: %r" % (k, v[:60])
    if k == "ENVELOPE":
        tk = T.tokens(v[1:])
        if tk is None or tk[1] != b")" or len(tk[0]) != 10:
            return "ENVELOPE does not have 10 fields: %r" % v[:200]
    if k == "INTERNALDATE" and T.unquote(v) is None:
        return "INTERNALDATE value %r" % v
    if msg is None:
        return None
    heads, body = hdr_body(msg)
    want = None
    if k == "RFC822":
        want = [msg]
    elif k == "RFC822.TEXT":
        want = [body]
    elif k == "RFC822.HEADER":
        want = heads
    elif k == "SEC":
        s = it["sec"]
        if s[0] == "ALL":
            want = [msg]
        elif s[0] == "TEXT":
            want = [body]
        elif s[0] == "HEADER":
            want = heads
        elif s[0] == "PART":
            pv = env["parts"].get(s[1] + (".MIME" if s[2] else ""))
            want = [pv] if pv is not None else None
        if want is not None and it["partial"]:
            a, b = it["partial"]
            want = [w[a:a + b] for w in want]
    if want is not None:
        pay = T.literal_payload(v)
        got = pay if pay is not None else (b"" if v == b"NIL" else T.unquote(v))
        if got is None or got not in want:
            return "%s carries a value that is not its own (%d octets, expected %s)" % (
                en.decode(), -1 if got is None else len(got), "/".join(str(len(w)) for w in want))
    return None


def judge_list(kw, recv, known_names):
    """-> list of (ok, reason, line) for every untagged LIST/LSUB line (they carry no
    literals, so physical lines are response lines)"""
    out = []
    for l in recv.split(b"\r\n"):
        if not l.startswith(b"* " + kw.encode() + b" "):
            continue
        l += b"\r\n"
        if not T.wf_stream(l):
            out.append((False, "%s line not well-formed: %r" % (kw, l), l))
            continue
        tk = T.tokens(l[len(kw) + 3:-2])
        if tk is None or tk[1] != b"" or len(tk[0]) != 3 or not tk[0][0].startswith(b"("):
            out.append((False, "%s line does not have the shape (attrs) delimiter name: %r" % (kw, l), l))
            continue
        name = T.unquote(tk[0][2])
        if name is None or name not in known_names:
            out.append((False, "%s name read back %r is not a stored mailbox name" % (kw, name), l))
    if not T.wf_stream(recv) and not out:
        out.append((False, "%s stream not well-formed" % kw, recv))
    return out


def judge_status(name, recv):
    if not T.wf_stream(recv):
        return False, "STATUS stream not well-formed"
    for l in T.split_responses(recv):
        if not l.startswith(b"* STATUS "):
            continue
        tk = T.tokens(l[9:-2])
        if tk is None or tk[1] != b"" or len(tk[0]) != 2:
            return False, "STATUS line does not have the shape name (items): %r" % l
        if T.unquote(tk[0][0]) != name:
            return False, "STATUS name read back %r differs from %r" % (T.unquote(tk[0][0]), name)
    return True, ""


DEFAULT_BOXES = [b"INBOX", b"Sent", b"Drafts", b"Trash", b"Spam"]


# ---------------------------------------------------------------------------
# in-Coq evaluation

ADDR_HEADERS = [b"From", b"Sender", b"Reply-To", b"To", b"Cc", b"Bcc"]


def mail_parse_many(values):
    """net/mail's reading (driver call mailParse: mail.ParseAddressList + mime.QEncoding.Encode of every
    display name) of every given header value -> {value: [(name, address), ...]}; values it rejects are absent.
    This is the library parameter [mail_parse] of the model (response.parseAddressList since bd5007f)."""
    vals = sorted(set(v for v in values if v))
    if not vals:
        return {}
    res = C.run_ops([{"op": "batch", "fn": "mailParse", "cases": [{"a": [C.latin(v)]} for v in vals]}], timeout=300)
    out = {}
    if res.get("crashed"):
        return out
    for v, r in zip(vals, res["obs"][0]["rs"]):
        if isinstance(r, list) and r:
            out[v] = [(C.unlatin(r[i]), C.unlatin(r[i + 1])) for i in range(0, len(r) - 1, 2)]
    return out


def coq_mail_table(tab, keys=None):
    ks = [k for k in (keys if keys is not None else sorted(tab)) if k in tab]
    return "[" + "; ".join("(%s, [%s])" % (cstr(k), "; ".join("(%s, %s)" % (cstr(n), cstr(a)) for n, a in tab[k])) for k in ks) + "]"


def addr_values(msg):
    return [py_extract_header(msg, h) for h in ADDR_HEADERS]


def coq_env(name, e):
    parts = [(k.encode(), v) for k, v in sorted(e["parts"].items()) if v]
    # keys as requested in the probes are upper-case; requests may use other case: add lower-case twins
    plist = []
    for k, v in parts:
        plist.append("(%s, %s)" % (cstr(k), cstr(v)))
        if k.lower() != k:
            plist.append("(%s, %s)" % (cstr(k.lower()), cstr(v)))
    bs = e.get("bs") or b"NIL"
    return "Definition %s : fenv := Build_fenv %d %s %s %s %s [%s] %s.\n" % (
        name, e.get("uid", 0), cstr(e.get("flags", b"")), cstr(e.get("idate") or b""),
        cstr(e.get("msg") or b""), cstr(bs), "; ".join(plist), coq_mail_table(e.get("mail", {})))


COQ_EVAL = """
Definition items_of (uidmode : bool) (arg : str) : str :=
  if uidmode then uid_fetch_items arg else fetch_items arg.
Definition seq_of (obs : str) : nat := Z.to_nat (digits_val (fst (span_digits (skipn 2 obs) [])) 0).
(* 0 = model line equals the observed line; 1 = differs; 2 = model predicts a panic *)
Definition model_code (c : bool * str * fenv * str) : nat :=
  let '(u, arg, e, obs) := c in
  match fetch_response (seq_of obs) (items_of u arg) e with
  | Some r => if str_eqb r obs then 0 else 1
  | None => 2
  end.
Definition cls_of (c : bool * str * fenv * str) : nat := 0.
(* hypothesis of c13_fetch_assembly_ok on the model's own contributions *)
Definition okb_of (c : bool * str * fenv * str) : bool :=
  let '(u, arg, e, obs) := c in
  match fetch_plan (items_of u arg) e with Some plan => forallb out_okb plan | None => true end.
(* BuildBodyStructure, single-part branch: the fields after the parameter list
   0 = equal to Model single_tail; 1 = differ; 2 = the value does not split into tokens *)
Fixpoint lstr_eqb (a b : list str) : bool :=
  match a, b with
  | [], [] => true
  | x :: a', y :: b' => str_eqb x y && lstr_eqb a' b'
  | _, _ => false
  end.
Definition bs_single_code (c : str * str) : nat :=
  let '(msg, bs) := c in
  match tokens (S (length bs)) (skipn 1 bs) with
  | Some (t0 :: ts, rest) =>
      if str_eqb rest [RP]
      then if lstr_eqb (skipn 2 ts) (single_tail msg (str_eqb t0 (DQ :: S_ "TEXT" ++ [DQ]))) then 0 else 1
      else 2
  | _ => 2
  end.
Definition spec_of (c : bool * str * fenv * str) : bool :=
  let '(u, arg, e, obs) := c in
  wf_stream (send obs) && match fetch_pairs (send obs) with Some _ => true | None => false end.
"""


def parse_nat_list(log, ident):
    txt = C.parse_coq_list_out(log, ident)
    if txt is None:
        return None
    txt = txt.strip()
    if txt == "[]":
        return []
    return [x.strip().replace("%nat", "") for x in txt.strip("[]").split(";") if x.strip()]


# ---------------------------------------------------------------------------
# suites

def run_calls(chk, n):
    rng = chk.rng
    q_in = [hostile_text(rng, 8) for _ in range(n)] + [b"", b'"', b"\\", b'\\"', b"a\rb", b"a\nb", b"\xe9"]
    a_in = [gen_addrs(rng) for _ in range(n)] + [b"", b",", b" , ", b">a<", b"a@b@c", b"<>", b'"x" <y>', b"<a@b> trailing"]
    hdr_names = [b"Subject", b"FROM", b"to", b"X-Hostile", b"Message-ID", b"Content-Type"]
    msgs = [gen_message(rng, allow_cr=(i % 7 == 0))["raw"] for i in range(max(8, n // 4))]
    h_in = [(m, rng.choice(hdr_names)) for m in msgs for _ in range(2)]
    e_in = msgs
    ops = [
        {"op": "batch", "fn": "QuoteOrNIL", "cases": [{"a": [C.latin(x)]} for x in q_in]},
        {"op": "batch", "fn": "parseAddressList", "cases": [{"a": [C.latin(x)]} for x in a_in]},
        {"op": "batch", "fn": "extractHeader", "cases": [{"a": [C.latin(m), C.latin(h)]} for m, h in h_in]},
        {"op": "batch", "fn": "BuildEnvelope", "cases": [{"a": [C.latin(m)]} for m in e_in]},
    ]
    res = C.run_ops(ops, timeout=300)
    if res.get("crashed"):
        chk.broken_obligation("driver crashed on the C13 direct-call suite: %s" % res.get("stderr", "")[:400])
        return 0

    def outs(k):
        r = []
        for x in res["obs"][k]["rs"]:
            r.append(None if isinstance(x, dict) else C.unlatin(x))
        return r
    q_out, a_out, h_out, e_out = outs(0), outs(1), outs(2), outs(3)

    def optstr(x):
        return "None" if x is None else "(Some %s)" % cstr(x)
    body = C.COQ_CASE_HEADER + "From Raven Require Import Base.Enum Base.GoStrBytes Spec.Grammar Model.Respond.\nLocal Open Scope list_scope.\n"
    body += "Definition ostr_eqb (a b : option str) := match a, b with Some x, Some y => str_eqb x y | None, None => true | _, _ => false end.\n"
    body += "Definition q_cases : list (str * option str) := [\n%s].\n" % ";\n".join("(%s, %s)" % (cstr(i), optstr(o)) for i, o in zip(q_in, q_out))
    body += "Definition q_diff := Eval vm_compute in diff_positions ostr_eqb 0 (map snd q_cases) (map (fun c => Some (quote_or_nil (fst c))) q_cases).\nPrint q_diff.\n"
    # spec on the IMPLEMENTATION's output: one token, decodes to the input (clean, non-empty inputs)
    body += ("Definition q_spec := Eval vm_compute in diff_positions Bool.eqb 0 (map (fun _ => true) q_cases) "
             "(map (fun c => match snd c with Some o => tokb o && match fst c with [] => true | _ => if clean (fst c) then ostr_eqb (unquote o) (Some (fst c)) else str_eqb o (lit_text (fst c)) end | None => false end) q_cases).\nPrint q_spec.\n")
    body += "Definition a_cases : list (str * option str) := [\n%s].\n" % ";\n".join("(%s, %s)" % (cstr(i), optstr(o)) for i, o in zip(a_in, a_out))
    mtab = mail_parse_many(list(a_in) + [v for m in e_in for v in addr_values(m)])
    body += "Definition mtab : list (str * list (str * str)) := %s.\n" % coq_mail_table(mtab)
    body += "Definition a_diff := Eval vm_compute in diff_positions ostr_eqb 0 (map snd a_cases) (map (fun c => parse_address_list (mail_table mtab) (fst c)) a_cases).\nPrint a_diff.\n"
    body += ("Definition a_spec := Eval vm_compute in diff_positions Bool.eqb 0 (map (fun _ => true) a_cases) "
             "(map (fun c => match snd c with Some o => tokb o | None => true end) a_cases).\nPrint a_spec.\n")
    body += "Definition h_cases : list (str * str * option str) := [\n%s].\n" % ";\n".join("(%s, %s, %s)" % (cstr(m), cstr(h), optstr(o)) for (m, h), o in zip(h_in, h_out))
    body += "Definition h_diff := Eval vm_compute in diff_positions ostr_eqb 0 (map snd h_cases) (map (fun c => Some (extract_header (fst (fst c)) (snd (fst c)))) h_cases).\nPrint h_diff.\n"
    body += "Definition e_cases : list (str * option str) := [\n%s].\n" % ";\n".join("(%s, %s)" % (cstr(i), optstr(o)) for i, o in zip(e_in, e_out))
    body += "Definition e_diff := Eval vm_compute in diff_positions ostr_eqb 0 (map snd e_cases) (map (fun c => build_envelope (mail_table mtab) (fst c)) e_cases).\nPrint e_diff.\n"
    body += ("Definition e_spec := Eval vm_compute in diff_positions Bool.eqb 0 (map (fun _ => true) e_cases) "
             "(map (fun c => match snd c with Some o => tokb (skipn 9 o) | None => true end) e_cases).\nPrint e_spec.\n")
    rc, log = C.coq_eval_cases("C13calls", body)
    if rc != 0:
        chk.broken_obligation("in-Coq evaluation of the C13 direct-call cases failed:\n" + log[-1500:])
        return 0
    nd = 0
    for name, ins, outs_, what in (("q", q_in, q_out, "QuoteOrNIL"), ("a", a_in, a_out, "parseAddressList"),
                                   ("h", h_in, h_out, "extractHeader"), ("e", e_in, e_out, "BuildEnvelope")):
        spec_bad = parse_nat_list(log, name + "_spec") if name != "h" else []
        diff = parse_nat_list(log, name + "_diff")
        if spec_bad is None or diff is None:
            chk.broken_obligation("could not read %s results from Coq output" % what)
            continue
        for i in spec_bad[:3]:
            i = int(i)
            chk.violation("%s(%r) = %r is not a single well-formed token that decodes to its input" % (what, ins[i], outs_[i]),
                          {"suite": "calls", "fn": what, "input": C.latin(ins[i]) if isinstance(ins[i], bytes) else [C.latin(x) for x in ins[i]],
                           "output": None if outs_[i] is None else C.latin(outs_[i])})
        for i in [int(x) for x in diff[:3]]:
            nd += 1
            if int(i) in [int(x) for x in spec_bad]:
                continue
            inp = ins[i]
            flat = inp if isinstance(inp, bytes) else b"".join(inp)
            if any(c >= 0x80 for c in flat) and name == "h":
                chk.notes.append("domain edge (non-ASCII bytes near white space / header names): %r" % (inp,))
                continue
            chk.broken_obligation("correspondence calls/%s no longer checks: implementation %r differs from the model on input %r (no property violation found at this input)" % (what, outs_[i], inp),
                                  {"suite": "calls", "fn": what, "input": C.latin(flat), "impl": None if outs_[i] is None else C.latin(outs_[i])})
    chk.cov["calls_evaluations"] = len(q_in) + len(a_in) + len(h_in) + len(e_in)
    chk.cov["calls_panics_predicted_by_model"] = sum(1 for x in a_out + e_out if x is None)
    chk.sample({"fn": "QuoteOrNIL", "input": C.latin(q_in[0]), "impl": C.latin(q_out[0] or b"")})
    chk.sample({"fn": "parseAddressList", "input": C.latin(a_in[0]), "impl": None if a_out[0] is None else C.latin(a_out[0])})
    return nd


ODD_REQUESTS = ["(BODY[TEXT", "BODY[]<5>", "BODY[HEADER.FIELDS.NOT (TO)]", "(UID (FLAGS) BODY[1.TEXT])", "RFC822.PEEK",
                "body.peek[header.fields (subject )]", "BODY[TEXT]<0.5>x", "BODY[HEADER.FIELDS]", "((FLAGS))", "X-UNKNOWN FLAGS",
                "BODY[HEADER.FIELDS (X-UID FLAGS)]", "(BODY[1]<0.3> BODY[1]<0.3> BODY[1])", "BODY[] BODY.PEEK[]", "BODY[0]", "BODY[1..2]",
                "(RFC822.SIZE]", "BODY[HEADER.FIELDS(TO)]", "BODY [TEXT]", "FLAGS)(UID", "BODY[TEXT]<5.>", "BODY[2.MIME.MIME]"]
MACROS = {"ALL": ["FLAGS", "INTERNALDATE", "RFC822.SIZE", "ENVELOPE"], "FAST": ["FLAGS", "INTERNALDATE", "RFC822.SIZE"],
          "FULL": ["FLAGS", "INTERNALDATE", "RFC822.SIZE", "ENVELOPE", "BODY"]}


def gen_scenario(chk, hostile):
    rng = chk.rng
    nm = rng.randint(2, 3)
    msgs = []
    for _ in range(nm):
        m = gen_message(rng, allow_cr=hostile)
        fl = b""
        if rng.random() < 0.5:
            fl = b" ".join(rng.sample([b"\\Seen", b"\\Flagged", b"$Junk", b"custom", b"\\Draft", b"kw-1"], rng.randint(1, 3)))
        m["flags"] = fl
        msgs.append(m)
    boxes = []
    for _ in range(rng.randint(2, 4)):
        b = gen_mailbox(rng, hostile)
        if b not in boxes and b.upper() not in [x.upper() for x in boxes] and b not in DEFAULT_BOXES:
            boxes.append(b)
    stores = []
    if hostile and rng.random() < 0.7:
        stores.append(b"STORE 1 +FLAGS (" + rng.choice([b"x)y", b"a(b", b'q"r', b"{3}"]) + b")")
    reqs, asts = [], {}
    per = 6
    for mi, m in enumerate(msgs):
        for j in range(per):
            k = len(reqs)
            r = rng.random()
            if r < 0.08:
                mac = rng.choice(["ALL", "FAST", "FULL", "full"])
                reqs.append((mi, mac, False))
                asts[k] = [{"k": x} for x in MACROS[mac.upper()]]
                continue
            ast = gen_request(rng, m["multipart"])
            reqs.append((mi, render_request(rng, ast), rng.random() < 0.15))
            asts[k] = ast
    # item texts outside the AST (unterminated / unknown sections, stray parentheses, odd ranges): the item parser
    # must read them as the model does (total on every byte string); judged by the recogniser + model equality
    for mi in range(nm):
        for text in rng.sample(ODD_REQUESTS, 2):
            asts[len(reqs)] = None
            reqs.append((mi, text, rng.random() < 0.3))
    for mi in range(nm):
        for text, ast, uidm in (("BODYSTRUCTURE", [{"k": "BODYSTRUCTURE"}], False), ("BODY", [{"k": "BODY"}], False),
                                ("FULL", [{"k": x} for x in MACROS["FULL"]], False),
                                ("(BODYSTRUCTURE)", [{"k": "UID"}, {"k": "BODYSTRUCTURE"}], True),
                                ("(BODY FLAGS)", [{"k": "UID"}, {"k": "BODY"}, {"k": "FLAGS"}], True)):
            asts[len(reqs)] = ast
            reqs.append((mi, text, uidm))
    uids = {i: i + 1 for i in range(nm)}
    return {"messages": msgs, "mailboxes": boxes, "stores": stores, "requests": reqs, "asts": asts, "uids": uids, "hostile": hostile}


def evaluate(chk, scs, results, label):
    """Judge every scenario; returns number of model disagreements examined."""
    analyses = [analyse_scenario(sc, res) for sc, res in zip(scs, results)]
    body = C.COQ_CASE_HEADER + "From Raven Require Import Base.Enum Base.GoStrBytes Spec.Grammar Model.Respond Model.RespondFetch Proof.RespondAsm.\nLocal Open Scope list_scope.\n" + COQ_EVAL
    allvals = [v for an in analyses for e in an["envs"].values() if e.get("msg") is not None for v in addr_values(e["msg"])]
    mtab_all = mail_parse_many(allvals)
    for an in analyses:
        for e in an["envs"].values():
            if e.get("msg") is not None:
                e["mail"] = {v: mtab_all[v] for v in addr_values(e["msg"]) if v in mtab_all}
    cases = []   # (scenario idx, fetch case, env)
    for si, (sc, an) in enumerate(zip(scs, analyses)):
        for a in an["anomalies"]:
            chk.notes.append("%s scenario %d: %s" % (label, si, a))
        for mi, e in an["envs"].items():
            if e.get("msg") is None or "uid" not in e or e.get("idate") is None or sc.get("big"):
                continue
            body += coq_env("e_%d_%d" % (si, mi), e)
        taken = 0
        for fc in an["fetch"]:
            e = an["envs"].get(fc["mi"], {})
            if e.get("msg") is None or "uid" not in e or e.get("idate") is None:
                continue
            lim = sc.get("coq_limit")
            if lim is not None and taken >= lim:
                # very large responses: judged by the recogniser and the request-level oracle (value = the
                # requested octets of the probed message); only the first [coq_limit] go through the Coq model
                ok, why = judge_fetch(fc, e)
                fc["judged"] = True
                chk.cov["wire_large_cases_judged"] = chk.cov.get("wire_large_cases_judged", 0) + 1
                chk.cov.setdefault("wire_large_response_lengths", []).append(len(fc["recv"].split(b"\r\nq")[0]) if ok else -1)
                if not ok:
                    chk.violation("FETCH %s on a stored message: %s" % (fc["text"], why),
                                  {"suite": "wire", "scenario": scenario_payload(sc), "request_index": fc["k"], "command": fc["text"],
                                   "response_length": len(fc["recv"]), "response_tail": C.latin(fc["recv"][-200:])})
                continue
            taken += 1
            cases.append((si, fc, e))
    # every FETCH that cannot be compared with the model (no probe of its message) and every other command
    # response (SELECT, STORE, the single-item probes themselves ...) is still judged by the recogniser
    in_cases = set((si, fc["k"]) for si, fc, _ in cases)
    for si, an in enumerate(analyses):
        for fc in an["fetch"]:
            if (si, fc["k"]) in in_cases or fc.get("judged"):
                continue
            fc2 = dict(fc, ast=None, lexical_only=True)
            ok, why = judge_fetch(fc2, {})
            if not ok:
                chk.violation("FETCH %s on a stored message: %s" % (fc["text"], why),
                              {"suite": "wire", "scenario": scenario_payload(scs[si]), "request_index": fc["k"], "command": fc["text"], "response": C.latin(fc["recv"][:4000])})
        for oc in an["others"]:
            if T.wf_stream(oc["recv"]):
                if oc["kind"].startswith("probe") and len(fetch_lines(oc["recv"])) == 1 and T.fetch_pairs(fetch_lines(oc["recv"])[0]) is None:
                    chk.violation("single-item FETCH probe (%s %s): response does not parse as (item value) pairs" % (oc["kind"], oc["info"]),
                                  {"suite": "wire", "scenario": scenario_payload(scs[si]), "response": C.latin(oc["recv"][:4000])})
                continue
            chk.violation("response to %s %s is not well-formed (literal count / parentheses / quoted string / line structure): %r" % (oc["kind"], oc["info"], oc["recv"][:200]),
                          {"suite": "wire", "scenario": scenario_payload(scs[si]), "response": C.latin(oc["recv"][:4000])},
                          )
    stream_cases = [an["stream"] for sc_, an in zip(scs, analyses) if an["stream"] and not sc_.get("big")]
    rows = []
    for si, fc, e in cases:
        ls = fetch_lines(fc["recv"])
        if len(ls) >= 1 and ls[0].endswith(b"\r\n"):
            obs = ls[0][:-2]
        else:   # malformed stream: everything in front of the tagged completion
            m = re.search(rb"\r\nq\d+z (OK|NO|BAD) ", fc["recv"])
            obs = fc["recv"][:m.start()] if m else fc["recv"]
        fc["obs_line"] = obs
        rows.append("(%s, %s, e_%d_%d, %s)" % (C.coq_bool(fc["uid"]), cstr(fc["text"]), si, fc["mi"], cstr(obs)))
    body += "Definition cases : list (bool * str * fenv * str) := [\n%s].\n" % ";\n".join(rows)
    body += "Definition model_codes := Eval vm_compute in map model_code cases.\nPrint model_codes.\n"
    body += "Definition cls_codes := Eval vm_compute in map cls_of cases.\nPrint cls_codes.\n"
    body += "Definition spec_codes := Eval vm_compute in map (fun c => if spec_of c then 1 else 0) cases.\nPrint spec_codes.\n"
    body += "Definition okb_codes := Eval vm_compute in map (fun c => if okb_of c then 1 else 0) cases.\nPrint okb_codes.\n"
    bs_cases = []
    for si, an in enumerate(analyses):
        for mi, e in an["envs"].items():
            if e.get("msg") is not None and e.get("bs") and e["bs"].startswith(b'("') and not scs[si].get("big"):
                bs_cases.append((si, mi, e))
    body += "Definition bs_cases : list (str * str) := [\n%s].\n" % ";\n".join("(%s, %s)" % (cstr(e["msg"]), cstr(e["bs"])) for _, _, e in bs_cases)
    body += "Definition bs_codes := Eval vm_compute in map bs_single_code bs_cases.\nPrint bs_codes.\n"
    body += "Definition streams : list str := [\n%s].\n" % ";\n".join(cstr(s) for s in stream_cases)
    body += "Definition stream_codes := Eval vm_compute in map (fun s => if wf_stream s then 1 else 0) streams.\nPrint stream_codes.\n"
    rc, log = C.coq_eval_cases("C13" + label, body, timeout=1500)
    if rc != 0:
        chk.broken_obligation("in-Coq evaluation of the C13 %s cases failed:\n%s" % (label, log[-1500:]))
        return 0
    mc, cc, sc_, stc, okc = (parse_nat_list(log, x) for x in ("model_codes", "cls_codes", "spec_codes", "stream_codes", "okb_codes"))
    if None in (mc, cc, sc_, stc, okc) or len(mc) != len(cases) or len(stc) != len(stream_cases):
        chk.broken_obligation("could not read the C13 %s results from Coq output:\n%s" % (label, log[-800:]))
        return 0
    bsc = parse_nat_list(log, "bs_codes")
    if bsc is None or len(bsc) != len(bs_cases):
        chk.broken_obligation("could not read bs_codes from Coq output")
        bsc = []
    for (si, mi, e), code in zip(bs_cases, bsc):
        if code == "0":
            continue
        why = bs_problem(parse_struct(e["bs"]), e["msg"])
        pl = {"suite": "wire", "scenario": scenario_payload(scs[si]), "message_index": mi, "bodystructure": C.latin(e["bs"][:2000])}
        if why or not struct_ok(e["bs"]):
            continue    # judged (and reported) by the FETCH BODYSTRUCTURE case of this message
        if any(c >= 0x80 for c in py_extract_header(e["msg"], b"Content-Transfer-Encoding")):
            chk.notes.append("domain edge (8-bit Content-Transfer-Encoding, Unicode upper-casing): %r" % e["bs"][:120])
            continue
        chk.broken_obligation("correspondence wire/bodystructure no longer checks: the single-part BODYSTRUCTURE fields differ from Model single_tail for %r" % e["bs"][:300], pl)
    chk.cov["bodystructure_single_cases_" + label] = len(bs_cases)
    chk.cov["bodystructure_single_equal_" + label] = sum(1 for x in bsc if x == "0")
    # twin cross-check: whole session streams and every FETCH line
    for s, code in zip(stream_cases, stc):
        if T.wf_stream(s) != (code == "1"):
            chk.broken_obligation("Python twin of wf_stream disagrees with the Coq recogniser on a session stream", {"suite": "twin", "stream": C.latin(s)})
    nd = 0
    for (si, fc, e), m, c, sp, okb in zip(cases, mc, cc, sc_, okc):
        obs = fc["obs_line"] + b"\r\n"
        if c == "0" and okb != "1" and m == "0":
            chk.broken_obligation("the model's contributions for request %r do not meet the token hypothesis of c13_fetch_assembly_ok although no finding class applies" % fc["text"],
                                  {"suite": "wire", "command": fc["text"], "response": C.latin(fc["recv"][:2000])})
        if c == "0" and m == "0" and sp != "1":
            chk.broken_obligation("model line (equal to the implementation's) is not well-formed although classify_fetch = None for request %r" % fc["text"],
                                  {"suite": "wire", "command": fc["text"], "response": C.latin(fc["recv"][:2000])})
        twin_spec = T.wf_stream(obs) and T.fetch_pairs(obs) is not None
        if twin_spec != (sp == "1"):
            chk.broken_obligation("Python twin of the FETCH recogniser disagrees with Spec/Grammar.v on %r" % obs[:200], {"suite": "twin", "line": C.latin(obs)})
        ok, why = judge_fetch(fc, e)
        coq_cls = CLS_CODES.get(int(c))
        shape = shape_class(fc.get("ast"), fc.get("fail"))
        payload = {"suite": "wire", "scenario": scenario_payload(scs[si]), "request_index": fc["k"],
                   "command": ("UID FETCH " if fc["uid"] else "FETCH ") + fc["text"], "response": C.latin(fc["recv"][:4000])}
        reason = None   # no failure reason is a listed class any more (disposition_nil repaired by c1eb865)
        if not ok:
            cls = coq_cls or shape or reason
            chk.violation("FETCH %s on a stored message: %s" % (fc["text"], why), payload, cls=cls)
        if m != "0":
            nd += 1
            if not ok and (coq_cls or shape or reason):
                chk.notes.append("informational: model differs from the implementation inside finding class %s on %r: %r" % (coq_cls or shape or reason, fc["text"], fc["obs_line"][:160]))
                continue        # inside a listed finding class: informational
            if m == "2":
                chk.notes.append("model predicts a Go panic (C12) for request %r; implementation answered %r" % (fc["text"], fc["obs_line"][:80]))
                continue
            if ok:
                chk.broken_obligation("correspondence wire/fetch no longer checks: observed FETCH line differs from Model/RespondFetch.v for request %r (response itself is well-formed): %r" % (fc["text"], fc["obs_line"][:300]), payload)
    # LIST / LSUB / STATUS and the rest of the stream
    for si, (sc, an) in enumerate(zip(scs, analyses)):
        known = set(DEFAULT_BOXES) | set(sc["mailboxes"])
        for mb in sc["mailboxes"]:
            segs = mb.split(b"/")
            for j in range(1, len(segs)):
                known.add(b"/".join(segs[:j]))
        # since the F15 fix no mailbox name excuses a malformed LIST/LSUB/STATUS line
        for lc in an["lists"]:
            for ok, why, line in judge_list(lc["kw"], lc["recv"], known):
                chk.violation("%s \"\" \"*\": %s" % (lc["kw"], why),
                              {"suite": "wire", "scenario": scenario_payload(sc), "command": lc["kw"], "response": C.latin(lc["recv"][:3000])})
        for st in an["status"]:
            ok, why = judge_status(st["name"], st["recv"])
            if not ok:
                chk.violation("STATUS %r: %s" % (st["name"], why),
                              {"suite": "wire", "scenario": scenario_payload(sc), "command": "STATUS", "response": C.latin(st["recv"][:2000])})
    chk.cov["wire_fetch_cases_" + label] = len(cases)
    chk.cov["wire_model_equal_" + label] = sum(1 for x in mc if x == "0")
    chk.cov["wire_spec_true_" + label] = sum(1 for x in sc_ if x == "1")
    if cases:
        si, fc, e = cases[0]
        chk.sample({"request": fc["text"], "observed": C.latin(fc["obs_line"][:300]), "model_equal": mc[0] == "0"})
    return nd, len(cases), len(set((fc["text"], e.get("msg")) for _, fc, e in cases if fc.get("ast") and len(fc["ast"]) > 1))


def size_scenario():
    """one 140 kB message and partial fetches whose response lines (text without the final CRLF) have lengths
    65534..65538 and 131070..131074: every residue around a multiple of 65536 (a write path that sends the reply in
    64 KiB pieces must still send all of it, CRLF included)"""
    body = b"".join(b"line %06d abcdefghijklmnopqrstuvwxyz0123456789\r\n" % i for i in range(3000))
    raw = b"From: big@example.com\r\nTo: alice@example.com\r\nSubject: size family\r\n\r\n" + body
    reqs, asts = [], {}

    def add(text, ast, uidm):
        asts[len(reqs)] = ast
        reqs.append((0, text, uidm))
    targets = [65534, 65535, 65536, 65537, 65538, 131070, 131071, 131072, 131073, 131074]
    for T in targets:
        for name, secname, uidm in ((b"BODY[]", "ALL", False), (b"BODY[TEXT]", "TEXT", T % 2 == 0)):
            if secname == "TEXT" and T not in (65535, 65536, 131071, 131072):
                continue
            pre = b"* 1 FETCH (" + (b"UID 1 " if uidm else b"") + name + b"<0> {%d}\r\n"
            ks = [k for k in range(T - 60, T) if len(pre % k) + k + 1 == T]
            if not ks:
                continue
            k = ks[0]
            item = {"k": "SEC", "peek": False, "sec": (secname,), "partial": (0, k)}
            add("(%s<0.%d>)" % (name.decode(), k), ([{"k": "UID"}] if uidm else []) + [item], uidm)
    return {"messages": [{"raw": raw, "flags": b"", "via": "append", "multipart": False}], "mailboxes": [], "stores": [],
            "requests": reqs, "asts": asts, "uids": {}, "big": True, "coq_limit": 0}


def scenario_payload(sc):
    return {"messages": [{"raw": C.latin(m["raw"]), "flags": C.latin(m.get("flags", b"")), "via": m.get("via", "append")} for m in sc["messages"]],
            "mailboxes": [C.latin(b) for b in sc["mailboxes"]], "stores": [C.latin(s) for s in sc.get("stores", [])],
            "requests": [[mi, t, u] for (mi, t, u) in sc["requests"]]}


def scenario_from_payload(p):
    sc = {"messages": [{"raw": C.unlatin(m["raw"]), "flags": C.unlatin(m.get("flags", "")), "via": m.get("via", "append")} for m in p["messages"]],
          "mailboxes": [C.unlatin(b) for b in p.get("mailboxes", [])], "stores": [C.unlatin(s) for s in p.get("stores", [])],
          "requests": [(r[0], r[1], bool(r[2])) for r in p.get("requests", [])], "asts": {}, "uids": {}}
    for k, a in (p.get("asts") or {}).items():
        sc["asts"][int(k)] = [dict(i, sec=tuple(i["sec"]) if i.get("sec") else None, partial=tuple(i["partial"]) if i.get("partial") else None) for i in a]
    return sc


def run(chk):
    quick = chk.tier == "quick"
    # ---- 1. corpus: witnesses of the listed findings, replayed on the implementation
    corpus = []
    for f in sorted(glob.glob(os.path.join(C.VERIF, "corpus", PID, "*.json"))):
        corpus.append(scenario_from_payload(json.load(open(f))["scenario"]))
    # ---- 2. generated scenarios
    n_main = 6 if quick else 60
    n_host = 2 if quick else 12
    scs = [gen_scenario(chk, False) for _ in range(n_main)]
    hostile = [gen_scenario(chk, True) for _ in range(n_host)]
    sizes = [size_scenario()]
    everything = corpus + scs + hostile + sizes
    results = C.run_many([build_scenario(sc)[0] for sc in everything], workers=8, timeout=600)
    nd = run_calls(chk, 150 if quick else 1500)
    tot_cases = 0
    nontriv = 0
    for label, lo, hi in (("corpus", 0, len(corpus)), ("main", len(corpus), len(corpus) + len(scs)),
                          ("hostile", len(corpus) + len(scs), len(corpus) + len(scs) + len(hostile)),
                          ("size", len(corpus) + len(scs) + len(hostile), len(everything))):
        if hi <= lo:
            continue
        for a in range(lo, hi, 20):
            b = min(hi, a + 20)
            r = evaluate(chk, everything[a:b], results[a:b], label if a == lo else "%s%d" % (label, a))
            if r:
                nd += r[0]
                tot_cases += r[1]
                nontriv += r[2]
    chk.cov["evaluations"] = tot_cases + chk.cov.get("calls_evaluations", 0)
    chk.cov["distinct_nontrivial"] = nontriv
    chk.cov["rule"] = ("wire: each case = one FETCH/UID FETCH request (random combination of the 10 plain items, BODY[]/TEXT/HEADER/HEADER.FIELDS/numbered "
                       "sections incl. .MIME, PEEK variants, partial ranges, macros, lower-case) on one stored hostile message (quotes, backslashes, "
                       "parentheses, braces, 8-bit, long and folded headers, multipart, bodies that look like responses); raw bytes judged by the strict "
                       "recogniser and the request-level oracle, observed FETCH line compared with the model inside Coq; plus LIST/LSUB/STATUS over hostile "
                       "mailbox names; non-trivial = distinct (request, message) with at least two requested items; calls: direct calls vs model")
    chk.cov["traces_validated_against_impl"] = tot_cases + chk.cov.get("calls_evaluations", 0)
    chk.cov["disagreements_checked"] = nd
    chk.cov["scenarios"] = len(everything)


def replay(path):
    d = json.load(open(path))
    if d.get("suite") == "calls":
        fn = {"QuoteOrNIL": "QuoteOrNIL", "parseAddressList": "parseAddressList", "BuildEnvelope": "BuildEnvelope"}.get(d.get("fn"))
        if fn:
            print(C.run_ops([{"op": "call", "fn": fn, "a": [d["input"]]}]))
        return 0
    scp = d.get("scenario")
    if scp:
        sc = scenario_from_payload(scp)
        if "request_index" in d:
            sc["requests"] = [sc["requests"][d["request_index"]]]
        res = C.run_ops(build_scenario(sc)[0])
        ops, idx = build_scenario(sc)
        for (kind, info), o in zip(idx, res.get("obs", [])):
            if kind in ("fetch", "list", "status"):
                print(kind, info, repr(C.unlatin(o.get("recv", ""))[:1500]))
        return 0
    print(json.dumps(d, indent=1)[:3000])
    return 0
